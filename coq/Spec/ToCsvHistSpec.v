(* Spec/ToCsvHistSpec.v — what a history of exports must produce (C18): every call is judged
   against the arguments AS THE CALLER WROTE THEM (the store never changes) and the dataframe as it
   is at call time, independently of the calls that came before; the destination holds the output of the last successful call. *)
From Coq Require Import ZArith List Bool.
From EV Require Import Res Arr ToCsv ToCsvSpec ToCsvHist.
Import ListNotations.
Open Scope Z_scope.

(* the closed form of one call: what to_csv returns, as a function of its arguments (theorem
   to_csv_closed_form of Props/C18.v: the statement-level model computes exactly this) *)
Definition to_csv_closed (fr:frame) (rf:rowfilter) (cf:colfilter) (chunk:Z) : res bytes :=
  if (0 <? chunk) && cf_valid fr cf
  then Ok (concat (map fix_line (spec_table fr rf cf)))
  else Raise E_ValueError.

Definition call_spec (st:store) (c:call) : res bytes :=
  to_csv_closed (c_fr c) (c_rf c) (resolve st (c_cf c)) (c_chunk c).

Fixpoint spec_hist (st:store) (file:option bytes) (calls:list call) : list obs :=
  match calls with
  | [] => []
  | c :: t =>
    let r := call_spec st c in
    let file' := match r with Ok b => Some b | _ => file end in
    (r, file') :: spec_hist st file' t
  end.
