(* Spec/ToCsvHistSpec.v — what a history of exports must produce (C18): every call is judged
   against the arguments AS THE CALLER WROTE THEM (the store never changes) and the dataframe as it
   is at call time, independently of the calls that came before; the destination holds the output of the last successful call. *)
From Coq Require Import ZArith List Bool.
From EV Require Import Res Arr ToCsv ToCsvSpec ToCsvHist.
Import ListNotations.
Open Scope Z_scope.

Definition call_spec (st:store) (c:call) : res bytes :=
  let cf := resolve st (c_cf c) in
  if (0 <? c_chunk c) && cf_valid (c_fr c) cf
  then Ok (concat (map fix_line (spec_table (c_fr c) (c_rf c) cf)))
  else Raise E_ValueError.

Fixpoint spec_hist (st:store) (file:option bytes) (calls:list call) : list obs :=
  match calls with
  | [] => []
  | c :: t =>
    let r := call_spec st c in
    let file' := match r with Ok b => Some b | _ => file end in
    (r, file') :: spec_hist st file' t
  end.
