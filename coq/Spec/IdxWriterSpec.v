(* Spec/IdxWriterSpec.v — what C01 demands, at list level.
   A column of strings is a list of byte lists.  An indexed-string field stores it as
   offsets = [0; |s0|; |s0|+|s1|; ...]  (Arr.psums of the lengths) and bytes = the concatenation. *)
From Coq Require Import ZArith List.
From EV Require Import Res Arr.
Import ListNotations.
Open Scope Z_scope.

Definition lengths (strs:list (list Z)) : list Z := map (@len Z) strs.
Definition spec_offsets (strs:list (list Z)) : list Z := psums (lengths strs).
Definition spec_bytes (strs:list (list Z)) : list Z := concat strs.

(* data[a:b] for 0 <= a <= b <= n, and data[i] *)
Definition spec_slice {A} (l:list A) (a b:Z) : list A := firstn (Z.to_nat (b - a)) (skipn (Z.to_nat a) l).
Definition spec_item (strs:list (list Z)) (i:Z) : list Z := nth (Z.to_nat i) strs [].

(* the sequence a history of write_part calls writes: the parts, in order *)
Definition spec_written {A} (parts:list (list A)) : list A := concat parts.

(* the offsets invariant of the property text *)
Definition offsets_ok (offs bytes:list Z) (n:Z) : Prop :=
  nthZ offs 0 = 0 /\ sorted offs /\ nthZ offs (len offs - 1) = len bytes /\ len offs = n + 1.
