(* Spec/CatalogueSpec.v — what property C15 demands, stated on what a client can observe
   (Catalogue.obs): boolean checkers, evaluated after every step of a history both on the model's
   observations (here) and, by a line-for-line Python mirror (harness/props/C15.py), on the
   observations of the real code.  `run_trace` threads a history through the model and records
   outcome, observation and verdicts per step; it stops at the first step whose verdict is not
   all-true (the property is already broken there). *)
From Coq Require Import ZArith List Bool.
From EV Require Import Res Catalogue.
Import ListNotations.
Open Scope Z_scope.

(* ------------------------------------------------------------------ finite sets of names *)
Fixpoint nodupb (l:list name) : bool :=
  match l with [] => true | h :: t => negb (nmem h t) && nodupb t end.
Definition subsetb (a b:list name) : bool := forallb (fun x => nmem x b) a.
(* two listings of names denote the same set, and neither lists a name twice *)
Definition same_names (a b:list name) : bool :=
  nodupb a && nodupb b && subsetb a b && subsetb b a.

Fixpoint names_eqb (a b:list name) : bool :=
  match a, b with
  | [], [] => true
  | x :: a', y :: b' => name_eqb x y && names_eqb a' b'
  | _, _ => false
  end.

(* ------------------------------------------------------------------ (1) catalogue = file *)
(* the names a dataset reports are exactly the groups of its file; every dataframe is filed under
   its own name, reports exactly the groups of its h5 group, and that group is the one the file
   has under the dataframe's name *)
Definition chk_inv_df (file:dict (list name)) (d:dfobs) : bool :=
  name_eqb (o_key d) (o_nameattr d)
  && same_names (o_cols d) (o_h5 d)
  && match d_find file (o_key d) with
     | Some l => same_names l (o_h5 d)
     | None => false
     end.
Definition chk_inv_ds (o:dsobs) : bool :=
  same_names (map o_key (o_dfs o)) (map fst (o_file o))
  && forallb (chk_inv_df (o_file o)) (o_dfs o).
Definition chk_inv (o:obs) : bool := forallb chk_inv_ds (o_ds o).

(* ------------------------------------------------------------------ (2) fields keep their data *)
(* every handle that is live before and after a step reports the same type and data
   (this covers "untouched fields keep their data"; renamed and copied-from fields are included) *)
Definition list_eqb (a b:list Z) : bool := name_eqb a b.
Definition hdata_ok (h h':hstat) : bool :=
  match h, h' with
  | HLive _ _ _ t dat, HLive _ _ _ t' dat' => (t =? t') && list_eqb dat dat'
  | _, _ => true
  end.
Fixpoint zipall {A B} (f:A -> B -> bool) (a:list A) (b:list B) : bool :=
  match a, b with
  | x :: a', y :: b' => f x y && zipall f a' b'
  | _, _ => true
  end.
Definition chk_data (o o':obs) : bool := zipall hdata_ok (o_handles o) (o_handles o').

(* ------------------------------------------------------------------ (3) rename *)
Definition hstat_eqb (h h':hstat) : bool :=
  match h, h' with
  | HInvalid, HInvalid => true
  | HDead, HDead => true
  | HLive i d n t dat, HLive i' d' n' t' dat' =>
      (i =? i') && name_eqb d d' && name_eqb n n' && (t =? t') && list_eqb dat dat'
  | _, _ => false
  end.
Fixpoint all2 {A B} (f:A -> B -> bool) (a:list A) (b:list B) : bool :=
  match a, b with
  | [], [] => true
  | x :: a', y :: b' => f x y && all2 f a' b'
  | _, _ => false
  end.
Definition dfobs_eqb (a b:dfobs) : bool :=
  name_eqb (o_key a) (o_key b) && name_eqb (o_nameattr a) (o_nameattr b)
  && names_eqb (o_cols a) (o_cols b) && names_eqb (o_h5 a) (o_h5 b).
Definition fentry_eqb (a b:name * list name) : bool :=
  name_eqb (fst a) (fst b) && names_eqb (snd a) (snd b).
Definition dsobs_eqb (a b:dsobs) : bool :=
  all2 dfobs_eqb (o_dfs a) (o_dfs b) && all2 fentry_eqb (o_file a) (o_file b).
Definition obs_eqb (a b:obs) : bool :=
  all2 dsobs_eqb (o_ds a) (o_ds b) && all2 hstat_eqb (o_handles a) (o_handles b).

(* simultaneous substitution *)
Definition subst (m:ndict) (k:name) : name := match d_find m k with Some v => v | None => k end.

(* a step that is a rename of frame (i,d) by the mapping m: df.rename itself (strict = true), or
   dataframe.move within one frame, which the code documents as a rename (strict = false: the property only
   speaks of df.rename when it says that a failing rename changes nothing) *)
Definition as_rename (p:op) : option (Z * name * ndict * bool) :=
  match p with
  | ORename i d m => Some (i, d, m, true)
  | OFMove i d n j d' n' => if (i =? j) && name_eqb d d' then Some (i, d, [(n, n')], false) else None
  | _ => None
  end.

(* successful rename: the frame lists the substituted names in the old order, everything else
   lists what it listed; handles of the frame report the substituted name, all stay as valid as
   they were, none appears *)
Definition rename_df_ok (hit:bool) (m:ndict) (a b:dfobs) : bool :=
  name_eqb (o_key a) (o_key b) && name_eqb (o_nameattr a) (o_nameattr b)
  && names_eqb (if hit then map (subst m) (o_cols a) else o_cols a) (o_cols b).
Definition rename_ds_ok (i:Z) (d:name) (m:ndict) (idx:Z) (a b:dsobs) : bool :=
  all2 (fun x y => rename_df_ok ((idx =? i) && name_eqb (o_key x) d) m x y) (o_dfs a) (o_dfs b).
Fixpoint all2i {A B} (f:Z -> A -> B -> bool) (k:Z) (a:list A) (b:list B) : bool :=
  match a, b with
  | [], [] => true
  | x :: a', y :: b' => f k x y && all2i f (k + 1) a' b'
  | _, _ => false
  end.
Definition rename_h_ok (i:Z) (d:name) (m:ndict) (h h':hstat) : bool :=
  match h with
  | HLive i0 d0 n0 t dat =>
      hstat_eqb (if (i0 =? i) && name_eqb d0 d then HLive i0 d0 (subst m n0) t dat else h) h'
  | _ => hstat_eqb h h'
  end.
Definition rename_effect (i:Z) (d:name) (m:ndict) (o o':obs) : bool :=
  all2i (rename_ds_ok i d m) 0 (o_ds o) (o_ds o')
  && all2 (rename_h_ok i d m) (o_handles o) (o_handles o').

(* a rename that raises (a clash, an unknown name) changes nothing at all *)
Definition chk_rename (p:op) (ok:bool) (o o':obs) : bool :=
  match as_rename p with
  | Some (i, d, m, strict) => if ok then rename_effect i d m o o' else (negb strict || obs_eqb o o')
  | None => true
  end.

(* ------------------------------------------------------------------ (4) move to another frame *)
Definition is_live_at (i:Z) (d n:name) (h:hstat) : bool :=
  match h with HLive i0 d0 n0 _ _ => (i0 =? i) && name_eqb d0 d && name_eqb n0 n | _ => false end.
Definition same_content (h h':hstat) : bool :=
  match h, h' with
  | HLive _ _ _ t dat, HLive _ _ _ t' dat' => (t =? t') && list_eqb dat dat'
  | _, _ => false
  end.
(* handles of the moved field say invalid; every other old handle says what it said; some handle
   is live at the destination with the moved field's type and data *)
Definition move_h_ok (i:Z) (d n:name) (h h':hstat) : bool :=
  if is_live_at i d n h then hstat_eqb h' HInvalid else hstat_eqb h h'.
Definition chk_move (p:op) (ok:bool) (o o':obs) : bool :=
  match p with
  | OFMove i d n j d' n' =>
      if ok && negb ((i =? j) && name_eqb d d') then
        zipall (move_h_ok i d n) (o_handles o) (o_handles o')
        && (length (o_handles o) <=? length (o_handles o'))%nat
        && forallb (fun h => negb (is_live_at i d n h)
                             || existsb (fun h' => is_live_at j d' n' h' && same_content h h') (o_handles o'))
                   (o_handles o)
        && existsb (is_live_at i d n) (o_handles o)
      else true
  | _ => true
  end.

(* ------------------------------------------------------------------ (5) reopen *)
Definition fld_eqb (a b:name * Z * list Z) : bool :=
  match a, b with (n, t, dat), (n', t', dat') => name_eqb n n' && (t =? t') && list_eqb dat dat' end.
Definition incl_by {A} (eqb:A -> A -> bool) (a b:list A) : bool :=
  forallb (fun x => existsb (eqb x) b) a.
Definition frame_eqb (a b:name * list (name * Z * list Z)) : bool :=
  name_eqb (fst a) (fst b) && same_names (map (fun e => fst (fst e)) (snd a)) (map (fun e => fst (fst e)) (snd b))
  && incl_by fld_eqb (snd a) (snd b) && incl_by fld_eqb (snd b) (snd a).
(* a fresh reopen shows the same frames with the same fields, types and data as the live objects *)
Definition chk_reopen_ds (live file:fview) : bool :=
  same_names (map fst live) (map fst file)
  && incl_by frame_eqb live file && incl_by frame_eqb file live.

(* ------------------------------------------------------------------ a history *)
Definition code_of {A} (r:res A) : Z :=
  match r with Ok _ => 0 | Raise c => c | OOB _ => -1 | OutOfFuel => -3 end.

Definition verdicts (p:op) (ok:bool) (o o':obs) : list bool :=
  [chk_inv o'; chk_data o o'; chk_rename p ok o o'; chk_move p ok o o'].

Definition all_true (l:list bool) : bool := forallb (fun b => b) l.

Record stepres := mkStepres { sr_code : Z; sr_obs : obs; sr_flags : list bool }.

Fixpoint run_trace (c:cfg) (ops:list op) (s:state) (held:list Z) : list stepres * state :=
  match ops with
  | [] => ([], s)
  | p :: t =>
      let o := observe s held in
      let (s', r) := step c p s in
      let held' := rescan s' held in
      let o' := observe s' held' in
      let fl := verdicts p (is_ok r) o o' in
      if all_true fl then
        let (rest, sf) := run_trace c t s' held' in (mkStepres (code_of r) o' fl :: rest, sf)
      else ([mkStepres (code_of r) o' fl], s')
  end.

Definition final_views (s:state) : list (fview * fview * bool) :=
  map (fun i => (live_view s i, reopen_view s i, chk_reopen_ds (live_view s i) (reopen_view s i))) ds_indices.

Definition run_case (c:cfg) (ops:list op) : list stepres * list (fview * fview * bool) :=
  let (tr, sf) := run_trace c ops init_state [] in (tr, final_views sf).

(* the whole history satisfies the property *)
Definition case_ok (c:cfg) (ops:list op) : bool :=
  let (tr, fv) := run_case c ops in
  forallb (fun r => all_true (sr_flags r)) tr && forallb (fun x => snd x) fv.
