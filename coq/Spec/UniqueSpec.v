(* Spec/UniqueSpec.v — C14: what isin / unique must return, over a carrier ordered by `cmp`
   (Z.compare for numeric, categorical and timestamp values; lexcmp on UTF-8 bytes for strings). *)
From Coq Require Import ZArith List Bool.
From EV Require Import Res Arr.
Import ListNotations.
Open Scope Z_scope.

(* lexicographic comparison of integer sequences (bytes or code points) *)
Fixpoint lexcmp (a b:list Z) : comparison :=
  match a, b with
  | [], [] => Eq
  | [], _ :: _ => Lt
  | _ :: _, [] => Gt
  | x :: a', y :: b' => match x ?= y with Eq => lexcmp a' b' | c => c end
  end.
Definition lexle (a b:list Z) : bool := match lexcmp a b with Gt => false | _ => true end.

Fixpoint somes {A} (l:list (option A)) : list A :=
  match l with
  | [] => []
  | Some a :: t => a :: somes t
  | None :: t => somes t
  end.

Section Spec.
Context {A:Type} (cmp:A -> A -> comparison).
Definition eqc (a b:A) : bool := match cmp a b with Eq => true | _ => false end.

(* sorted distinct values *)
Fixpoint insert_u (x:A) (l:list A) : list A :=
  match l with
  | [] => [x]
  | y :: t => match cmp x y with Lt => x :: l | Eq => l | Gt => y :: insert_u x t end
  end.
Definition sort_uniq (l:list A) : list A := fold_right insert_u [] l.

(* position of the first element equal to x (i + length when absent) *)
Fixpoint index_of (x:A) (l:list A) (i:Z) : Z :=
  match l with
  | [] => i
  | y :: t => if eqc x y then i else index_of x t (i + 1)
  end.
Definition count (x:A) (l:list A) : Z := len (filter (eqc x) l).

Definition uresult : Type := (list A * option (list Z) * option (list Z) * option (list Z))%type.

(* unique(return_index, return_inverse, return_counts) *)
Definition spec_unique (xs:list A) (ri rv rc:bool) : uresult :=
  let u := sort_uniq xs in
  (u,
   if ri then Some (map (fun x => index_of x xs 0) u) else None,
   if rv then Some (map (fun x => index_of x u 0) xs) else None,
   if rc then Some (map (fun x => count x xs) u) else None).

(* isin(tests): None entries of the test set match nothing *)
Definition spec_isin (xs:list A) (tests:list (option A)) : list bool :=
  map (fun x => existsb (eqc x) (somes tests)) xs.
End Spec.

(* the rows of an indexed string column stored as (offsets, bytes) *)
Definition offsets_of (xs:list (list Z)) : list Z :=
  match xs with [] => [] | _ => psums (map len xs) end.
Definition values_of (xs:list (list Z)) : list Z := concat xs.
