(* Spec/DatesSpec.v — specification of the date helpers (C20), independent of the model.
   Times are integer ticks, `dlen` ticks per day.  Everything here is a closed formula or a
   one-line list function over indices; nothing is shared with Model/Dates.v. *)
From Coq Require Import ZArith List Bool Lia.
From EV Require Import Res Arr.
Import ListNotations.
Open Scope Z_scope.

(* ---- get_periods ------------------------------------------------------------- *)
(* number of whole steps of size |td| that fit between s and e *)
Definition periods_n (s e td:Z) : Z := Z.abs (e - s) / Z.abs td.

(* [s; s+td; ...; s+(n-1)*td] *)
Definition arith_prog (s td:Z) (n:nat) : list Z :=
  map (fun k => s + Z.of_nat k * td) (seq 0 n).

(* the inputs get_periods rejects: delta = 0, or end on the wrong side of start *)
Definition periods_bad (s e delta:Z) : bool :=
  (delta =? 0) || ((delta <? 0) && (s <? e)) || ((0 <? delta) && (e <? s)).

Definition periods_spec (s e unit delta:Z) : res (list Z) :=
  if periods_bad s e delta then Raise E_ValueError
  else Ok (arith_prog s (unit * delta) (S (Z.to_nat (periods_n s e (unit * delta))))).

(* ---- get_days ---------------------------------------------------------------- *)
(* the filter in effect: the supplied one, or "everything" *)
Definition eff_filter (ts:list Z) (flt:option (list bool)) : list bool :=
  match flt with Some f => f | None => repeat true (length ts) end.

(* the timestamps that pass the filter *)
Definition selected (ts:list Z) (f:list bool) : list Z :=
  map fst (filter snd (combine ts f)).

Definition is_min (m:Z) (l:list Z) : Prop := In m l /\ forall x, In x l -> m <= x.

(* the chosen origin: explicit start, else the earliest unfiltered timestamp *)
Definition origin_spec (ts:list Z) (f:list bool) (s:option Z) (o:Z) : Prop :=
  match s with
  | Some sd => o = sd
  | None => is_min o (selected ts f)
  end.

Definition geb_opt (s:option Z) (t:Z) : bool := match s with Some sd => sd <=? t | None => true end.
Definition ltb_opt (e:option Z) (t:Z) : bool := match e with Some ed => t <? ed | None => true end.

(* passes the filter and lies in [start, end) *)
Definition flag_at (s e:option Z) (t:Z) (b:bool) : bool := b && geb_opt s t && ltb_opt e t.

Definition flags_spec (ts:list Z) (f:list bool) (s e:option Z) : list bool :=
  map (fun p => flag_at s e (fst p) (snd p)) (combine ts f).

Definition days_spec (dlen o:Z) (ts:list Z) : list Z := map (fun t => (t - o) / dlen) ts.

(* no filter, no start, no end: the second component of the result is None *)
Definition no_args (flt:option (list bool)) (s e:option Z) : bool :=
  match flt, s, e with None, None, None => true | _, _, _ => false end.

(* ---- generate_period_offset_map ---------------------------------------------- *)
(* whole days from the first boundary to each boundary *)
Definition deltas_spec (dlen:Z) (periods:list Z) : list Z :=
  map (fun p => (p - nthZ periods 0) / dlen) periods.

(* day d lies in the half-open interval of period i *)
Definition in_period (ds:list Z) (i d:Z) : Prop := nthZ ds i <= d < nthZ ds (i + 1).

(* ---- get_period_offsets ------------------------------------------------------ *)
(* numpy integer indexing: a negative index wraps once *)
Definition wrap_get (pbd:list Z) (k:Z) : Z := nthZ pbd (if k <? 0 then k + len pbd else k).
Definition idx_ok (pbd:list Z) (k:Z) : Prop := - len pbd <= k < len pbd.

Definition offsets_spec (pbd days:list Z) (fl:list bool) : list Z :=
  map (fun p => if (snd p : bool) then wrap_get pbd (fst p) else -1) (combine days fl).

(* every flagged day is a legal numpy index of the map *)
Definition offsets_pre (pbd days:list Z) (fl:list bool) : Prop :=
  forall d, In (d, true) (combine days fl) -> idx_ok pbd d.
