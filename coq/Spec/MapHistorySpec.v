(* Spec/MapHistorySpec.v — C04 over HISTORIES of calls on the same objects.
   One join map (a field the caller owns), one numeric source column and one indexed-string source
   column are used by a sequence of mapping calls (the way DataFrame.merge maps every column of a
   table through the one map it computed).  The specification of a history:
     * every call yields what the single-call specification says for the ORIGINAL map and sources
       (so the answer of a call does not depend on which calls came before it), and
     * the map and the sources are, after the history, what the caller supplied.
   A source may alias the map itself (mapping the map column through itself). *)
From Coq Require Import ZArith List Bool.
From EV Require Import Res Arr MapStreamSpec.
Import ListNotations.
Open Scope Z_scope.

Inductive hstep : Type :=
| HStream (cs:Z)          (* ordered_map_valid_stream(num_src, map, fresh destination, inv, cs) *)
| HIStream (cs vf:Z)      (* ordered_map_valid_indexed_stream(idx_src, map, fresh destination, inv, cs, vf) *)
| HMapValid               (* map_valid(num_src.data[:], map.data[:], invalid=inv) *)
| HSafe                   (* safe_map_values(num_src.data[:], map.data[:], map.data[:] != inv) *)
| HISafe                  (* safe_map_indexed_values(idx.indices[:], idx.values[:], map.data[:], map.data[:] != inv) *)
| HSelf (cs:Z).           (* ordered_map_valid_stream(map, map, fresh destination, inv, cs): the source IS the map *)

Inductive hout : Type :=
| ONum (l:list Z)
| OIdx (i v:list Z).

Record hstate : Type := mk_hstate {
  h_map : list Z;         (* the join map field *)
  h_num : list Z;         (* numeric source field *)
  h_idx : list Z;         (* indexed-string source: offsets *)
  h_val : list Z;         (*                        bytes *)
  h_out : list hout       (* destinations produced so far, oldest first *)
}.

Definition step_spec (m num idx val:list Z) (inv:Z) (s:hstep) : hout :=
  match s with
  | HStream _ | HMapValid | HSafe => ONum (map_spec 0 num inv m)
  | HIStream _ _ | HISafe => let r := indexed_spec idx val inv m in OIdx (fst r) (snd r)
  | HSelf _ => ONum (map_spec 0 m inv m)
  end.

Definition history_spec (m num idx val:list Z) (inv:Z) (steps:list hstep) : hstate :=
  mk_hstate m num idx val (map (step_spec m num idx val inv) steps).
