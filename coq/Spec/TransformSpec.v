(* Spec/TransformSpec.v — what C06 demands of an imported column, at the level of the list of
   cell texts (all chunks concatenated).  No buffers, no offsets, no chunks. *)
From Coq Require Import ZArith List Bool.
From EV Require Import Res Arr Transform.
Import ListNotations.
Open Scope Z_scope.

(* ---- categorical: exact whole-string lookup in the association list ---- *)
Fixpoint lookup (cats:list (list Z * Z)) (cell:list Z) : option Z :=
  match cats with
  | [] => None
  | (k, v) :: t => if list_eqb k cell then Some v else lookup t cell
  end.

Definition spec_cat (cats:list (list Z * Z)) (cells:list (list Z)) : list Z :=
  map (fun c => match lookup cats c with Some v => v | None => 0 end) cells.

(* codes (-1 = out of range), free-text offsets, free-text bytes *)
Definition spec_leaky (cats:list (list Z * Z)) (cells:list (list Z)) : list Z * list Z * list Z :=
  (map (fun c => match lookup cats c with Some v => v | None => -1 end) cells,
   psums (map (fun c => match lookup cats c with Some _ => 0 | None => len c end) cells),
   concat (map (fun c => match lookup cats c with Some _ => [] | None => c end) cells)).

(* a schema the importer supports: distinct keys, codes storable in the int8 field *)
Fixpoint keys_distinct (cats:list (list Z * Z)) : bool :=
  match cats with
  | [] => true
  | (k, _) :: t => negb (existsb (fun kv => list_eqb k (fst kv)) t) && keys_distinct t
  end.
Definition cats_ok (cats:list (list Z * Z)) : bool :=
  keys_distinct cats && forallb (fun kv => (0 <=? snd kv) && (snd kv <=? 127)) cats.

(* ---- validation modes ---- *)
Inductive cls : Type := Good (v:Z) | Empty | Unparseable | OutOfRange.

(* the decision table of the Numeric docstring: value and validity flag, or raise *)
Definition validate (mode inv:Z) (c:cls) : res (Z * Z) :=
  match c with
  | Good v => Ok (v, 1)
  | Empty => if mode =? MODE_STRICT then Raise E_ValueError else Ok (inv, 0)
  | Unparseable => if mode =? MODE_RELAXED then Ok (inv, 0) else Raise E_ValueError
  | OutOfRange => if mode =? MODE_RELAXED then Ok (inv, 0) else Raise E_Overflow
  end.

Definition mode_ok (mode:Z) : bool := (mode =? MODE_STRICT) || (mode =? MODE_ALLOW_EMPTY) || (mode =? MODE_RELAXED).

Section NumSpec.
  Variable parse : list Z -> option Z.
  Variable rng : option (Z * Z).
  Definition in_rng (v:Z) : bool :=
    match rng with Some (lo, hi) => (lo <=? v) && (v <=? hi) | None => true end.
  (* the text of a cell: trailing NULs do not count (numpy 'S' strings) *)
  Definition classify (cell:list Z) : cls :=
    let e := strip_nul cell in
    if np_is_blank e then Empty
    else match parse e with
         | Some v => if in_rng v then Good v else OutOfRange
         | None => Unparseable
         end.
  (* values and flags of the whole column (flags are only stored when the mode is not strict) *)
  Definition spec_num (mode inv:Z) (cells:list (list Z)) : res (list Z * list Z) :=
    do r <- map_res (fun c => validate mode inv (classify c)) cells;
    Ok (map fst r, if mode =? MODE_STRICT then [] else map snd r).
End NumSpec.

(* ---- booleans ---- *)
Definition lower (b:Z) : Z := if (65 <=? b) && (b <=? 90) then b + 32 else b.
Fixpoint ltrim32 (l:list Z) : list Z :=
  match l with b :: t => if b =? 32 then ltrim32 t else l | [] => [] end.
Definition trim32 (l:list Z) : list Z := rev (ltrim32 (rev (ltrim32 l))).

Definition TRUE_LITS : list (list Z) :=
  [[49]; [121]; [116]; [111; 110]; [121; 101; 115]; [116; 114; 117; 101]].            (* 1 y t on yes true *)
Definition FALSE_LITS : list (list Z) :=
  [[48]; [110]; [102]; [110; 111]; [111; 102; 102]; [102; 97; 108; 115; 101]].        (* 0 n f no off false *)

Definition classify_bool (cell:list Z) : cls :=
  let t := map lower (trim32 cell) in
  match t with
  | [] => Empty
  | _ => if existsb (list_eqb t) TRUE_LITS then Good 1
         else if existsb (list_eqb t) FALSE_LITS then Good 0 else Unparseable
  end.

(* the bool importer raises its own exception type: message 1 (empty) / 2 (not parsable) *)
Definition validate_bool (mode inv:Z) (c:cls) : res (Z * Z) :=
  match c with
  | Good v => Ok (v, 1)
  | Empty => if mode =? MODE_STRICT then Raise E_NumEmpty else Ok (to_bool inv, 0)
  | _ => if (mode =? MODE_STRICT) || (mode =? MODE_ALLOW_EMPTY) then Raise E_NumParse else Ok (to_bool inv, 0)
  end.

Definition spec_bool (mode inv:Z) (cells:list (list Z)) : res (list Z * list Z) :=
  do r <- map_res (fun c => validate_bool mode inv (classify_bool c)) cells;
  Ok (map fst r, map snd r).

(* ---- fixed strings: the first N bytes (stored zero-padded to N) ---- *)
Definition spec_fixed (n:Z) (cells:list (list Z)) : list Z := concat (map (pad_to n) cells).

(* ---- timestamps: printers of the accepted layouts ---- *)
Definition digit (v:Z) : Z := 48 + v mod 10.
Definition d2 (v:Z) : list Z := [digit (v / 10); digit v].
Definition d3 (v:Z) : list Z := [digit (v / 100); digit (v / 10); digit v].
Definition d4 (v:Z) : list Z := [digit (v / 1000); digit (v / 100); digit (v / 10); digit v].
Definition d6 (v:Z) : list Z := d3 (v / 1000) ++ d3 v.

Record civil : Type := mkCivil { cy : Z; cmo : Z; cd : Z; chh : Z; cmi : Z; css : Z }.

Definition civil_ok (c:civil) : bool :=
  (1 <=? cy c) && (cy c <=? 9999) && (1 <=? cmo c) && (cmo c <=? 12) &&
  (1 <=? cd c) && (cd c <=? days_in_month (cy c) (cmo c)) &&
  (0 <=? chh c) && (chh c <=? 23) && (0 <=? cmi c) && (cmi c <=? 59) && (0 <=? css c) && (css c <=? 59).

(* the instant, in microseconds since 1970-01-01T00:00:00Z, of a UTC wall-clock reading *)
Definition instant_us (c:civil) (us:Z) : Z :=
  (((ordinal (cy c) (cmo c) (cd c) - EPOCH_ORD) * 86400) + chh c * 3600 + cmi c * 60 + css c) * 1000000 + us.

Definition fmt_date (c:civil) : list Z := d4 (cy c) ++ [45] ++ d2 (cmo c) ++ [45] ++ d2 (cd c).
Definition fmt_secs (c:civil) : list Z :=
  fmt_date c ++ [32] ++ d2 (chh c) ++ [58] ++ d2 (cmi c) ++ [58] ++ d2 (css c).
Definition SUF_UTC : list Z := [32; 85; 84; 67].
(* "+HH:MM" / "-HH:MM" *)
Definition fmt_off (neg:bool) (oh om:Z) : list Z := [if neg then 45 else 43] ++ d2 oh ++ [58] ++ d2 om.

Inductive layout : Type :=
| L_naive                       (* 2020-06-15 19:45:39            (taken as UTC) *)
| L_utc                         (* 2020-06-15 19:45:39 UTC *)
| L_utc1 (f:Z)                  (* 2020-06-15 19:45:39.1 UTC      f in 0..9 *)
| L_utc2 (f:Z)                  (* 2020-06-15 19:45:39.05 UTC     f in 0..99 *)
| L_utc3 (f:Z)                  (* 2020-06-15 19:45:39.056 UTC    f in 0..999 *)
| L_off (neg:bool) (oh om:Z)            (* 2020-06-15 19:45:39+01:00 *)
| L_offus (f:Z) (neg:bool) (oh om:Z).   (* 2020-06-15 19:45:39.056000+01:00   f in 0..999999 *)

Definition layout_ok (l:layout) : bool :=
  match l with
  | L_naive | L_utc => true
  | L_utc1 f => (0 <=? f) && (f <=? 9)
  | L_utc2 f => (0 <=? f) && (f <=? 99)
  | L_utc3 f => (0 <=? f) && (f <=? 999)
  | L_off _ oh om => (0 <=? oh) && (oh <=? 23) && (0 <=? om) && (om <=? 59)
  | L_offus f _ oh om => (0 <=? f) && (f <=? 999999) && (0 <=? oh) && (oh <=? 23) && (0 <=? om) && (om <=? 59)
  end.

Definition fmt_ts (l:layout) (c:civil) : list Z :=
  match l with
  | L_naive => fmt_secs c
  | L_utc => fmt_secs c ++ SUF_UTC
  | L_utc1 f => fmt_secs c ++ [46; digit f] ++ SUF_UTC
  | L_utc2 f => fmt_secs c ++ [46] ++ d2 f ++ SUF_UTC
  | L_utc3 f => fmt_secs c ++ [46] ++ d3 f ++ SUF_UTC
  | L_off neg oh om => fmt_secs c ++ fmt_off neg oh om
  | L_offus f neg oh om => fmt_secs c ++ [46] ++ d6 f ++ fmt_off neg oh om
  end.

(* the instant the text denotes: wall clock minus its UTC offset, plus the written fraction *)
Definition layout_us (l:layout) : Z :=
  match l with
  | L_naive | L_utc => 0
  | L_utc1 f => f * 100000
  | L_utc2 f => f * 10000
  | L_utc3 f => f * 1000
  | L_off _ _ _ => 0
  | L_offus f _ _ _ => f
  end.
Definition layout_offset_us (l:layout) : Z :=
  match l with
  | L_off neg oh om | L_offus _ neg oh om => (if neg then -1 else 1) * (oh * 3600 + om * 60) * 1000000
  | _ => 0
  end.
Definition denoted_us (l:layout) (c:civil) : Z := instant_us c (layout_us l) - layout_offset_us l.

(* ---- the fraction of a second as a DIGIT STRING (VC06): ".d1...dk" denotes (d1...dk read as a decimal integer)
   * 10^(6-k) microseconds - exact integer arithmetic, no rounding, for every digit string of the length a layout
   admits ---- *)
Definition digits_value (ds:list Z) : Z := fold_left (fun a b => a * 10 + (b - 48)) ds 0.
Definition fraction_us (ds:list Z) : Z := digits_value ds * 10 ^ (6 - len ds).
Definition all_digits (ds:list Z) : bool := forallb is_digit ds.

(* ---- dates (DateImporter): the texts '%Y-%m-%d' reads, what they denote ---- *)
Definition date_ok (y m d:Z) : bool :=
  (1 <=? y) && (y <=? 9999) && (1 <=? m) && (m <=? 12) && (1 <=? d) && (d <=? days_in_month y m).

(* UTC midnight of the civil date y-m-d, in microseconds since 1970-01-01T00:00:00Z *)
Definition midnight_us (y m d:Z) : Z := instant_us (mkCivil y m d 0 0 0) 0.

(* YYYY-MM-DD *)
Definition fmt_ymd (y m d:Z) : list Z := fmt_date (mkCivil y m d 0 0 0).

(* every text that denotes the date: the month and the day may drop their leading zero, the day may carry
   a space in its place (the '%m' and '%d' directives of strptime) *)
Definition month_texts (m:Z) : list (list Z) := d2 m :: (if m <? 10 then [[digit m]] else []).
Definition day_texts (d:Z) : list (list Z) := d2 d :: (if d <? 10 then [[digit d]; [32; digit d]] else []).
Definition date_texts (y m d:Z) : list (list Z) :=
  flat_map (fun mt => map (fun dt => d4 y ++ [45] ++ mt ++ [45] ++ dt) (day_texts d)) (month_texts m).

Definition ascii (l:list Z) : bool := forallb (fun b => (0 <=? b) && (b <? 128)) l.
Definition all_ws (l:list Z) : bool := forallb is_ws l.

(* what one cell of a date column must produce: (timestamp in us, 10-byte day string, set flag) or ValueError.
   The cell's text is read after bytes.strip(). *)
Inductive date_cell_spec (cell:list Z) : res (Z * list Z * Z) -> Prop :=
| DC_blank : strip cell = [] -> date_cell_spec cell (Ok (0, zeros 10, 0))
| DC_date y m d : date_ok y m d = true -> In (strip cell) (date_texts y m d) ->
    date_cell_spec cell (Ok (midnight_us y m d, pad_to 10 (strip cell), 1))
| DC_bad : strip cell <> [] -> (forall y m d, date_ok y m d = true -> ~ In (strip cell) (date_texts y m d)) ->
    date_cell_spec cell (Raise E_ValueError).

(* the three stored columns (timestamps, day strings flattened, set flags) of a list of row results *)
Definition dt_cols (rs:list (Z * list Z * Z)) : list Z * list Z * list Z :=
  (map (fun r => fst (fst r)) rs, concat (map (fun r => snd (fst r)) rs), map snd rs).

(* a date column as its author meant it: blank cells and dates printed as YYYY-MM-DD, with any surrounding
   white space *)
Inductive dcell : Type := DBlank (w:list Z) | DDate (w1:list Z) (y m d:Z) (w2:list Z).
Definition dcell_ok (x:dcell) : bool :=
  match x with DBlank w => all_ws w | DDate w1 y m d w2 => all_ws w1 && date_ok y m d && all_ws w2 end.
Definition dcell_text (x:dcell) : list Z :=
  match x with DBlank w => w | DDate w1 y m d w2 => w1 ++ fmt_ymd y m d ++ w2 end.
Definition dcell_store (x:dcell) : Z * list Z * Z :=
  match x with DBlank _ => (0, zeros 10, 0) | DDate _ y m d _ => (midnight_us y m d, fmt_ymd y m d, 1) end.

(* the calendar: the day after y-m-d *)
Definition next_day (y m d:Z) : Z * Z * Z :=
  if d <? days_in_month y m then (y, m, d + 1) else if m <? 12 then (y, m + 1, 1) else (y + 1, 1, 1).
