(* Spec/SpansSpec.v — what C08 states, as short list-level definitions.
   A column is a list of rows (`list A`); equality of rows is Leibniz equality (byte-exact for
   strings = equality of byte lists; several fields jointly = equality of the tuples of `combine`). *)
From Coq Require Import ZArith List Bool.
From EV Require Import Res Arr.
Import ListNotations.
Open Scope Z_scope.

Section SpansSpec.
Context {A:Type}.

(* ---- the property, as a predicate ------------------------------------------------------ *)
(* sp is the span list of xs: strictly increasing, starts at 0, ends at the row count, and two adjacent
   rows r, r+1 are equal iff they lie in the same span, i.e. iff r+1 is not a span boundary *)
Definition is_spans (d:A) (xs:list A) (sp:list Z) : Prop :=
  ssorted sp /\ 1 <= len sp /\ nthZ sp 0 = 0 /\ nthZ sp (len sp - 1) = len xs /\
  forall r, 0 <= r -> r + 1 < len xs -> (nthd d xs r = nthd d xs (r + 1) <-> ~ In (r + 1) sp).

(* ---- the same, as a function (the reference the models are proved equal to) ------------ *)
Variable neqb : A -> A -> bool.
(* interior boundaries; i is the row number of the head *)
Fixpoint bounds_from (i:Z) (l:list A) : list Z :=
  match l with
  | x :: ((y :: _) as t) => if neqb x y then (i + 1) :: bounds_from (i + 1) t else bounds_from (i + 1) t
  | _ => []
  end.
Definition spans_ref (xs:list A) : list Z :=
  match xs with
  | [] => [0]
  | _ => 0 :: bounds_from 0 xs ++ [len xs]
  end.
End SpansSpec.

(* ---- reductions ------------------------------------------------------------------------------ *)
(* consecutive pairs (sp[i], sp[i+1]) *)
Fixpoint span_pairs (sp:list Z) : list (Z * Z) :=
  match sp with
  | a :: ((b :: _) as t) => (a, b) :: span_pairs t
  | _ => []
  end.
(* spans a reduction is meaningful on: non-empty spans inside [0, n] *)
Definition valid_spans (n:Z) (sp:list Z) : Prop :=
  ssorted sp /\ 1 <= len sp /\ 0 <= nthZ sp 0 /\ nthZ sp (len sp - 1) <= n.
Definition valid_spansb (n:Z) (sp:list Z) : bool :=
  ssortedb sp && (1 <=? len sp) && (0 <=? nthZ sp 0) && (nthZ sp (len sp - 1) <=? n).

Section Reduce.
Context {A R:Type}.
(* one result per span, computed by f from the span's start row and exactly the rows of the span *)
Definition reduce_spans (f:Z -> list A -> R) (sp:list Z) (xs:list A) : list R :=
  map (fun ab => f (fst ab) (slice xs (fst ab) (snd ab))) (span_pairs sp).
End Reduce.

Section Order.
Context {A:Type}.
Variable ltb : A -> A -> bool.
(* x is a least element of l *)
Definition is_least (l:list A) (x:A) : bool := forallb (fun y => negb (ltb y x)) l.
Definition is_greatest (l:list A) (x:A) : bool := forallb (fun y => negb (ltb x y)) l.
(* position of the first element satisfying p (len l when none) *)
Fixpoint find_index (p:A -> bool) (l:list A) : Z :=
  match l with
  | [] => 0
  | x :: t => if p x then 0 else 1 + find_index p t
  end.
Definition argmin_spec (l:list A) : Z := find_index (is_least l) l.
Definition argmax_spec (l:list A) : Z := find_index (is_greatest l) l.
Definition min_spec (d:A) (l:list A) : A := nthd d l (argmin_spec l).
Definition max_spec (d:A) (l:list A) : A := nthd d l (argmax_spec l).

(* ltb is a strict total order whose incomparability is equality *)
Definition strict_total : Prop :=
  (forall x, ltb x x = false) /\
  (forall x y z, ltb x y = true -> ltb y z = true -> ltb x z = true) /\
  (forall x y, ltb x y = false -> ltb y x = false -> x = y).

(* rows sorted lexicographically (check_if_sorted_for_multi_fields); a row is the list of its keys *)
Fixpoint lex_leb (p c:list A) : bool :=
  match p, c with
  | x :: pt, y :: ct => if ltb x y then true else if ltb y x then false else lex_leb pt ct
  | _, _ => true
  end.
Fixpoint rows_sortedb (rows:list (list A)) : bool :=
  match rows with
  | r :: ((r' :: _) as t) => lex_leb r r' && rows_sortedb t
  | _ => true
  end.
End Order.

(* per-span reference results *)
Definition count_ref (sp:list Z) : list Z := map (fun ab => snd ab - fst ab) (span_pairs sp).
Definition index_of_first_ref (sp:list Z) : list Z := map fst (span_pairs sp).
Definition index_of_last_ref (sp:list Z) : list Z := map (fun ab => snd ab - 1) (span_pairs sp).
Section Refs.
Context {A:Type}.
Variable ltb : A -> A -> bool.
Variable d : A.
Definition first_ref := reduce_spans (fun (_:Z) (rows:list A) => nthd d rows 0).
Definition last_ref := reduce_spans (fun (_:Z) (rows:list A) => nthd d rows (len rows - 1)).
Definition min_ref := reduce_spans (fun (_:Z) (rows:list A) => min_spec ltb d rows).
Definition max_ref := reduce_spans (fun (_:Z) (rows:list A) => max_spec ltb d rows).
Definition index_of_min_ref := reduce_spans (fun (a:Z) (rows:list A) => a + argmin_spec ltb rows).
Definition index_of_max_ref := reduce_spans (fun (a:Z) (rows:list A) => a + argmax_spec ltb rows).
End Refs.

(* rows of an indexed string column: entry i is values[indices[i] : indices[i+1]] *)
Definition indexed_rows (indices values:list Z) : list (list Z) :=
  map (fun ab => slice values (fst ab) (snd ab)) (span_pairs indices).
(* a well-formed indexed column: offsets start at 0, are non-decreasing, end at len values;
   a freshly created field has no offsets at all (and no values) *)
Definition valid_indexed (indices values:list Z) : Prop :=
  (len indices = 0 /\ len values = 0) \/
  (sorted indices /\ 1 <= len indices /\ nthZ indices 0 = 0 /\ nthZ indices (len indices - 1) = len values).
Definition valid_indexedb (indices values:list Z) : bool :=
  ((len indices =? 0) && (len values =? 0)) ||
  (sortedb indices && (1 <=? len indices) && (nthZ indices 0 =? 0) && (nthZ indices (len indices - 1) =? len values)).

(* the *_filter variants: empty spans are allowed; their dest entry is left alone and their flag is False *)
Definition weak_spans (n:Z) (sp:list Z) : Prop :=
  sorted sp /\ 1 <= len sp /\ 0 <= nthZ sp 0 /\ nthZ sp (len sp - 1) <= n.
Definition weak_spansb (n:Z) (sp:list Z) : bool :=
  sortedb sp && (1 <=? len sp) && (0 <=? nthZ sp 0) && (nthZ sp (len sp - 1) <=? n).
Section FilterRef.
Context {A:Type}.
Definition filter_dest_ref (f:Z -> list A -> Z) (sp:list Z) (xs:list A) (dest:list Z) : list Z :=
  map (fun p => let '((a, b), d0) := p in if a =? b then d0 else f a (slice xs a b))
      (combine (span_pairs sp) dest).
Definition filter_flags_ref (sp:list Z) : list bool :=
  map (fun ab => negb (fst ab =? snd ab)) (span_pairs sp).
End FilterRef.
