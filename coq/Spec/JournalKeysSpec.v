(* Spec/JournalKeysSpec.v — "per key in ascending order" for fixed-width byte-string keys (C17, strengthening):
   the order of numpy's S<w> dtype = bytewise unsigned lexicographic order of the NUL-padded cells. *)
From Coq Require Import ZArith List Bool.
From EV Require Import Res Arr Journal JournalKeys.
Import ListNotations.
Open Scope Z_scope.

Definition is_bytes (l:list Z) : Prop := Forall (fun b => 0 <= b < 256) l.

Fixpoint lex_lt (a b:list Z) : Prop :=
  match a, b with
  | x :: a', y :: b' => x < y \/ (x = y /\ lex_lt a' b')
  | [], _ :: _ => True
  | _, [] => False
  end.

Fixpoint lex_ltb (a b:list Z) : bool :=
  match a, b with
  | x :: a', y :: b' => (x <? y) || ((x =? y) && lex_ltb a' b')
  | [], _ :: _ => true
  | _, [] => false
  end.

(* order and equality of two keys of an S<w> column *)
Definition key_lt (w:nat) (a b:list Z) : Prop := lex_lt (pad w a) (pad w b).
Definition key_eq (w:nat) (a b:list Z) : Prop := pad w a = pad w b.

(* ascending list of the distinct stored cells *)
Fixpoint ins_key_lex (x:list Z) (l:list (list Z)) : list (list Z) :=
  match l with
  | [] => [x]
  | y :: t => if lex_ltb x y then x :: l else if list_eqb x y then l else y :: ins_key_lex x t
  end.
Definition all_keys_lex (w:nat) (okeys nkeys:list (list Z)) : list (list Z) :=
  fold_right ins_key_lex [] (map (pad w) (okeys ++ nkeys)).
