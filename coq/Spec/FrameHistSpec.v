(* Spec/FrameHistSpec.v — C09 over a history of calls on the same dataframe objects: every dataframe- /
   session-level filter, re-index and sort of the history must be the row-level specification
   (Spec/FilterIndexSpec.v: the same gather on every column, source untouched when a destination is given)
   of the frame AS IT IS AT THE TIME OF THE CALL — whatever was sorted, filtered, permuted or written before,
   at whatever entry-point level.  The below-dataframe events (writes into one column, Field.apply_index /
   apply_filter in place on one column, Session.apply_index onto the column itself) are followed through the
   model (their one-call content is c09_field_filter_correct / c09_field_index_correct); the specification is
   None when one of them fails or a call is outside the precondition of its one-call specification. *)
From Coq Require Import ZArith List Bool.
From EV Require Import Res Arr StableSort FilterIndex FilterIndexSpec FrameHist.
Import ListNotations.
Open Scope Z_scope.

(* one call on a world: frame `src` (and frame `dst` when a destination is given) is replaced by what the
   one-call specification f says *)
Definition spec_go (w:world) (src:Z) (dst:option Z)
  (f:frame -> option frame -> option (frame * option frame)) : option world :=
  match wget w src with
  | Ok cols =>
    match dst with
    | None =>
      match f cols None with
      | Some (c', _) => match wset w src c' with Ok w' => Some w' | _ => None end
      | None => None
      end
    | Some j =>
      if j =? src then None
      else
        match wget w j with
        | Ok d =>
          match f cols (Some d) with
          | Some (c', Some d') =>
            match wset w src c' with
            | Ok w1 => match wset w1 j d' with Ok w2 => Some w2 | _ => None end
            | _ => None
            end
          | _ => None
          end
        | _ => None
        end
    end
  | _ => None
  end.

Definition spec_call (w:world) (s:step) : option world :=
  match s with
  | SFilter src dt flt dst => spec_go w src dst (fun c d => spec_filter c dt flt d)
  | SIndex src idx dst => spec_go w src dst (fun c d => spec_index c idx d)
  | SSort src by_ dst => spec_go w src dst (fun c d => spec_sort c by_ d)
  | SSortOn src keys dst => spec_go w src dst (fun c d => spec_sort_on c keys d)
  end.

Definition spec_fev (w:world) (e:fev) : option world :=
  match e with
  | FCall s => spec_call w s
  | _ => match run_fev w e with Ok w' => Some w' | _ => None end
  end.

Fixpoint spec_fhist (w:world) (evs:list fev) : option world :=
  match evs with
  | [] => Some w
  | e :: t => match spec_fev w e with Some w' => spec_fhist w' t | None => None end
  end.
