(* Spec/ToCsvSpec.v — what C18 demands of to_csv / to_pandas, in list-level terms.

   * csv_parse      the reference ("standard") CSV parser: CPython's csv.reader for the default
                    dialect over a stream opened with newline='' (records end at LF, CR or CR LF;
                    a double quote opens a quoted field only at the start of a field; inside a
                    quoted field everything but a double quote is data, a doubled double quote is
                    one double quote).  It is a byte-level state machine, folded over the file.
   * select         the rows kept by a row filter (a shorter filter drops the rows it does not cover)
   * spec_names / spec_rows / spec_table   header, selected rows and the parsed table the file must yield
   * parse_int      reads a decimal literal back (re-import of the integer columns)              *)
From Coq Require Import ZArith List Bool Decimal DecimalZ.
From EV Require Import Res Arr ToCsv.
Import ListNotations.
Open Scope Z_scope.

(* ---- reference parser -------------------------------------------------------------------- *)
Inductive pmode := SR | SF | IF | IQ | QQ | ER.
(* SR start of record, SF start of field, IF in unquoted field, IQ in quoted field,
   QQ just after a double quote inside a quoted field, ER just after a CR that ended a record *)

Record pstate := mkp {
  p_mode : pmode;
  p_fld : bytes;                  (* current field, reversed *)
  p_rec : list bytes;             (* fields of the current record, reversed *)
  p_recs : list (list bytes)      (* finished records, reversed *)
}.

Definition close_rec (fld:bytes) (rec:list bytes) (recs:list (list bytes)) : list (list bytes) :=
  List.rev (List.rev fld :: rec) :: recs.

(* behaviour at the start of a field *)
Definition step_sf (rec:list bytes) (recs:list (list bytes)) (c:Z) : pstate :=
  if c =? LF then mkp SR [] [] (close_rec [] rec recs)
  else if c =? CR then mkp ER [] [] (close_rec [] rec recs)
  else if c =? QUOTE then mkp IQ [] rec recs
  else if c =? COMMA then mkp SF [] ([] :: rec) recs
  else mkp IF [c] rec recs.

(* behaviour at the start of a record: an empty line is an empty record *)
Definition step_sr (recs:list (list bytes)) (c:Z) : pstate :=
  if c =? LF then mkp SR [] [] ([] :: recs)
  else if c =? CR then mkp ER [] [] ([] :: recs)
  else step_sf [] recs c.

Definition step (s:pstate) (c:Z) : pstate :=
  let '(mkp m fld rec recs) := s in
  match m with
  | SR => step_sr recs c
  | ER => if c =? LF then mkp SR [] [] recs else step_sr recs c
  | SF => step_sf rec recs c
  | IF =>
    if c =? LF then mkp SR [] [] (close_rec fld rec recs)
    else if c =? CR then mkp ER [] [] (close_rec fld rec recs)
    else if c =? COMMA then mkp SF [] (List.rev fld :: rec) recs
    else mkp IF (c :: fld) rec recs
  | IQ =>
    if c =? QUOTE then mkp QQ fld rec recs else mkp IQ (c :: fld) rec recs
  | QQ =>
    if c =? QUOTE then mkp IQ (c :: fld) rec recs
    else if c =? COMMA then mkp SF [] (List.rev fld :: rec) recs
    else if c =? LF then mkp SR [] [] (close_rec fld rec recs)
    else if c =? CR then mkp ER [] [] (close_rec fld rec recs)
    else mkp IF (c :: fld) rec recs
  end.

Definition p_init : pstate := mkp SR [] [] [].

(* end of input: a record in progress is closed *)
Definition finish (s:pstate) : list (list bytes) :=
  let '(mkp m fld rec recs) := s in
  match m with
  | SR | ER => List.rev recs
  | _ => List.rev (close_rec fld rec recs)
  end.

Definition csv_parse (file:bytes) : list (list bytes) := finish (fold_left step file p_init).

(* ---- rows and columns demanded ------------------------------------------------------------ *)
Fixpoint select {A} (f:list bool) (rows:list A) : list A :=
  match f, rows with
  | b :: f', r :: rows' => if b then r :: select f' rows' else select f' rows'
  | _, _ => []
  end.

Definition select_opt {A} (flt:option (list bool)) (rows:list A) : list A :=
  match flt with None => rows | Some f => select f rows end.

(* the names written: the column filter (else all keys), minus a row filter that is one of the
   frame's own fields *)
Definition spec_names (fr:frame) (rf:rowfilter) (cf:colfilter) : list name :=
  let names0 := match cf with CF_none => keys fr | CF_str n => [n] | CF_list l => l end in
  match rf with
  | RF_field true n _ => remove_first n names0
  | _ => names0
  end.

Definition spec_filter (rf:rowfilter) : option (list bool) :=
  match rf with RF_none => None | RF_arr b => Some b | RF_field _ _ b => Some b end.

(* the column of a name; the frame has it (precondition of the theorems) *)
Definition column (fr:frame) (n:name) : list cell :=
  match lookup fr n with Some d => d | None => [] end.

(* the rows of the selected columns: row i holds cell i of every column *)
Definition spec_rows (fr:frame) (rf:rowfilter) (cf:colfilter) : list (list cell) :=
  select_opt (spec_filter rf) (zipcols (map (column fr) (spec_names fr rf cf))).

(* what a CSV parser must recover from the file *)
Definition spec_table (fr:frame) (rf:rowfilter) (cf:colfilter) : list (list bytes) :=
  spec_names fr rf cf :: map (map cell_text) (spec_rows fr rf cf).

(* the selected cells of one column *)
Definition spec_column (fr:frame) (rf:rowfilter) (n:name) : list cell :=
  select_opt (spec_filter rf) (column fr n).

(* validity of the arguments (otherwise to_csv raises ValueError) *)
Definition cf_valid (fr:frame) (cf:colfilter) : bool :=
  match cf with
  | CF_none => true
  | CF_str n => has fr n
  | CF_list l => match l with [] => false | _ => forallb (has fr) l end
  end.

(* ---- reading a decimal literal back -------------------------------------------------------- *)
Fixpoint bytes_uint (s:bytes) : option uint :=
  match s with
  | [] => Some Nil
  | c :: t =>
    match bytes_uint t with
    | None => None
    | Some u =>
      if c =? 48 then Some (D0 u) else if c =? 49 then Some (D1 u) else if c =? 50 then Some (D2 u)
      else if c =? 51 then Some (D3 u) else if c =? 52 then Some (D4 u) else if c =? 53 then Some (D5 u)
      else if c =? 54 then Some (D6 u) else if c =? 55 then Some (D7 u) else if c =? 56 then Some (D8 u)
      else if c =? 57 then Some (D9 u) else None
    end
  end.

Definition parse_int (s:bytes) : option Z :=
  match s with
  | [] => None
  | c :: t =>
    if c =? 45 then
      match t with [] => None | _ => match bytes_uint t with Some u => Some (Z.of_int (Neg u)) | None => None end end
    else match bytes_uint s with Some u => Some (Z.of_int (Pos u)) | None => None end
  end.

(* ---- the reference re-import: header = first record, column j = field j of every other record -- *)
Definition table_columns (t:list (list bytes)) : list (bytes * list bytes) :=
  match t with
  | [] => []
  | hdr :: rows => map (fun j => (nth j hdr [], map (fun r => nth j r []) rows)) (seq 0 (length hdr))
  end.

(* the columns a re-import must reproduce: per written name, the texts of its selected cells *)
Definition spec_columns (fr:frame) (rf:rowfilter) (cf:colfilter) : list (bytes * list bytes) :=
  map (fun n => (n, map cell_text (spec_column fr rf n))) (spec_names fr rf cf).

(* every selected column has the same number of entries (a well-formed dataframe) *)
Definition rect (fr:frame) (names:list name) : Prop :=
  forall a b, In a names -> In b names -> length (column fr a) = length (column fr b).

(* to_pandas: per requested name (first occurrence), the masked cells *)
Definition spec_pandas (fr:frame) (rf:option (list bool)) (cf:colfilter) : list (name * list cell) :=
  let names := match cf with CF_none => keys fr | CF_str n => [n] | CF_list l => l end in
  dedup_names [] (map (fun n => (n, select_opt rf (column fr n))) names).

(* arguments on which to_pandas is defined: the names exist, a list / absent column filter names
   columns of one length, the mask has the length of every requested column (or length 0) *)
Definition pandas_valid (fr:frame) (rf:option (list bool)) (cf:colfilter) : bool :=
  let names := match cf with CF_none => keys fr | CF_str n => [n] | CF_list l => l end in
  forallb (has fr) names
  && match cf, names with
     | CF_str _, _ => true
     | _, [] => true
     | _, k0 :: _ => forallb (fun k => len (column fr k) =? len (column fr k0)) names
     end
  && match rf with
     | None => true
     | Some m => (len m =? 0) || forallb (fun k => len (column fr k) =? len m) names
     end.
