(* Spec/MergeSpec.v — what DataFrame.merge must put into the destination (C02).

   join_pairs how L R   the relational join of two lists of key rows as (left row | none, right row | none)
                        index pairs: left = every left row with each equal-keyed right row or once
                        with none; right = the mirror image; inner = the equal-keyed pairs; outer = left
                        join followed by the unmatched right rows.  The ORDER of this list is one
                        representative: the property fixes the multiset only (and the key order of the
                        ordered path, see Props/C02.v).
   gather_col           a column read through a list of optional row numbers; `none` reads the type's
                        empty value (0 / False / b'' / '').
   merge_spec           destination = left columns then right columns, gathered through the two sides of
                        join_pairs, a name present on both sides suffixed on both (the documented rule). *)
From Coq Require Import ZArith List Bool.
From EV Require Import Res Arr MapStreamSpec Merge.
Import ListNotations.
Open Scope Z_scope.

Fixpoint matches_rows (key:list Z) (R:list (list Z)) (j0:Z) : list Z :=
  match R with
  | [] => []
  | x :: t => if name_eqb x key then j0 :: matches_rows key t (j0 + 1) else matches_rows key t (j0 + 1)
  end.

Fixpoint left_pairs (L R:list (list Z)) (i0:Z) : list (option Z * option Z) :=
  match L with
  | [] => []
  | key :: t =>
    (match matches_rows key R 0 with
     | [] => [(Some i0, None)]
     | ms => map (fun j => (Some i0, Some j)) ms
     end) ++ left_pairs t R (i0 + 1)
  end.

Fixpoint inner_pairs (L R:list (list Z)) (i0:Z) : list (option Z * option Z) :=
  match L with
  | [] => []
  | key :: t => map (fun j => (Some i0, Some j)) (matches_rows key R 0) ++ inner_pairs t R (i0 + 1)
  end.

Definition swap_pair (p:option Z * option Z) : option Z * option Z := (snd p, fst p).

Fixpoint unmatched_right (L R:list (list Z)) (j0:Z) : list (option Z * option Z) :=
  match R with
  | [] => []
  | key :: t =>
    (if existsb (name_eqb key) L then [] else [(None, Some j0)]) ++ unmatched_right L t (j0 + 1)
  end.

Definition join_pairs (how:Z) (L R:list (list Z)) : list (option Z * option Z) :=
  if how =? 0 then left_pairs L R 0
  else if how =? 1 then map swap_pair (left_pairs R L 0)
  else if how =? 2 then inner_pairs L R 0
  else left_pairs L R 0 ++ unmatched_right L R 0.

Definition gather_col (c:column) (ix:list (option Z)) : column :=
  match c with
  | CFix z e d => CFix z e (map (fun o => match o with Some k => nthd e d k | None => e end) ix)
  | CIdx idx vals =>
    let strs := map (fun o => match o with Some k => entry idx vals k | None => [] end) ix in
    CIdx (offsets_of strs) (concat strs)
  end.

Definition spec_name (k:list Z) (other:list (list Z)) (suffix:list Z) : list Z :=
  if name_in k other then k ++ suffix else k.

Definition merge_spec (how:Z) (lkeys rkeys:list (list Z)) (lcols rcols:frame) (lsuf rsuf:list Z) : frame :=
  let llen := match lkeys with k :: _ => len k | [] => 0 end in
  let rlen := match rkeys with k :: _ => len k | [] => 0 end in
  let pairs := join_pairs how (key_rows lkeys llen) (key_rows rkeys rlen) in
  map (fun f => (spec_name (fst f) (frame_names rcols) lsuf, gather_col (snd f) (map fst pairs))) lcols ++
  map (fun f => (spec_name (fst f) (frame_names lcols) rsuf, gather_col (snd f) (map snd pairs))) rcols.

(* ---- extension E4: the shape of the destination, as separate statements -------------------------
   merge_pairs          the (left row | none, right row | none) list merge_spec gathers through
   dest_keys            the key of each destination row of the ordered path (single key column): read on the
                        side that is never `none` (left for left/inner, right for right); where both sides are
                        present the two keys are equal (Proofs/MergeShape.v: merge_pairs_keys_agree) *)
Definition merge_pairs (how:Z) (lkeys rkeys:list (list Z)) : list (option Z * option Z) :=
  let llen := match lkeys with k :: _ => len k | [] => 0 end in
  let rlen := match rkeys with k :: _ => len k | [] => 0 end in
  join_pairs how (key_rows lkeys llen) (key_rows rkeys rlen).

Definition dest_keys (how:Z) (lk rk:list Z) : list Z :=
  map (fun p => match (if how =? 1 then snd p else fst p) with
                | Some i => nthZ (if how =? 1 then rk else lk) i
                | None => 0
                end) (merge_pairs how [lk] [rk]).
