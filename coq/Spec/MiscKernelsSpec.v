(* Spec/MiscKernelsSpec.v — list-level specifications of the kernels of Model/MiscKernels.v, and the
   executable preconditions ("valid input") under which Props/C10_kernels.v proves  model = Ok spec.
   No array indices in the walks: they recurse on the lists themselves. *)
From Coq Require Import ZArith List Bool.
From EV Require Import Res Arr.
Import ListNotations.
Open Scope Z_scope.

(* ------------------------------------------------------------------ chunks *)
(* the k-th chunk is [k*cs, min(length, (k+1)*cs)), k < ceil(length/cs) *)
Definition chunks_spec (length_ cs:Z) : list (Z * Z) :=
  map (fun k => (Z.of_nat k * cs, Z.min length_ ((Z.of_nat k + 1) * cs)))
      (seq 0 (Z.to_nat ((length_ + cs - 1) / cs))).

(* ------------------------------------------------------------------ ordered_left_map_result_size *)
(* length of the leading run of x *)
Fixpoint lead (x:Z) (l:list Z) : Z :=
  match l with
  | y :: t => if y =? x then 1 + lead x t else 0
  | [] => 0
  end.

(* what the code computes: the contribution of the FIRST merge step only (early `return`) *)
Definition left_size_spec (left right:list Z) : Z :=
  match left, right with
  | [], _ => 0
  | _ :: _, [] => len left
  | x :: lt, y :: rt =>
      if x <? y then 1 else if y <? x then 0 else (1 + lead x lt) * (1 + lead y rt)
  end.

(* what the name promises: the number of rows of the left join *)
Definition countZ (x:Z) (l:list Z) : Z := len (filter (Z.eqb x) l).
Definition left_join_size (left right:list Z) : Z :=
  sumZ (map (fun x => Z.max 1 (countZ x right)) left).

(* ------------------------------------------------------------------ ordered_outer_map_result_size_both_unique *)
Fixpoint outer_size_spec (l:list Z) : list Z -> Z :=
  match l with
  | [] => fun r => len r
  | x :: l' =>
    fix go (r:list Z) : Z :=
      match r with
      | [] => len (x :: l')
      | y :: r' =>
        1 + (if x <? y then outer_size_spec l' (y :: r')
             else if y <? x then go r'
             else outer_size_spec l' r')
      end
  end.

(* ------------------------------------------------------------------ ordered_inner_map_left_unique_partial *)
(* the merge walk: emitted (i, j) pairs and the final (i, j); `cap` = free slots of the result buffers.
   A left key moves on when the run of equal right keys ends. *)
Definition run_ends (y:Z) (r':list Z) : bool :=
  match r' with [] => true | y' :: _ => negb (y' =? y) end.

Fixpoint ilu_walk (l:list Z) : Z -> Z -> Z -> list Z -> list (Z * Z) * (Z * Z) :=
  match l with
  | [] => fun cap i j r => ([], (i, j))
  | x :: l' =>
    fix go (cap i j:Z) (r:list Z) : list (Z * Z) * (Z * Z) :=
      match r with
      | [] => ([], (i, j))
      | y :: r' =>
        if cap <=? 0 then ([], (i, j))
        else if x <? y then ilu_walk l' cap (i + 1) j (y :: r')
        else if y <? x then go cap i (j + 1) r'
        else
          let rest := if run_ends y r' then ilu_walk l' (cap - 1) (i + 1) (j + 1) r'
                      else go (cap - 1) i (j + 1) r' in
          ((i, j) :: fst rest, snd rest)
      end
  end.

(* a buffer whose first entries were overwritten *)
Definition overwrite (buf new:list Z) : list Z := new ++ skipn (length new) buf.

Definition ilu_partial_spec (d_i d_j:Z) (left right lti rti:list Z) : Z * Z * Z * list Z * list Z :=
  let w := ilu_walk left (len lti) 0 0 right in
  (fst (snd w), snd (snd w), len (fst w),
   overwrite lti (map (fun p => fst p + d_i) (fst w)),
   overwrite rti (map (fun p => snd p + d_j) (fst w))).

Definition ilu_pre_b (lti rti:list Z) : bool := len lti <=? len rti.

(* ------------------------------------------------------------------ ordered_inner_map_left_unique_streamed *)
(* the same walk over the whole columns, except that the right column is cut into chunks of bs rows:
   q = rows left in the current right chunk; a run of equal right keys also "ends" at the end of a chunk
   (that is what the code does, not what an inner join is: see ..._chunk_boundary_refuted) *)
Definition next_q (bs q:Z) : Z := if q <=? 1 then bs else q - 1.

Fixpoint ilus_walk (bs:Z) (l:list Z) : Z -> Z -> Z -> list Z -> list (Z * Z) :=
  match l with
  | [] => fun q i j r => []
  | x :: l' =>
    fix go (q i j:Z) (r:list Z) : list (Z * Z) :=
      match r with
      | [] => []
      | y :: r' =>
        if x <? y then ilus_walk bs l' q (i + 1) j (y :: r')
        else if y <? x then go (next_q bs q) i (j + 1) r'
        else
          (i, j) :: (if (q <=? 1) || run_ends y r' then ilus_walk bs l' (next_q bs q) (i + 1) (j + 1) r'
                     else go (next_q bs q) i (j + 1) r')
      end
  end.

Definition ilus_spec (bs:Z) (L R:list Z) : list Z * list Z :=
  let ps := ilus_walk bs L bs 0 0 R in (map fst ps, map snd ps).

(* the inner join with a duplicate-free left column: for every right row (ascending) the left row with
   the same key *)
Fixpoint index_of (x:Z) (l:list Z) (i:Z) : option Z :=
  match l with [] => None | y :: t => if y =? x then Some i else index_of x t (i + 1) end.
Fixpoint inner_pairs (L R:list Z) (j:Z) : list (Z * Z) :=
  match R with
  | [] => []
  | y :: t => match index_of y L 0 with
              | Some i => (i, j) :: inner_pairs L t (j + 1)
              | None => inner_pairs L t (j + 1)
              end
  end.
Definition inner_left_unique_join (L R:list Z) : list Z * list Z :=
  let ps := inner_pairs L R 0 in (map fst ps, map snd ps).

(* ------------------------------------------------------------------ ordered_get_last_as_filter *)
Fixpoint last_spec (l:list Z) : list Z :=
  match l with
  | [] => []
  | x :: t => match t with
              | [] => [1]
              | y :: _ => (if x =? y then 0 else 1) :: last_spec t
              end
  end.

(* ------------------------------------------------------------------ streaming_sort_partial *)
(* chunk c still holds the (value, index) pairs from its cursor to its length *)
Definition ssp_rem (idx lens:list Z) (svals sidx:list (list Z)) (c:Z) : list (Z * Z) :=
  combine (slice (nthd [] svals c) (nthZ idx c) (nthZ lens c))
          (slice (nthd [] sidx c) (nthZ idx c) (nthZ lens c)).
Definition ssp_rems (idx lens:list Z) (svals sidx:list (list Z)) : list (list (Z * Z)) :=
  map (fun c => ssp_rem idx lens svals sidx (Z.of_nat c)) (seq 0 (length idx)).

(* the first chunk with the smallest head value; None as soon as a chunk is exhausted (or there is none) *)
Fixpoint pick_scan (cs:list (list (Z * Z))) (pos minv mini:Z) : option (Z * Z) :=
  match cs with
  | [] => Some (minv, mini)
  | [] :: _ => None
  | ((v, _) :: _) :: t => if v <? minv then pick_scan t (pos + 1) v pos else pick_scan t (pos + 1) minv mini
  end.
Definition pick (cs:list (list (Z * Z))) : option (Z * Z) :=
  match cs with
  | [] => None
  | [] :: _ => None
  | ((v, _) :: _) :: t => pick_scan t 1 v 0
  end.
Definition pop (cs:list (list (Z * Z))) (c:Z) : list (list (Z * Z)) := upd cs c (tl (nthd [] cs c)).

(* merge at most n elements, stop when a chunk is exhausted: (merged pairs, what is left of the chunks) *)
Fixpoint merge_until (n:nat) (cs:list (list (Z * Z))) : list (Z * Z) * list (list (Z * Z)) :=
  match n with
  | O => ([], cs)
  | S n' =>
    match pick cs with
    | None => ([], cs)
    | Some (_, c) =>
      match nthd [] cs c with
      | [] => ([], cs)
      | p :: _ => let r := merge_until n' (pop cs c) in (p :: fst r, snd r)
      end
    end
  end.

Fixpoint map2 {A B C} (f:A -> B -> C) (a:list A) (b:list B) : list C :=
  match a, b with x :: a', y :: b' => f x y :: map2 f a' b' | _, _ => [] end.

(* (dest_index, in_chunk_indices, dest_value_chunk, dest_index_chunk) *)
Definition ssp_spec (idx lens:list Z) (svals sidx:list (list Z)) (dv di:list Z) : Z * list Z * list Z * list Z :=
  let r := merge_until (Z.to_nat (sumZ lens)) (ssp_rems idx lens svals sidx) in
  (len (fst r),
   map2 (fun ln rem => ln - len rem) lens (snd r),
   overwrite dv (map fst (fst r)),
   overwrite di (map snd (fst r))).

(* valid input: one cursor / length / value chunk / index chunk per source, 0 <= cursor <= length <= the
   chunk sizes, destination buffers hold max_possible = sum(lengths) entries *)
Fixpoint ssp_chunks_ok (idx lens:list Z) (svals sidx:list (list Z)) : bool :=
  match idx, lens, svals, sidx with
  | [], [], [], [] => true
  | i :: idx', n :: lens', v :: svals', x :: sidx' =>
      (0 <=? i) && (i <=? n) && (n <=? len v) && (n <=? len x) && ssp_chunks_ok idx' lens' svals' sidx'
  | _, _, _, _ => false
  end.
Definition ssp_pre_b (idx lens:list Z) (svals sidx:list (list Z)) (dv di:list Z) : bool :=
  ssp_chunks_ok idx lens svals sidx && (sumZ lens <=? len dv) && (sumZ lens <=? len di).

(* ------------------------------------------------------------------ foreign keys / duplicates / flags *)
Definition memZ_spec (x:Z) (l:list Z) : bool := existsb (Z.eqb x) l.
Definition fk_spec (pk fk:list Z) : list Z := map (fun f => if memZ_spec f pk then 1 else 0) fk.

(* 1 for the first occurrence of a value, 0 for every later one *)
Fixpoint dup_spec (seen l:list Z) : list Z :=
  match l with
  | [] => []
  | x :: t => if memZ_spec x seen then 0 :: dup_spec seen t else 1 :: dup_spec (x :: seen) t
  end.

Definition count_if (p:Z -> bool) (l:list Z) : Z := len (filter p l).
