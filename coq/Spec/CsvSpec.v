(* Spec/CsvSpec.v — what a CSV file is and what its import must be (C05).
   A table is a list of records, a record a list of cells, a cell a pair (q, text): text is an
   arbitrary byte string and q says whether the writer chose to quote the cell although it did
   not have to.  `render_file` is the RFC-4180 writer (LF line breaks); the import of
   `render_file (header :: rows)` must be, per column, the texts of that column in file order. *)
From Coq Require Import ZArith List Bool.
From EV Require Import Arr Csv.
Import ListNotations.
Open Scope Z_scope.

Definition cell : Type := (bool * list Z)%type.
Definition text (c:cell) : list Z := snd c.

(* bytes that force quoting: separator, quote, LF, CR; and a leading blank (the reader skips
   blanks that follow a separator or a line break) *)
Definition special (b:Z) : bool := (b =? SEP) || (b =? ESC) || (b =? NL) || (b =? CR).
Definition needs_quote (t:list Z) : bool :=
  existsb special t || match t with b :: _ => b =? WS | [] => false end.

Fixpoint escape_quotes (t:list Z) : list Z :=
  match t with
  | [] => []
  | b :: t' => if b =? ESC then ESC :: ESC :: escape_quotes t' else b :: escape_quotes t'
  end.

Definition render_cell (c:cell) : list Z :=
  if fst c || needs_quote (snd c) then ESC :: escape_quotes (snd c) ++ [ESC] else snd c.

(* a record of at least one cell; cells separated by SEP, terminated by NL *)
Fixpoint render_row (r:list cell) : list Z :=
  match r with
  | [] => [NL]
  | [c] => render_cell c ++ [NL]
  | c :: t => render_cell c ++ SEP :: render_row t
  end.

Definition render_file (rows:list (list cell)) : list Z := concat (map render_row rows).

(* column j of a table, as texts *)
Definition column (j:nat) (rows:list (list cell)) : list (list Z) :=
  map (fun r => text (nth j r (false, []))) rows.

(* the indexed-string encoding of a list of texts: offsets [0; |t0|; |t0|+|t1|; ...] and the concatenation *)
Definition enc_indices (ts:list (list Z)) : list Z := psums (map (fun t => len t) ts).
Definition enc_values (ts:list (list Z)) : list Z := concat ts.

(* every record has exactly n cells *)
Definition rect (n:nat) (rows:list (list cell)) : Prop := Forall (fun r => length r = n) rows.

(* the columns selected by an index map *)
Definition select (index_map:list Z) (rows:list (list cell)) : list (list (list Z)) :=
  map (fun j => column (Z.to_nat j) rows) index_map.
