(* Spec/SessionMergeSpec.v — what the Session merge / join helpers must return (C19), in terms of
   the relational join of Spec/JoinSpec.v.

   left merge    one output row per pair of the left join; the payload of a row is the right
                 payload at the matched right row, the type's empty value when there is none
   inner merge   one output row per matching pair, left payloads read at the left row, right
                 payloads at the right row
   get_index     row r = index of the last row of `target` holding foreign_key[r]; a marker
                 >= INVALID_INDEX when there is none
   join          destination row k = the joined value of the last span of foreign-key indices
                 equal to k, 0 when there is none *)
From Coq Require Import ZArith List Bool.
From EV Require Import Res Arr JoinSpec.
Import ListNotations.
Open Scope Z_scope.

(* the left join with an explicit "no match" *)
Fixpoint left_rows_from (L R:list Z) (i0:Z) : list (Z * option Z) :=
  match L with
  | [] => []
  | key :: t =>
    (match matches key R with
     | [] => [(i0, None)]
     | ms => map (fun j => (i0, Some j)) ms
     end) ++ left_rows_from t R (i0 + 1)
  end.
Definition left_rows (L R:list Z) : list (Z * option Z) := left_rows_from L R 0.

Definition pick {A} (empty:A) (data:list A) (o:option Z) : A :=
  match o with Some j => nthd empty data j | None => empty end.

(* payload column of a left merge *)
Definition left_payload {A} (empty:A) (L R:list Z) (data:list A) : list A :=
  map (fun p => pick empty data (snd p)) (left_rows L R).

(* payload columns of an inner merge *)
Definition inner_payload_l {A} (empty:A) (L R:list Z) (data:list A) : list A :=
  map (fun p => nthd empty data (fst p)) (inner_join L R).
Definition inner_payload_r {A} (empty:A) (L R:list Z) (data:list A) : list A :=
  map (fun p => nthd empty data (snd p)) (inner_join L R).

(* right-unique left merge: exactly one output row per left row *)
Definition unique_keys (R:list Z) : Prop :=
  forall i j, 0 <= i < len R -> 0 <= j < len R -> nthZ R i = nthZ R j -> i = j.

(* ---- get_index ---- *)
Fixpoint last_index_from (key:Z) (T:list Z) (i0:Z) (acc:option Z) : option Z :=
  match T with
  | [] => acc
  | x :: t => last_index_from key t (i0 + 1) (if x =? key then Some i0 else acc)
  end.
Definition last_index (key:Z) (T:list Z) : option Z := last_index_from key T 0 None.

(* r meets the spec for foreign keys F against target T with marker threshold INV *)
Definition get_index_ok (INV:Z) (T F r:list Z) : Prop :=
  Forall2 (fun key v => match last_index key T with Some i => v = i | None => INV <= v end) F r.

(* ---- join ---- *)
(* first element of every maximal run of equal adjacent values *)
Fixpoint run_heads_from (prev:Z) (l:list Z) : list Z :=
  match l with
  | [] => []
  | y :: t => if prev =? y then run_heads_from y t else y :: run_heads_from y t
  end.
Definition run_heads (l:list Z) : list Z :=
  match l with [] => [] | x :: t => x :: run_heads_from x t end.

Fixpoint last_value (k:Z) (pairs:list (Z * Z)) (acc:Z) : Z :=
  match pairs with
  | [] => acc
  | (u, v) :: t => last_value k t (if u =? k then v else acc)
  end.

Definition seqZ0 (n:Z) : list Z := map Z.of_nat (seq 0 (Z.to_nat n)).

(* valid span keys are those below INV *)
Definition join_rows (INV n:Z) (fk vals:list Z) : list Z :=
  let pairs := filter (fun p => fst p <? INV) (combine (run_heads fk) vals) in
  map (fun k => last_value k pairs 0) (seqZ0 n).
