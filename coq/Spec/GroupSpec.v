(* Spec/GroupSpec.v — what C07 demands, at the level of lists of rows.

   keyrows : one row per dataframe row, the row being the tuple (list) of its key cells.
   groups keyrows            the distinct key tuples in ascending (lexicographic, bytewise) order
   members k keyrows vals    the target values of the rows whose key tuple is k, in original row order
   agg_ref f keyrows vals    one entry per group, computed by f from exactly the members of the group
   f = len (count) | first | last | least / greatest element under the bytewise order (min / max). *)
From Coq Require Import ZArith List Bool.
From EV Require Import Res Arr StableSort Spans SpansSpec FilterIndex FilterIndexSpec Group.
Import ListNotations.
Open Scope Z_scope.

(* ---- generic in the key type K with its total order kle (instances: rows of key cells, scalars) ---- *)
Section Generic.
Context {K:Type}.
Variable kle : K -> K -> bool.
Definition keqb (a b:K) : bool := kle a b && kle b a.
(* insertion of a key into an ascending duplicate-free list *)
Fixpoint insert_uniq (r:K) (l:list K) : list K :=
  match l with
  | [] => [r]
  | x :: t => if kle r x then (if kle x r then x :: t else r :: x :: t) else x :: insert_uniq r t
  end.
Definition groups_by (keys:list K) : list K := fold_right insert_uniq [] keys.
Definition members_by {A} (k:K) (keys:list K) (vals:list A) : list A :=
  map snd (filter (fun p:K * A => keqb (fst p) k) (combine keys vals)).
Definition agg_by {A B} (f:list A -> B) (keys:list K) (vals:list A) : list B :=
  map (fun k => f (members_by k keys vals)) (groups_by keys).
End Generic.

Definition rowle : list cell -> list cell -> bool := lex_le cell_le.
(* (row_eqb of Model/Group.v = keqb rowle: rowle in both directions = equality of the tuples) *)
Definition groups (keyrows:list (list cell)) : list (list cell) := groups_by rowle keyrows.
Definition members {A} (k:list cell) (keyrows:list (list cell)) (vals:list A) : list A := members_by rowle k keyrows vals.
Definition agg_ref {A B} (f:list A -> B) (keyrows:list (list cell)) (vals:list A) : list B := agg_by rowle f keyrows vals.

(* the aggregates on cells (a cell = byte string of an indexed string entry / [encoded scalar]) *)
Definition first_of (l:list cell) : cell := nthd [] l 0.
Definition last_of (l:list cell) : cell := nthd [] l (len l - 1).
Definition agg_cells (a:agg) (l:list cell) : cell :=
  match a with
  | AMin => min_spec bytes_ltb [] l
  | AMax => max_spec bytes_ltb [] l
  | AFirst => first_of l
  | ALast => last_of l
  end.

(* ---- the destination dataframe ------------------------------------------------------------ *)
(* a destination column: the source column's metadata, writeable, canonical storage of the cells *)
Definition dest_col (f:field) (cs:list cell) : field := mkField (fmeta f) true (encode_like (fbody f) cs).

Fixpoint nodupb (l:list Z) : bool :=
  match l with [] => true | x :: t => negb (existsb (Z.eqb x) t) && nodupb t end.

Definition key_rows (cols:frame) (by_:list Z) : option (list (list cell)) :=
  match key_columns cols by_ with
  | Some kcs => Some (rows_of (nrows cols) kcs)
  | None => None
  end.

(* key column j of the destination: component j of every group *)
Fixpoint spec_key_cols_from (j:Z) (cols:frame) (keys:list Z) (grp:list (list cell)) : list (Z * field) :=
  match keys with
  | [] => []
  | k :: t =>
    (key_name k, match lookup k cols with
                 | Some f => dest_col f (map (fun r => nthd [] r j) grp)
                 | None => mkField [] true (BDat [])
                 end) :: spec_key_cols_from (j + 1) cols t grp
  end.
Definition spec_key_cols (cols:frame) (by_:list Z) (grp:list (list cell)) : list (Z * field) :=
  spec_key_cols_from 0 cols by_ grp.

Definition spec_agg_cols (a:agg) (cols:frame) (keyrows:list (list cell)) (targets:list Z) : list (Z * field) :=
  map (fun t => (agg_name a t, match lookup t cols with
                               | Some f => dest_col f (agg_ref (agg_cells a) keyrows (field_cells f))
                               | None => mkField [] true (BDat [])
                               end)) targets.

Definition spec_count_col (keyrows:list (list cell)) : Z * field :=
  (COUNT_NAME, mkField count_meta true (BDat (agg_ref (@len (list cell)) keyrows keyrows))).

Definition targets_ok (cols:frame) (by_ targets:list Z) : bool :=
  negb (len targets =? 0) && all_in targets cols && nodupb targets
  && negb (existsb (fun t => existsb (Z.eqb t) by_) targets).

(* the columns one call appends to ddf *)
Definition spec_step_cols (cols:frame) (by_:list Z) (keyrows:list (list cell)) (s:gstep) : option (list (Z * field)) :=
  let keys wk := if wk:bool then spec_key_cols cols by_ (groups keyrows) else [] in
  match s with
  | GCount wk => Some (keys wk ++ [spec_count_col keyrows])
  | GDistinct wk => Some (keys wk)
  | GAgg a ts wk => if targets_ok cols by_ ts then Some (keys wk ++ spec_agg_cols a cols keyrows ts) else None
  end.

Fixpoint fresh_names (new:list (Z * field)) (ddf:frame) : bool :=
  match new with [] => true | (n, _) :: t => negb (has_name n ddf) && negb (has_name n t) && fresh_names t ddf end.

Fixpoint spec_steps (cols:frame) (by_:list Z) (keyrows:list (list cell)) (ddf:frame) (ss:list gstep) : option frame :=
  match ss with
  | [] => Some ddf
  | s :: t =>
    match spec_step_cols cols by_ keyrows s with
    | Some new => if fresh_names new ddf then spec_steps cols by_ keyrows (ddf ++ new) t else None
    | None => None
    end
  end.

(* the precondition of the property: a well-formed frame, existing distinct key names, a truthful hint *)
Definition groupby_pre (cols:frame) (by_:list Z) (hint:bool) : bool :=
  let n := nrows cols in
  frame_ok n cols && nodup_names cols && negb (len by_ =? 0) && all_in by_ cols && nodupb by_
  && match key_rows cols by_ with
     | Some kr => if hint then rows_sortedb bytes_ltb kr else true
     | None => false
     end.

(* None = outside the property's precondition *)
Definition spec_groupby_steps (cols:frame) (by_:list Z) (hint:bool) (ddf:frame) (ss:list gstep) : option frame :=
  if groupby_pre cols by_ hint then
    match key_rows cols by_ with
    | Some kr => spec_steps cols by_ kr ddf ss
    | None => None
    end
  else None.

(* ---- Session.aggregate_* on pre-grouped data: one entry per RUN of equal adjacent index values; when
   the index is sorted the runs are the groups, which is what `aggregate_agrees_with_groupby` states ---- *)
Definition scalar_rows (l:list Z) : list (list cell) := map (fun x => [[x]]) l.
Definition scalar_cells (l:list Z) : list cell := map (fun x => [x]) l.
Definition uncell (c:cell) : Z := nthd 0 c 0.

(* the aggregates on the integer encoding of a plain column (numeric, categorical, timestamp, fixed string) *)
Definition agg_scalar (a:agg) (l:list Z) : Z :=
  match a with
  | AMin => min_spec Z.ltb 0 l
  | AMax => max_spec Z.ltb 0 l
  | AFirst => nthd 0 l 0
  | ALast => nthd 0 l (len l - 1)
  end.

(* reference for Session.aggregate_*(index, target): the rows of the index column, one key cell per row *)
Definition index_rows (c:column) : list (list cell) :=
  match c with
  | ColNum l => scalar_rows l
  | ColFixed l => map (fun x => [x]) l
  | ColIndexed i v => map (fun x => [x]) (indexed_rows i v)
  end.
(* the maximal runs of equal adjacent rows *)
Definition runs_spans (rows:list (list cell)) : list Z :=
  spans_ref (fun a b => negb (row_eqb a b)) rows.
Definition agg_Z (a:agg) (l:list Z) : Z := uncell (agg_cells a (scalar_cells l)).
(* a = None: aggregate_count.  One entry per run of equal adjacent index rows; when the index is sorted the runs
   are the groups and the result is the group-wise reference.  None = target of the wrong length *)
Definition session_aggregate_ref (a:option agg) (index:column) (target:list Z) : option (list Z) :=
  let rows := index_rows index in
  let sorted := rows_sortedb bytes_ltb rows in
  match a with
  | None =>
    Some (if sorted then agg_ref (@len (list cell)) rows rows else count_ref (runs_spans rows))
  | Some a =>
    if negb (len target =? len rows) then None
    else Some (if sorted then agg_ref (agg_Z a) rows target
               else reduce_spans (fun (_:Z) l => agg_Z a l) (runs_spans rows) target)
  end.
(* the index column is well-formed storage (an indexed string field: offsets 0 .. len values, non-decreasing) *)
Definition column_okb (c:column) : bool :=
  match c with ColIndexed i v => valid_indexedb i v | _ => true end.

(* reference for Session.distinct(fields=[f0; f1; ...]): component j of every distinct row, ascending *)
Definition session_distinct_ref (fields:list (list cell)) : option (list (list cell)) :=
  match fields with
  | f0 :: _ =>
    if forallb (fun c => len c =? len f0) fields
    then let g := groups (rows_of (len f0) fields) in
         Some (map (fun j => map (fun r => nthd [] r j) g) (iota 0 (length fields)))
    else None
  | [] => None
  end.
