(* Spec/JournalSpec.v — what C17 states, at list level.

   Rows are identified by their physical position in the old table / the snapshot.
   Per key in ascending order: all old versions of the key (ascending j_valid_from, physical
   order among equal j_valid_from — the order in which the history was written), followed by
   the snapshot's record for the key iff the key has no old version or the record differs
   from the latest old version in at least one compared field.  Every output column is the
   same plan applied to that column, so all columns have one length and rows stay aligned. *)
From Coq Require Import ZArith List Bool.
From EV Require Import Res Arr Journal.
Import ListNotations.
Open Scope Z_scope.

Inductive src : Type :=
| FromOld (i:Z)      (* physical row i of the old table *)
| FromNew (j:Z).     (* physical row j of the snapshot *)

Fixpoint upto_from (s:Z) (n:nat) : list Z :=
  match n with O => [] | S n' => s :: upto_from (s + 1) n' end.
Definition upto (n:nat) : list Z := upto_from 0 n.

(* ascending list of the distinct keys *)
Fixpoint ins_key (x:Z) (l:list Z) : list Z :=
  match l with
  | [] => [x]
  | y :: t => if x <? y then x :: l else if x =? y then l else y :: ins_key x t
  end.
Definition all_keys (okeys nkeys:list Z) : list Z := fold_right ins_key [] (okeys ++ nkeys).

(* stable insertion sort of row positions by j_valid_from *)
Fixpoint ins_vf (ovf:list Z) (x:Z) (l:list Z) : list Z :=
  match l with
  | [] => [x]
  | y :: t => if nthZ ovf x <=? nthZ ovf y then x :: l else y :: ins_vf ovf x t
  end.

(* the old versions of key k, oldest first *)
Definition versions (okeys ovf:list Z) (k:Z) : list Z :=
  fold_right (ins_vf ovf) [] (filter (fun i => nthZ okeys i =? k) (upto (length okeys))).

(* the snapshot's row for key k *)
Definition new_row (nkeys:list Z) (k:Z) : option Z :=
  find (fun j => nthZ nkeys j =? k) (upto (length nkeys)).

Definition cell_differs (f:col * col) (i j:Z) : bool :=
  match f with
  | (NumCol od, NumCol nd) => negb (nthZ od i =? nthZ nd j)
  | (StrCol oo ov, StrCol no nv) => negb (list_eqb (cell oo ov i) (cell no nv j))
  | _ => false
  end.
Definition row_differs (fields:list (col * col)) (i j:Z) : bool :=
  existsb (fun f => cell_differs f i j) fields.

(* the block of one key: its old versions vs (oldest first), then the snapshot row nr, if any,
   iff the key is new or the row differs from the latest old version *)
Definition block (dif:Z -> Z -> bool) (vs:list Z) (nr:option Z) : list src :=
  map FromOld vs ++
  match nr with
  | Some j => if match vs with [] => true | _ => dif (last vs 0) j end then [FromNew j] else []
  | None => []
  end.

Definition key_block (okeys ovf nkeys:list Z) (fields:list (col * col)) (k:Z) : list src :=
  block (row_differs fields) (versions okeys ovf k) (new_row nkeys k).

Definition plan (okeys ovf nkeys:list Z) (fields:list (col * col)) : list src :=
  flat_map (key_block okeys ovf nkeys fields) (all_keys okeys nkeys).

Definition out_col (p:list src) (f:col * col) : col :=
  match f with
  | (NumCol od, NumCol nd) =>
    NumCol (map (fun s => match s with FromOld i => nthZ od i | FromNew j => nthZ nd j end) p)
  | (StrCol oo ov, StrCol no nv) =>
    let '(o, v) := encode (map (fun s => match s with FromOld i => cell oo ov i | FromNew j => cell no nv j end) p) in
    StrCol o v
  | (c, _) => c
  end.

Definition journal_spec (okeys ovf nkeys:list Z) (fields:list (col * col)) : list col :=
  map (out_col (plan okeys ovf nkeys fields)) fields.

(* number of rows of a column *)
Definition col_rows (c:col) : Z :=
  match c with NumCol d => len d | StrCol o _ => len o - 1 end.
