(* Spec/DispatchSpec.v — C13: "returns a new in-memory field whose data and dtype equal numpy's
   result on the operands' underlying arrays, and leaves both operands unchanged; assigning the
   result into a dataframe stores exactly those values". *)
From Coq Require Import ZArith List Bool.
From EV Require Import Res Dispatch.
Import ListNotations.
Open Scope Z_scope.

(* the numpy function the property means by each operator *)
Definition npop_of (o:bop) : npop :=
  match o with
  | Add => Op_add | Sub => Op_sub | Mul => Op_mul | TrueDiv => Op_truediv | FloorDiv => Op_floordiv
  | Mod => Op_mod | DivMod => Np_divmod | And => Op_and | Or => Op_or | Xor => Op_xor
  | Lt => Op_lt | Le => Op_le | Eq => Op_eq | Ne => Op_ne | Gt => Op_gt | Ge => Op_ge
  end.
Definition npop_of_u (u:uop) : npop := match u with Invert => Op_invert | LogicalNot => Np_logical_not end.

(* "every supported operator": numeric fields support all of the property's list; timestamp
   fields all but & | ^ ~ logical_not; categorical fields + - * / // and the comparisons *)
Definition supported (c:cls) (o:bop) : bool :=
  match c with
  | NumericMem | NumericH5 => true
  | TimestampMem | TimestampH5 => match o with And | Or | Xor => false | _ => true end
  | CategoricalMem | CategoricalH5 =>
      match o with Add | Sub | Mul | TrueDiv | FloorDiv => true | o' => is_cmp o' end
  end.
Definition supported_u (c:cls) (u:uop) : bool :=
  match c with NumericMem | NumericH5 => true | _ => false end.

Definition is_field (k:kind) : bool := match k with KField _ => true | _ => false end.
Definition kind_supports (k:kind) (o:bop) : bool := match k with KField c => supported c o | _ => true end.

(* a case the property speaks about: at least one operand is a field and every field operand's
   class supports the operator *)
Definition in_scope (l:kind) (o:bop) (r:kind) : bool :=
  (is_field l || is_field r) && kind_supports l o && kind_supports r o.

Section Spec.
  Variable arr : Type.
  Variable nformat : Type.
  Variable np_bin : npop -> arr -> arr -> res arr.
  Variable np_divmod : arr -> arr -> res (arr * arr).
  Variable np_un : npop -> arr -> res arr.
  Variable dtype_to_str : arr -> res nformat.
  Variable np_empty : nformat -> arr.

  Notation heap := (heap arr nformat).
  Notation mkfield := (mkfield arr nformat).
  Notation outcome := (outcome arr nformat).
  Notation mkout := (mkout arr nformat).
  Notation data_of := (data_of arr nformat np_empty).

  (* numpy's results for the operator on the operands' underlying arrays *)
  Definition np_results (o:bop) (a b:arr) : res (list arr) :=
    match o with
    | DivMod => do '(q, r) <- np_divmod a b; Ok [q; r]
    | _ => do r <- np_bin (npop_of o) a b; Ok [r]
    end.

  (* one new NumericMemField per result array, of that array's dtype *)
  Fixpoint new_fields (rs:list arr) : res heap :=
    match rs with
    | [] => Ok []
    | r :: t => do nf <- dtype_to_str r; do t' <- new_fields t; Ok (mkfield NumericMem nf (Some r) :: t')
    end.

  Definition ids_from (n:nat) (k:nat) : list (value arr) := map (fun i => VField (n + i)) (seq 0 k).

  (* final state: the old heap untouched, then the result fields, then (if assigned into a
     dataframe) one stored numeric field per result holding exactly the same values *)
  Definition spec_state (h:heap) (rs:list arr) (store:bool) : res outcome :=
    do fs <- new_fields rs;
    let k := length fs in
    let stored := map (fun f => mkfield NumericH5 (fo_nformat _ _ f) (fo_data _ _ f)) fs in
    Ok (mkout (h ++ fs ++ (if store then stored else []))
              (ids_from (length h) k)
              (if store then ids_from (length h + k) k else [])).

  Definition spec_binop (h:heap) (lhs:value arr) (o:bop) (rhs:value arr) (store:bool) : res outcome :=
    do a <- data_of h lhs;
    do b <- data_of h rhs;
    do rs <- np_results o a b;
    spec_state h rs store.

  Definition spec_unop (h:heap) (x:value arr) (u:uop) (store:bool) : res outcome :=
    do a <- data_of h x;
    do r <- np_un (npop_of_u u) a;
    spec_state h [r] store.
End Spec.

Definition sym_spec_binop :=
  spec_binop sym symnf (fun f a b => Ok (SBin f a b)) (fun a b => Ok (SProj 0 a b, SProj 1 a b))
             (fun a => Ok (NfOf a)) sym_empty.
Definition sym_spec_unop :=
  spec_unop sym symnf (fun f a => Ok (SUn f a)) (fun a => Ok (NfOf a)) sym_empty.

(* ---- what a well-formed operator layer looks like (decidable; `dispatch_table_correct` and the
        generated obligations evaluate it by computation) ------------------------------------- *)
Definition fdo_of (o:bop) : fdo :=
  match o with
  | Add => F_numeric_add | Sub => F_numeric_sub | Mul => F_numeric_mul | TrueDiv => F_numeric_truediv
  | FloorDiv => F_numeric_floordiv | Mod => F_numeric_mod | DivMod => F_numeric_divmod
  | And => F_numeric_and | Or => F_numeric_or | Xor => F_numeric_xor
  | Lt => F_less_than | Le => F_less_than_equal | Eq => F_equal | Ne => F_not_equal
  | Gt => F_greater_than | Ge => F_greater_than_equal
  end.
Definition fdo_of_u (u:uop) : fdo := match u with Invert => F_invert | LogicalNot => F_logical_not end.
Definition wrapper_of (o:bop) : wrapper := match o with DivMod => W_divmod | _ => W_binary end.

Definition all_classes : list cls := [NumericMem; CategoricalMem; TimestampMem; NumericH5; CategoricalH5; TimestampH5].
Definition all_bops : list bop := [Add; Sub; Mul; TrueDiv; FloorDiv; Mod; DivMod; And; Or; Xor; Lt; Le; Eq; Ne; Gt; Ge].
Definition all_uops : list uop := [Invert; LogicalNot].

Definition arg_eqb (a b:arg) : bool := match a, b with ASelf, ASelf | AOther, AOther => true | _, _ => false end.
Fixpoint args_eqb (a b:list arg) : bool :=
  match a, b with
  | [], [] => true
  | x :: a', y :: b' => arg_eqb x y && args_eqb a' b'
  | _, _ => false
  end.
Definition method_is (m:option (fdo * list arg)) (f:fdo) (a:list arg) : bool :=
  match m with Some (f', a') => fdo_eqb f' f && args_eqb a' a | None => false end.
Definition opdef_is (m:option (wrapper * npop)) (w:wrapper) (o:npop) : bool :=
  match m with Some (w', o') => (wrapper_code w' =? wrapper_code w) && (npop_code o' =? npop_code o) | None => false end.

(* __X__ calls op X on (self, other); __rX__ calls op X on (other, self); present for every
   operator the class supports *)
Definition method_ok (T:code_tables) (c:cls) (o:bop) : bool :=
  if supported c o then
    method_is (lookup (t_methods T) c (D_fwd o)) (fdo_of o) [ASelf; AOther]
    && (is_cmp o || method_is (lookup (t_methods T) c (D_refl o)) (fdo_of o) [AOther; ASelf])
  else true.
Definition unary_ok (T:code_tables) (c:cls) (u:uop) : bool :=
  if supported_u c u then method_is (lookup (t_methods T) c (D_un u)) (fdo_of_u u) [ASelf] else true.

(* reflected operators are reachable: a class that defines operators opts out of numpy's ufunc handling *)
Definition class_ok (T:code_tables) (c:cls) : bool :=
  forallb (method_ok T c) all_bops && forallb (unary_ok T c) all_uops && lookup_flag (t_ufunc T) c.

Definition ops_ok (T:code_tables) : bool :=
  forallb (fun o => opdef_is (lookup_op (t_ops T) (fdo_of o)) (wrapper_of o) (npop_of o)) all_bops
  && forallb (fun u => opdef_is (lookup_op (t_ops T) (fdo_of_u u)) W_unary (npop_of_u u)) all_uops.

Definition tables_ok (T:code_tables) : bool := forallb (class_ok T) all_classes && ops_ok T.

(* the part of tables_ok that F-C13a violates, separately *)
Definition reflected_reachable (T:code_tables) : bool :=
  forallb (fun c => lookup_flag (t_ufunc T) c
                    || negb (existsb (fun o => match lookup (t_methods T) c (D_refl o) with Some _ => true | None => false end
                                              || (is_cmp o && match lookup (t_methods T) c (D_fwd o) with Some _ => true | None => false end))
                                     all_bops))
          all_classes.

(* every operator method of the tree is __X__ -> X(self, other) / __rX__ -> X(other, self): also for
   entries outside `supported` (none exist: the table has exactly the supported entries) *)
Definition entry_wellformed (e:entry) : bool :=
  let '(c, d, f, a) := e in
  match d with
  | D_fwd o => supported c o && fdo_eqb f (fdo_of o) && args_eqb a [ASelf; AOther]
  | D_refl o => supported c o && negb (is_cmp o) && fdo_eqb f (fdo_of o) && args_eqb a [AOther; ASelf]
  | D_un u => supported_u c u && fdo_eqb f (fdo_of_u u) && args_eqb a [ASelf]
  end.

