(* Spec/DispatchSpec.v — C13: "returns a new in-memory field whose data and dtype equal numpy's
   result on the operands' underlying arrays, and leaves both operands unchanged; assigning the
   result into a dataframe stores exactly those values". *)
From Coq Require Import ZArith List Bool.
From EV Require Import Res Dispatch.
Import ListNotations.
Open Scope Z_scope.

(* the numpy function the property means by each operator *)
Definition npop_of (o:bop) : npop :=
  match o with
  | Add => Op_add | Sub => Op_sub | Mul => Op_mul | TrueDiv => Op_truediv | FloorDiv => Op_floordiv
  | Mod => Op_mod | DivMod => Np_divmod | And => Op_and | Or => Op_or | Xor => Op_xor
  | Lt => Op_lt | Le => Op_le | Eq => Op_eq | Ne => Op_ne | Gt => Op_gt | Ge => Op_ge
  end.
Definition npop_of_u (u:uop) : npop := match u with Invert => Op_invert | LogicalNot => Np_logical_not end.

(* "every supported operator": numeric fields support all of the property's list; timestamp
   fields all but & | ^ ~ logical_not; categorical fields + - * / // and the comparisons *)
Definition supported (c:cls) (o:bop) : bool :=
  match c with
  | NumericMem | NumericH5 => true
  | TimestampMem | TimestampH5 => match o with And | Or | Xor => false | _ => true end
  | CategoricalMem | CategoricalH5 =>
      match o with Add | Sub | Mul | TrueDiv | FloorDiv => true | o' => is_cmp o' end
  end.
Definition supported_u (c:cls) (u:uop) : bool :=
  match c with NumericMem | NumericH5 => true | _ => false end.

Definition is_field (k:kind) : bool := match k with KField _ => true | _ => false end.
Definition kind_supports (k:kind) (o:bop) : bool := match k with KField c => supported c o | _ => true end.

(* a case the property speaks about: at least one operand is a field and every field operand's
   class supports the operator *)
Definition in_scope (l:kind) (o:bop) (r:kind) : bool :=
  (is_field l || is_field r) && kind_supports l o && kind_supports r o.

Section Spec.
  Variable arr : Type.
  Variable nformat : Type.
  Variable np_bin : npop -> arr -> arr -> res arr.
  Variable np_divmod : arr -> arr -> res (arr * arr).
  Variable np_un : npop -> arr -> res arr.
  Variable dtype_to_str : arr -> res nformat.

  Notation heap := (heap arr nformat).
  Notation mkfield := (mkfield arr nformat).
  Notation outcome := (outcome arr nformat).
  Notation mkout := (mkout arr nformat).
  Notation data_of := (data_of arr nformat).

  (* numpy's results for the operator on the operands' underlying arrays *)
  Definition np_results (o:bop) (a b:arr) : res (list arr) :=
    match o with
    | DivMod => do '(q, r) <- np_divmod a b; Ok [q; r]
    | _ => do r <- np_bin (npop_of o) a b; Ok [r]
    end.

  (* one new NumericMemField per result array, of that array's dtype *)
  Fixpoint new_fields (rs:list arr) : res heap :=
    match rs with
    | [] => Ok []
    | r :: t => do nf <- dtype_to_str r; do t' <- new_fields t; Ok (mkfield NumericMem nf r :: t')
    end.

  Definition ids_from (n:nat) (k:nat) : list (value arr) := map (fun i => VField (n + i)) (seq 0 k).

  (* final state: the old heap untouched, then the result fields, then (if assigned into a
     dataframe) one stored numeric field per result holding exactly the same values *)
  Definition spec_state (h:heap) (rs:list arr) (store:bool) : res outcome :=
    do fs <- new_fields rs;
    let k := length fs in
    let stored := map (fun f => mkfield NumericH5 (fo_nformat _ _ f) (fo_data _ _ f)) fs in
    Ok (mkout (h ++ fs ++ (if store then stored else []))
              (ids_from (length h) k)
              (if store then ids_from (length h + k) k else [])).

  Definition spec_binop (h:heap) (lhs:value arr) (o:bop) (rhs:value arr) (store:bool) : res outcome :=
    do a <- data_of h lhs;
    do b <- data_of h rhs;
    do rs <- np_results o a b;
    spec_state h rs store.

  Definition spec_unop (h:heap) (x:value arr) (u:uop) (store:bool) : res outcome :=
    do a <- data_of h x;
    do r <- np_un (npop_of_u u) a;
    spec_state h [r] store.
End Spec.

Definition sym_spec_binop :=
  spec_binop sym symnf (fun f a b => Ok (SBin f a b)) (fun a b => Ok (SProj 0 a b, SProj 1 a b))
             (fun a => Ok (NfOf a)).
Definition sym_spec_unop :=
  spec_unop sym symnf (fun f a => Ok (SUn f a)) (fun a => Ok (NfOf a)).
