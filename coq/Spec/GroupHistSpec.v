(* Spec/GroupHistSpec.v — C07 over a history of calls on one dataframe object: every group-by of the history
   must be the group-wise reference (Spec/GroupSpec.v) of the frame AS IT IS AT THE TIME OF THE CALL — whatever
   was grouped, written, permuted, filtered or sorted before.  The frame-changing events are not re-specified
   here (they are C09's subject); the specification follows the frame through them and is None when one of
   them fails or a group-by event is outside the precondition groupby_pre on the current frame. *)
From Coq Require Import ZArith List Bool.
From EV Require Import Res Arr StableSort Spans SpansSpec FilterIndex FilterIndexSpec Group GroupSpec GroupHist.
Import ListNotations.
Open Scope Z_scope.

Fixpoint spec_hist (cols:frame) (evs:list hev) (outs:list frame) : option (list frame * frame) :=
  match evs with
  | [] => Some (outs, cols)
  | e :: t =>
    match e with
    | HGroup by_ hint ss =>
      match spec_groupby_steps cols by_ hint [] ss with
      | Some d => spec_hist cols t (outs ++ [d])
      | None => None
      end
    | HDropDup by_ hint =>
      match spec_groupby_steps cols by_ hint [] [GDistinct true] with
      | Some d => spec_hist cols t (outs ++ [d])
      | None => None
      end
    | _ =>
      match hist_mutate cols e with
      | Some (Ok cols') => spec_hist cols' t outs
      | _ => None
      end
    end
  end.
