(* Spec/CatalogueIdentSpec.v — C15, object identity of dataframes.
   A client that keeps the object it got from create_dataframe / require_dataframe / ds[name] must keep talking to
   THE dataframe the dataset serves under that name: the catalogue may never silently bind a name that stays bound to
   another object (two objects over one HDF5 group keep separate _columns mirrors; everything done through one is
   invisible to the other).  The model has one object per frame (its id g); the observation added here says, for every
   name a dataset serves after a step, at which place (dataset index, name) the SAME object was served before the step
   (None: the object is new).  The verdict: a name served before and after a step is served by the same object.
   The harness (harness/props/C15.py: _ident_obs, chk_ident) computes the same relation with Python's `is` on the
   handles it kept, and evaluates the same verdict. *)
From Coq Require Import ZArith List Bool.
From EV Require Import Res Catalogue CatalogueSpec.
Import ListNotations.
Open Scope Z_scope.

Definition place := option (Z * name).

(* the first place (dataset index, name) at which object g is catalogued in state s *)
Fixpoint place_of (s:state) (files:list Z) (g:Z) : place :=
  match files with
  | [] => None
  | j :: t => match d_rfind (py_dfs s j) g with Some k => Some (j, k) | None => place_of s t g end
  end.
Definition origin (s:state) (g:Z) : place := place_of s ds_indices g.

Definition identobs := list (list (name * place)).     (* per dataset, in ds.keys() order *)
Definition ident_ds (s s':state) (i:Z) : list (name * place) :=
  map (fun kg => (fst kg, origin s (snd kg))) (py_dfs s' i).
Definition ident_obs (s s':state) : identobs := map (ident_ds s s') ds_indices.

Definition place_is (a:place) (i:Z) (k:name) : bool :=
  match a with Some (j, k0) => (j =? i) && name_eqb k0 k | None => false end.
(* `before` = what ds_i.keys() listed before the step *)
Definition chk_ident_ds (i:Z) (before:list name) (l:list (name * place)) : bool :=
  forallb (fun e => negb (nmem (fst e) before) || place_is (snd e) i (fst e)) l.
Definition chk_ident (before:list (list name)) (io:identobs) : bool := all2i chk_ident_ds 0 before io.

Definition keys_before (s:state) : list (list name) := map (fun i => d_keys (py_dfs s i)) ds_indices.

(* per step of a history: the identity observation and its verdict (same stepping as CatalogueSpec.run_trace) *)
Fixpoint ident_trace (c:cfg) (ops:list op) (s:state) : list (identobs * bool) :=
  match ops with
  | [] => []
  | p :: t => let (s', r) := step c p s in
              (ident_obs s s', chk_ident (keys_before s) (ident_obs s s')) :: ident_trace c t s'
  end.
