(* Spec/FieldWorldSpec.v — what C01 demands of histories over several objects, at list level.

   (1) Fields are independent: what field i holds after an interleaved history is what it holds
       after its own operations alone (IdxWriter / IdxWriterSpec say what that is).
   (2) Values, not objects: a field holds the VALUES its argument had when write_part / write was
       called.  A caller array is a list that only the caller's own statements change; a field is
       a list that only operations on that field change. *)
From Coq Require Import ZArith List Bool.
From EV Require Import Res Arr IdxWriterSpec FieldWorld.
Import ListNotations.
Open Scope Z_scope.

Section V.
Context {A:Type}.

Definition atZ {X} (l:list X) (i:Z) : option X :=
  if i <? 0 then None else nth_error l (Z.to_nat i).

(* l[a:b] for 0 <= a <= b <= len l *)
Definition sub (l:list A) (a b:Z) : option (list A) :=
  if (0 <=? a) && (a <=? b) && (b <=? len l) then Some (spec_slice l a b) else None.

Definition inrange (l:list A) (i:Z) : bool := (0 <=? i) && (i <? len l).

(* caller arrays, fields: both plain lists of values *)
Definition vworld : Type := (list (list A) * list (list A))%type.

Definition v_resolve (v:vworld) (x:arg) : option (list A) :=
  match x with
  | ACaller k => atZ (fst v) k
  | ACallerSlice k a b => match atZ (fst v) k with Some l => sub l a b | None => None end
  | AField g a b => match atZ (snd v) g with Some l => sub l a b | None => None end
  end.

Definition v_op (v:vworld) (o:aop A) : option vworld :=
  let '(cv, fv) := v in
  match o with
  | CNew vals => Some (cv ++ [vals], fv)
  | CFill k vals =>
    match atZ cv k with
    | Some l => if len vals =? len l then Some (upd cv k vals, fv) else None
    | None => None
    end
  | CSet k i x =>
    match atZ cv k with
    | Some l => if inrange l i then Some (upd cv k (upd l i x), fv) else None
    | None => None
    end
  | FPart f x =>
    match atZ fv f, v_resolve v x with
    | Some l, Some p => Some (cv, upd fv f (l ++ p))
    | _, _ => None
    end
  | FPartMove _ _ _ => None                 (* move_mem=True hands the array over: outside the property *)
  | FComplete f => match atZ fv f with Some _ => Some v | None => None end
  | FSetItem f i x =>
    match atZ fv f with
    | Some l => if inrange l i then Some (cv, upd fv f (upd l i x)) else None
    | None => None
    end
  | FClear f => match atZ fv f with Some _ => Some (cv, upd fv f []) | None => None end
  end.

Fixpoint v_run (v:vworld) (ops:list (aop A)) : option vworld :=
  match ops with
  | [] => Some v
  | o :: t => match v_op v o with Some v' => v_run v' t | None => None end
  end.

Definition v_fresh (backings:list bool) : vworld := ([], map (fun _ => []) backings).

End V.
