(* Spec/FilterIndexSpec.v — what C09 demands, at the level of lists of rows.

   A column is a list of cells (a cell is the byte string of an indexed string entry, or the
   one-element list holding the encoded scalar of any other field class).  The three operations
   are "gather the rows at these positions", the positions being
     filter:  the positions whose filter entry is true / non-zero, ascending;
     index:   the index array itself;
     sort:    the stable permutation that orders the key rows lexicographically ascending. *)
From Coq Require Import ZArith List Bool.
From EV Require Import Res Arr StableSort FilterIndex.
Import ListNotations.
Open Scope Z_scope.

Notation cell := (list Z) (only parsing).

Definition gather {A} (d:A) (l:list A) (ps:list Z) : list A := map (fun p => nthd d l p) ps.

(* positions selected by a boolean filter *)
Fixpoint sel_from (i:Z) (m:list bool) : list Z :=
  match m with
  | [] => []
  | b :: t => if b then i :: sel_from (i + 1) t else sel_from (i + 1) t
  end.
Definition sel (m:list bool) : list Z := sel_from 0 m.

Definition truthy (flt:list Z) : list bool := map (fun z => negb (z =? 0)) flt.

(* row i of a list of columns; the rows of n-row columns *)
Definition row_at (cols:list (list cell)) (i:Z) : list cell := map (fun c => nthd [] c i) cols.
Definition rows_of (n:Z) (cols:list (list cell)) : list (list cell) :=
  map (row_at cols) (iota 0 (Z.to_nat n)).

(* the stable permutation that sorts key rows lexicographically (cells compared as byte strings /
   scalars); stability = ties keep their original relative order, see StableSortProofs *)
Definition lexsort_perm (keyrows:list (list cell)) : list Z := argsort (lex_le cell_le) keyrows.

(* canonical storage of a column of cells in a field of the given class *)
Definition encode_like (b:body) (cs:list cell) : body :=
  match b with
  | BIdx _ _ => BIdx (psums (map (@len Z) cs)) (concat cs)
  | BDat _ => BDat (map (fun c => nthd 0 c 0) cs)
  end.

(* well-formed storage: the index dataset is the prefix sums of the entry lengths and the
   values dataset their concatenation (a never-written indexed string field has both empty) *)
Definition wf_bodyb (b:body) : bool :=
  match b with
  | BIdx [] v => len v =? 0
  | BIdx (i0 :: t) v => (i0 =? 0) && sortedb (i0 :: t) && (last (i0 :: t) 0 =? len v)
  | BDat _ => true
  end.

(* the destination / in-place content of one column after gathering positions ps *)
Definition select_body (b:body) (ps:list Z) : body :=
  encode_like b (gather [] (field_cells (mkField [] true b)) ps).

Definition in_range (n:Z) (ps:list Z) : bool := forallb (fun p => (0 <=? p) && (p <? n)) ps.

(* every column is well-formed and has n rows *)
Definition frame_ok (n:Z) (cols:frame) : bool :=
  forallb (fun nf:Z * field => wf_bodyb (fbody (snd nf)) && (field_len (snd nf) =? n)) cols.

Definition nrows (cols:frame) : Z :=
  match cols with [] => 0 | (_, f) :: _ => field_len f end.

Fixpoint disjoint_names (cols ddf:frame) : bool :=
  match cols with [] => true | (n, _) :: t => negb (has_name n ddf) && disjoint_names t ddf end.

Fixpoint nodup_names (cols:frame) : bool :=
  match cols with [] => true | (n, _) :: t => negb (has_name n t) && nodup_names t end.

(* out-of-place: the source is untouched, the destination gains one column per source column
   with the source's meta; in place: every column is replaced (same meta, same write flag) *)
Definition spec_select (cols:frame) (ps:list Z) (ddf:option frame) : frame * option frame :=
  match ddf with
  | Some d =>
    (cols, Some (d ++ map (fun nf:Z * field =>
                             (fst nf, mkField (fmeta (snd nf)) true (select_body (fbody (snd nf)) ps))) cols))
  | None =>
    (map (fun nf:Z * field =>
            (fst nf, mkField (fmeta (snd nf)) (fwr (snd nf)) (select_body (fbody (snd nf)) ps))) cols, None)
  end.

Definition dest_ok (cols:frame) (ddf:option frame) : bool :=
  match ddf with Some d => disjoint_names cols d | None => forallb (fun nf:Z * field => fwr (snd nf)) cols end.

(* the specification of the three dataframe-level calls; None = the call is outside the
   property's precondition (ragged frame, filter of the wrong length, index out of range, ...) *)
Definition spec_filter (cols:frame) (dt:Z) (flt:list Z) (ddf:option frame) : option (frame * option frame) :=
  let n := nrows cols in
  if frame_ok n cols && nodup_names cols && dest_ok cols ddf && ((dt =? 0) || (dt =? 1))
     && ((len flt =? n) || (match cols with [] => true | _ => false end))
  then Some (spec_select cols (sel (truthy flt)) ddf) else None.

Definition spec_index (cols:frame) (idx:list Z) (ddf:option frame) : option (frame * option frame) :=
  let n := nrows cols in
  if frame_ok n cols && nodup_names cols && dest_ok cols ddf && in_range n idx
  then Some (spec_select cols idx ddf) else None.

Definition key_columns (cols:frame) (by_:list Z) : option (list (list cell)) :=
  fold_right (fun k acc => match lookup k cols, acc with
                           | Some f, Some l => Some (field_cells f :: l)
                           | _, _ => None end) (Some []) by_.

Definition spec_sort (cols:frame) (by_:list Z) (ddf:option frame) : option (frame * option frame) :=
  let n := nrows cols in
  match by_, key_columns cols by_ with
  | _ :: _, Some kcs =>
    if frame_ok n cols && nodup_names cols && dest_ok cols ddf
    then Some (spec_select cols (lexsort_perm (rows_of n kcs)) ddf) else None
  | _, _ => None
  end.

(* sort_on in place writes through h5py slice assignment: a never-written (0-row) indexed string
   column keeps its empty index dataset *)
Definition spec_sort_on (cols:frame) (keys:list Z) (ddf:option frame) : option (frame * option frame) :=
  match ddf with
  | Some _ => spec_sort cols keys ddf
  | None =>
    match spec_sort cols keys None with
    | Some (c', o) =>
      Some (map (fun p:(Z * field) * (Z * field) =>
                   if field_len (snd (fst p)) =? 0 then fst p else snd p) (combine cols c'), o)
    | None => None
    end
  end.

(* multiset facts are stated with Permutation / sublist in Props *)
Inductive sublist {A} : list A -> list A -> Prop :=
| sub_nil : sublist [] []
| sub_skip x l1 l2 : sublist l1 l2 -> sublist l1 (x :: l2)
| sub_keep x l1 l2 : sublist l1 l2 -> sublist (x :: l1) (x :: l2).
