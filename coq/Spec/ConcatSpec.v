(* Spec/ConcatSpec.v — C16: what apply_spans_concat must write.
   Strings are byte lists; a column is a list of strings; spans is the boundary array. *)
From Coq Require Import ZArith List Bool.
From EV Require Import Arr.
Import ListNotations.
Open Scope Z_scope.

Definition COMMA : Z := 44.
Definition QUOTE : Z := 34.

Definition nonempty (s:list Z) : bool := match s with [] => false | _ => true end.
Definition needs_quote (s:list Z) : bool := existsb (fun c => (c =? COMMA) || (c =? QUOTE)) s.
Definition double_quotes (s:list Z) : list Z :=
  flat_map (fun c => if c =? QUOTE then [QUOTE; QUOTE] else [c]) s.
(* quoted (inner quotes doubled) iff the entry contains a comma or a quote *)
Definition csv_escape (s:list Z) : list Z :=
  if needs_quote s then QUOTE :: double_quotes s ++ [QUOTE] else s.

Fixpoint intercalate (sep:Z) (l:list (list Z)) : list Z :=
  match l with
  | [] => []
  | x :: t => match t with [] => x | _ => x ++ sep :: intercalate sep t end
  end.

(* the output entry of one span *)
Definition concat_entry (strs:list (list Z)) : list Z :=
  intercalate COMMA (map csv_escape (filter nonempty strs)).

Fixpoint adjacent_pairs (l:list Z) : list (Z * Z) :=
  match l with
  | a :: t => match t with b :: _ => (a, b) :: adjacent_pairs t | [] => [] end
  | [] => []
  end.

(* the source strings of span (a,b) *)
Definition span_strs (strs:list (list Z)) (p:Z * Z) : list (list Z) := slice strs (fst p) (snd p).

(* dest.data[:] *)
Definition concat_spec (spans:list Z) (strs:list (list Z)) : list (list Z) :=
  map (fun p => concat_entry (span_strs strs p)) (adjacent_pairs spans).

(* dest.indices[:] / dest.values[:] of a field holding `entries`; a field nothing was ever
   written to has an empty index array *)
Definition spec_indices (entries:list (list Z)) : list Z :=
  match entries with [] => [] | _ => psums (map (@len Z) entries) end.
Definition spec_values (entries:list (list Z)) : list Z := concat entries.

(* "chunk size and multiplier large enough to hold one span's output": the value buffer has
   N = dest_chunksize*mult bytes and a batch stops once N/2 bytes are in it, so a span's
   output may start at any position up to N/2-1 *)
Definition fits (N:Z) (entries:list (list Z)) : Prop :=
  forall e, In e entries -> len e + Z.max 0 (N / 2 - 1) <= N.
Definition fitsb (N:Z) (entries:list (list Z)) : bool :=
  forallb (fun e => len e + Z.max 0 (N / 2 - 1) <=? N) entries.

Definition spans_in_range (spans:list Z) (n:Z) : Prop := Forall (fun x => 0 <= x <= n) spans.
Definition spans_in_rangeb (spans:list Z) (n:Z) : bool := forallb (fun x => (0 <=? x) && (x <=? n)) spans.

(* ---- a CSV line parser (Python csv.reader defaults: doublequote, non-strict) ---------- *)
Inductive pstate := PStart | PUnq | PQ | PQQ.

Fixpoint csv_parse (st:pstate) (cur:list Z) (l:list Z) : list (list Z) :=
  match l with
  | [] => match st with PStart => [[]] | _ => [rev cur] end
  | c :: t =>
    match st with
    | PStart => if c =? QUOTE then csv_parse PQ [] t
                else if c =? COMMA then [] :: csv_parse PStart [] t
                else csv_parse PUnq [c] t
    | PUnq => if c =? COMMA then rev cur :: csv_parse PStart [] t else csv_parse PUnq (c :: cur) t
    | PQ => if c =? QUOTE then csv_parse PQQ cur t else csv_parse PQ (c :: cur) t
    | PQQ => if c =? QUOTE then csv_parse PQ (QUOTE :: cur) t
             else if c =? COMMA then rev cur :: csv_parse PStart [] t
             else csv_parse PUnq (c :: cur) t
    end
  end.

(* an empty line is an empty row *)
Definition csv_parse_line (l:list Z) : list (list Z) :=
  match l with [] => [] | _ => csv_parse PStart [] l end.
