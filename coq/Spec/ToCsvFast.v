(* Spec/ToCsvFast.v — the reference parser csv_parse of Spec/ToCsvSpec.v with List.rev (quadratic:
   rev (x :: l) = rev l ++ [x]) replaced by rev_append (linear).  Same state machine, statement by
   statement; Proofs/ToCsvFastP.v proves csv_parse_f = csv_parse.  Only the extracted entry uses
   it, so that files with >= 10^4 records / cells of >= 10^4 bytes can be judged (SC18). *)
From Coq Require Import ZArith List Bool.
From EV Require Import Res Arr ToCsv ToCsvSpec.
Import ListNotations.
Open Scope Z_scope.

Definition frev {A} (l:list A) : list A := rev_append l [].

Definition close_rec_f (fld:bytes) (rec:list bytes) (recs:list (list bytes)) : list (list bytes) :=
  frev (frev fld :: rec) :: recs.

Definition step_sf_f (rec:list bytes) (recs:list (list bytes)) (c:Z) : pstate :=
  if c =? LF then mkp SR [] [] (close_rec_f [] rec recs)
  else if c =? CR then mkp ER [] [] (close_rec_f [] rec recs)
  else if c =? QUOTE then mkp IQ [] rec recs
  else if c =? COMMA then mkp SF [] ([] :: rec) recs
  else mkp IF [c] rec recs.

Definition step_sr_f (recs:list (list bytes)) (c:Z) : pstate :=
  if c =? LF then mkp SR [] [] ([] :: recs)
  else if c =? CR then mkp ER [] [] ([] :: recs)
  else step_sf_f [] recs c.

Definition step_f (s:pstate) (c:Z) : pstate :=
  let '(mkp m fld rec recs) := s in
  match m with
  | SR => step_sr_f recs c
  | ER => if c =? LF then mkp SR [] [] recs else step_sr_f recs c
  | SF => step_sf_f rec recs c
  | IF =>
    if c =? LF then mkp SR [] [] (close_rec_f fld rec recs)
    else if c =? CR then mkp ER [] [] (close_rec_f fld rec recs)
    else if c =? COMMA then mkp SF [] (frev fld :: rec) recs
    else mkp IF (c :: fld) rec recs
  | IQ =>
    if c =? QUOTE then mkp QQ fld rec recs else mkp IQ (c :: fld) rec recs
  | QQ =>
    if c =? QUOTE then mkp IQ (c :: fld) rec recs
    else if c =? COMMA then mkp SF [] (frev fld :: rec) recs
    else if c =? LF then mkp SR [] [] (close_rec_f fld rec recs)
    else if c =? CR then mkp ER [] [] (close_rec_f fld rec recs)
    else mkp IF (c :: fld) rec recs
  end.

Definition finish_f (s:pstate) : list (list bytes) :=
  let '(mkp m fld rec recs) := s in
  match m with
  | SR | ER => frev recs
  | _ => frev (close_rec_f fld rec recs)
  end.

Definition csv_parse_f (file:bytes) : list (list bytes) := finish_f (fold_left step_f file p_init).
