(* Spec/MapStreamSpec.v — what "mapping a column through a join map" means (C04).
   Row r of the destination is the source value at map[r], or the type's empty value where
   map[r] is the designated invalid marker.  Indexed strings: the destination's offsets are
   the prefix sums of the mapped entries' lengths and its values their concatenation. *)
From Coq Require Import ZArith List Bool.
From EV Require Import Res Arr.
Import ListNotations.
Open Scope Z_scope.

Definition map_spec {A:Type} (empty:A) (data:list A) (inv:Z) (m:list Z) : list A :=
  map (fun k => if k =? inv then empty else nthd empty data k) m.

(* the map precondition of the property: valid entries in range and non-decreasing,
   invalid markers anywhere *)
Definition valid_map (n inv:Z) (m:list Z) : Prop :=
  (forall i, 0 <= i < len m -> nthZ m i <> inv -> 0 <= nthZ m i < n) /\
  (forall i j, 0 <= i -> i <= j -> j < len m -> nthZ m i <> inv -> nthZ m j <> inv -> nthZ m i <= nthZ m j).

(* boolean version, used by the Examples and by the extracted entry to classify cases *)
Fixpoint valid_map_from (n inv lo:Z) (m:list Z) : bool :=
  match m with
  | [] => true
  | k :: t => if k =? inv then valid_map_from n inv lo t
              else (lo <=? k) && (k <? n) && valid_map_from n inv k t
  end.
Definition valid_mapb (n inv:Z) (m:list Z) : bool := valid_map_from n inv 0 m.

(* the precondition after fix-F-C02f: valid entries in range, in any order (boolean version) *)
Definition in_range_mapb (n inv:Z) (m:list Z) : bool :=
  forallb (fun k => (k =? inv) || ((0 <=? k) && (k <? n))) m.

(* indexed strings: entry i of (offsets, bytes) *)
Definition entry (idx vals:list Z) (i:Z) : list Z := slice vals (nthZ idx i) (nthZ idx (i + 1)).
Definition decode (idx vals:list Z) : list (list Z) :=
  map (fun n => entry idx vals (Z.of_nat n)) (seq 0 (length idx - 1)).
Definition offsets_of (strs:list (list Z)) : list Z := psums (map len strs).

Definition indexed_spec (d_idx d_val:list Z) (inv:Z) (m:list Z) : list Z * list Z :=
  let strs := map_spec [] (decode d_idx d_val) inv m in
  (offsets_of strs, concat strs).

(* a well-formed indexed column: offsets start at 0, are non-decreasing and end at |values| *)
Definition wf_indexed (idx vals:list Z) : Prop :=
  1 <= len idx /\ nthZ idx 0 = 0 /\ sorted idx /\ nthZ idx (len idx - 1) = len vals.

Definition filter_of (inv:Z) (m:list Z) : list bool := map (fun k => negb (k =? inv)) m.
