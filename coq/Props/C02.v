(* Props/C02.v — theorems of property C02 (statements only; proofs in coq/Proofs/Merge*.v).
   Model: coq/Model/Merge.v (MFixed = dataframe.py after work/C02/fix-F-C02[a-e].diff, MOrig = as found),
          composed with Model/Join.v (C03) and Model/MapStream.v (C04, version Fixed = operations.py after the
          C04 fixes and work/E7/fix-F-C02f.diff).
   Spec:  coq/Spec/MergeSpec.v (join_pairs, gather_col, merge_spec), Spec/JoinSpec.v, Spec/MapStreamSpec.v. *)
From Coq Require Import ZArith List Lia Bool.
From EV Require Import Res Arr Join JoinSpec JoinBase JoinIface JoinDriver JoinMain MapStream MapStreamSpec MapStreamBase
  MapIndexedDriver Merge MergeSpec MergeBase MergeOrdered MergeMaps MergeTop MergeRows MergeRefuted
  JoinAll MergeAll MergeCopy MergeShape KeyView MergeView MergeChain MergeChainP.
Import ListNotations.
Open Scope Z_scope.

(* ---- both unique hints given and truthful: FULL, no hypothesis left ------------------------------
   (first delivered; the instance lu = ru = true of ordered_merge_correct_all below, with the chunk-size precondition
   discharged: neither side is trimmed, so strictly increasing keys exclude F-C02g) *)
Theorem ordered_merge_both_unique_correct :
  forall how lk rk lcols rcols lsuf rsuf cs mcs vf ccs,
  how = 0 \/ how = 1 \/ how = 2 -> 1 <= cs -> 1 <= mcs -> 0 <= vf -> 1 <= ccs ->
  ssorted lk -> ssorted rk ->
  frame_ok (len lk) lcols (mcs * vf) -> frame_ok (len rk) rcols (mcs * vf) ->
  NoDup (frame_names (ordered_dest how true true lk rk lcols rcols lsuf rsuf)) ->
  ordered_merge MFixed how true true lk rk lcols rcols lsuf rsuf (len lk) (len rk) cs mcs vf ccs
  = Ok (ordered_dest how true true lk rk lcols rcols lsuf rsuf).
Proof. exact ordered_merge_both_unique. Qed.
Print Assumptions ordered_merge_both_unique_correct.

Example ordered_merge_both_unique_nonvacuous :
  ordered_merge MFixed 1 true true [1;2;4] [0;2;3;4]
     [([105;97], CFix [0] [0] [[10];[20];[30]]); ([120;97], CIdx [0;1;1;3] [97;99;99])]
     [([105;112], CFix [0] [0] [[1];[2];[3];[4]])] [95;108] [95;114] 3 4 2 2 1 2
  = Ok [ (N_left_map, map_column [INVALID_INDEX_32; 1; INVALID_INDEX_32; 2]);
         ([105;97], CFix [0] [0] [[0];[20];[0];[30]]); ([120;97], CIdx [0;0;0;0;2] [99;99]);
         ([105;112], CFix [0] [0] [[1];[2];[3];[4]]) ].
Proof. vm_compute. reflexivity. Qed.

(* ==== the streamed path, FULL: no hypothesis about C03 or C04 left — every how in {left,right,inner} x every
   unique-hint pair, keys repeated on both sides (many-to-many) included ==========================================
   (extension E4 (1), reconciled with extension E7.)  For every pair of key columns with truthful hints, all column
   lists, all sizes and chunk sizes (join chunk size cs >= 1, map-stream chunk size mcs >= 1, value factor vf >= 0,
   chunked_copy size ccs >= 1), well-formed columns and distinct destination names: _ordered_merge terminates without
   error and the destination is exactly ordered_dest — the join maps, every left column gathered through the left side
   of the relational join and every right column through its right side (empty value where the side is unmatched),
   clashing names suffixed on both sides — unless a run of equal keys on a trimmed side fills a whole join chunk, and
   then it raises the clear ValueError (F-C02g).
   * C03: the former Section hypothesis C03_selected of `ordered_merge_correct` (MergeTop.ordered_merge_correct_gen) is
     the lemma MergeAll.C03_selected_all (= JoinAll.streamed_total on the generator and the (a,b) argument order the
     repaired table selects); `ordered_merge_correct_no_long_run` below IS the former `ordered_merge_correct` with that
     hypothesis discharged, which is why the Section form is no longer stated here.
   * C04: since work/E7/fix-F-C02f.diff the map streams need only "valid entries in range" (join_left_map_in_range /
     join_right_map_in_range: true of ANY key columns), so the hypothesis `nbd` (no key repeated on both sides), which
     F-C02f had forced on every theorem of this block, is gone: the general variants hold for many-to-many keys
     (all_hyps_nonvacuous_many_to_many).
   C02's preconditions in the caller's vocabulary:
     hints_truthful lu ru lk rk   both key columns sorted (the two ordered hints) and strictly sorted where a unique
                                  hint is given; equivalent to C03's kind_pre of the selected generator
                                  (hints_are_kind_pre);
     chunks_ok k cs A B           C03's chunk-size precondition (every window of cs keys of a trimmed side holds two
                                  different adjacent keys) — or the weaker ~LongRun.  Necessary: long_run_raises_refuted. *)
Theorem hints_are_kind_pre : forall how lu ru lk rk,
  hints_truthful lu ru lk rk <->
  kind_pre (v_kind (sel_variant how lu ru)) (sel_a how lk rk) (sel_b how lk rk).
Proof. exact sel_kind_pre. Qed.
Print Assumptions hints_are_kind_pre.

(* total form: the destination of the relational join, or the clear ValueError and then a long run exists *)
Theorem ordered_merge_total_all :
  forall how lu ru lk rk lcols rcols lsuf rsuf cs mcs vf ccs,
  how = 0 \/ how = 1 \/ how = 2 -> 1 <= cs -> 1 <= mcs -> 0 <= vf -> 1 <= ccs ->
  hints_truthful lu ru lk rk ->
  frame_ok (len lk) lcols (mcs * vf) -> frame_ok (len rk) rcols (mcs * vf) ->
  NoDup (frame_names (ordered_dest how lu ru lk rk lcols rcols lsuf rsuf)) ->
  ordered_merge MFixed how lu ru lk rk lcols rcols lsuf rsuf (len lk) (len rk) cs mcs vf ccs
    = Ok (ordered_dest how lu ru lk rk lcols rcols lsuf rsuf) \/
  (ordered_merge MFixed how lu ru lk rk lcols rcols lsuf rsuf (len lk) (len rk) cs mcs vf ccs = Raise E_ValueError /\
   LongRun (v_kind (sel_variant how lu ru)) (v_left (sel_variant how lu ru)) (sel_a how lk rk) (sel_b how lk rk) cs).
Proof. exact MergeAll.ordered_merge_total_all. Qed.
Print Assumptions ordered_merge_total_all.

Theorem ordered_merge_correct_all :
  forall how lu ru lk rk lcols rcols lsuf rsuf cs mcs vf ccs,
  how = 0 \/ how = 1 \/ how = 2 -> 1 <= cs -> 1 <= mcs -> 0 <= vf -> 1 <= ccs ->
  hints_truthful lu ru lk rk ->
  frame_ok (len lk) lcols (mcs * vf) -> frame_ok (len rk) rcols (mcs * vf) ->
  NoDup (frame_names (ordered_dest how lu ru lk rk lcols rcols lsuf rsuf)) ->
  chunks_ok (v_kind (sel_variant how lu ru)) cs (sel_a how lk rk) (sel_b how lk rk) ->
  ordered_merge MFixed how lu ru lk rk lcols rcols lsuf rsuf (len lk) (len rk) cs mcs vf ccs
  = Ok (ordered_dest how lu ru lk rk lcols rcols lsuf rsuf).
Proof. exact MergeAll.ordered_merge_correct_all. Qed.
Print Assumptions ordered_merge_correct_all.

(* the same under the weakest form of the chunk-size precondition: the former `ordered_merge_correct` (E7's form, no
   nbd) with its Section hypothesis about C03 discharged *)
Theorem ordered_merge_correct_no_long_run :
  forall how lu ru lk rk lcols rcols lsuf rsuf cs mcs vf ccs,
  how = 0 \/ how = 1 \/ how = 2 -> 1 <= cs -> 1 <= mcs -> 0 <= vf -> 1 <= ccs ->
  hints_truthful lu ru lk rk ->
  frame_ok (len lk) lcols (mcs * vf) -> frame_ok (len rk) rcols (mcs * vf) ->
  NoDup (frame_names (ordered_dest how lu ru lk rk lcols rcols lsuf rsuf)) ->
  ~ LongRun (v_kind (sel_variant how lu ru)) (v_left (sel_variant how lu ru)) (sel_a how lk rk) (sel_b how lk rk) cs ->
  ordered_merge MFixed how lu ru lk rk lcols rcols lsuf rsuf (len lk) (len rk) cs mcs vf ccs
  = Ok (ordered_dest how lu ru lk rk lcols rcols lsuf rsuf).
Proof. exact MergeAll.ordered_merge_correct_nolong. Qed.
Print Assumptions ordered_merge_correct_no_long_run.

(* any truthful unique hint (left, right or both): since nbd is no longer a hypothesis of ordered_merge_correct_all
   this is a plain instance of it (kept for the callers that give a unique hint) *)
Theorem ordered_merge_unique_hint_correct :
  forall how lu ru lk rk lcols rcols lsuf rsuf cs mcs vf ccs,
  how = 0 \/ how = 1 \/ how = 2 -> 1 <= cs -> 1 <= mcs -> 0 <= vf -> 1 <= ccs ->
  lu = true \/ ru = true -> hints_truthful lu ru lk rk ->
  chunks_ok (v_kind (sel_variant how lu ru)) cs (sel_a how lk rk) (sel_b how lk rk) ->
  frame_ok (len lk) lcols (mcs * vf) -> frame_ok (len rk) rcols (mcs * vf) ->
  NoDup (frame_names (ordered_dest how lu ru lk rk lcols rcols lsuf rsuf)) ->
  ordered_merge MFixed how lu ru lk rk lcols rcols lsuf rsuf (len lk) (len rk) cs mcs vf ccs
  = Ok (ordered_dest how lu ru lk rk lcols rcols lsuf rsuf).
Proof. exact MergeAll.ordered_merge_unique_hint_correct. Qed.
Print Assumptions ordered_merge_unique_hint_correct.

(* on truthful hints _ordered_merge never reads out of bounds, always terminates, and the only exception it can
   raise is the ValueError of a chunk that is one run *)
Theorem ordered_merge_raises_only_value_error :
  forall how lu ru lk rk lcols rcols lsuf rsuf cs mcs vf ccs,
  how = 0 \/ how = 1 \/ how = 2 -> 1 <= cs -> 1 <= mcs -> 0 <= vf -> 1 <= ccs ->
  hints_truthful lu ru lk rk ->
  frame_ok (len lk) lcols (mcs * vf) -> frame_ok (len rk) rcols (mcs * vf) ->
  NoDup (frame_names (ordered_dest how lu ru lk rk lcols rcols lsuf rsuf)) ->
  forall c, ordered_merge MFixed how lu ru lk rk lcols rcols lsuf rsuf (len lk) (len rk) cs mcs vf ccs = Raise c ->
  c = E_ValueError /\ ~ chunks_ok (v_kind (sel_variant how lu ru)) cs (sel_a how lk rk) (sel_b how lk rk).
Proof. exact MergeAll.ordered_merge_raises_only_value_error. Qed.
Print Assumptions ordered_merge_raises_only_value_error.

Theorem ordered_merge_no_oob :
  forall how lu ru lk rk lcols rcols lsuf rsuf cs mcs vf ccs,
  how = 0 \/ how = 1 \/ how = 2 -> 1 <= cs -> 1 <= mcs -> 0 <= vf -> 1 <= ccs ->
  hints_truthful lu ru lk rk ->
  frame_ok (len lk) lcols (mcs * vf) -> frame_ok (len rk) rcols (mcs * vf) ->
  NoDup (frame_names (ordered_dest how lu ru lk rk lcols rcols lsuf rsuf)) ->
  forall site, ordered_merge MFixed how lu ru lk rk lcols rcols lsuf rsuf (len lk) (len rk) cs mcs vf ccs <> OOB site.
Proof. exact MergeAll.ordered_merge_no_oob. Qed.
Print Assumptions ordered_merge_no_oob.

Theorem ordered_merge_terminates :
  forall how lu ru lk rk lcols rcols lsuf rsuf cs mcs vf ccs,
  how = 0 \/ how = 1 \/ how = 2 -> 1 <= cs -> 1 <= mcs -> 0 <= vf -> 1 <= ccs ->
  hints_truthful lu ru lk rk ->
  frame_ok (len lk) lcols (mcs * vf) -> frame_ok (len rk) rcols (mcs * vf) ->
  NoDup (frame_names (ordered_dest how lu ru lk rk lcols rcols lsuf rsuf)) ->
  ordered_merge MFixed how lu ru lk rk lcols rcols lsuf rsuf (len lk) (len rk) cs mcs vf ccs <> OutOfFuel.
Proof. exact MergeAll.ordered_merge_terminates. Qed.
Print Assumptions ordered_merge_terminates.

(* chunk sizes are unobservable for every variant *)
Theorem chunk_sizes_unobservable_all :
  forall how lu ru lk rk lcols rcols lsuf rsuf cs mcs vf ccs cs' mcs' vf' ccs',
  how = 0 \/ how = 1 \/ how = 2 ->
  1 <= cs -> 1 <= mcs -> 0 <= vf -> 1 <= ccs -> 1 <= cs' -> 1 <= mcs' -> 0 <= vf' -> 1 <= ccs' ->
  hints_truthful lu ru lk rk ->
  chunks_ok (v_kind (sel_variant how lu ru)) cs (sel_a how lk rk) (sel_b how lk rk) ->
  chunks_ok (v_kind (sel_variant how lu ru)) cs' (sel_a how lk rk) (sel_b how lk rk) ->
  frame_ok (len lk) lcols (mcs * vf) -> frame_ok (len rk) rcols (mcs * vf) ->
  frame_ok (len lk) lcols (mcs' * vf') -> frame_ok (len rk) rcols (mcs' * vf') ->
  NoDup (frame_names (ordered_dest how lu ru lk rk lcols rcols lsuf rsuf)) ->
  ordered_merge MFixed how lu ru lk rk lcols rcols lsuf rsuf (len lk) (len rk) cs mcs vf ccs
  = ordered_merge MFixed how lu ru lk rk lcols rcols lsuf rsuf (len lk) (len rk) cs' mcs' vf' ccs'.
Proof. exact MergeAll.chunk_sizes_unobservable_all. Qed.
Print Assumptions chunk_sizes_unobservable_all.

(* the hypotheses are satisfiable outside the both-unique variants: how='left' with a truthful right-unique hint
   (left side trimmed and refilled, left columns copied), how='inner' with the general generator, and how='left' with
   the general generator on many-to-many keys *)
Example all_hyps_nonvacuous_right_unique :
  hints_truthful false true [1;2;2;5] [0;2;3;4] /\
  chunks_ok (v_kind (sel_variant 0 false true)) 3 (sel_a 0 [1;2;2;5] [0;2;3;4]) (sel_b 0 [1;2;2;5] [0;2;3;4]) /\
  v_writes_l (sel_variant 0 false true) = false /\
  ordered_merge MFixed 0 false true [1;2;2;5] [0;2;3;4]
     [([107], CFix [0] [0] [[1];[2];[2];[5]]); ([120;97], CIdx [0;1;1;3;4] [97;99;99;100])]
     [([105;112], CFix [0] [0] [[10];[20];[30];[40]])] [95;108] [95;114] 4 4 3 2 2 2
  = Ok [ (N_right_map, map_column [INVALID_INDEX_32; 1; 1; INVALID_INDEX_32]);
         ([107], CFix [0] [0] [[1];[2];[2];[5]]); ([120;97], CIdx [0;1;1;3;4] [97;99;99;100]);
         ([105;112], CFix [0] [0] [[0];[20];[20];[0]]) ] /\
  dest_keys 0 [1;2;2;5] [0;2;3;4] = [1;2;2;5].
Proof. exact all_hyps_example_ru. Qed.

Example all_hyps_nonvacuous_general :
  hints_truthful false false [1;1;2;3] [1;3;4] /\
  chunks_ok (v_kind (sel_variant 2 false false)) 3 (sel_a 2 [1;1;2;3] [1;3;4]) (sel_b 2 [1;1;2;3] [1;3;4]) /\
  ordered_merge MFixed 2 false false [1;1;2;3] [1;3;4]
     [([107], CFix [0] [0] [[1];[1];[2];[3]])] [([107], CFix [0] [0] [[1];[3];[4]])] [95;108] [95;114] 4 3 3 2 2 2
  = Ok [ (N_left_map, map_column [0;1;3]); (N_right_map, map_column [0;0;1]);
         ([107;95;108], CFix [0] [0] [[1];[1];[3]]); ([107;95;114], CFix [0] [0] [[1];[1];[3]]) ] /\
  dest_keys 2 [1;1;2;3] [1;3;4] = [1;1;3].
Proof. exact all_hyps_example_gen. Qed.

(* ... and outside the former hypothesis nbd (the F-C02f region): how='left' without unique hints, keys 1 and 3 repeated
   on BOTH sides; the right map [0;1;0;1;inv;2;3;2;3] is not monotone; a numeric and an indexed-string column on each
   side; join chunk 3 on 5 keys *)
Example all_hyps_nonvacuous_many_to_many :
  hints_truthful false false [1;1;2;3;3] [1;1;3;3;4] /\
  ~ nbd (sel_a 0 [1;1;2;3;3] [1;1;3;3;4]) (sel_b 0 [1;1;2;3;3] [1;1;3;3;4]) /\
  chunks_ok (v_kind (sel_variant 0 false false)) 3 (sel_a 0 [1;1;2;3;3] [1;1;3;3;4]) (sel_b 0 [1;1;2;3;3] [1;1;3;3;4]) /\
  ordered_merge MFixed 0 false false [1;1;2;3;3] [1;1;3;3;4]
     [([107], CFix [0] [0] [[1];[1];[2];[3];[3]]); ([120;97], CIdx [0;1;1;3;4;6] [97;99;99;100;101;101])]
     [([107], CFix [0] [0] [[1];[1];[3];[3];[4]]); ([120;98], CIdx [0;2;3;3;4;4] [98;98;99;100])] [95;108] [95;114] 5 5 3 2 2 2
  = Ok [ (N_left_map, map_column [0;0;1;1;2;3;3;4;4]);
         (N_right_map, map_column [0;1;0;1;INVALID_INDEX_64;2;3;2;3]);
         ([107;95;108], CFix [0] [0] [[1];[1];[1];[1];[2];[3];[3];[3];[3]]);
         ([120;97], CIdx [0;1;2;2;2;4;5;6;8;10] [97;97;99;99;100;100;101;101;101;101]);
         ([107;95;114], CFix [0] [0] [[1];[1];[1];[1];[0];[3];[3];[3];[3]]);
         ([120;98], CIdx [0;2;3;5;6;6;6;7;7;8] [98;98;99;98;98;99;100;100]) ] /\
  dest_keys 0 [1;1;2;3;3] [1;1;3;3;4] = [1;1;1;1;2;3;3;3;3].
Proof. exact all_hyps_example_m2m. Qed.

(* ==== the destination holds exactly the rows of the relational join: FULL (extension E4 (2) + E7) ==============
   ordered_dest (what the streamed path produces, theorems above) = the two join-map fields followed by
   merge_spec: every left column gathered through the left side of join_pairs and every right column
   through its right side (None -> the type's empty value), names suffixed as documented, rows in the order
   of join_pairs (left/inner: left row order, i.e. non-decreasing key order; right: right row order).
   * The variants that write both maps (no unique hint on the b side, and every how='inner'): holds for ANY key
     columns — not even sorted, keys repeated on both sides included (E7: the maps are in range) — and any columns with
     the right number of rows (idx_len_ok).  This case alone was `streamed_rows_are_join_partial`.
   * When the b side of the selected generator carries a unique hint, _ordered_merge writes no a-side map and copies
     the a-side columns with chunked_copy (= identity, chunked_copy_is_identity).  If the hint is truthful every a row
     has exactly one row in the join, the a side of join_pairs is [Some 0; ...; Some (n-1)]
     (unique_side_pairs_all_rows), and gathering a well-formed column of n rows through that list gives the column
     back (copy_is_gather_all_rows; indexed columns: offsets start at 0, are sorted and end at |values|, so the column
     is the encoding of its own entries).  frame_wf = frame_ok without the value-buffer bound; sel_acols = the a-side
     columns (right columns for how='right').  The truthful hint is necessary: with an untruthful one the copy is
     not a join. *)
Theorem copy_is_gather_all_rows :
  forall c n,
  match c with
  | CFix _ _ d => len d = n
  | CIdx idx vals => wf_indexed idx vals /\ len idx - 1 = n
  end -> gather_col c (all_rows n) = c.
Proof. exact gather_all_rows. Qed.
Print Assumptions copy_is_gather_all_rows.

Theorem unique_side_pairs_all_rows :
  forall inv L R, len R <= inv -> ssorted R ->
  map fst (left_pairs (map single L) (map single R) 0) = all_rows (len L).
Proof. exact left_pairs_fst_all. Qed.
Print Assumptions unique_side_pairs_all_rows.

Theorem streamed_rows_are_join :
  forall how lu ru lk rk lcols rcols lsuf rsuf,
  let inv := merge_invalid lu ru (len lk) (len rk) in
  how = 0 \/ how = 1 \/ how = 2 ->
  len lk <= inv -> len rk <= inv ->
  idx_len_ok (len lk) lcols -> idx_len_ok (len rk) rcols ->
  (v_writes_l (sel_variant how lu ru) = false ->
     ssorted (sel_b how lk rk) /\ frame_wf (len (sel_a how lk rk)) (sel_acols how lcols rcols)) ->
  ordered_dest how lu ru lk rk lcols rcols lsuf rsuf
  = map_fields (fst (jmaps how lu ru lk rk inv)) (snd (jmaps how lu ru lk rk inv)) ++
    merge_spec how [lk] [rk] lcols rcols lsuf rsuf.
Proof. exact ordered_dest_is_merge_spec_gen. Qed.
Print Assumptions streamed_rows_are_join.

(* the hypotheses are satisfiable in both cases: a-side map written on many-to-many keys / a-side columns copied *)
Example streamed_rows_are_join_hyps :
  (v_writes_l (sel_variant 0 false false) = true /\ len [1;1;2;3;3] <= merge_invalid false false 5 5 /\
   idx_len_ok 5 [([120;97], CIdx [0;1;1;3;4;6] [97;99;99;100;101;101])]) /\
  (v_writes_l (sel_variant 0 false true) = false /\ ssortedb (sel_b 0 [1;2;2;5] [0;2;3;4]) = true /\
   len [1;2;2;5] <= merge_invalid false true 4 4 /\
   frame_wf (len (sel_a 0 [1;2;2;5] [0;2;3;4])) (sel_acols 0 [([120;97], CIdx [0;1;1;3;4] [97;99;99;100])] [])).
Proof. exact rows_hyps_example. Qed.

(* end to end, nothing assumed about C03 or C04: _ordered_merge returns the two join-map fields followed by merge_spec
   (lengths up to 2^62 rows, the 64-bit marker) *)
Theorem ordered_merge_is_relational_join :
  forall how lu ru lk rk lcols rcols lsuf rsuf cs mcs vf ccs,
  how = 0 \/ how = 1 \/ how = 2 -> 1 <= cs -> 1 <= mcs -> 0 <= vf -> 1 <= ccs ->
  hints_truthful lu ru lk rk ->
  chunks_ok (v_kind (sel_variant how lu ru)) cs (sel_a how lk rk) (sel_b how lk rk) ->
  frame_ok (len lk) lcols (mcs * vf) -> frame_ok (len rk) rcols (mcs * vf) ->
  NoDup (frame_names (ordered_dest how lu ru lk rk lcols rcols lsuf rsuf)) ->
  len lk <= INVALID_INDEX_64 -> len rk <= INVALID_INDEX_64 ->
  ordered_merge MFixed how lu ru lk rk lcols rcols lsuf rsuf (len lk) (len rk) cs mcs vf ccs
  = Ok (map_fields (fst (jmaps how lu ru lk rk (merge_invalid lu ru (len lk) (len rk))))
                   (snd (jmaps how lu ru lk rk (merge_invalid lu ru (len lk) (len rk)))) ++
        merge_spec how [lk] [rk] lcols rcols lsuf rsuf).
Proof. exact MergeShape.ordered_merge_is_relational_join. Qed.
Print Assumptions ordered_merge_is_relational_join.

(* ==== extension E4 (3): corollaries of ordered_dest / merge_spec, stated on their own ============================ *)
(* (a) every destination column has the same length: one row per row of the relational join *)
Theorem merge_spec_columns_same_length :
  forall how lkeys rkeys lcols rcols lsuf rsuf f,
  In f (merge_spec how lkeys rkeys lcols rcols lsuf rsuf) ->
  col_len (snd f) = len (merge_pairs how lkeys rkeys).
Proof. exact merge_spec_same_length. Qed.
Print Assumptions merge_spec_columns_same_length.

Theorem ordered_dest_columns_same_length :
  forall how lu ru lk rk lcols rcols lsuf rsuf,
  let inv := merge_invalid lu ru (len lk) (len rk) in
  how = 0 \/ how = 1 \/ how = 2 ->
  (v_writes_l (sel_variant how lu ru) = false -> ssorted (sel_b how lk rk)) ->
  len lk <= inv -> len rk <= inv ->
  frame_wf (len lk) lcols -> frame_wf (len rk) rcols ->
  forall f, In f (ordered_dest how lu ru lk rk lcols rcols lsuf rsuf) ->
  col_len (snd f) = len (merge_pairs how [lk] [rk]).
Proof. exact ordered_dest_same_length. Qed.
Print Assumptions ordered_dest_columns_same_length.

Theorem ordered_merge_columns_same_length :
  forall how lu ru lk rk lcols rcols lsuf rsuf cs mcs vf ccs,
  how = 0 \/ how = 1 \/ how = 2 -> 1 <= cs -> 1 <= mcs -> 0 <= vf -> 1 <= ccs ->
  hints_truthful lu ru lk rk ->
  chunks_ok (v_kind (sel_variant how lu ru)) cs (sel_a how lk rk) (sel_b how lk rk) ->
  frame_ok (len lk) lcols (mcs * vf) -> frame_ok (len rk) rcols (mcs * vf) ->
  NoDup (frame_names (ordered_dest how lu ru lk rk lcols rcols lsuf rsuf)) ->
  len lk <= INVALID_INDEX_64 -> len rk <= INVALID_INDEX_64 ->
  forall d, ordered_merge MFixed how lu ru lk rk lcols rcols lsuf rsuf (len lk) (len rk) cs mcs vf ccs = Ok d ->
  forall f, In f d -> col_len (snd f) = len (merge_pairs how [lk] [rk]).
Proof. exact ordered_merge_same_length. Qed.
Print Assumptions ordered_merge_columns_same_length.

(* (b) rows are in non-decreasing key order.  dest_keys (Spec/MergeSpec.v) reads the key of each row of the join on the
   side that is never `none`; where both sides are present the two keys agree; a key column carried along as an
   ordinary column comes out as dest_keys, which is sorted. *)
Theorem dest_rows_in_key_order :
  forall how lk rk, how = 0 \/ how = 1 \/ how = 2 -> sorted lk -> sorted rk -> sorted (dest_keys how lk rk).
Proof. exact dest_keys_sorted. Qed.
Print Assumptions dest_rows_in_key_order.

Theorem matched_rows_have_equal_keys :
  forall how lk rk i j, how = 0 \/ how = 1 \/ how = 2 ->
  In (Some i, Some j) (merge_pairs how [lk] [rk]) ->
  0 <= i < len lk /\ 0 <= j < len rk /\ nthZ lk i = nthZ rk j.
Proof. exact merge_pairs_keys_agree. Qed.
Print Assumptions matched_rows_have_equal_keys.

Theorem left_key_column_is_dest_keys :
  forall how lk rk z e, how = 0 \/ how = 2 ->
  gather_col (CFix z e (map single lk)) (map fst (merge_pairs how [lk] [rk]))
  = CFix z e (map single (dest_keys how lk rk)).
Proof. exact gather_left_key_column. Qed.
Print Assumptions left_key_column_is_dest_keys.

Theorem right_key_column_is_dest_keys :
  forall how lk rk z e, how = 1 \/ how = 2 ->
  gather_col (CFix z e (map single rk)) (map snd (merge_pairs how [lk] [rk]))
  = CFix z e (map single (dest_keys how lk rk)).
Proof. exact gather_right_key_column. Qed.
Print Assumptions right_key_column_is_dest_keys.

(* in the destination itself: the left key column (how = left / inner) comes out sorted *)
Theorem ordered_merge_left_key_column_sorted :
  forall how lu ru lk rk lcols rcols lsuf rsuf cs mcs vf ccs,
  how = 0 \/ how = 1 \/ how = 2 -> 1 <= cs -> 1 <= mcs -> 0 <= vf -> 1 <= ccs ->
  hints_truthful lu ru lk rk ->
  chunks_ok (v_kind (sel_variant how lu ru)) cs (sel_a how lk rk) (sel_b how lk rk) ->
  frame_ok (len lk) lcols (mcs * vf) -> frame_ok (len rk) rcols (mcs * vf) ->
  NoDup (frame_names (ordered_dest how lu ru lk rk lcols rcols lsuf rsuf)) ->
  len lk <= INVALID_INDEX_64 -> len rk <= INVALID_INDEX_64 ->
  forall d n z e, how = 0 \/ how = 2 ->
  ordered_merge MFixed how lu ru lk rk lcols rcols lsuf rsuf (len lk) (len rk) cs mcs vf ccs = Ok d ->
  In (n, CFix z e (map single lk)) lcols ->
  In (spec_name n (frame_names rcols) lsuf, CFix z e (map single (dest_keys how lk rk))) d /\
  sorted (dest_keys how lk rk).
Proof. exact ordered_merge_left_key_sorted. Qed.
Print Assumptions ordered_merge_left_key_column_sorted.

Theorem ordered_merge_right_key_column_sorted :
  forall how lu ru lk rk lcols rcols lsuf rsuf cs mcs vf ccs,
  how = 0 \/ how = 1 \/ how = 2 -> 1 <= cs -> 1 <= mcs -> 0 <= vf -> 1 <= ccs ->
  hints_truthful lu ru lk rk ->
  chunks_ok (v_kind (sel_variant how lu ru)) cs (sel_a how lk rk) (sel_b how lk rk) ->
  frame_ok (len lk) lcols (mcs * vf) -> frame_ok (len rk) rcols (mcs * vf) ->
  NoDup (frame_names (ordered_dest how lu ru lk rk lcols rcols lsuf rsuf)) ->
  len lk <= INVALID_INDEX_64 -> len rk <= INVALID_INDEX_64 ->
  forall d n z e, how = 1 \/ how = 2 ->
  ordered_merge MFixed how lu ru lk rk lcols rcols lsuf rsuf (len lk) (len rk) cs mcs vf ccs = Ok d ->
  In (n, CFix z e (map single rk)) rcols ->
  In (spec_name n (frame_names lcols) rsuf, CFix z e (map single (dest_keys how lk rk))) d /\
  sorted (dest_keys how lk rk).
Proof. exact ordered_merge_right_key_sorted. Qed.
Print Assumptions ordered_merge_right_key_column_sorted.

(* ---- chunk sizes are unobservable on the streamed path (corollary; both-unique variants) -------- *)
Theorem chunk_sizes_unobservable_both_unique :
  forall how lk rk lcols rcols lsuf rsuf cs mcs vf ccs cs' mcs' vf' ccs',
  how = 0 \/ how = 1 \/ how = 2 ->
  1 <= cs -> 1 <= mcs -> 0 <= vf -> 1 <= ccs -> 1 <= cs' -> 1 <= mcs' -> 0 <= vf' -> 1 <= ccs' ->
  ssorted lk -> ssorted rk ->
  frame_ok (len lk) lcols (mcs * vf) -> frame_ok (len rk) rcols (mcs * vf) ->
  frame_ok (len lk) lcols (mcs' * vf') -> frame_ok (len rk) rcols (mcs' * vf') ->
  NoDup (frame_names (ordered_dest how true true lk rk lcols rcols lsuf rsuf)) ->
  ordered_merge MFixed how true true lk rk lcols rcols lsuf rsuf (len lk) (len rk) cs mcs vf ccs
  = ordered_merge MFixed how true true lk rk lcols rcols lsuf rsuf (len lk) (len rk) cs' mcs' vf' ccs'.
Proof.
  intros. rewrite !ordered_merge_both_unique by assumption. reflexivity.
Qed.
Print Assumptions chunk_sizes_unobservable_both_unique.

(* ---- the two join maps meet C04's precondition: FULL -------------------------------------------------
   since fix-F-C02f the precondition is "valid entries in range" and holds for ANY key columns; the
   right-hand map is moreover non-decreasing (C04's old precondition) iff no key repeats on both sides *)
Theorem join_left_map_in_range : forall emit inv L R, in_range_map (len L) inv (map fst (join_spec emit inv L R)).
Proof. exact join_fst_in_range. Qed.
Print Assumptions join_left_map_in_range.

Theorem join_right_map_in_range : forall emit inv L R, in_range_map (len R) inv (map snd (join_spec emit inv L R)).
Proof. exact join_snd_in_range. Qed.
Print Assumptions join_right_map_in_range.

Theorem join_left_map_valid : forall emit inv L R, valid_map (len L) inv (map fst (join_spec emit inv L R)).
Proof. exact join_fst_valid. Qed.
Print Assumptions join_left_map_valid.

Theorem join_right_map_valid : forall emit inv L R, sorted L -> sorted R -> nbd L R ->
  valid_map (len R) inv (map snd (join_spec emit inv L R)).
Proof. exact join_snd_valid. Qed.
Print Assumptions join_right_map_valid.

Theorem truthful_unique_hint_excludes_repeats : forall L R, (ssorted L \/ ssorted R) -> nbd L R.
Proof. intros L R [H|H]; [apply nbd_left_unique|apply nbd_right_unique]; exact H. Qed.
Print Assumptions truthful_unique_hint_excludes_repeats.

(* ---- merge(): validation passes and the streamed path is taken exactly when documented: FULL ---- *)
Theorem merge_takes_streamed_path :
  forall pd ver how lu ru lk rk lcols rcols lsuf rsuf cs mcs vf ccs,
  how = 0 \/ how = 1 \/ how = 2 ->
  (forall f, In f lcols -> col_len (snd f) = len lk) -> (forall f, In f rcols -> col_len (snd f) = len rk) ->
  merge pd (mk_margs ver how true lu true ru [lk] [rk] lcols rcols lsuf rsuf cs mcs vf ccs)
  = (do d <- ordered_merge ver how lu ru lk rk lcols rcols lsuf rsuf (len lk) (len rk) cs mcs vf ccs; Ok (true, d)).
Proof. exact merge_streamed_path. Qed.
Print Assumptions merge_takes_streamed_path.

Theorem unique_hints_unread_on_pandas_path :
  forall pd ver how lo lu ru ro lu' ru' lkeys rkeys lcols rcols lsuf rsuf cs mcs vf ccs,
  is_ordered (mk_margs ver how lo lu ro ru lkeys rkeys lcols rcols lsuf rsuf cs mcs vf ccs) = false ->
  merge pd (mk_margs ver how lo lu' ro ru' lkeys rkeys lcols rcols lsuf rsuf cs mcs vf ccs)
  = merge pd (mk_margs ver how lo lu ro ru lkeys rkeys lcols rcols lsuf rsuf cs mcs vf ccs).
Proof. exact MergeTop.unique_hints_unread_on_pandas_path. Qed.
Print Assumptions unique_hints_unread_on_pandas_path.

Theorem chunked_copy_is_identity : forall c cs, 1 <= cs -> chunked_copy c cs = Ok c.
Proof. exact chunked_copy_id. Qed.
Print Assumptions chunked_copy_is_identity.

(* ---- the call-site table as found: REFUTED (witnesses replayed on the real code, corpus/C02) ---- *)
Theorem inner_unique_hint_raises_refuted :      (* F-C02a *)
  merge join_pairs (wargs MOrig 2 true false [1;2;4] [2;2;4]) = Raise E_TypeError /\
  data_cols (merge join_pairs (wargs MFixed 2 true false [1;2;4] [2;2;4]))
  = Ok (merge_spec 2 [[1;2;4]] [[2;2;4]] (a_lcols (wargs MFixed 2 true false [1;2;4] [2;2;4]))
                   (a_rcols (wargs MFixed 2 true false [1;2;4] [2;2;4])) sufL sufR).
Proof. exact orig_inner_unique_raises. Qed.
Print Assumptions inner_unique_hint_raises_refuted.

Theorem right_join_unmatched_row_refuted :      (* F-C02c *)
  (exists e, merge join_pairs (wargs MOrig 1 false false [2;4] [1;2;4]) = e /\ is_ok e = false) /\
  data_cols (merge join_pairs (wargs MFixed 1 false false [2;4] [1;2;4]))
  = Ok (merge_spec 1 [[2;4]] [[1;2;4]] (a_lcols (wargs MFixed 1 false false [2;4] [1;2;4]))
                   (a_rcols (wargs MFixed 1 false false [2;4] [1;2;4])) sufL sufR).
Proof. exact orig_right_unmatched_fails. Qed.
Print Assumptions right_join_unmatched_row_refuted.

Theorem right_join_left_unique_refuted :        (* F-C02d *)
  merge join_pairs (wargs MOrig 1 true false [1;2;4] [2;2;4]) = Raise E_ValueError /\
  data_cols (merge join_pairs (wargs MFixed 1 true false [1;2;4] [2;2;4]))
  = Ok (merge_spec 1 [[1;2;4]] [[2;2;4]] (a_lcols (wargs MFixed 1 true false [1;2;4] [2;2;4]))
                   (a_rcols (wargs MFixed 1 true false [1;2;4] [2;2;4])) sufL sufR).
Proof. exact orig_right_unique_raises. Qed.
Print Assumptions right_join_left_unique_refuted.

Theorem streamed_path_left_name_refuted :       (* F-C02e *)
  (do p <- merge join_pairs (wargs MOrig 0 false false [1;2] [2;3]); Ok (map fst (snd p)))
  = Ok [N_left_map; N_right_map; nK; nV; nK ++ sufR; nW] /\
  (do p <- merge join_pairs (wargs MFixed 0 false false [1;2] [2;3]); Ok (map fst (snd p)))
  = Ok [N_left_map; N_right_map; nK ++ sufL; nV; nK ++ sufR; nW] /\
  map fst (merge_spec 0 [[1;2]] [[2;3]] (a_lcols (wargs MFixed 0 false false [1;2] [2;3]))
                      (a_rcols (wargs MFixed 0 false false [1;2] [2;3])) sufL sufR)
  = [nK ++ sufL; nV; nK ++ sufR; nW].
Proof. exact orig_left_name_unsuffixed. Qed.
Print Assumptions streamed_path_left_name_refuted.

(* ---- F-C02f, repaired by work/E7/fix-F-C02f.diff (operations.py): a key repeated on both sides gives the
   non-monotone right map [0;1;0;1]; the merge is the relational join, for a numeric and an indexed-string
   column on that side (the refutation of the code before the fix is Props/C04.v
   map_stream_unordered_map_refuted / indexed_stream_unordered_map_refuted) ----------------------------- *)
Theorem repeated_key_both_sides_fixed :         (* F-C02f *)
  map snd (join_spec true INVALID_INDEX_64 [0;0] [0;0]) = [0;1;0;1] /\
  data_cols (merge join_pairs f_args)
  = Ok (merge_spec 0 [[0;0]] [[0;0]] (a_lcols f_args) (a_rcols f_args) sufL sufR) /\
  data_cols (merge join_pairs f_args)
  = Ok [(nV, numcol [10;10;20;20]); (nW, numcol [30;40;30;40]); (nK, CIdx [0;1;3;4;6] [97;98;98;97;98;98])].
Proof. exact nonmonotone_map_ok. Qed.
Print Assumptions repeated_key_both_sides_fixed.

(* ---- the repaired tree: REFUTED, known finding (no small safe repair) ----------------------------- *)

Theorem long_run_raises_refuted :               (* F-C02g: ~LongRun is a necessary hypothesis *)
  merge join_pairs g_args = Raise E_ValueError.
Proof. exact long_run_raises. Qed.
Print Assumptions long_run_raises_refuted.

(* ==== strengthening SC02: key columns of any dtype, different on the two sides ==========================
   merge compares keys only through the numba kernels / pandas, on the two columns' own dtypes; the model joins on
   `list Z`.  A key column is sent to the model in an exact, strictly monotone integer encoding of its values
   (harness/props/C02.py _key_enc: integers as themselves; floats, and integers compared with floats, times 2^60;
   byte strings big-endian in 8 bytes).
   * The relational join — join_pairs / merge_pairs / merge_spec, all four modes, compound keys — does not change when
     every key value is sent through a map that is injective on the values present: the specification evaluated on
     the encoded keys IS the specification on the keys.
   * The streamed path of the repaired merge run on keys seen through a strictly monotone map (a lossless widening
     conversion) returns the destination of the relational join of the keys themselves, under the hypotheses of
     ordered_merge_correct_all stated on the keys themselves.
   * A conversion that is not injective on the keys present changes the join: the class of defect "harmonise the two
     key columns with a narrowing astype" (seeded change C02-r2-1), the defect of pandas 3.0 repaired by
     work/SC02/fix-F-C02h.diff, and the known finding F-C02i (mixed int64/uint64/float keys are compared as binary64;
     on the pandas path that is a cast of both columns: Model/KeyView.v key_view 1, wire flag kvs of Extract/E_C02.v),
     which needs a key of at least 2^53. *)
Theorem join_pairs_key_embedding :
  forall f how L R, inj_rows f L R -> join_pairs how (map (map f) L) (map (map f) R) = join_pairs how L R.
Proof. exact MergeView.join_pairs_key_embedding. Qed.
Print Assumptions join_pairs_key_embedding.

Theorem merge_spec_key_embedding :
  forall f how lkeys rkeys lcols rcols lsuf rsuf,
  cols_len (first_len lkeys) lkeys -> cols_len (first_len rkeys) rkeys ->
  inj_on f (concat lkeys ++ concat rkeys) ->
  merge_spec how (map (map f) lkeys) (map (map f) rkeys) lcols rcols lsuf rsuf
  = merge_spec how lkeys rkeys lcols rcols lsuf rsuf.
Proof. exact MergeView.merge_spec_key_embedding. Qed.
Print Assumptions merge_spec_key_embedding.

Theorem join_maps_key_embedding :
  forall f isl inv L R, inj_on f (L ++ R) -> join_spec isl inv (map f L) (map f R) = join_spec isl inv L R.
Proof. exact MergeView.join_spec_map. Qed.
Print Assumptions join_maps_key_embedding.

Theorem ordered_merge_key_embedding :
  forall f how lu ru lk rk lcols rcols lsuf rsuf cs mcs vf ccs,
  mono_on f (lk ++ rk) ->
  how = 0 \/ how = 1 \/ how = 2 -> 1 <= cs -> 1 <= mcs -> 0 <= vf -> 1 <= ccs ->
  hints_truthful lu ru lk rk ->
  frame_ok (len lk) lcols (mcs * vf) -> frame_ok (len rk) rcols (mcs * vf) ->
  NoDup (frame_names (ordered_dest how lu ru lk rk lcols rcols lsuf rsuf)) ->
  chunks_ok (v_kind (sel_variant how lu ru)) cs (sel_a how lk rk) (sel_b how lk rk) ->
  ordered_merge MFixed how lu ru (map f lk) (map f rk) lcols rcols lsuf rsuf (len lk) (len rk) cs mcs vf ccs
  = Ok (ordered_dest how lu ru lk rk lcols rcols lsuf rsuf).
Proof. exact MergeView.ordered_merge_key_embedding. Qed.
Print Assumptions ordered_merge_key_embedding.

(* its hypotheses on a non-trivial input (with all_hyps_nonvacuous_general for the remaining ones): integer keys seen
   through the scaling by 2^60 used when the other column is a float *)
Example key_embedding_nonvacuous :
  let f := fun z => z * 2 ^ 60 in
  mono_on f ([1;1;2;3] ++ [1;3;4]) /\
  ordered_merge MFixed 2 false false (map f [1;1;2;3]) (map f [1;3;4])
     [([107], CFix [0] [0] [[1];[1];[2];[3]])] [([107], CFix [0] [0] [[1];[3];[4]])] [95;108] [95;114] 4 3 3 2 2 2
  = Ok [ (N_left_map, map_column [0;1;3]); (N_right_map, map_column [0;0;1]);
         ([107;95;108], CFix [0] [0] [[1];[1];[3]]); ([107;95;114], CFix [0] [0] [[1];[1];[3]]) ].
Proof. exact key_embedding_example. Qed.

(* the view of the code under test is the identity on every key below 2^53, and when no pair is flagged *)
Theorem key_view_exact_below_2_53 : forall kv z, Z.abs z < 2 ^ 53 -> key_view kv z = z.
Proof. exact MergeView.key_view_exact_below_2_53. Qed.
Print Assumptions key_view_exact_below_2_53.

Theorem view_keys_exact :
  forall kvs cols, Forall (fun c => Forall (fun z => Z.abs z < 2 ^ 53) c) cols -> view_keys kvs cols = cols.
Proof. exact MergeView.view_keys_exact. Qed.
Print Assumptions view_keys_exact.

(* ---- conversions that are not injective on the keys present: REFUTED ------------------------------------ *)
Theorem narrowing_key_cast_refuted :            (* the class of seeded change C02-r2-1; F-C02h (pandas 3.0, repaired) *)
  (* int64 -> int32: the right key 2^32 + 2 is joined to the left key 2 *)
  join_pairs 0 [[2]] (map (map (wrap_signed 32)) [[2 ^ 32 + 2]]) <> join_pairs 0 [[2]] [[2 ^ 32 + 2]] /\
  (* int64 -> uint16: the right key 65536 is joined to the left key 0 *)
  join_pairs 2 [[0]] (map (map (wrap_unsigned 16)) [[65536]]) <> join_pairs 2 [[0]] [[65536]] /\
  (* float64 -> float32: 1 + 2^-30 is joined to 1 (keys scaled by 2^60) *)
  join_pairs 3 [[2 ^ 60]] (map (map (round_sig 24)) [[2 ^ 60 + 2 ^ 30]]) <> join_pairs 3 [[2 ^ 60]] [[2 ^ 60 + 2 ^ 30]] /\
  (* S5 -> S3: b"abcde" is joined to b"abc" *)
  join_pairs 1 [[enc_abc * 2 ^ 40]] (map (map (trunc_bytes 8 3)) [[enc_abcde * 2 ^ 24]])
  <> join_pairs 1 [[enc_abc * 2 ^ 40]] [[enc_abcde * 2 ^ 24]].
Proof.
  exact (conj wrap_int32_breaks_join (conj wrap_uint16_breaks_join (conj round_float32_breaks_join trunc_S3_breaks_join))).
Qed.
Print Assumptions narrowing_key_cast_refuted.

Theorem binary64_key_comparison_refuted :       (* F-C02i, known finding: the repaired tree, hint-free merge *)
  (* int64 left keys [2^53; 2^53 + 1], float64 right key [2^53]: pandas casts both columns to float64 (view flag 1) and
     both left rows get the right row; the relational join leaves the second one unmatched *)
  merge join_pairs (i_args true (2 ^ 53)) = Ok (false, [(nV, numcol [10;20]); (nW, numcol [30;30])]) /\
  merge_spec 0 [[2 ^ 53; 2 ^ 53 + 1]] [[2 ^ 53]] [(nV, numcol [10;20])] [(nW, numcol [30])] sufL sufR
  = [(nV, numcol [10;20]); (nW, numcol [30;0])] /\
  (* one bit lower the view changes nothing; at 2^53 an exactly compared pair gives the relational join (+ valid_r) *)
  merge join_pairs (i_args true (2 ^ 52)) = merge join_pairs (i_args false (2 ^ 52)) /\
  merge join_pairs (i_args false (2 ^ 53))
  = Ok (false, merge_spec 0 [[2 ^ 53; 2 ^ 53 + 1]] [[2 ^ 53]] [(nV, numcol [10;20])] [(nW, numcol [30])] sufL sufR
               ++ [(N_valid ++ sufR, CFix [0] [0] [[1];[0]])]).
Proof. exact binary64_comparison_breaks_merge. Qed.
Print Assumptions binary64_key_comparison_refuted.

(* ---- field names as data; destinations that hold fields; chains of merges (strengthening VC02) ------------ *)
Theorem merge_into_empty_destination :
  (* Model/MergeChain.v merge_into (merge into a destination that already holds fields) is merge when it holds none *)
  forall pd a, merge_into pd [] a = merge pd a.
Proof. exact merge_into_nil. Qed.
Print Assumptions merge_into_empty_destination.

Theorem payload_called_like_map_refuted :       (* F-C02j, known finding *)
  (* a left payload field called '_right_map', how='left': with the (truthful) ordered hints the streamed path has
     created its own '_right_map' before the payload is written and the call raises ValueError; without hints the merge
     is the relational join (plus valid_r) *)
  is_ordered (j_args true) = true /\
  merge join_pairs (j_args true) = Raise E_ValueError /\
  merge join_pairs (j_args false)
  = Ok (false, merge_spec 0 [[1;2;4]] [[2;3;4]] (a_lcols (j_args false)) (a_rcols (j_args false)) s_l s_r
               ++ [(N_valid ++ s_r, CFix [0] [0] [[0];[1];[1]])]).
Proof. exact payload_called_like_map_raises. Qed.
Print Assumptions payload_called_like_map_refuted.

Theorem payload_called_like_absent_map_is_data :
  (* the same payload name where the streamed path creates no '_right_map' of its own (how='right', left keys hinted
     unique): the payload is an ordinary column; the destination is '_left_map' followed by the relational join and the
     right frame's column comes out unchanged (the class of seeded change C02-r4-1: a map looked up by name after
     payload columns were written takes this column for the right map) *)
  exists m, merge join_pairs c_args
            = Ok (true, (N_left_map, m) ::
                        merge_spec 1 [[1;2;4]] [[2;3;4]] (a_lcols c_args) (a_rcols c_args) s_l s_r) /\
            frame_get (merge_spec 1 [[1;2;4]] [[2;3;4]] (a_lcols c_args) (a_rcols c_args) s_l s_r) nb = Some (ncol [7;8;9]).
Proof. exact MergeChainP.payload_called_like_absent_map_is_data. Qed.
Print Assumptions payload_called_like_absent_map_is_data.

Theorem chained_merge_map_field_is_payload :
  (* A left-join B (streamed, every hint) leaves '_right_map' in its destination; that destination right-join C (every
     hint): '_right_map' is a payload column of the left frame, the second destination is '_left_map' followed by the
     relational join of (first destination, C), and C's column is unchanged *)
  match merge_into join_pairs [] a1 with
  | Ok (_, d1) =>
    match chain_args a1 d1 st2 with
    | Some a2 =>
      name_in N_right_map (frame_names (a_lcols a2)) = true /\
      exists m, merge_chain join_pairs [] a1 st2
                = Ok (true, (N_left_map, m) ::
                            merge_spec 1 (a_lkeys a2) (a_rkeys a2) (a_lcols a2) (a_rcols a2) s_l s_r) /\
                frame_get (merge_spec 1 (a_lkeys a2) (a_rkeys a2) (a_lcols a2) (a_rcols a2) s_l s_r) nc
                = Some (ncol [1000;1001;1003;1004;1005;1009;1010])
    | None => False
    end
  | _ => False
  end.
Proof. exact chain_map_field_is_payload. Qed.
Print Assumptions chained_merge_map_field_is_payload.
