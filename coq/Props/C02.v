(* Props/C02.v — theorems of property C02 (statements only; proofs in coq/Proofs/Merge*.v). *)
From Coq Require Import ZArith List Lia Bool.
From EV Require Import Res Arr Join JoinSpec MapStream MapStreamSpec Merge MergeSpec.
Import ListNotations.
Open Scope Z_scope.

Theorem merge_invalid_is_sentinel : forall lu ru a b,
  merge_invalid lu ru a b = INVALID_INDEX_32 \/ merge_invalid lu ru a b = INVALID_INDEX_64.
Proof. intros. unfold merge_invalid. destruct (orb lu ru); [destruct (andb _ _)|]; auto. Qed.
Print Assumptions merge_invalid_is_sentinel.
