(* Props/C02.v — theorems of property C02 (statements only; proofs in coq/Proofs/Merge*.v).
   Model: coq/Model/Merge.v (MFixed = dataframe.py after work/C02/fix-F-C02[a-e].diff, MOrig = as found),
          composed with Model/Join.v (C03) and Model/MapStream.v (C04, version Fixed).
   Spec:  coq/Spec/MergeSpec.v (join_pairs, gather_col, merge_spec), Spec/JoinSpec.v, Spec/MapStreamSpec.v. *)
From Coq Require Import ZArith List Lia Bool.
From EV Require Import Res Arr Join JoinSpec JoinBase JoinIface JoinDriver JoinMain MapStream MapStreamSpec
  MapIndexedDriver Merge MergeSpec MergeBase MergeOrdered MergeMaps MergeTop MergeRows MergeRefuted.
Import ListNotations.
Open Scope Z_scope.

(* ---- the streamed path: FULL modulo the C03 statement of the selected generator ----------------
   For every how in {left,right,inner}, every pair of sorted key columns, every (truthful or not yet
   used) unique-hint pair, all column lists, all sizes and chunk sizes (join chunk size cs, map-stream
   chunk size mcs >= 1, value factor vf >= 0, chunked_copy size ccs >= 1): if the generator the repaired
   table selects satisfies C03's end-to-end statement (it returns the relational join or raises the
   clear long-run error), no key is repeated on both sides (nbd; else F-C02f), no run is as long as the
   chunk (else F-C02g), the columns are well formed and the destination names are distinct, then
   _ordered_merge terminates without error and the destination is exactly ordered_dest: the join maps,
   every left column gathered through the left side of the relational join and every right column through
   its right side (empty value where the side is unmatched), clashing names suffixed on both sides. *)
Section C02_streamed.
Variables (how:Z) (lu ru:bool) (lk rk:list Z) (lcols rcols:frame) (lsuf rsuf:list Z) (cs mcs vf ccs:Z).
Hypothesis C03_selected :
  let v := sel_variant how lu ru in
  let inv := merge_invalid lu ru (len lk) (len rk) in
  streamed v (sel_a how lk rk) (sel_b how lk rk) inv cs
    = Ok (expected (v_kind v) (v_left v) inv (sel_a how lk rk) (sel_b how lk rk)) \/
  (streamed v (sel_a how lk rk) (sel_b how lk rk) inv cs = Raise E_ValueError /\
   LongRun (v_kind v) (v_left v) (sel_a how lk rk) (sel_b how lk rk) cs).

Theorem ordered_merge_correct :
  how = 0 \/ how = 1 \/ how = 2 -> 1 <= mcs -> 0 <= vf -> 1 <= ccs ->
  sorted lk -> sorted rk ->
  nbd (sel_a how lk rk) (sel_b how lk rk) ->
  ~ LongRun (v_kind (sel_variant how lu ru)) (v_left (sel_variant how lu ru)) (sel_a how lk rk) (sel_b how lk rk) cs ->
  frame_ok (len lk) lcols (mcs * vf) -> frame_ok (len rk) rcols (mcs * vf) ->
  NoDup (frame_names (ordered_dest how lu ru lk rk lcols rcols lsuf rsuf)) ->
  ordered_merge MFixed how lu ru lk rk lcols rcols lsuf rsuf (len lk) (len rk) cs mcs vf ccs
  = Ok (ordered_dest how lu ru lk rk lcols rcols lsuf rsuf).
Proof.
  intros. apply (ordered_merge_correct_gen how lu ru lk rk lcols rcols lsuf rsuf cs mcs vf ccs C03_selected); assumption.
Qed.
End C02_streamed.
Print Assumptions ordered_merge_correct.

(* ---- both unique hints given and truthful: FULL, no hypothesis left ------------------------------
   (C03's streamed_both_unique_correct instantiates the section hypothesis; strictly increasing keys
   exclude F-C02f and F-C02g) *)
Theorem ordered_merge_both_unique_correct :
  forall how lk rk lcols rcols lsuf rsuf cs mcs vf ccs,
  how = 0 \/ how = 1 \/ how = 2 -> 1 <= cs -> 1 <= mcs -> 0 <= vf -> 1 <= ccs ->
  ssorted lk -> ssorted rk ->
  frame_ok (len lk) lcols (mcs * vf) -> frame_ok (len rk) rcols (mcs * vf) ->
  NoDup (frame_names (ordered_dest how true true lk rk lcols rcols lsuf rsuf)) ->
  ordered_merge MFixed how true true lk rk lcols rcols lsuf rsuf (len lk) (len rk) cs mcs vf ccs
  = Ok (ordered_dest how true true lk rk lcols rcols lsuf rsuf).
Proof. exact ordered_merge_both_unique. Qed.
Print Assumptions ordered_merge_both_unique_correct.

Example ordered_merge_both_unique_nonvacuous :
  ordered_merge MFixed 1 true true [1;2;4] [0;2;3;4]
     [([105;97], CFix [0] [0] [[10];[20];[30]]); ([120;97], CIdx [0;1;1;3] [97;99;99])]
     [([105;112], CFix [0] [0] [[1];[2];[3];[4]])] [95;108] [95;114] 3 4 2 2 1 2
  = Ok [ (N_left_map, map_column [INVALID_INDEX_32; 1; INVALID_INDEX_32; 2]);
         ([105;97], CFix [0] [0] [[0];[20];[0];[30]]); ([120;97], CIdx [0;0;0;0;2] [99;99]);
         ([105;112], CFix [0] [0] [[1];[2];[3];[4]]) ].
Proof. vm_compute. reflexivity. Qed.

(* ---- the destination holds exactly the rows of the relational join: PARTIAL -----------------------
   ordered_dest (what the streamed path produces, theorem above) = the two join-map fields followed by
   merge_spec: every left column gathered through the left side of join_pairs and every right column
   through its right side (None -> the type's empty value), names suffixed as documented, rows in the order
   of join_pairs (left/inner: left row order, i.e. non-decreasing key order; right: right row order).
   Proved for the variants that write both maps (no unique hint on the b side, and every how='inner').
   Missing (hence _partial): when the b side is unique the a-side columns are copied (chunked_copy) instead of
   mapped; that the copy equals gathering through [Some 0; ...; Some (n-1)] is left to the correspondence. *)
Theorem streamed_rows_are_join_partial :
  forall how lu ru lk rk lcols rcols lsuf rsuf,
  let inv := merge_invalid lu ru (len lk) (len rk) in
  how = 0 \/ how = 1 \/ how = 2 ->
  v_writes_l (sel_variant how lu ru) = true ->
  sorted lk -> sorted rk -> nbd (sel_a how lk rk) (sel_b how lk rk) ->
  len lk <= inv -> len rk <= inv ->
  idx_len_ok (len lk) lcols -> idx_len_ok (len rk) rcols ->
  ordered_dest how lu ru lk rk lcols rcols lsuf rsuf
  = map_fields (fst (jmaps how lu ru lk rk inv)) (snd (jmaps how lu ru lk rk inv)) ++
    merge_spec how [lk] [rk] lcols rcols lsuf rsuf.
Proof. exact ordered_dest_is_merge_spec. Qed.
Print Assumptions streamed_rows_are_join_partial.

Example streamed_rows_are_join_hyps :
  v_writes_l (sel_variant 1 false true) = true /\ sortedb [1;2;2;4] = true /\ ssortedb [0;2;3;4] = true /\
  len [1;2;2;4] <= merge_invalid false true 4 4.
Proof. repeat split; vm_compute; congruence. Qed.

(* ---- chunk sizes are unobservable on the streamed path (corollary; both-unique variants) -------- *)
Theorem chunk_sizes_unobservable_both_unique :
  forall how lk rk lcols rcols lsuf rsuf cs mcs vf ccs cs' mcs' vf' ccs',
  how = 0 \/ how = 1 \/ how = 2 ->
  1 <= cs -> 1 <= mcs -> 0 <= vf -> 1 <= ccs -> 1 <= cs' -> 1 <= mcs' -> 0 <= vf' -> 1 <= ccs' ->
  ssorted lk -> ssorted rk ->
  frame_ok (len lk) lcols (mcs * vf) -> frame_ok (len rk) rcols (mcs * vf) ->
  frame_ok (len lk) lcols (mcs' * vf') -> frame_ok (len rk) rcols (mcs' * vf') ->
  NoDup (frame_names (ordered_dest how true true lk rk lcols rcols lsuf rsuf)) ->
  ordered_merge MFixed how true true lk rk lcols rcols lsuf rsuf (len lk) (len rk) cs mcs vf ccs
  = ordered_merge MFixed how true true lk rk lcols rcols lsuf rsuf (len lk) (len rk) cs' mcs' vf' ccs'.
Proof.
  intros. rewrite !ordered_merge_both_unique by assumption. reflexivity.
Qed.
Print Assumptions chunk_sizes_unobservable_both_unique.

(* ---- the two join maps of sorted key columns meet C04's precondition: FULL ---------------------- *)
Theorem join_left_map_valid : forall emit inv L R, valid_map (len L) inv (map fst (join_spec emit inv L R)).
Proof. exact join_fst_valid. Qed.
Print Assumptions join_left_map_valid.

Theorem join_right_map_valid : forall emit inv L R, sorted L -> sorted R -> nbd L R ->
  valid_map (len R) inv (map snd (join_spec emit inv L R)).
Proof. exact join_snd_valid. Qed.
Print Assumptions join_right_map_valid.

Theorem truthful_unique_hint_excludes_repeats : forall L R, (ssorted L \/ ssorted R) -> nbd L R.
Proof. intros L R [H|H]; [apply nbd_left_unique|apply nbd_right_unique]; exact H. Qed.
Print Assumptions truthful_unique_hint_excludes_repeats.

(* ---- merge(): validation passes and the streamed path is taken exactly when documented: FULL ---- *)
Theorem merge_takes_streamed_path :
  forall pd ver how lu ru lk rk lcols rcols lsuf rsuf cs mcs vf ccs,
  how = 0 \/ how = 1 \/ how = 2 ->
  (forall f, In f lcols -> col_len (snd f) = len lk) -> (forall f, In f rcols -> col_len (snd f) = len rk) ->
  merge pd (mk_margs ver how true lu true ru [lk] [rk] lcols rcols lsuf rsuf cs mcs vf ccs)
  = (do d <- ordered_merge ver how lu ru lk rk lcols rcols lsuf rsuf (len lk) (len rk) cs mcs vf ccs; Ok (true, d)).
Proof. exact merge_streamed_path. Qed.
Print Assumptions merge_takes_streamed_path.

Theorem unique_hints_unread_on_pandas_path :
  forall pd ver how lo lu ru ro lu' ru' lkeys rkeys lcols rcols lsuf rsuf cs mcs vf ccs,
  is_ordered (mk_margs ver how lo lu ro ru lkeys rkeys lcols rcols lsuf rsuf cs mcs vf ccs) = false ->
  merge pd (mk_margs ver how lo lu' ro ru' lkeys rkeys lcols rcols lsuf rsuf cs mcs vf ccs)
  = merge pd (mk_margs ver how lo lu ro ru lkeys rkeys lcols rcols lsuf rsuf cs mcs vf ccs).
Proof. exact MergeTop.unique_hints_unread_on_pandas_path. Qed.
Print Assumptions unique_hints_unread_on_pandas_path.

Theorem chunked_copy_is_identity : forall c cs, 1 <= cs -> chunked_copy c cs = Ok c.
Proof. exact chunked_copy_id. Qed.
Print Assumptions chunked_copy_is_identity.

(* ---- the call-site table as found: REFUTED (witnesses replayed on the real code, corpus/C02) ---- *)
Theorem inner_unique_hint_raises_refuted :      (* F-C02a *)
  merge join_pairs (wargs MOrig 2 true false [1;2;4] [2;2;4]) = Raise E_TypeError /\
  data_cols (merge join_pairs (wargs MFixed 2 true false [1;2;4] [2;2;4]))
  = Ok (merge_spec 2 [[1;2;4]] [[2;2;4]] (a_lcols (wargs MFixed 2 true false [1;2;4] [2;2;4]))
                   (a_rcols (wargs MFixed 2 true false [1;2;4] [2;2;4])) sufL sufR).
Proof. exact orig_inner_unique_raises. Qed.
Print Assumptions inner_unique_hint_raises_refuted.

Theorem right_join_unmatched_row_refuted :      (* F-C02c *)
  (exists e, merge join_pairs (wargs MOrig 1 false false [2;4] [1;2;4]) = e /\ is_ok e = false) /\
  data_cols (merge join_pairs (wargs MFixed 1 false false [2;4] [1;2;4]))
  = Ok (merge_spec 1 [[2;4]] [[1;2;4]] (a_lcols (wargs MFixed 1 false false [2;4] [1;2;4]))
                   (a_rcols (wargs MFixed 1 false false [2;4] [1;2;4])) sufL sufR).
Proof. exact orig_right_unmatched_fails. Qed.
Print Assumptions right_join_unmatched_row_refuted.

Theorem right_join_left_unique_refuted :        (* F-C02d *)
  merge join_pairs (wargs MOrig 1 true false [1;2;4] [2;2;4]) = Raise E_ValueError /\
  data_cols (merge join_pairs (wargs MFixed 1 true false [1;2;4] [2;2;4]))
  = Ok (merge_spec 1 [[1;2;4]] [[2;2;4]] (a_lcols (wargs MFixed 1 true false [1;2;4] [2;2;4]))
                   (a_rcols (wargs MFixed 1 true false [1;2;4] [2;2;4])) sufL sufR).
Proof. exact orig_right_unique_raises. Qed.
Print Assumptions right_join_left_unique_refuted.

Theorem streamed_path_left_name_refuted :       (* F-C02e *)
  (do p <- merge join_pairs (wargs MOrig 0 false false [1;2] [2;3]); Ok (map fst (snd p)))
  = Ok [N_left_map; N_right_map; nK; nV; nK ++ sufR; nW] /\
  (do p <- merge join_pairs (wargs MFixed 0 false false [1;2] [2;3]); Ok (map fst (snd p)))
  = Ok [N_left_map; N_right_map; nK ++ sufL; nV; nK ++ sufR; nW] /\
  map fst (merge_spec 0 [[1;2]] [[2;3]] (a_lcols (wargs MFixed 0 false false [1;2] [2;3]))
                      (a_rcols (wargs MFixed 0 false false [1;2] [2;3])) sufL sufR)
  = [nK ++ sufL; nV; nK ++ sufR; nW].
Proof. exact orig_left_name_unsuffixed. Qed.
Print Assumptions streamed_path_left_name_refuted.

(* ---- the repaired tree: REFUTED, known findings (no small safe repair) --------------------------- *)
Theorem repeated_key_both_sides_refuted :       (* F-C02f: nbd is a necessary hypothesis *)
  (exists site, merge join_pairs f_args = OOB site) /\
  map snd (join_spec true INVALID_INDEX_64 [0;0] [0;0]) = [0;1;0;1].
Proof. exact nonmonotone_map_fails. Qed.
Print Assumptions repeated_key_both_sides_refuted.

Theorem long_run_raises_refuted :               (* F-C02g: ~LongRun is a necessary hypothesis *)
  merge join_pairs g_args = Raise E_ValueError.
Proof. exact long_run_raises. Qed.
Print Assumptions long_run_raises_refuted.
