(* Props/C02.v — theorems of property C02 (statements only; proofs in coq/Proofs/Merge*.v).
   Model: coq/Model/Merge.v (MFixed = dataframe.py after work/C02/fix-F-C02[a-e].diff, MOrig = as found),
          composed with Model/Join.v (C03) and Model/MapStream.v (C04, version Fixed).
   Spec:  coq/Spec/MergeSpec.v (join_pairs, gather_col, merge_spec), Spec/JoinSpec.v, Spec/MapStreamSpec.v. *)
From Coq Require Import ZArith List Lia Bool.
From EV Require Import Res Arr Join JoinSpec JoinBase JoinIface JoinDriver JoinMain MapStream MapStreamSpec
  MapIndexedDriver Merge MergeSpec MergeBase MergeOrdered MergeMaps MergeTop MergeRows MergeRefuted
  JoinAll MergeAll MergeCopy MergeShape.
Import ListNotations.
Open Scope Z_scope.

(* ---- the streamed path: FULL modulo the C03 statement of the selected generator ----------------
   (kept as first delivered; SUPERSEDED by ordered_merge_total_all / ordered_merge_correct_all below, where the
   Section hypothesis C03_selected is discharged by C03's JoinAll.streamed_total for all eight generators)
   For every how in {left,right,inner}, every pair of sorted key columns, every (truthful or not yet
   used) unique-hint pair, all column lists, all sizes and chunk sizes (join chunk size cs, map-stream
   chunk size mcs >= 1, value factor vf >= 0, chunked_copy size ccs >= 1): if the generator the repaired
   table selects satisfies C03's end-to-end statement (it returns the relational join or raises the
   clear long-run error), no key is repeated on both sides (nbd; else F-C02f), no run is as long as the
   chunk (else F-C02g), the columns are well formed and the destination names are distinct, then
   _ordered_merge terminates without error and the destination is exactly ordered_dest: the join maps,
   every left column gathered through the left side of the relational join and every right column through
   its right side (empty value where the side is unmatched), clashing names suffixed on both sides. *)
Section C02_streamed.
Variables (how:Z) (lu ru:bool) (lk rk:list Z) (lcols rcols:frame) (lsuf rsuf:list Z) (cs mcs vf ccs:Z).
Hypothesis C03_selected :
  let v := sel_variant how lu ru in
  let inv := merge_invalid lu ru (len lk) (len rk) in
  streamed v (sel_a how lk rk) (sel_b how lk rk) inv cs
    = Ok (expected (v_kind v) (v_left v) inv (sel_a how lk rk) (sel_b how lk rk)) \/
  (streamed v (sel_a how lk rk) (sel_b how lk rk) inv cs = Raise E_ValueError /\
   LongRun (v_kind v) (v_left v) (sel_a how lk rk) (sel_b how lk rk) cs).

Theorem ordered_merge_correct :
  how = 0 \/ how = 1 \/ how = 2 -> 1 <= mcs -> 0 <= vf -> 1 <= ccs ->
  sorted lk -> sorted rk ->
  nbd (sel_a how lk rk) (sel_b how lk rk) ->
  ~ LongRun (v_kind (sel_variant how lu ru)) (v_left (sel_variant how lu ru)) (sel_a how lk rk) (sel_b how lk rk) cs ->
  frame_ok (len lk) lcols (mcs * vf) -> frame_ok (len rk) rcols (mcs * vf) ->
  NoDup (frame_names (ordered_dest how lu ru lk rk lcols rcols lsuf rsuf)) ->
  ordered_merge MFixed how lu ru lk rk lcols rcols lsuf rsuf (len lk) (len rk) cs mcs vf ccs
  = Ok (ordered_dest how lu ru lk rk lcols rcols lsuf rsuf).
Proof.
  intros. apply (ordered_merge_correct_gen how lu ru lk rk lcols rcols lsuf rsuf cs mcs vf ccs C03_selected); assumption.
Qed.
End C02_streamed.
Print Assumptions ordered_merge_correct.

(* ---- both unique hints given and truthful: FULL, no hypothesis left ------------------------------
   (C03's streamed_both_unique_correct instantiates the section hypothesis; strictly increasing keys
   exclude F-C02f and F-C02g) *)
Theorem ordered_merge_both_unique_correct :
  forall how lk rk lcols rcols lsuf rsuf cs mcs vf ccs,
  how = 0 \/ how = 1 \/ how = 2 -> 1 <= cs -> 1 <= mcs -> 0 <= vf -> 1 <= ccs ->
  ssorted lk -> ssorted rk ->
  frame_ok (len lk) lcols (mcs * vf) -> frame_ok (len rk) rcols (mcs * vf) ->
  NoDup (frame_names (ordered_dest how true true lk rk lcols rcols lsuf rsuf)) ->
  ordered_merge MFixed how true true lk rk lcols rcols lsuf rsuf (len lk) (len rk) cs mcs vf ccs
  = Ok (ordered_dest how true true lk rk lcols rcols lsuf rsuf).
Proof. exact ordered_merge_both_unique. Qed.
Print Assumptions ordered_merge_both_unique_correct.

Example ordered_merge_both_unique_nonvacuous :
  ordered_merge MFixed 1 true true [1;2;4] [0;2;3;4]
     [([105;97], CFix [0] [0] [[10];[20];[30]]); ([120;97], CIdx [0;1;1;3] [97;99;99])]
     [([105;112], CFix [0] [0] [[1];[2];[3];[4]])] [95;108] [95;114] 3 4 2 2 1 2
  = Ok [ (N_left_map, map_column [INVALID_INDEX_32; 1; INVALID_INDEX_32; 2]);
         ([105;97], CFix [0] [0] [[0];[20];[0];[30]]); ([120;97], CIdx [0;0;0;0;2] [99;99]);
         ([105;112], CFix [0] [0] [[1];[2];[3];[4]]) ].
Proof. vm_compute. reflexivity. Qed.

(* ==== extension E4 (1): NO hypothesis about C03 left — every how in {left,right,inner} x every unique-hint pair ====
   C03_selected is now the lemma MergeAll.C03_selected_all (= JoinAll.streamed_total on the generator and the (a,b)
   argument order the repaired table selects).  C02's preconditions in the caller's vocabulary:
     hints_truthful lu ru lk rk   both key columns sorted (the two ordered hints) and strictly sorted where a unique
                                  hint is given; equivalent to C03's kind_pre of the selected generator
                                  (hints_are_kind_pre);
     chunks_ok k cs A B           C03's chunk-size precondition (every window of cs keys of a trimmed side holds two
                                  different adjacent keys) — or the weaker ~LongRun;
     nbd A B                      no key repeated on both sides (F-C02f); follows from any truthful unique hint. *)
Theorem hints_are_kind_pre : forall how lu ru lk rk,
  hints_truthful lu ru lk rk <->
  kind_pre (v_kind (sel_variant how lu ru)) (sel_a how lk rk) (sel_b how lk rk).
Proof. exact sel_kind_pre. Qed.
Print Assumptions hints_are_kind_pre.

(* total form: the destination of the relational join, or the clear ValueError and then a long run exists *)
Theorem ordered_merge_total_all :
  forall how lu ru lk rk lcols rcols lsuf rsuf cs mcs vf ccs,
  how = 0 \/ how = 1 \/ how = 2 -> 1 <= cs -> 1 <= mcs -> 0 <= vf -> 1 <= ccs ->
  hints_truthful lu ru lk rk ->
  nbd (sel_a how lk rk) (sel_b how lk rk) ->
  frame_ok (len lk) lcols (mcs * vf) -> frame_ok (len rk) rcols (mcs * vf) ->
  NoDup (frame_names (ordered_dest how lu ru lk rk lcols rcols lsuf rsuf)) ->
  ordered_merge MFixed how lu ru lk rk lcols rcols lsuf rsuf (len lk) (len rk) cs mcs vf ccs
    = Ok (ordered_dest how lu ru lk rk lcols rcols lsuf rsuf) \/
  (ordered_merge MFixed how lu ru lk rk lcols rcols lsuf rsuf (len lk) (len rk) cs mcs vf ccs = Raise E_ValueError /\
   LongRun (v_kind (sel_variant how lu ru)) (v_left (sel_variant how lu ru)) (sel_a how lk rk) (sel_b how lk rk) cs).
Proof. exact MergeAll.ordered_merge_total_all. Qed.
Print Assumptions ordered_merge_total_all.

Theorem ordered_merge_correct_all :
  forall how lu ru lk rk lcols rcols lsuf rsuf cs mcs vf ccs,
  how = 0 \/ how = 1 \/ how = 2 -> 1 <= cs -> 1 <= mcs -> 0 <= vf -> 1 <= ccs ->
  hints_truthful lu ru lk rk ->
  nbd (sel_a how lk rk) (sel_b how lk rk) ->
  frame_ok (len lk) lcols (mcs * vf) -> frame_ok (len rk) rcols (mcs * vf) ->
  NoDup (frame_names (ordered_dest how lu ru lk rk lcols rcols lsuf rsuf)) ->
  chunks_ok (v_kind (sel_variant how lu ru)) cs (sel_a how lk rk) (sel_b how lk rk) ->
  ordered_merge MFixed how lu ru lk rk lcols rcols lsuf rsuf (len lk) (len rk) cs mcs vf ccs
  = Ok (ordered_dest how lu ru lk rk lcols rcols lsuf rsuf).
Proof. exact MergeAll.ordered_merge_correct_all. Qed.
Print Assumptions ordered_merge_correct_all.

(* the same under the weakest form of the chunk-size precondition (the one ordered_merge_correct assumed) *)
Theorem ordered_merge_correct_no_long_run :
  forall how lu ru lk rk lcols rcols lsuf rsuf cs mcs vf ccs,
  how = 0 \/ how = 1 \/ how = 2 -> 1 <= cs -> 1 <= mcs -> 0 <= vf -> 1 <= ccs ->
  hints_truthful lu ru lk rk ->
  nbd (sel_a how lk rk) (sel_b how lk rk) ->
  frame_ok (len lk) lcols (mcs * vf) -> frame_ok (len rk) rcols (mcs * vf) ->
  NoDup (frame_names (ordered_dest how lu ru lk rk lcols rcols lsuf rsuf)) ->
  ~ LongRun (v_kind (sel_variant how lu ru)) (v_left (sel_variant how lu ru)) (sel_a how lk rk) (sel_b how lk rk) cs ->
  ordered_merge MFixed how lu ru lk rk lcols rcols lsuf rsuf (len lk) (len rk) cs mcs vf ccs
  = Ok (ordered_dest how lu ru lk rk lcols rcols lsuf rsuf).
Proof. exact MergeAll.ordered_merge_correct_nolong. Qed.
Print Assumptions ordered_merge_correct_no_long_run.

(* any truthful unique hint (left, right or both): nbd is discharged too *)
Theorem ordered_merge_unique_hint_correct :
  forall how lu ru lk rk lcols rcols lsuf rsuf cs mcs vf ccs,
  how = 0 \/ how = 1 \/ how = 2 -> 1 <= cs -> 1 <= mcs -> 0 <= vf -> 1 <= ccs ->
  lu = true \/ ru = true -> hints_truthful lu ru lk rk ->
  chunks_ok (v_kind (sel_variant how lu ru)) cs (sel_a how lk rk) (sel_b how lk rk) ->
  frame_ok (len lk) lcols (mcs * vf) -> frame_ok (len rk) rcols (mcs * vf) ->
  NoDup (frame_names (ordered_dest how lu ru lk rk lcols rcols lsuf rsuf)) ->
  ordered_merge MFixed how lu ru lk rk lcols rcols lsuf rsuf (len lk) (len rk) cs mcs vf ccs
  = Ok (ordered_dest how lu ru lk rk lcols rcols lsuf rsuf).
Proof. exact MergeAll.ordered_merge_unique_hint_correct. Qed.
Print Assumptions ordered_merge_unique_hint_correct.

(* on truthful hints _ordered_merge never reads out of bounds, always terminates, and the only exception it can
   raise is the ValueError of a chunk that is one run *)
Theorem ordered_merge_raises_only_value_error :
  forall how lu ru lk rk lcols rcols lsuf rsuf cs mcs vf ccs,
  how = 0 \/ how = 1 \/ how = 2 -> 1 <= cs -> 1 <= mcs -> 0 <= vf -> 1 <= ccs ->
  hints_truthful lu ru lk rk ->
  nbd (sel_a how lk rk) (sel_b how lk rk) ->
  frame_ok (len lk) lcols (mcs * vf) -> frame_ok (len rk) rcols (mcs * vf) ->
  NoDup (frame_names (ordered_dest how lu ru lk rk lcols rcols lsuf rsuf)) ->
  forall c, ordered_merge MFixed how lu ru lk rk lcols rcols lsuf rsuf (len lk) (len rk) cs mcs vf ccs = Raise c ->
  c = E_ValueError /\ ~ chunks_ok (v_kind (sel_variant how lu ru)) cs (sel_a how lk rk) (sel_b how lk rk).
Proof. exact MergeAll.ordered_merge_raises_only_value_error. Qed.
Print Assumptions ordered_merge_raises_only_value_error.

Theorem ordered_merge_no_oob :
  forall how lu ru lk rk lcols rcols lsuf rsuf cs mcs vf ccs,
  how = 0 \/ how = 1 \/ how = 2 -> 1 <= cs -> 1 <= mcs -> 0 <= vf -> 1 <= ccs ->
  hints_truthful lu ru lk rk ->
  nbd (sel_a how lk rk) (sel_b how lk rk) ->
  frame_ok (len lk) lcols (mcs * vf) -> frame_ok (len rk) rcols (mcs * vf) ->
  NoDup (frame_names (ordered_dest how lu ru lk rk lcols rcols lsuf rsuf)) ->
  forall site, ordered_merge MFixed how lu ru lk rk lcols rcols lsuf rsuf (len lk) (len rk) cs mcs vf ccs <> OOB site.
Proof. exact MergeAll.ordered_merge_no_oob. Qed.
Print Assumptions ordered_merge_no_oob.

Theorem ordered_merge_terminates :
  forall how lu ru lk rk lcols rcols lsuf rsuf cs mcs vf ccs,
  how = 0 \/ how = 1 \/ how = 2 -> 1 <= cs -> 1 <= mcs -> 0 <= vf -> 1 <= ccs ->
  hints_truthful lu ru lk rk ->
  nbd (sel_a how lk rk) (sel_b how lk rk) ->
  frame_ok (len lk) lcols (mcs * vf) -> frame_ok (len rk) rcols (mcs * vf) ->
  NoDup (frame_names (ordered_dest how lu ru lk rk lcols rcols lsuf rsuf)) ->
  ordered_merge MFixed how lu ru lk rk lcols rcols lsuf rsuf (len lk) (len rk) cs mcs vf ccs <> OutOfFuel.
Proof. exact MergeAll.ordered_merge_terminates. Qed.
Print Assumptions ordered_merge_terminates.

(* chunk sizes are unobservable for every variant *)
Theorem chunk_sizes_unobservable_all :
  forall how lu ru lk rk lcols rcols lsuf rsuf cs mcs vf ccs cs' mcs' vf' ccs',
  how = 0 \/ how = 1 \/ how = 2 ->
  1 <= cs -> 1 <= mcs -> 0 <= vf -> 1 <= ccs -> 1 <= cs' -> 1 <= mcs' -> 0 <= vf' -> 1 <= ccs' ->
  hints_truthful lu ru lk rk -> nbd (sel_a how lk rk) (sel_b how lk rk) ->
  chunks_ok (v_kind (sel_variant how lu ru)) cs (sel_a how lk rk) (sel_b how lk rk) ->
  chunks_ok (v_kind (sel_variant how lu ru)) cs' (sel_a how lk rk) (sel_b how lk rk) ->
  frame_ok (len lk) lcols (mcs * vf) -> frame_ok (len rk) rcols (mcs * vf) ->
  frame_ok (len lk) lcols (mcs' * vf') -> frame_ok (len rk) rcols (mcs' * vf') ->
  NoDup (frame_names (ordered_dest how lu ru lk rk lcols rcols lsuf rsuf)) ->
  ordered_merge MFixed how lu ru lk rk lcols rcols lsuf rsuf (len lk) (len rk) cs mcs vf ccs
  = ordered_merge MFixed how lu ru lk rk lcols rcols lsuf rsuf (len lk) (len rk) cs' mcs' vf' ccs'.
Proof. exact MergeAll.chunk_sizes_unobservable_all. Qed.
Print Assumptions chunk_sizes_unobservable_all.

(* the hypotheses are satisfiable outside the both-unique variants: how='left' with a truthful right-unique hint
   (left side trimmed and refilled, left columns copied), and how='inner' with the general generator *)
Example all_hyps_nonvacuous_right_unique :
  hints_truthful false true [1;2;2;5] [0;2;3;4] /\
  nbd (sel_a 0 [1;2;2;5] [0;2;3;4]) (sel_b 0 [1;2;2;5] [0;2;3;4]) /\
  chunks_ok (v_kind (sel_variant 0 false true)) 3 (sel_a 0 [1;2;2;5] [0;2;3;4]) (sel_b 0 [1;2;2;5] [0;2;3;4]) /\
  v_writes_l (sel_variant 0 false true) = false /\
  ordered_merge MFixed 0 false true [1;2;2;5] [0;2;3;4]
     [([107], CFix [0] [0] [[1];[2];[2];[5]]); ([120;97], CIdx [0;1;1;3;4] [97;99;99;100])]
     [([105;112], CFix [0] [0] [[10];[20];[30];[40]])] [95;108] [95;114] 4 4 3 2 2 2
  = Ok [ (N_right_map, map_column [INVALID_INDEX_32; 1; 1; INVALID_INDEX_32]);
         ([107], CFix [0] [0] [[1];[2];[2];[5]]); ([120;97], CIdx [0;1;1;3;4] [97;99;99;100]);
         ([105;112], CFix [0] [0] [[0];[20];[20];[0]]) ] /\
  dest_keys 0 [1;2;2;5] [0;2;3;4] = [1;2;2;5].
Proof. exact all_hyps_example_ru. Qed.

Example all_hyps_nonvacuous_general :
  hints_truthful false false [1;1;2;3] [1;3;4] /\
  nbd (sel_a 2 [1;1;2;3] [1;3;4]) (sel_b 2 [1;1;2;3] [1;3;4]) /\
  chunks_ok (v_kind (sel_variant 2 false false)) 3 (sel_a 2 [1;1;2;3] [1;3;4]) (sel_b 2 [1;1;2;3] [1;3;4]) /\
  ordered_merge MFixed 2 false false [1;1;2;3] [1;3;4]
     [([107], CFix [0] [0] [[1];[1];[2];[3]])] [([107], CFix [0] [0] [[1];[3];[4]])] [95;108] [95;114] 4 3 3 2 2 2
  = Ok [ (N_left_map, map_column [0;1;3]); (N_right_map, map_column [0;0;1]);
         ([107;95;108], CFix [0] [0] [[1];[1];[3]]); ([107;95;114], CFix [0] [0] [[1];[1];[3]]) ] /\
  dest_keys 2 [1;1;2;3] [1;3;4] = [1;1;3].
Proof. exact all_hyps_example_gen. Qed.

(* ---- the destination holds exactly the rows of the relational join: PARTIAL -----------------------
   ordered_dest (what the streamed path produces, theorem above) = the two join-map fields followed by
   merge_spec: every left column gathered through the left side of join_pairs and every right column
   through its right side (None -> the type's empty value), names suffixed as documented, rows in the order
   of join_pairs (left/inner: left row order, i.e. non-decreasing key order; right: right row order).
   Proved for the variants that write both maps (no unique hint on the b side, and every how='inner').
   Missing (hence _partial): when the b side is unique the a-side columns are copied (chunked_copy) instead of
   mapped.  SUPERSEDED by streamed_rows_are_join below (extension E4), which proves that half; kept because its
   column hypothesis (idx_len_ok) is weaker than the frame_wf of the full theorem. *)
Theorem streamed_rows_are_join_partial :
  forall how lu ru lk rk lcols rcols lsuf rsuf,
  let inv := merge_invalid lu ru (len lk) (len rk) in
  how = 0 \/ how = 1 \/ how = 2 ->
  v_writes_l (sel_variant how lu ru) = true ->
  sorted lk -> sorted rk -> nbd (sel_a how lk rk) (sel_b how lk rk) ->
  len lk <= inv -> len rk <= inv ->
  idx_len_ok (len lk) lcols -> idx_len_ok (len rk) rcols ->
  ordered_dest how lu ru lk rk lcols rcols lsuf rsuf
  = map_fields (fst (jmaps how lu ru lk rk inv)) (snd (jmaps how lu ru lk rk inv)) ++
    merge_spec how [lk] [rk] lcols rcols lsuf rsuf.
Proof. exact ordered_dest_is_merge_spec. Qed.
Print Assumptions streamed_rows_are_join_partial.

Example streamed_rows_are_join_hyps :
  v_writes_l (sel_variant 1 false true) = true /\ sortedb [1;2;2;4] = true /\ ssortedb [0;2;3;4] = true /\
  len [1;2;2;4] <= merge_invalid false true 4 4.
Proof. repeat split; vm_compute; congruence. Qed.

(* ==== extension E4 (2): the copied side; the theorem above becomes FULL =========================================
   When the b side of the selected generator carries a unique hint, _ordered_merge writes no a-side map and copies
   the a-side columns with chunked_copy (= identity, chunked_copy_is_identity).  If the hint is truthful every a row
   has exactly one row in the join, the a side of join_pairs is [Some 0; ...; Some (n-1)]
   (unique_side_pairs_all_rows), and gathering a well-formed column of n rows through that list gives the column back
   (copy_is_gather_all_rows; indexed columns: offsets start at 0, are sorted and end at |values|, so the column is the
   encoding of its own entries).  frame_wf = frame_ok without the value-buffer bound. *)
Theorem copy_is_gather_all_rows :
  forall c n,
  match c with
  | CFix _ _ d => len d = n
  | CIdx idx vals => wf_indexed idx vals /\ len idx - 1 = n
  end -> gather_col c (all_rows n) = c.
Proof. exact gather_all_rows. Qed.
Print Assumptions copy_is_gather_all_rows.

Theorem unique_side_pairs_all_rows :
  forall inv L R, len R <= inv -> ssorted R ->
  map fst (left_pairs (map single L) (map single R) 0) = all_rows (len L).
Proof. exact left_pairs_fst_all. Qed.
Print Assumptions unique_side_pairs_all_rows.

Theorem streamed_rows_are_join :
  forall how lu ru lk rk lcols rcols lsuf rsuf,
  let inv := merge_invalid lu ru (len lk) (len rk) in
  how = 0 \/ how = 1 \/ how = 2 ->
  sorted lk -> sorted rk -> nbd (sel_a how lk rk) (sel_b how lk rk) ->
  (v_writes_l (sel_variant how lu ru) = false -> ssorted (sel_b how lk rk)) ->
  len lk <= inv -> len rk <= inv ->
  frame_wf (len lk) lcols -> frame_wf (len rk) rcols ->
  ordered_dest how lu ru lk rk lcols rcols lsuf rsuf
  = map_fields (fst (jmaps how lu ru lk rk inv)) (snd (jmaps how lu ru lk rk inv)) ++
    merge_spec how [lk] [rk] lcols rcols lsuf rsuf.
Proof. exact ordered_dest_is_merge_spec_all. Qed.
Print Assumptions streamed_rows_are_join.

Example streamed_rows_are_join_copy_hyps :
  v_writes_l (sel_variant 0 false true) = false /\ sortedb [1;2;2;5] = true /\ ssortedb (sel_b 0 [1;2;2;5] [0;2;3;4]) = true /\
  len [1;2;2;5] <= merge_invalid false true 4 4.
Proof. repeat split; vm_compute; congruence. Qed.

(* end to end, nothing assumed about C03 or C04: _ordered_merge returns the two join-map fields followed by merge_spec
   (lengths up to 2^62 rows, the 64-bit marker) *)
Theorem ordered_merge_is_relational_join :
  forall how lu ru lk rk lcols rcols lsuf rsuf cs mcs vf ccs,
  how = 0 \/ how = 1 \/ how = 2 -> 1 <= cs -> 1 <= mcs -> 0 <= vf -> 1 <= ccs ->
  hints_truthful lu ru lk rk ->
  nbd (sel_a how lk rk) (sel_b how lk rk) ->
  chunks_ok (v_kind (sel_variant how lu ru)) cs (sel_a how lk rk) (sel_b how lk rk) ->
  frame_ok (len lk) lcols (mcs * vf) -> frame_ok (len rk) rcols (mcs * vf) ->
  NoDup (frame_names (ordered_dest how lu ru lk rk lcols rcols lsuf rsuf)) ->
  len lk <= INVALID_INDEX_64 -> len rk <= INVALID_INDEX_64 ->
  ordered_merge MFixed how lu ru lk rk lcols rcols lsuf rsuf (len lk) (len rk) cs mcs vf ccs
  = Ok (map_fields (fst (jmaps how lu ru lk rk (merge_invalid lu ru (len lk) (len rk))))
                   (snd (jmaps how lu ru lk rk (merge_invalid lu ru (len lk) (len rk)))) ++
        merge_spec how [lk] [rk] lcols rcols lsuf rsuf).
Proof. exact MergeShape.ordered_merge_is_relational_join. Qed.
Print Assumptions ordered_merge_is_relational_join.

(* ==== extension E4 (3): corollaries of ordered_dest / merge_spec, stated on their own ============================ *)
(* (a) every destination column has the same length: one row per row of the relational join *)
Theorem merge_spec_columns_same_length :
  forall how lkeys rkeys lcols rcols lsuf rsuf f,
  In f (merge_spec how lkeys rkeys lcols rcols lsuf rsuf) ->
  col_len (snd f) = len (merge_pairs how lkeys rkeys).
Proof. exact merge_spec_same_length. Qed.
Print Assumptions merge_spec_columns_same_length.

Theorem ordered_dest_columns_same_length :
  forall how lu ru lk rk lcols rcols lsuf rsuf,
  let inv := merge_invalid lu ru (len lk) (len rk) in
  how = 0 \/ how = 1 \/ how = 2 ->
  sorted lk -> sorted rk -> nbd (sel_a how lk rk) (sel_b how lk rk) ->
  (v_writes_l (sel_variant how lu ru) = false -> ssorted (sel_b how lk rk)) ->
  len lk <= inv -> len rk <= inv ->
  frame_wf (len lk) lcols -> frame_wf (len rk) rcols ->
  forall f, In f (ordered_dest how lu ru lk rk lcols rcols lsuf rsuf) ->
  col_len (snd f) = len (merge_pairs how [lk] [rk]).
Proof. exact ordered_dest_same_length. Qed.
Print Assumptions ordered_dest_columns_same_length.

Theorem ordered_merge_columns_same_length :
  forall how lu ru lk rk lcols rcols lsuf rsuf cs mcs vf ccs,
  how = 0 \/ how = 1 \/ how = 2 -> 1 <= cs -> 1 <= mcs -> 0 <= vf -> 1 <= ccs ->
  hints_truthful lu ru lk rk ->
  nbd (sel_a how lk rk) (sel_b how lk rk) ->
  chunks_ok (v_kind (sel_variant how lu ru)) cs (sel_a how lk rk) (sel_b how lk rk) ->
  frame_ok (len lk) lcols (mcs * vf) -> frame_ok (len rk) rcols (mcs * vf) ->
  NoDup (frame_names (ordered_dest how lu ru lk rk lcols rcols lsuf rsuf)) ->
  len lk <= INVALID_INDEX_64 -> len rk <= INVALID_INDEX_64 ->
  forall d, ordered_merge MFixed how lu ru lk rk lcols rcols lsuf rsuf (len lk) (len rk) cs mcs vf ccs = Ok d ->
  forall f, In f d -> col_len (snd f) = len (merge_pairs how [lk] [rk]).
Proof. exact ordered_merge_same_length. Qed.
Print Assumptions ordered_merge_columns_same_length.

(* (b) rows are in non-decreasing key order.  dest_keys (Spec/MergeSpec.v) reads the key of each row of the join on the
   side that is never `none`; where both sides are present the two keys agree; a key column carried along as an
   ordinary column comes out as dest_keys, which is sorted. *)
Theorem dest_rows_in_key_order :
  forall how lk rk, how = 0 \/ how = 1 \/ how = 2 -> sorted lk -> sorted rk -> sorted (dest_keys how lk rk).
Proof. exact dest_keys_sorted. Qed.
Print Assumptions dest_rows_in_key_order.

Theorem matched_rows_have_equal_keys :
  forall how lk rk i j, how = 0 \/ how = 1 \/ how = 2 ->
  In (Some i, Some j) (merge_pairs how [lk] [rk]) ->
  0 <= i < len lk /\ 0 <= j < len rk /\ nthZ lk i = nthZ rk j.
Proof. exact merge_pairs_keys_agree. Qed.
Print Assumptions matched_rows_have_equal_keys.

Theorem left_key_column_is_dest_keys :
  forall how lk rk z e, how = 0 \/ how = 2 ->
  gather_col (CFix z e (map single lk)) (map fst (merge_pairs how [lk] [rk]))
  = CFix z e (map single (dest_keys how lk rk)).
Proof. exact gather_left_key_column. Qed.
Print Assumptions left_key_column_is_dest_keys.

Theorem right_key_column_is_dest_keys :
  forall how lk rk z e, how = 1 \/ how = 2 ->
  gather_col (CFix z e (map single rk)) (map snd (merge_pairs how [lk] [rk]))
  = CFix z e (map single (dest_keys how lk rk)).
Proof. exact gather_right_key_column. Qed.
Print Assumptions right_key_column_is_dest_keys.

(* in the destination itself: the left key column (how = left / inner) comes out sorted *)
Theorem ordered_merge_left_key_column_sorted :
  forall how lu ru lk rk lcols rcols lsuf rsuf cs mcs vf ccs,
  how = 0 \/ how = 1 \/ how = 2 -> 1 <= cs -> 1 <= mcs -> 0 <= vf -> 1 <= ccs ->
  hints_truthful lu ru lk rk ->
  nbd (sel_a how lk rk) (sel_b how lk rk) ->
  chunks_ok (v_kind (sel_variant how lu ru)) cs (sel_a how lk rk) (sel_b how lk rk) ->
  frame_ok (len lk) lcols (mcs * vf) -> frame_ok (len rk) rcols (mcs * vf) ->
  NoDup (frame_names (ordered_dest how lu ru lk rk lcols rcols lsuf rsuf)) ->
  len lk <= INVALID_INDEX_64 -> len rk <= INVALID_INDEX_64 ->
  forall d n z e, how = 0 \/ how = 2 ->
  ordered_merge MFixed how lu ru lk rk lcols rcols lsuf rsuf (len lk) (len rk) cs mcs vf ccs = Ok d ->
  In (n, CFix z e (map single lk)) lcols ->
  In (spec_name n (frame_names rcols) lsuf, CFix z e (map single (dest_keys how lk rk))) d /\
  sorted (dest_keys how lk rk).
Proof. exact ordered_merge_left_key_sorted. Qed.
Print Assumptions ordered_merge_left_key_column_sorted.

Theorem ordered_merge_right_key_column_sorted :
  forall how lu ru lk rk lcols rcols lsuf rsuf cs mcs vf ccs,
  how = 0 \/ how = 1 \/ how = 2 -> 1 <= cs -> 1 <= mcs -> 0 <= vf -> 1 <= ccs ->
  hints_truthful lu ru lk rk ->
  nbd (sel_a how lk rk) (sel_b how lk rk) ->
  chunks_ok (v_kind (sel_variant how lu ru)) cs (sel_a how lk rk) (sel_b how lk rk) ->
  frame_ok (len lk) lcols (mcs * vf) -> frame_ok (len rk) rcols (mcs * vf) ->
  NoDup (frame_names (ordered_dest how lu ru lk rk lcols rcols lsuf rsuf)) ->
  len lk <= INVALID_INDEX_64 -> len rk <= INVALID_INDEX_64 ->
  forall d n z e, how = 1 \/ how = 2 ->
  ordered_merge MFixed how lu ru lk rk lcols rcols lsuf rsuf (len lk) (len rk) cs mcs vf ccs = Ok d ->
  In (n, CFix z e (map single rk)) rcols ->
  In (spec_name n (frame_names lcols) rsuf, CFix z e (map single (dest_keys how lk rk))) d /\
  sorted (dest_keys how lk rk).
Proof. exact ordered_merge_right_key_sorted. Qed.
Print Assumptions ordered_merge_right_key_column_sorted.

(* ---- chunk sizes are unobservable on the streamed path (corollary; both-unique variants) -------- *)
Theorem chunk_sizes_unobservable_both_unique :
  forall how lk rk lcols rcols lsuf rsuf cs mcs vf ccs cs' mcs' vf' ccs',
  how = 0 \/ how = 1 \/ how = 2 ->
  1 <= cs -> 1 <= mcs -> 0 <= vf -> 1 <= ccs -> 1 <= cs' -> 1 <= mcs' -> 0 <= vf' -> 1 <= ccs' ->
  ssorted lk -> ssorted rk ->
  frame_ok (len lk) lcols (mcs * vf) -> frame_ok (len rk) rcols (mcs * vf) ->
  frame_ok (len lk) lcols (mcs' * vf') -> frame_ok (len rk) rcols (mcs' * vf') ->
  NoDup (frame_names (ordered_dest how true true lk rk lcols rcols lsuf rsuf)) ->
  ordered_merge MFixed how true true lk rk lcols rcols lsuf rsuf (len lk) (len rk) cs mcs vf ccs
  = ordered_merge MFixed how true true lk rk lcols rcols lsuf rsuf (len lk) (len rk) cs' mcs' vf' ccs'.
Proof.
  intros. rewrite !ordered_merge_both_unique by assumption. reflexivity.
Qed.
Print Assumptions chunk_sizes_unobservable_both_unique.

(* ---- the two join maps of sorted key columns meet C04's precondition: FULL ---------------------- *)
Theorem join_left_map_valid : forall emit inv L R, valid_map (len L) inv (map fst (join_spec emit inv L R)).
Proof. exact join_fst_valid. Qed.
Print Assumptions join_left_map_valid.

Theorem join_right_map_valid : forall emit inv L R, sorted L -> sorted R -> nbd L R ->
  valid_map (len R) inv (map snd (join_spec emit inv L R)).
Proof. exact join_snd_valid. Qed.
Print Assumptions join_right_map_valid.

Theorem truthful_unique_hint_excludes_repeats : forall L R, (ssorted L \/ ssorted R) -> nbd L R.
Proof. intros L R [H|H]; [apply nbd_left_unique|apply nbd_right_unique]; exact H. Qed.
Print Assumptions truthful_unique_hint_excludes_repeats.

(* ---- merge(): validation passes and the streamed path is taken exactly when documented: FULL ---- *)
Theorem merge_takes_streamed_path :
  forall pd ver how lu ru lk rk lcols rcols lsuf rsuf cs mcs vf ccs,
  how = 0 \/ how = 1 \/ how = 2 ->
  (forall f, In f lcols -> col_len (snd f) = len lk) -> (forall f, In f rcols -> col_len (snd f) = len rk) ->
  merge pd (mk_margs ver how true lu true ru [lk] [rk] lcols rcols lsuf rsuf cs mcs vf ccs)
  = (do d <- ordered_merge ver how lu ru lk rk lcols rcols lsuf rsuf (len lk) (len rk) cs mcs vf ccs; Ok (true, d)).
Proof. exact merge_streamed_path. Qed.
Print Assumptions merge_takes_streamed_path.

Theorem unique_hints_unread_on_pandas_path :
  forall pd ver how lo lu ru ro lu' ru' lkeys rkeys lcols rcols lsuf rsuf cs mcs vf ccs,
  is_ordered (mk_margs ver how lo lu ro ru lkeys rkeys lcols rcols lsuf rsuf cs mcs vf ccs) = false ->
  merge pd (mk_margs ver how lo lu' ro ru' lkeys rkeys lcols rcols lsuf rsuf cs mcs vf ccs)
  = merge pd (mk_margs ver how lo lu ro ru lkeys rkeys lcols rcols lsuf rsuf cs mcs vf ccs).
Proof. exact MergeTop.unique_hints_unread_on_pandas_path. Qed.
Print Assumptions unique_hints_unread_on_pandas_path.

Theorem chunked_copy_is_identity : forall c cs, 1 <= cs -> chunked_copy c cs = Ok c.
Proof. exact chunked_copy_id. Qed.
Print Assumptions chunked_copy_is_identity.

(* ---- the call-site table as found: REFUTED (witnesses replayed on the real code, corpus/C02) ---- *)
Theorem inner_unique_hint_raises_refuted :      (* F-C02a *)
  merge join_pairs (wargs MOrig 2 true false [1;2;4] [2;2;4]) = Raise E_TypeError /\
  data_cols (merge join_pairs (wargs MFixed 2 true false [1;2;4] [2;2;4]))
  = Ok (merge_spec 2 [[1;2;4]] [[2;2;4]] (a_lcols (wargs MFixed 2 true false [1;2;4] [2;2;4]))
                   (a_rcols (wargs MFixed 2 true false [1;2;4] [2;2;4])) sufL sufR).
Proof. exact orig_inner_unique_raises. Qed.
Print Assumptions inner_unique_hint_raises_refuted.

Theorem right_join_unmatched_row_refuted :      (* F-C02c *)
  (exists e, merge join_pairs (wargs MOrig 1 false false [2;4] [1;2;4]) = e /\ is_ok e = false) /\
  data_cols (merge join_pairs (wargs MFixed 1 false false [2;4] [1;2;4]))
  = Ok (merge_spec 1 [[2;4]] [[1;2;4]] (a_lcols (wargs MFixed 1 false false [2;4] [1;2;4]))
                   (a_rcols (wargs MFixed 1 false false [2;4] [1;2;4])) sufL sufR).
Proof. exact orig_right_unmatched_fails. Qed.
Print Assumptions right_join_unmatched_row_refuted.

Theorem right_join_left_unique_refuted :        (* F-C02d *)
  merge join_pairs (wargs MOrig 1 true false [1;2;4] [2;2;4]) = Raise E_ValueError /\
  data_cols (merge join_pairs (wargs MFixed 1 true false [1;2;4] [2;2;4]))
  = Ok (merge_spec 1 [[1;2;4]] [[2;2;4]] (a_lcols (wargs MFixed 1 true false [1;2;4] [2;2;4]))
                   (a_rcols (wargs MFixed 1 true false [1;2;4] [2;2;4])) sufL sufR).
Proof. exact orig_right_unique_raises. Qed.
Print Assumptions right_join_left_unique_refuted.

Theorem streamed_path_left_name_refuted :       (* F-C02e *)
  (do p <- merge join_pairs (wargs MOrig 0 false false [1;2] [2;3]); Ok (map fst (snd p)))
  = Ok [N_left_map; N_right_map; nK; nV; nK ++ sufR; nW] /\
  (do p <- merge join_pairs (wargs MFixed 0 false false [1;2] [2;3]); Ok (map fst (snd p)))
  = Ok [N_left_map; N_right_map; nK ++ sufL; nV; nK ++ sufR; nW] /\
  map fst (merge_spec 0 [[1;2]] [[2;3]] (a_lcols (wargs MFixed 0 false false [1;2] [2;3]))
                      (a_rcols (wargs MFixed 0 false false [1;2] [2;3])) sufL sufR)
  = [nK ++ sufL; nV; nK ++ sufR; nW].
Proof. exact orig_left_name_unsuffixed. Qed.
Print Assumptions streamed_path_left_name_refuted.

(* ---- the repaired tree: REFUTED, known findings (no small safe repair) --------------------------- *)
Theorem repeated_key_both_sides_refuted :       (* F-C02f: nbd is a necessary hypothesis *)
  (exists site, merge join_pairs f_args = OOB site) /\
  map snd (join_spec true INVALID_INDEX_64 [0;0] [0;0]) = [0;1;0;1].
Proof. exact nonmonotone_map_fails. Qed.
Print Assumptions repeated_key_both_sides_refuted.

Theorem long_run_raises_refuted :               (* F-C02g: ~LongRun is a necessary hypothesis *)
  merge join_pairs g_args = Raise E_ValueError.
Proof. exact long_run_raises. Qed.
Print Assumptions long_run_raises_refuted.
