(* Props/C12.v — C12 for the streamed join-map generators: for every chunk size >= 1 the driver model ends, within
   the closed-form fuel `driver_fuel L R` (main loop) and `kfuel` (each kernel call), in Ok or in the clear
   ValueError; it never runs out of fuel (the model's image of "spins without consuming input or producing
   output"), including when a run of equal keys is longer than a chunk (then: the error).  The fuel theorems of
   the other streamed operations are in Props/C04 (map_stream_correct, indexed_stream_correct,
   indexed_entry_too_long_raises_after_fix), Props/C05 (csv_kernel_roundtrip), Props/C16 (concat_session_correct)
   and Props/C18 (to_csv_terminates), re-compiled by the C12 check. *)
From Coq Require Import ZArith List.
From EV Require Import Res Arr Join JoinSpec JoinBase JoinIface JoinDriver JoinMain JoinAll.
Import ListNotations.
Open Scope Z_scope.

Theorem c12_streamed_join_terminates : forall k is_left L R inv cs,
  kind_pre k L R -> 1 <= cs -> streamed (mkvar k is_left) L R inv cs <> OutOfFuel.
Proof. exact streamed_terminates. Qed.
Print Assumptions c12_streamed_join_terminates.

Theorem c12_streamed_join_error_is_clear : forall k is_left L R inv cs c,
  kind_pre k L R -> 1 <= cs ->
  streamed (mkvar k is_left) L R inv cs = Raise c -> c = E_ValueError /\ ~ chunks_ok k cs L R.
Proof. intros k is_left L R inv cs c Hp Hc. exact (streamed_raises_only_value_error k is_left L R inv cs Hp Hc c). Qed.
Print Assumptions c12_streamed_join_error_is_clear.
