(* Props/C12.v — C12 for the streamed join-map generators: for every chunk size >= 1 the driver model ends, within
   the closed-form fuel `driver_fuel L R` (main loop) and `kfuel` (each kernel call), in Ok or in the clear
   ValueError; it never runs out of fuel (the model's image of "spins without consuming input or producing
   output"), including when a run of equal keys is longer than a chunk (then: the error).  The fuel theorems of
   the other streamed operations are in Props/C04 (map_stream_correct, indexed_stream_correct,
   indexed_entry_too_long_raises_after_fix), Props/C05 (csv_kernel_roundtrip), Props/C16 (concat_session_correct)
   and Props/C18 (to_csv_terminates), re-compiled by the C12 check.
   Second part (extension E3): the number of driver iterations and the total number of kernel loop bodies of
   the streamed join are LINEAR in input + output size (c12_streamed_join_linear_iterations / _linear_work). *)
From Coq Require Import ZArith List.
From EV Require Import Res Arr Join JoinSpec JoinBase JoinIface JoinDriver JoinMain JoinAll JoinSteps JoinStepsAll.
Import ListNotations.
Open Scope Z_scope.

Theorem c12_streamed_join_terminates : forall k is_left L R inv cs,
  kind_pre k L R -> 1 <= cs -> streamed (mkvar k is_left) L R inv cs <> OutOfFuel.
Proof. exact streamed_terminates. Qed.
Print Assumptions c12_streamed_join_terminates.

Theorem c12_streamed_join_error_is_clear : forall k is_left L R inv cs c,
  kind_pre k L R -> 1 <= cs ->
  streamed (mkvar k is_left) L R inv cs = Raise c -> c = E_ValueError /\ ~ chunks_ok k cs L R.
Proof. intros k is_left L R inv cs c Hp Hc. exact (streamed_raises_only_value_error k is_left L R inv cs Hp Hc c). Qed.
Print Assumptions c12_streamed_join_error_is_clear.

(* ---------------------------------------------------------------------------------------------------------
   Extension E3: the bound is LINEAR in input + output size (Proofs/JoinSteps.v, JoinStepsAll.v).
   `streamed_with fm ft` is the driver model with its two loop fuels made explicit; the model itself uses
   fm = driver_fuel L R = 2(|L|+|R|+|L||R|)+8 and ft = |L|+2. *)
Theorem c12_streamed_is_streamed_with_model_fuels : forall v L R inv cs,
  streamed v L R inv cs = streamed_with (driver_fuel L R) (S (S (length L))) v L R inv cs.
Proof. exact streamed_with_default. Qed.
Print Assumptions c12_streamed_is_streamed_with_model_fuels.

(* All 8 variants, every chunk size >= 1, all sorted inputs: ANY main-loop fuel above |L|+|R|+|join| and ANY
   tail-loop fuel above |L| give the result of the model's own (quadratic) fuels, be it the maps or the clear
   ValueError: the driver's main loop runs at most |L|+|R|+|join|+1 times (the last one is the exit test) and
   its tail loop at most |L|+1 times.  |join| is the number of rows of the relational join = the output size. *)
Theorem c12_streamed_join_linear_iterations : forall k is_left L R inv cs,
  kind_pre k L R -> 1 <= cs ->
  forall fm ft:nat,
  (fm > length L + length R + length (join_spec is_left inv L R))%nat -> (ft > length L)%nat ->
  streamed_with fm ft (mkvar k is_left) L R inv cs = streamed (mkvar k is_left) L R inv cs.
Proof. exact streamed_linear_iterations. Qed.
Print Assumptions c12_streamed_join_linear_iterations.

Theorem c12_streamed_join_linear_fuel_terminates : forall k is_left L R inv cs,
  kind_pre k L R -> 1 <= cs ->
  forall fm ft:nat,
  (fm > length L + length R + length (join_spec is_left inv L R))%nat -> (ft > length L)%nat ->
  streamed_with fm ft (mkvar k is_left) L R inv cs <> OutOfFuel.
Proof. exact streamed_with_terminates. Qed.
Print Assumptions c12_streamed_join_linear_fuel_terminates.

(* `streamed_cnt` is the driver model instrumented with counters (kernel calls, loop bodies of the *_partial
   kernels summed over all calls, loop bodies of the run-length scans inside the general kernels, tail-loop
   iterations, loop bodies of the *_remaining kernels); dropping the counters gives the model *)
Theorem c12_streamed_cnt_is_streamed : forall v L R inv cs,
  streamed v L R inv cs = do x <- streamed_cnt v L R inv cs; Ok (fst x).
Proof. exact streamed_cnt_is_streamed. Qed.
Print Assumptions c12_streamed_cnt_is_streamed.

(* total work of every successful run, all 8 variants, every chunk size >= 1:
     iterations of both driver loops          <= |L|+|R|+|join|
     loop bodies of all kernel calls together <= 2(|L|+|R|+|join|) + (number of kernel calls)
     loop bodies of the run-length scans      <= |join| *)
Theorem c12_streamed_join_linear_work : forall k is_left L R inv cs,
  kind_pre k L R -> 1 <= cs ->
  forall out, streamed (mkvar k is_left) L R inv cs = Ok out ->
  exists c, streamed_cnt (mkvar k is_left) L R inv cs = Ok (out, c) /\
    (c_calls c + c_tail c <= length L + length R + length (join_spec is_left inv L R))%nat /\
    (c_ksteps c + c_rsteps c <= 2 * (length L + length R + length (join_spec is_left inv L R)) + c_calls c)%nat /\
    (c_scan c <= length (join_spec is_left inv L R))%nat.
Proof. exact streamed_linear_work. Qed.
Print Assumptions c12_streamed_join_linear_work.

(* the same for every PREFIX of an execution, so also for runs that end in the clear ValueError: `iters ... d0 it ks d'`
   says that `it` completed iterations of the driver's main loop lead from d0 to d' and executed ks kernel loop bodies;
   `init_drv cs lc rc` is the state the driver starts in (JoinSteps.streamed_cnt_init, main_loop_cnt_iters) *)
Theorem c12_streamed_join_linear_work_prefix : forall k is_left L R inv cs,
  kind_pre k L R -> 1 <= cs ->
  forall lc rc it ks d',
  fetch_chunk (v_ltrim (mkvar k is_left)) 0 cs L = Ok lc -> fetch_chunk (v_rtrim (mkvar k is_left)) 0 cs R = Ok rc ->
  iters k is_left L R inv cs (init_drv cs lc rc) it ks d' ->
  (it <= length L + length R + length (join_spec is_left inv L R))%nat /\
  (ks <= 2 * (length L + length R + length (join_spec is_left inv L R)) + it)%nat.
Proof. exact streamed_linear_work_prefix. Qed.
Print Assumptions c12_streamed_join_linear_work_prefix.

(* the hypotheses are satisfiable by a non-trivial input; the counters evaluated; too little fuel is OutOfFuel *)
Theorem c12_linear_nonvacuous :
  kind_pre KGen [1;1;2;3;3;5;6;8] [1;3;3;4] /\
  streamed_cnt (mkvar KGen true) [1;1;2;3;3;5;6;8] [1;3;3;4] (-1) 3 =
    Ok (([0;1;2;3;3;4;4;5;6;7], [0;0;-1;1;2;1;2;-1;-1;-1]), mkcounts 5 10 3 1 3) /\
  streamed_with 23 9 (mkvar KGen true) [1;1;2;3;3;5;6;8] [1;3;3;4] (-1) 3 =
    Ok ([0;1;2;3;3;4;4;5;6;7], [0;0;-1;1;2;1;2;-1;-1;-1]) /\
  streamed_with 5 9 (mkvar KGen true) [1;1;2;3;3;5;6;8] [1;3;3;4] (-1) 3 = OutOfFuel.
Proof. exact linear_nonvacuous. Qed.
Print Assumptions c12_linear_nonvacuous.
