(* Props/C12.v — placeholder, replaced when Proofs/JoinAll.v lands *)
From Coq Require Import ZArith List.
From EV Require Import Res Arr Join JoinSpec JoinBase JoinIface JoinDriver JoinMain.
Import ListNotations.
Open Scope Z_scope.
Theorem c12_both_unique_total : forall is_left L R inv cs,
  1 <= cs -> ssorted L -> ssorted R ->
  streamed (mkvar KBU is_left) L R inv cs = Ok (expected KBU is_left inv L R).
Proof. exact streamed_both_unique_correct. Qed.
Print Assumptions c12_both_unique_total.
