(* Props/C05Import.v — C05 at the observation point importer.import_with_schema: SEVERAL tables in one call, with
   include / exclude dictionaries that name only some of them (strengthening TC05; proofs in Proofs/CsvImportProofs.v).
   Model/CsvImport.v models importer.py:66-111 statement by statement on top of Csv.read_csv. *)
From Coq Require Import ZArith List Lia Bool.
From EV Require Import Res Arr Csv CsvDriver CsvImport CsvImportProofs.
Import ListNotations.
Open Scope Z_scope.

(* FULL.  A successful import_with_schema imports every table of `files`, in order, exactly as read_csv_with_schema_dict
   imports that file alone with the include / exclude list the dictionaries hold FOR THAT TABLE (none when the dictionary
   is absent or does not name the table): same fuel, same chunk_row_size - so csv_import_roundtrip,
   csv_chunk_independent, ... of Props/C05.v speak about every table of a multi-table import; the fields created are
   fields_to_use of that table's own lists. *)
Theorem import_tables_exact :
  forall fuel keys files inc exc crs out,
  import_with_schema fuel keys files inc exc crs = Ok out ->
  Forall2 (fun t (r:list (list Z) * dst) =>
             fst r = fields_to_use (t_names t) (table_fields inc (t_name t)) (table_fields exc (t_name t)) /\
             read_csv fuel (t_file t) (t_names t) (t_sizes t)
                      (table_fields inc (t_name t)) (table_fields exc (t_name t)) crs = Ok (snd r)) files out.
Proof. exact import_with_schema_tables. Qed.
Print Assumptions import_tables_exact.

(* FULL.  "include/exclude lists select exactly the named columns", per table: a column k of table sk is imported iff
   it is a column of that file, is in the include list of sk when there is one, and is not in the exclude list of sk
   when there is one ... *)
Theorem import_table_select_exact :
  forall names inc exc sk k,
  In k (fields_to_use names (table_fields inc sk) (table_fields exc sk)) <->
  In k names /\ (forall l, table_fields inc sk = Some l -> In k l) /\ (forall l, table_fields exc sk = Some l -> ~ In k l).
Proof. exact table_selection_spec. Qed.
Print Assumptions import_table_select_exact.

(* ... where "the list of sk" is the dictionary's entry for sk (dictionaries have distinct keys) ... *)
Theorem import_table_fields_named :
  forall d sk l, NoDup (map fst d) -> (table_fields (Some d) sk = Some l <-> In (sk, l) d).
Proof. exact table_fields_named. Qed.
Print Assumptions import_table_fields_named.

(* ... and there is NO list for a table that the dictionary does not name (or when no dictionary is given): *)
Theorem import_table_fields_unnamed :
  forall d sk, table_fields d sk = None <-> (forall dd, d = Some dd -> ~ In sk (map fst dd)).
Proof. exact table_fields_unnamed. Qed.
Print Assumptions import_table_fields_unnamed.

(* such a table keeps ALL its columns. *)
Theorem import_unnamed_table_keeps_all_columns :
  forall names, fields_to_use names None None = names.
Proof. exact fields_to_use_none. Qed.
Print Assumptions import_unnamed_table_keeps_all_columns.

(* FULL.  Progress: on a well-formed call (at least one file; every table of `files` has a schema; no reserved field
   name in a schema; the dictionaries name only imported tables and only columns of the table they name) no argument
   check fires: the import is the sequence of the per-table imports and fails only if one of them does. *)
Theorem import_with_schema_no_spurious_error :
  forall fuel keys files inc exc crs,
  files <> [] ->
  (forall t, In t files -> In (t_name t) keys) ->
  (forall t k, In t files -> In k (t_schema t) -> k <> J_VALID_FROM /\ k <> J_VALID_TO) ->
  (forall sk, In sk (dict_keys inc) -> In sk (map t_name files)) ->
  (forall sk, In sk (dict_keys exc) -> In sk (map t_name files)) ->
  (forall t l k, In t files -> table_fields inc (t_name t) = Some l -> In k l -> In k (t_names t)) ->
  (forall t l k, In t files -> table_fields exc (t_name t) = Some l -> In k l -> In k (t_names t)) ->
  import_with_schema fuel keys files inc exc crs =
  map_res (fun t => do d <- read_csv fuel (t_file t) (t_names t) (t_sizes t)
                                     (table_fields inc (t_name t)) (table_fields exc (t_name t)) crs;
                    Ok (fields_to_use (t_names t) (table_fields inc (t_name t)) (table_fields exc (t_name t)), d)) files.
Proof. exact import_with_schema_ok. Qed.
Print Assumptions import_with_schema_no_spurious_error.

(* two tables, include names a column of the first only: the second keeps both its columns *)
Example import_two_tables_example :
  let ta := mkTable [97] [112; 44; 113; 10; 49; 44; 50; 10] [[112]; [113]] [10; 10] [[112]; [113]] in
  let tb := mkTable [98] [117; 44; 118; 10; 51; 44; 52; 10] [[117]; [118]] [10; 10] [[117]; [118]] in
  exists d1 d2, import_with_schema 100 [[97]; [98]] [ta; tb] (Some [([97], [[113]])]) None 4
                = Ok [([[113]], d1); ([[117]; [118]], d2)] /\
    map (fun m => (i_indices m, i_values m)) (d_imps d1) = [([0; 1], [50])] /\
    map (fun m => (i_indices m, i_values m)) (d_imps d2) = [([0; 1], [51]); ([0; 1], [52])].
Proof. vm_compute. eexists. eexists. repeat split. Qed.
