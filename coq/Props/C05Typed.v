(* Props/C05Typed.v — C05 with TYPED columns (strengthening SC05; statements, proofs in Proofs/CsvTyped*.v).
   Model/CsvTyped.v is the window / regrowth driver of Model/Csv.v with the importer list as a parameter, and the
   typed importer list (indexed string, fixed string, categorical, categorical with free text, bool, integer:
   the per-class models of Model/Transform.v on the chunk view the driver hands to import_part). *)
From Coq Require Import ZArith List Lia Bool.
From EV Require Import Res Arr Csv CsvSpec CsvBase CsvTable CsvRegrowDrv.
From EV Require Import Transform TransformSpec TransformCat CsvTyped CsvTypedGen CsvTypedSound.
Import ListNotations.
Open Scope Z_scope.

(* FULL.  Conservativity: the generic driver instantiated with the indexed-string importers of Model/Csv.v IS
   Csv.read_file - same result, same errors, same fuel - so every theorem of Props/C05.v is a theorem about it. *)
Theorem csv_generic_driver_conservative :
  forall fuel file crs ncols offs index_map,
  read_file fuel file crs ncols offs index_map = lift_res (sread_file fuel file crs ncols offs index_map).
Proof. exact sread_file_is_read_file. Qed.
Print Assumptions csv_generic_driver_conservative.

(* FULL.  The importers do not steer the reader, and their state may be carried over any number of passes:
   let an importer list (state type I, one round of import_part calls `imp_all`) be SOUND - whenever the staging
   buffers hold a group of records `recs` in the columnar layout that the kernel produces (CsvTable.Good: per column
   the prefix sums of the cell lengths and the concatenated cell texts, with the column budgets above the group's
   bytes), `imp_all` takes the state `ist A` ("after the records A") to `ist (A ++ recs)`.  Then the import of a
   well-formed file (with or without final newline) ends, for EVERY chunk_row_size whose window holds every line on
   its own and EVERY positive budget vector (value-buffer regrowth with re-entry at the saved offset, passes that
   commit no record, index-buffer regrowth), with all records counted and the importer list in the state
   `ist rows`.  Closed-form fuel as in csv_import_roundtrip. *)
Theorem csv_import_any_sound_importers :
  forall hdr rows file crs ncols (I:Type) (imp_all:arr2 -> list Z -> list Z -> Z -> I -> res I) (ist:list (list cell) -> I),
  0 < ncols -> len hdr = ncols -> Forall (fun rw => len rw = ncols) rows ->
  (file = render_file (hdr :: rows) \/
   (file ++ [NL] = render_file (hdr :: rows) /\ file <> [] /\ last file NL <> NL)) ->
  (forall r, In r (hdr :: rows) -> len (render_row r) <= crs * 2 * ncols) ->
  imp_sound I imp_all ncols ist ->
  forall offs fuel,
  (len offs = ncols + 1 /\ nthZ offs 0 = 0 /\ forall c, 0 <= c < ncols -> nthZ offs c + 1 <= nthZ offs (c + 1)) ->
  (2 * length rows + 2 * Z.to_nat (mu ncols rows offs) + 4 <= fuel)%nat ->
  exists d, gread_file I imp_all fuel file crs ncols offs (ist []) = Ok d /\
    g_acc d = len rows /\ g_imps d = ist rows.
Proof. exact gread_file_sound. Qed.
Print Assumptions csv_import_any_sound_importers.

(* FULL.  Hence any two supported chunk sizes and any two positive budget vectors leave a sound importer list
   in the same state (chunk independence for arbitrary importers). *)
Theorem csv_chunk_independent_any_importers :
  forall hdr rows file crs1 crs2 ncols (I:Type) (imp_all:arr2 -> list Z -> list Z -> Z -> I -> res I)
         (ist:list (list cell) -> I) offs1 offs2 fuel1 fuel2,
  0 < ncols -> len hdr = ncols -> Forall (fun rw => len rw = ncols) rows ->
  (file = render_file (hdr :: rows) \/
   (file ++ [NL] = render_file (hdr :: rows) /\ file <> [] /\ last file NL <> NL)) ->
  (forall r, In r (hdr :: rows) -> len (render_row r) <= crs1 * 2 * ncols) ->
  (forall r, In r (hdr :: rows) -> len (render_row r) <= crs2 * 2 * ncols) ->
  imp_sound I imp_all ncols ist ->
  (len offs1 = ncols + 1 /\ nthZ offs1 0 = 0 /\ forall c, 0 <= c < ncols -> nthZ offs1 c + 1 <= nthZ offs1 (c + 1)) ->
  (len offs2 = ncols + 1 /\ nthZ offs2 0 = 0 /\ forall c, 0 <= c < ncols -> nthZ offs2 c + 1 <= nthZ offs2 (c + 1)) ->
  (2 * length rows + 2 * Z.to_nat (mu ncols rows offs1) + 4 <= fuel1)%nat ->
  (2 * length rows + 2 * Z.to_nat (mu ncols rows offs2) + 4 <= fuel2)%nat ->
  exists d1 d2, gread_file I imp_all fuel1 file crs1 ncols offs1 (ist []) = Ok d1 /\
                gread_file I imp_all fuel2 file crs2 ncols offs2 (ist []) = Ok d2 /\
                g_acc d1 = g_acc d2 /\ g_imps d1 = g_imps d2.
Proof. exact gread_file_chunk_independent. Qed.
Print Assumptions csv_chunk_independent_any_importers.

(* FULL for the importer classes that cannot raise on cell contents (fdef_ok: indexed string, fixed string of any
   length >= 0, categorical and categorical-with-free-text over a valid key table: distinct keys, codes in 0..127).
   The typed importer list is sound: IndexedStringImporter (chunk_accumulated), FixedStringImporter,
   CategoricalImporter and LeakyCategoricalImporter (freetext_index_accumulated) each go from their state after A to
   their state after A ++ recs on any Good buffers - whatever index width, stale index entries, foreign bytes of
   other columns and slack the buffers carry. *)
Theorem csv_typed_importers_sound :
  forall ncols defs index_map,
  Forall fdef_ok defs -> Forall (fun c => 0 <= c < ncols) index_map -> length defs = length index_map ->
  imp_sound (list fimp) (fimp_all index_map) ncols (tist defs index_map).
Proof. exact typed_importers_sound. Qed.
Print Assumptions csv_typed_importers_sound.

(* FULL (same classes).  End to end: importing a well-formed CSV file through the driver with a typed importer list
   gives |rows| records and, for every imported column, exactly what the column's definition promises of the column's
   cell texts (spec_obs: indexed-string encoding / first N bytes zero padded / exact-match codes / exact-match codes
   with -1, the free-text offsets as prefix sums over ALL records and the free-text bytes - Spec/TransformSpec.v),
   for every supported chunk_row_size and every positive budget vector, i.e. over any number of reader passes. *)
Theorem csv_typed_import_roundtrip :
  forall hdr rows file crs ncols offs index_map defs fuel,
  0 < ncols -> len hdr = ncols -> Forall (fun rw => len rw = ncols) rows ->
  (file = render_file (hdr :: rows) \/
   (file ++ [NL] = render_file (hdr :: rows) /\ file <> [] /\ last file NL <> NL)) ->
  (forall r, In r (hdr :: rows) -> len (render_row r) <= crs * 2 * ncols) ->
  (len offs = ncols + 1 /\ nthZ offs 0 = 0 /\ forall c, 0 <= c < ncols -> nthZ offs c + 1 <= nthZ offs (c + 1)) ->
  Forall fdef_ok defs -> Forall (fun c => 0 <= c < ncols) index_map -> length defs = length index_map ->
  (2 * length rows + 2 * Z.to_nat (mu ncols rows offs) + 4 <= fuel)%nat ->
  exists d, tread_file fuel file crs ncols offs index_map defs = Ok d /\
    g_acc d = len rows /\
    map obs (g_imps d) =
    map (fun dc => spec_obs (fst dc) (column (Z.to_nat (snd dc)) rows)) (combine defs index_map).
Proof. exact typed_read_file_roundtrip. Qed.
Print Assumptions csv_typed_import_roundtrip.

(* a non-trivial instance: an id column and a free-text categorical column (keys '', 'a', 'ab'), 5 records of which
   the 1st, 3rd and 5th are free text ('x', 'abc', 'zz'); chunk_row_size 2 with 1-byte budgets (windows of 8 bytes:
   8 kernel calls, both budgets doubled twice, the free-text offset accumulated across them) against one window with large budgets *)
Example csv_typed_import_example :
  let cats := [([], 0); ([97], 1); ([97; 98], 2)] in
  let hdr := [(false, [105]); (false, [116])] in
  let rows := [[(false, [49]); (false, [120])]; [(false, [50]); (false, [97])]; [(false, [51]); (false, [97; 98; 99])];
               [(false, [52]); (false, [])]; [(false, [53]); (false, [122; 122])]] in
  let file := render_file (hdr :: rows) in
  fdef_ok (FLeaky cats) /\ Forall (fun r => len (render_row r) <= 2 * 2 * 2) (hdr :: rows) /\
  exists d1 d2, tread_file 100 file 2 2 [0; 1; 2] [0; 1] [FStr; FLeaky cats] = Ok d1 /\
                tread_file 10 file 50 2 [0; 100; 200] [0; 1] [FStr; FLeaky cats] = Ok d2 /\
    g_acc d1 = 5 /\ length (g_trace d1) = 8%nat /\ g_offs d1 = [0; 4; 8] /\ length (g_trace d2) = 1%nat /\
    map obs (g_imps d1) = map obs (g_imps d2) /\
    map obs (g_imps d1) = [[[0; 1; 2; 3; 4; 5]; [49; 50; 51; 52; 53]];
                           [[-1; 1; -1; 0; -1]; [0; 1; 1; 4; 4; 6]; [120; 97; 98; 99; 122; 122]]].
Proof. vm_compute. split; [split; [reflexivity|discriminate]|]. split; [repeat constructor; discriminate|]. eexists. eexists. repeat split. Qed.
