(* Props/C13.v — placeholder until Proofs/DispatchProofs.v lands *)
From Coq Require Import ZArith List.
From EV Require Import Res Dispatch DispatchSpec.
Import ListNotations.
Open Scope Z_scope.

Theorem c13_smoke : py_binop repo_tables KNdarray Sub (KField NumericH5) = Ok (PApply W_binary Op_sub [SLhs; SRhs]).
Proof. vm_compute. reflexivity. Qed.
Print Assumptions c13_smoke.
