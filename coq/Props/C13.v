(* Props/C13.v — C13: field arithmetic, comparison and logic equal numpy's element-wise results.
   numpy's functions are universally quantified (arr, np_bin, …); the two premises about numpy are
   explicit.  The statements about the *generated* table of the tree under test are in
   GenProps/C13Table.v (compiled on every run by harness/c13_table.py). *)
From Coq Require Import ZArith List.
From EV Require Import Res Dispatch DispatchSpec DispatchProofs.
Import ListNotations.
Open Scope Z_scope.

(* FULL.  For every well-formed operator table T (tables_ok: every supported __X__ calls X(self, other),
   every __rX__ calls X(other, self), FieldDataOps.X wraps the right numpy function, every class opts
   out of numpy's ufunc handling), every heap, every operand of every kind on either side, every operator
   in scope, with or without dataframe assignment: the model of the real code path (Python's operator
   protocol, numpy's deferral, _binary_op / numeric_divmod, DataFrame.__setitem__) yields exactly the
   specified final state — or exactly the exception numpy raises. *)
Theorem c13_binop_passthrough :
  forall (arr nformat:Type)
         (np_bin : npop -> arr -> arr -> res arr) (np_divmod : arr -> arr -> res (arr * arr))
         (np_un : npop -> arr -> res arr) (np_item : arr -> arr)
         (dtype_to_str : arr -> res nformat) (np_cast : nformat -> arr -> res arr) (np_empty : nformat -> arr),
    (forall o a b, is_cmp o = true -> np_bin (npop_of (mirror o)) b a = np_bin (npop_of o) a b) ->
    (forall r nf, dtype_to_str r = Ok nf -> np_cast nf r = Ok r) ->
    forall T, tables_ok T = true ->
    forall (h:heap arr nformat) lhs rhs o store kl kr,
      kind_of arr nformat h lhs = Ok kl -> kind_of arr nformat h rhs = Ok kr -> in_scope kl o kr = true ->
      run_binop arr nformat np_bin np_divmod np_un np_item dtype_to_str np_cast np_empty T h lhs o rhs store
      = spec_binop arr nformat np_bin np_divmod dtype_to_str np_empty h lhs o rhs store.
Proof. exact binop_passthrough. Qed.
Print Assumptions c13_binop_passthrough.

(* the hypotheses are satisfiable and the conclusion is not vacuous: toy numpy on Z, ndarray < field,
   stored into a dataframe *)
Example c13_binop_example :
  (forall o a b, is_cmp o = true -> toy_bin (npop_of (mirror o)) b a = toy_bin (npop_of o) a b) /\
  (forall r nf, toy_dtype r = Ok nf -> toy_cast nf r = Ok r) /\
  run_binop Z unit toy_bin toy_divmod toy_un (fun a => a) toy_dtype toy_cast (fun _ => 0) repo_tables
            [mkfield Z unit TimestampH5 tt (Some 7)] (VNd 3) Lt (VField 0) true
  = Ok (mkout Z unit [mkfield Z unit TimestampH5 tt (Some 7); mkfield Z unit NumericMem tt (Some 1);
                      mkfield Z unit NumericH5 tt (Some 1)]
              [VField 1%nat] [VField 2%nat]).
Proof. split; [exact toy_cmp_mirror|split; [exact toy_cast_id|vm_compute; reflexivity]]. Qed.

(* FULL.  ~f and f.logical_not() *)
Theorem c13_unop_passthrough :
  forall (arr nformat:Type)
         (np_bin : npop -> arr -> arr -> res arr) (np_divmod : arr -> arr -> res (arr * arr))
         (np_un : npop -> arr -> res arr) (np_item : arr -> arr)
         (dtype_to_str : arr -> res nformat) (np_cast : nformat -> arr -> res arr) (np_empty : nformat -> arr),
    (forall r nf, dtype_to_str r = Ok nf -> np_cast nf r = Ok r) ->
    forall T, tables_ok T = true ->
    forall (h:heap arr nformat) id fo u store,
      nth_error h id = Some fo -> supported_u (fo_cls _ _ fo) u = true ->
      run_unop arr nformat np_bin np_divmod np_un np_item dtype_to_str np_cast np_empty T h (VField id) u store
      = spec_unop arr nformat np_un dtype_to_str np_empty h (VField id) u store.
Proof. intros arr nformat np_bin np_divmod np_un np_item d2s np_cast np_empty H. exact (unop_passthrough arr nformat np_bin np_divmod np_un np_item d2s np_cast np_empty H). Qed.
Print Assumptions c13_unop_passthrough.

Example c13_unop_example :
  (forall r nf, toy_dtype r = Ok nf -> toy_cast nf r = Ok r) /\
  run_unop Z unit toy_bin toy_divmod toy_un (fun a => a) toy_dtype toy_cast (fun _ => 0) repo_tables
           [mkfield Z unit NumericH5 tt (Some 5)] (VField 0) Invert true
  = Ok (mkout Z unit [mkfield Z unit NumericH5 tt (Some 5); mkfield Z unit NumericMem tt (Some (-6));
                      mkfield Z unit NumericH5 tt (Some (-6))]
              [VField 1%nat] [VField 2%nat]).
Proof. split; [exact toy_cast_id|vm_compute; reflexivity]. Qed.

(* FULL (finite, by computation).  The operator table of the tree (as read into Model/Dispatch.v) is
   well formed, and contains no entry other than __X__ -> X(self, other), __rX__ -> X(other, self). *)
Theorem c13_dispatch_table_correct :
  tables_ok repo_tables = true /\ forallb entry_wellformed repo_table = true.
Proof. exact (conj repo_tables_ok repo_entries_wellformed). Qed.
Print Assumptions c13_dispatch_table_correct.

(* FULL (finite).  Every class that defines a reflected operator opts out of numpy's ufunc dispatch,
   so `ndarray <op> field` and `numpy-scalar <op> field` reach __rX__ (holds after fix F-C13a). *)
Theorem c13_reflected_ops_reachable : reflected_reachable repo_tables = true.
Proof. exact repo_reflected_reachable. Qed.
Print Assumptions c13_reflected_ops_reachable.

(* REFUTED on the pinned commit (F-C13a): with the class flags before the repair, an in-scope case
   `ndarray + NumericMemField` yields an object array, `ndarray < TimestampField` an all-True bool
   array, `np.int64 + NumericField` is computed on the demoted Python int (dtype differs from numpy's).
   Replayed on the real code by corpus/C13/F-C13a.json. *)
Theorem c13_reflected_ops_reachable_refuted_before_fix :
  reflected_reachable orig_tables = false /\
  in_scope KNdarray Add (KField NumericMem) = true /\
  py_binop orig_tables KNdarray Add (KField NumericMem) = Ok PObjArray /\
  py_binop orig_tables KNdarray Lt (KField TimestampH5) = Ok PBoolTrue /\
  py_binop orig_tables KNpScalar Add (KField NumericH5) = Ok (PApply W_binary Op_add [SLhsItem; SRhs]).
Proof. exact (conj orig_reflected_unreachable orig_ndarray_add_refuted). Qed.
Print Assumptions c13_reflected_ops_reachable_refuted_before_fix.

(* FULL.  What the specified final state means, in the property's words: both operands (every
   pre-existing field) are unchanged … *)
Theorem c13_operands_unchanged :
  forall (arr nformat:Type) (dtype_to_str : arr -> res nformat) (h:heap arr nformat) rs store out,
    spec_state arr nformat dtype_to_str h rs store = Ok out ->
    forall id fo, nth_error h id = Some fo -> nth_error (o_heap _ _ out) id = Some fo.
Proof. exact spec_operands_unchanged. Qed.
Print Assumptions c13_operands_unchanged.

(* … each result is a new NumericMemField holding numpy's array with numpy's dtype, and the field
   assigned into the dataframe is a numeric field with the same dtype and values. *)
Theorem c13_results_are_numpys :
  forall (arr nformat:Type) (dtype_to_str : arr -> res nformat) (h:heap arr nformat) rs store out,
    spec_state arr nformat dtype_to_str h rs store = Ok out ->
    length (o_results _ _ out) = length rs /\
    forall i r, nth_error rs i = Some r ->
      exists nf, dtype_to_str r = Ok nf /\
        nth_error (o_results _ _ out) i = Some (VField (length h + i)) /\
        nth_error (o_heap _ _ out) (length h + i) = Some (mkfield arr nformat NumericMem nf (Some r)) /\
        (store = true ->
           nth_error (o_stored _ _ out) i = Some (VField (length h + length rs + i)) /\
           nth_error (o_heap _ _ out) (length h + length rs + i) = Some (mkfield arr nformat NumericH5 nf (Some r))).
Proof. exact spec_results_are_numpys. Qed.
Print Assumptions c13_results_are_numpys.

(* the premise `spec_state … = Ok out` is satisfiable: divmod's two results, stored *)
Example c13_spec_state_example :
  exists out, spec_state Z unit toy_dtype [mkfield Z unit NumericMem tt None] [3; 1] true = Ok out /\
              length (o_heap _ _ out) = 5%nat /\ o_results _ _ out = [VField 1%nat; VField 2%nat].
Proof. eexists. split; [vm_compute; reflexivity|split; reflexivity]. Qed.
