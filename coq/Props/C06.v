(* Props/C06.v — placeholder until Proofs/Transform*.v land *)
From Coq Require Import ZArith List.
From EV Require Import Res Arr Transform.
Import ListNotations.
Open Scope Z_scope.

Theorem c06_smoke : py_int [32; 45; 49; 95; 50] = Some (-12).
Proof. vm_compute. reflexivity. Qed.
Print Assumptions c06_smoke.
