(* Props/C06.v — schema-typed conversion on import: theorems (statements + Print Assumptions).
   Model: coq/Model/Transform.v (the importers as repaired by work/C06/fix-F-C06{a,c,d,e,g}.diff);
   specification: coq/Spec/TransformSpec.v; proofs: coq/Proofs/Transform*.v.
   `map (mk_chunk off slack tail) cc` is ANY chunking cc of the column (a list of lists of cells, empty
   chunks allowed) in ANY buffer layout (foreign bytes before the column's region, slack after it, stale
   index entries after the valid ones): all theorems are unbounded in sizes and chunk sizes. *)
From Coq Require Import ZArith List Bool.
From EV Require Import Res Arr Transform TransformSpec TransformBase TransformCat TransformLeaky TransformFixed
  TransformNum TransformMisc TransformTs.
Import ListNotations.
Open Scope Z_scope.

(* 1. categorical text maps by exact whole-string match (prefix / suffix keys cannot match: the result is
      `lookup`, equality of whole byte strings); unmatched text leaves 0.  Full. *)
Theorem categorical_exact_match : forall cats cc off slack tail,
  cats_ok cats = true -> sumZ (map lenfst cats) <= I64MAX -> 0 <= off -> 0 <= tail ->
  cat_import cats (map (mk_chunk off slack tail) cc) = Ok (spec_cat cats (concat cc)).
Proof. exact categorical_exact_match_proof. Qed.
Print Assumptions categorical_exact_match.

Example categorical_hypotheses_satisfiable :
  cats_ok [([97], 1); ([97; 98], 2); ([], 0)] = true /\ cats_ok big_cats = true /\ sumZ (map lenfst big_cats) = 270.
Proof. vm_compute. repeat split; reflexivity. Qed.

(* 2. with free text allowed: out-of-range code -1, and the free-text companion's offsets are the prefix
      sums over ALL chunks (freetext_offsets_prefix_sums), its bytes the unmatched texts; the accumulated
      offset is the length of the bytes written.  Full. *)
Theorem leaky_exact_match_and_freetext_offsets : forall cats cc off slack tail,
  cats_ok cats = true -> sumZ (map lenfst cats) <= I64MAX -> 0 <= off -> 0 <= slack -> 0 <= tail ->
  exists st, leaky_import cats (map (mk_chunk off slack tail) cc) = Ok st /\
             (ls_data st, ls_idx st, ls_vals st) = spec_leaky cats (concat cc) /\
             ls_acc st = len (ls_vals st).
Proof. exact leaky_exact_match_proof. Qed.
Print Assumptions leaky_exact_match_and_freetext_offsets.

(* F-C06a, on the unrepaired uint8 offset table (imax = 255): a valid schema with 270 key bytes raises;
   the repaired table accepts it. *)
Theorem byte_map_offsets_overflow_refuted :
  exists cats, cats_ok cats = true /\ get_byte_map_gen 255 cats = Raise E_Overflow /\ is_ok (get_byte_map cats) = true.
Proof. exists big_cats. exact byte_map_u8_overflow. Qed.
Print Assumptions byte_map_offsets_overflow_refuted.

(* 3. numeric columns: value + validity flag, or raise, exactly as the decision table `validate`
      (strict / allow_empty / relaxed) prescribes, cell by cell, for any chunking.  `parse` is the external
      text->number parser (Python int()/float()); its three premises are explicit.  Full (relative to parse). *)
Theorem validation_mode_rule : forall (parse:list Z -> option Z) (rng:option (Z * Z)) inv_text inv_val,
  (forall e, np_is_blank e = true -> parse e = None) ->
  parse inv_text = Some inv_val ->
  in_rng rng inv_val = true ->
  forall mode cc off slack tail, 0 <= off -> mode_ok mode = true ->
  num_import parse rng mode inv_text inv_val (map (mk_chunk off slack tail) cc)
  = spec_num parse rng mode inv_val (concat cc).
Proof. exact validation_mode_rule_proof. Qed.
Print Assumptions validation_mode_rule.

(* the integer instance: Python's int() on bytes as defined in Gallina (py_int) meets the first premise *)
Theorem int_validation_mode_rule : forall lo hi inv_text inv_val,
  py_int inv_text = Some inv_val -> lo <= inv_val <= hi ->
  forall mode cc off slack tail, 0 <= off -> mode_ok mode = true ->
  num_import py_int (Some (lo, hi)) mode inv_text inv_val (map (mk_chunk off slack tail) cc)
  = spec_num py_int (Some (lo, hi)) mode inv_val (concat cc).
Proof.
  intros lo hi inv_text inv_val Hi Hr. apply validation_mode_rule_proof; [exact py_int_blank|exact Hi|].
  unfold in_rng. apply andb_true_intro. split; apply Z.leb_le; apply Hr.
Qed.
Print Assumptions int_validation_mode_rule.

Example int_hypotheses_satisfiable : py_int [48] = Some 0 /\ -128 <= 0 <= 127 /\ mode_ok MODE_RELAXED = true.
Proof. vm_compute. repeat split; discriminate. Qed.

(* F-C06c after the repair: relaxed mode flags an out-of-range number instead of raising *)
Theorem relaxed_out_of_range_flagged :
  num_import py_int (Some (-128, 127)) MODE_RELAXED [48] 0 [mk_chunk 0 0 0 [[51; 48; 48]; [49; 50]]]
  = Ok ([0; 12], [0; 1]).
Proof. vm_compute. reflexivity. Qed.
Print Assumptions relaxed_out_of_range_flagged.

(* 4. fixed strings are the first N bytes (zero padded).  Full. *)
Theorem fixed_string_is_firstn : forall n cc off slack tail,
  0 <= n -> 0 <= off ->
  fixed_import n (map (mk_chunk off slack tail) cc) = Ok (spec_fixed n (concat cc)).
Proof. exact fixed_string_is_firstn_proof. Qed.
Print Assumptions fixed_string_is_firstn.

(* 5. every accepted timestamp layout whose text carries no UTC offset (or +00:00) is stored as the instant
      it denotes (microseconds since the epoch).  Full for those layouts. *)
Theorem ts_layout_roundtrip : forall l c,
  layout_ok l = true -> civil_ok c = true -> layout_offset_us l = 0 ->
  parse_timestamp_bytes (fmt_ts l c) = Ok (denoted_us l c).
Proof. exact ts_layout_roundtrip_proof. Qed.
Print Assumptions ts_layout_roundtrip.

Example ts_hypotheses_satisfiable :
  layout_ok (L_utc3 56) = true /\ civil_ok w_civil = true /\ layout_offset_us (L_utc3 56) = 0 /\
  fmt_ts (L_utc3 56) w_civil = [50;48;50;48;45;48;54;45;49;53;32;49;57;58;52;53;58;51;57;46;48;53;54;32;85;84;67].
Proof. vm_compute. repeat split; reflexivity. Qed.

(* what is stored for EVERY accepted layout: the wall-clock reading taken as UTC (the offset is ignored) *)
Theorem ts_layout_value : forall l c, layout_ok l = true -> civil_ok c = true ->
  parse_timestamp_bytes (fmt_ts l c) = Ok (instant_us c (layout_us l)).
Proof. exact parse_layout. Qed.
Print Assumptions ts_layout_value.

(* F-C06b (known finding, not repaired): '2020-06-15 19:45:39+01:00' is stored one hour late *)
Theorem ts_offset_ignored_refuted :
  exists l c t, layout_ok l = true /\ civil_ok c = true /\
    parse_timestamp_bytes (fmt_ts l c) = Ok t /\ t <> denoted_us l c.
Proof.
  exists (L_off false 1 0), w_civil, 1592250339000000.
  destruct ts_offset_ignored as [H1 [H2 [H3 H4]]]. repeat split; try assumption. rewrite H4. discriminate.
Qed.
Print Assumptions ts_offset_ignored_refuted.

(* 6. companions stay row-aligned with, and as long as, the main column *)
Theorem companions_aligned_leaky : forall cats cells,
  let '(codes, idx, bytes) := spec_leaky cats cells in
  len codes = len cells /\ len idx = len cells + 1 /\ nthZ idx (len cells) = len bytes /\ nthZ idx 0 = 0.
Proof. exact leaky_aligned. Qed.
Print Assumptions companions_aligned_leaky.

Theorem companions_aligned_numeric : forall parse rng mode inv cells vals flags,
  spec_num parse rng mode inv cells = Ok (vals, flags) ->
  len vals = len cells /\ (mode <> MODE_STRICT -> len flags = len cells).
Proof. exact num_aligned. Qed.
Print Assumptions companions_aligned_numeric.

Theorem companions_aligned_datetime : forall chunks st,
  (forall c, In c chunks -> 0 <= c_rows c) ->
  datetime_import chunks = Ok st -> dt_aligned st (sumZ (map c_rows chunks)).
Proof.
  intros chunks st Hnn H.
  apply (dt_import_aligned datetime_row datetime_row_len chunks ([], [], []) st 0 Hnn); [|exact H].
  repeat split.
Qed.
Print Assumptions companions_aligned_datetime.

Theorem companions_aligned_date : forall chunks st,
  (forall c, In c chunks -> 0 <= c_rows c) ->
  date_import chunks = Ok st -> dt_aligned st (sumZ (map c_rows chunks)).
Proof.
  intros chunks st Hnn H.
  apply (dt_import_aligned date_row date_row_len chunks ([], [], []) st 0 Hnn); [|exact H].
  repeat split.
Qed.
Print Assumptions companions_aligned_date.

(* NOT proved (correspondence only, exhaustive over the literal tables): bool_transform_table
   (numeric_bool_transform = spec_bool); strptime_ymd against a date printer. *)
