(* Props/C06.v — schema-typed conversion on import: theorems (statements + Print Assumptions).
   Model: coq/Model/Transform.v (the importers as repaired by work/C06/fix-F-C06{a,c,d,e,g}.diff);
   specification: coq/Spec/TransformSpec.v; proofs: coq/Proofs/Transform*.v.
   `map (mk_chunk off slack tail) cc` is ANY chunking cc of the column (a list of lists of cells, empty
   chunks allowed) in ANY buffer layout (foreign bytes before the column's region, slack after it, stale
   index entries after the valid ones): all theorems are unbounded in sizes and chunk sizes. *)
From Coq Require Import ZArith List Bool.
From EV Require Import Res Arr Transform TransformSpec TransformBase TransformCat TransformLeaky TransformOrder TransformFixed
  TransformNum TransformMisc TransformTs TransformTrim TransformBool TransformDate TransformFrac.
Import ListNotations.
Open Scope Z_scope.

(* 1. categorical text maps by exact whole-string match (prefix / suffix keys cannot match: the result is
      `lookup`, equality of whole byte strings); unmatched text leaves 0.  Full. *)
Theorem categorical_exact_match : forall cats cc off slack tail,
  cats_ok cats = true -> sumZ (map lenfst cats) <= I64MAX -> 0 <= off -> 0 <= tail ->
  cat_import cats (map (mk_chunk off slack tail) cc) = Ok (spec_cat cats (concat cc)).
Proof. exact categorical_exact_match_proof. Qed.
Print Assumptions categorical_exact_match.

Example categorical_hypotheses_satisfiable :
  cats_ok [([97], 1); ([97; 98], 2); ([], 0)] = true /\ cats_ok big_cats = true /\ sumZ (map lenfst big_cats) = 270.
Proof. vm_compute. repeat split; reflexivity. Qed.

(* 2. with free text allowed: out-of-range code -1, and the free-text companion's offsets are the prefix
      sums over ALL chunks (freetext_offsets_prefix_sums), its bytes the unmatched texts; the accumulated
      offset is the length of the bytes written.  Full. *)
Theorem leaky_exact_match_and_freetext_offsets : forall cats cc off slack tail,
  cats_ok cats = true -> sumZ (map lenfst cats) <= I64MAX -> 0 <= off -> 0 <= slack -> 0 <= tail ->
  exists st, leaky_import cats (map (mk_chunk off slack tail) cc) = Ok st /\
             (ls_data st, ls_idx st, ls_vals st) = spec_leaky cats (concat cc) /\
             ls_acc st = len (ls_vals st).
Proof. exact leaky_exact_match_proof. Qed.
Print Assumptions leaky_exact_match_and_freetext_offsets.

(* 2b. (strengthening SC06) the ORDER in which the packed key table presents the schema's entries is not
      observable: for ANY arrangement s of the entries (same members; repeats allowed) the two kernels, run
      over the table packed from s (`bm_of s` = keys concatenated, prefix sums of the byte lengths, codes), give
      the exact-match specification of the schema.  get_byte_map produces one such arrangement (str order =
      UTF-8 byte order, which is NOT order by length in characters or bytes).  Keys are arbitrary byte
      strings: non-ASCII names whose character count and byte count order them differently are included. *)
Theorem categorical_key_order_unobservable : forall cats s cc off slack tail,
  cats_ok cats = true -> same_entries s cats -> 0 <= off -> 0 <= tail ->
  fold_res (cat_import_part (bm_of s)) [] (map (mk_chunk off slack tail) cc) = Ok (spec_cat cats (concat cc)).
Proof. exact cat_any_order_proof. Qed.
Print Assumptions categorical_key_order_unobservable.

Theorem leaky_key_order_unobservable : forall cats s cc off slack tail,
  cats_ok cats = true -> same_entries s cats -> 0 <= off -> 0 <= slack -> 0 <= tail ->
  exists st, fold_res (leaky_import_part (bm_of s)) lkst0 (map (mk_chunk off slack tail) cc) = Ok st /\
             (ls_data st, ls_idx st, ls_vals st) = spec_leaky cats (concat cc) /\
             ls_acc st = len (ls_vals st).
Proof. exact leaky_any_order_proof. Qed.
Print Assumptions leaky_key_order_unobservable.

Theorem byte_map_is_an_arrangement : forall cats,
  cats_ok cats = true -> sumZ (map lenfst cats) <= I64MAX ->
  exists s, same_entries s cats /\ get_byte_map cats = Ok (bm_of s).
Proof. exact byte_map_arrangement. Qed.
Print Assumptions byte_map_is_an_arrangement.

Example key_order_hypotheses_satisfiable : cats_ok mixed_cats = true /\ same_entries (rev mixed_cats) mixed_cats.
Proof. exact mixed_cats_ok. Qed.

(* F-C06a, on the unrepaired uint8 offset table (imax = 255): a valid schema with 270 key bytes raises;
   the repaired table accepts it. *)
Theorem byte_map_offsets_overflow_refuted :
  exists cats, cats_ok cats = true /\ get_byte_map_gen 255 cats = Raise E_Overflow /\ is_ok (get_byte_map cats) = true.
Proof. exists big_cats. exact byte_map_u8_overflow. Qed.
Print Assumptions byte_map_offsets_overflow_refuted.

(* 3. numeric columns: value + validity flag, or raise, exactly as the decision table `validate`
      (strict / allow_empty / relaxed) prescribes, cell by cell, for any chunking.  `parse` is the external
      text->number parser (Python int()/float()); its three premises are explicit.  Full (relative to parse). *)
Theorem validation_mode_rule : forall (parse:list Z -> option Z) (rng:option (Z * Z)) inv_text inv_val,
  (forall e, np_is_blank e = true -> parse e = None) ->
  parse inv_text = Some inv_val ->
  in_rng rng inv_val = true ->
  forall mode cc off slack tail, 0 <= off -> mode_ok mode = true ->
  num_import parse rng mode inv_text inv_val (map (mk_chunk off slack tail) cc)
  = spec_num parse rng mode inv_val (concat cc).
Proof. exact validation_mode_rule_proof. Qed.
Print Assumptions validation_mode_rule.

(* 3b. (strengthening SC06) the text handed to the parser is the WHOLE cell, whatever its length: the
      conversion buffer of a chunk is as wide as the longest cell of that chunk (only the NUL padding of the
      'S<w>' element is dropped).  No width bound exists in transform_int / transform_float. *)
Theorem numeric_text_read_whole : forall off slack tail cells, 0 <= off ->
  num_elements (mk_chunk off slack tail cells) = Ok (map strip_nul cells).
Proof. exact num_elements_ok. Qed.
Print Assumptions numeric_text_read_whole.

(* the integer instance: Python's int() on bytes as defined in Gallina (py_int) meets the first premise *)
Theorem int_validation_mode_rule : forall lo hi inv_text inv_val,
  py_int inv_text = Some inv_val -> lo <= inv_val <= hi ->
  forall mode cc off slack tail, 0 <= off -> mode_ok mode = true ->
  num_import py_int (Some (lo, hi)) mode inv_text inv_val (map (mk_chunk off slack tail) cc)
  = spec_num py_int (Some (lo, hi)) mode inv_val (concat cc).
Proof.
  intros lo hi inv_text inv_val Hi Hr. apply validation_mode_rule_proof; [exact py_int_blank|exact Hi|].
  unfold in_rng. apply andb_true_intro. split; apply Z.leb_le; apply Hr.
Qed.
Print Assumptions int_validation_mode_rule.

Example int_hypotheses_satisfiable : py_int [48] = Some 0 /\ -128 <= 0 <= 127 /\ mode_ok MODE_RELAXED = true.
Proof. vm_compute. repeat split; discriminate. Qed.

(* F-C06c after the repair: relaxed mode flags an out-of-range number instead of raising *)
Theorem relaxed_out_of_range_flagged :
  num_import py_int (Some (-128, 127)) MODE_RELAXED [48] 0 [mk_chunk 0 0 0 [[51; 48; 48]; [49; 50]]]
  = Ok ([0; 12], [0; 1]).
Proof. vm_compute. reflexivity. Qed.
Print Assumptions relaxed_out_of_range_flagged.

(* 4. fixed strings are the first N bytes (zero padded).  Full. *)
Theorem fixed_string_is_firstn : forall n cc off slack tail,
  0 <= n -> 0 <= off ->
  fixed_import n (map (mk_chunk off slack tail) cc) = Ok (spec_fixed n (concat cc)).
Proof. exact fixed_string_is_firstn_proof. Qed.
Print Assumptions fixed_string_is_firstn.

(* 5. every accepted timestamp layout whose text carries no UTC offset (or +00:00) is stored as the instant
      it denotes (microseconds since the epoch).  Full for those layouts. *)
Theorem ts_layout_roundtrip : forall l c,
  layout_ok l = true -> civil_ok c = true -> layout_offset_us l = 0 ->
  parse_timestamp_bytes (fmt_ts l c) = Ok (denoted_us l c).
Proof. exact ts_layout_roundtrip_proof. Qed.
Print Assumptions ts_layout_roundtrip.

Example ts_hypotheses_satisfiable :
  layout_ok (L_utc3 56) = true /\ civil_ok w_civil = true /\ layout_offset_us (L_utc3 56) = 0 /\
  fmt_ts (L_utc3 56) w_civil = [50;48;50;48;45;48;54;45;49;53;32;49;57;58;52;53;58;51;57;46;48;53;54;32;85;84;67].
Proof. vm_compute. repeat split; reflexivity. Qed.

(* (VC06) the same, read on the DIGIT STRING of the fraction: for every string ds of 1..3 digit bytes before " UTC",
   and every string of 6 digit bytes before "+HH:MM" / "-HH:MM", the stored microseconds are ds read as a decimal
   integer times 10^(6 - length) - exact integer arithmetic, no rounding, no digit string excepted.  (With offset
   00:00 the right-hand side is the denoted instant; other offsets are ignored: F-C06b.) *)
Theorem ts_fraction_digits_exact : forall c ds, civil_ok c = true -> all_digits ds = true ->
  (1 <= len ds <= 3 ->
     parse_timestamp_bytes (fmt_secs c ++ [46] ++ ds ++ SUF_UTC) = Ok (instant_us c (fraction_us ds))) /\
  (len ds = 6 -> forall neg oh om,
     parse_timestamp_bytes (fmt_secs c ++ [46] ++ ds ++ fmt_off neg oh om) = Ok (instant_us c (fraction_us ds))).
Proof. exact ts_fraction_digits_exact_proof. Qed.
Print Assumptions ts_fraction_digits_exact.

(* ".000249" (one of the 11549 six-digit strings for which int(float("0.000249") * 10^6) is 248 in binary64) *)
Example ts_fraction_hypotheses_satisfiable :
  all_digits [48;48;48;50;52;57] = true /\ len [48;48;48;50;52;57] = 6 /\ fraction_us [48;48;48;50;52;57] = 249 /\
  fraction_us [48;53] = 50000 /\
  parse_timestamp_bytes (fmt_secs w_civil ++ [46] ++ [48;48;48;50;52;57] ++ fmt_off false 0 0) = Ok 1592250339000249.
Proof. vm_compute. repeat split; reflexivity. Qed.

(* a fraction is less than one second *)
Theorem fraction_us_below_one_second : forall ds, all_digits ds = true -> len ds <= 6 -> 0 <= fraction_us ds < 1000000.
Proof. exact fraction_us_range. Qed.
Print Assumptions fraction_us_below_one_second.

(* the code as it is: 4, 5 or 6 fraction digits before " UTC" (28..30 bytes; not a documented layout) are read as
   "YYYY-MM-DD HH:MM:SS UTC" - the fraction is dropped *)
Theorem ts_long_utc_fraction_dropped : forall c ds, civil_ok c = true -> 4 <= len ds <= 6 ->
  parse_timestamp_bytes (fmt_secs c ++ [46] ++ ds ++ SUF_UTC) = Ok (instant_us c 0).
Proof. exact frac_utc_long_dropped. Qed.
Print Assumptions ts_long_utc_fraction_dropped.

(* what is stored for EVERY accepted layout: the wall-clock reading taken as UTC (the offset is ignored) *)
Theorem ts_layout_value : forall l c, layout_ok l = true -> civil_ok c = true ->
  parse_timestamp_bytes (fmt_ts l c) = Ok (instant_us c (layout_us l)).
Proof. exact parse_layout. Qed.
Print Assumptions ts_layout_value.

(* F-C06b (known finding, not repaired): '2020-06-15 19:45:39+01:00' is stored one hour late *)
Theorem ts_offset_ignored_refuted :
  exists l c t, layout_ok l = true /\ civil_ok c = true /\
    parse_timestamp_bytes (fmt_ts l c) = Ok t /\ t <> denoted_us l c.
Proof.
  exists (L_off false 1 0), w_civil, 1592250339000000.
  destruct ts_offset_ignored as [H1 [H2 [H3 H4]]]. repeat split; try assumption. rewrite H4. discriminate.
Qed.
Print Assumptions ts_offset_ignored_refuted.

(* 6. companions stay row-aligned with, and as long as, the main column *)
Theorem companions_aligned_leaky : forall cats cells,
  let '(codes, idx, bytes) := spec_leaky cats cells in
  len codes = len cells /\ len idx = len cells + 1 /\ nthZ idx (len cells) = len bytes /\ nthZ idx 0 = 0.
Proof. exact leaky_aligned. Qed.
Print Assumptions companions_aligned_leaky.

Theorem companions_aligned_numeric : forall parse rng mode inv cells vals flags,
  spec_num parse rng mode inv cells = Ok (vals, flags) ->
  len vals = len cells /\ (mode <> MODE_STRICT -> len flags = len cells).
Proof. exact num_aligned. Qed.
Print Assumptions companions_aligned_numeric.

Theorem companions_aligned_datetime : forall chunks st,
  (forall c, In c chunks -> 0 <= c_rows c) ->
  datetime_import chunks = Ok st -> dt_aligned st (sumZ (map c_rows chunks)).
Proof.
  intros chunks st Hnn H.
  apply (dt_import_aligned datetime_row datetime_row_len chunks ([], [], []) st 0 Hnn); [|exact H].
  repeat split.
Qed.
Print Assumptions companions_aligned_datetime.

Theorem companions_aligned_date : forall chunks st,
  (forall c, In c chunks -> 0 <= c_rows c) ->
  date_import chunks = Ok st -> dt_aligned st (sumZ (map c_rows chunks)).
Proof.
  intros chunks st Hnn H.
  apply (dt_import_aligned date_row date_row_len chunks ([], [], []) st 0 Hnn); [|exact H].
  repeat split.
Qed.
Print Assumptions companions_aligned_date.

(* 7. booleans: NumericImporter('bool') = numeric_bool_transform per chunk (the two blank-trimming while loops,
      the literal tables for trimmed lengths 1..5, the three validation modes with their `break`s, the two
      exception codes 1 = "can not be empty in strict mode" / 2 = "can not be parsed") stores exactly what
      `spec_bool` prescribes: case-folded literal lists 1/y/t/on/yes/true and 0/n/f/no/off/false after trimming
      blanks (byte 32 only), invalid value + false flag or the importer's exception, first offending cell first.
      Every cell text (any list of integers), every mode number (numbers other than 0/1 behave as relaxed in
      both), every chunking, every buffer layout.  Full. *)
Theorem bool_transform_table : forall inv mode cc off slack tail, 0 <= off ->
  bool_import inv mode (map (mk_chunk off slack tail) cc) = spec_bool mode inv (concat cc).
Proof. exact bool_transform_table_proof. Qed.
Print Assumptions bool_transform_table.

Example bool_table_example :
  spec_bool MODE_RELAXED 0 [[32; 89; 69; 115; 32]; [79; 102; 70]; [32; 32]; [121; 101]; [84]] = Ok ([1; 0; 0; 0; 1], [1; 1; 0; 0; 1]) /\
  spec_bool MODE_ALLOW_EMPTY 1 [[]; [110; 79]] = Ok ([1; 0], [0; 1]) /\
  spec_bool MODE_ALLOW_EMPTY 1 [[]; [50]] = Raise E_NumParse /\ spec_bool MODE_STRICT 1 [[49]; [32]] = Raise E_NumEmpty.
Proof. vm_compute. repeat split; reflexivity. Qed.

(* the same fact read at the kernel: on the arrays the importer allocates, numeric_bool_transform returns
   the message code 0 / 1 / 2 of the table, and when it is 0 `elements` and `validity` are the table's columns *)
Theorem bool_kernel_table : forall inv mode off slack tail cells, 0 <= off ->
  exists el va,
    numeric_bool_transform (mk_chunk off slack tail cells) inv mode (zeros (len cells)) (repeat 1 (length cells))
    = Ok (match spec_bool mode inv cells with Raise c => c - 100 | _ => 0 end, el, va) /\
    forall vals flags, spec_bool mode inv cells = Ok (vals, flags) -> el = vals /\ va = flags.
Proof. exact bool_kernel_table_proof. Qed.
Print Assumptions bool_kernel_table.

(* 8. dates.  (a) chunk independence: DateImporter / DateTimeImporter over ANY chunking and buffer layout
      = the row function (strip, parse, timestamp, day string, flag) mapped over all the cells.  Full. *)
Theorem date_chunk_independent : forall cc off slack tail, 0 <= off ->
  date_import (map (mk_chunk off slack tail) cc) = bind (map_res date_row (concat cc)) (fun rs => Ok (dt_cols rs)).
Proof. exact date_chunk_independent_proof. Qed.
Print Assumptions date_chunk_independent.

Theorem datetime_chunk_independent : forall cc off slack tail, 0 <= off ->
  datetime_import (map (mk_chunk off slack tail) cc) = bind (map_res datetime_row (concat cc)) (fun rs => Ok (dt_cols rs)).
Proof. exact datetime_chunk_independent_proof. Qed.
Print Assumptions datetime_chunk_independent.

(* (b) one cell: strip + datetime.strptime(.., '%Y-%m-%d') + datetime(..., tzinfo=utc).timestamp() + day string
      against the PRINTERS `date_texts` (YYYY-MM-DD; month and day may drop the leading zero, the day may carry
      a space for it): blank -> (0, ten NULs, flag 0); a text of a valid civil date -> (UTC midnight of that
      date in us, first 10 bytes of the text, flag 1); any other text -> ValueError.  `date_cell_spec` is
      deterministic (next theorem), so this fixes date_row completely.
      Domain: ASCII cells.  The model is of the code on every byte string (value.decode() as strict UTF-8, `\d` and
      int() over all decimal digits of Unicode 15.0); outside ASCII the statement is false, see
      date_unicode_digits_accepted below.  Full on that domain. *)
Theorem date_cell_table : forall cell, ascii cell = true -> date_cell_spec cell (date_row cell).
Proof. exact date_cell_table_proof. Qed.
Print Assumptions date_cell_table.

Theorem date_cell_spec_deterministic : forall cell r1 r2,
  date_cell_spec cell r1 -> date_cell_spec cell r2 -> r1 = r2.
Proof. exact date_cell_spec_deterministic_proof. Qed.
Print Assumptions date_cell_spec_deterministic.

(* (c) the column as its author wrote it: blank cells and valid civil dates printed as YYYY-MM-DD with any
      white space (bytes.strip()'s set) around them, any chunking and layout: stored timestamps = UTC midnights,
      day strings = the 10 bytes YYYY-MM-DD (ten NULs for blanks), flags 1 / 0.  Full. *)
Theorem date_column_roundtrip : forall (dd:list (list dcell)) off slack tail, 0 <= off ->
  forallb dcell_ok (concat dd) = true ->
  date_import (map (mk_chunk off slack tail) (map (map dcell_text) dd)) = Ok (dt_cols (map dcell_store (concat dd))).
Proof. exact date_column_roundtrip_proof. Qed.
Print Assumptions date_column_roundtrip.

Example date_column_example :
  let dd := [[DDate [32] 2020 2 29 [9; 10]; DBlank [32; 32]]; []; [DDate [] 1969 12 31 []; DDate [] 9999 12 31 []]] in
  forallb dcell_ok (concat dd) = true /\
  map dcell_text (concat dd) = [[32; 50;48;50;48;45;48;50;45;50;57; 9; 10]; [32; 32];
                                [49;57;54;57;45;49;50;45;51;49]; [57;57;57;57;45;49;50;45;51;49]] /\
  map (fun x => fst (fst (dcell_store x))) (concat dd) = [1582934400000000; 0; -86400000000; 253402214400000000].
Proof. vm_compute. repeat split; reflexivity. Qed.

(* (d) invalid texts raise: a column with a cell that is neither blank nor a text of a valid civil date cannot be
      imported (ValueError), whatever the other cells and the chunking.  Full (ASCII domain as above). *)
Theorem date_invalid_raises : forall cc cell off slack tail, 0 <= off ->
  In cell (concat cc) -> ascii cell = true -> strip cell <> [] ->
  (forall y m d, date_ok y m d = true -> ~ In (strip cell) (date_texts y m d)) ->
  date_import (map (mk_chunk off slack tail) cc) = Raise E_ValueError.
Proof. exact date_invalid_raises_proof. Qed.
Print Assumptions date_invalid_raises.

(* 2020-02-30, 0000-01-01 and 2020-13-01 meet the hypotheses *)
Example date_invalid_hypotheses_satisfiable :
  forall cell, In cell [[50;48;50;48;45;48;50;45;51;48]; [48;48;48;48;45;48;49;45;48;49]; [50;48;50;48;45;49;51;45;48;49]] ->
  ascii cell = true /\ strip cell <> [] /\
  forall y m d, date_ok y m d = true -> ~ In (strip cell) (date_texts y m d).
Proof.
  intros cell [<-|[<-|[<-|[]]]]; (split; [reflexivity|]); apply date_bad_of_run; vm_compute; reflexivity.
Qed.

(* outside the ASCII domain: '\u0662\u0660\u0662\u0660-01-05' (Arabic-Indic year digits, UTF-8) is no printing of
   any date in `date_texts`, yet strptime's \d and int() read it: it is imported as 2020-01-05 and the day string
   is the first 10 bytes of the UTF-8 text.  (Replayed on the real code: same result.  Not a defect of the
   property: the stored instant is the one the text denotes.) *)
Theorem date_unicode_digits_accepted :
  exists cell, ascii cell = false /\ (forall y m d, ~ In (strip cell) (date_texts y m d)) /\
    date_row cell = Ok (midnight_us 2020 1 5, firstn 10 cell, 1).
Proof. exists arabic_indic_2020_01_05. exact date_unicode_digits. Qed.
Print Assumptions date_unicode_digits_accepted.

(* (e) what midnight_us counts: 0 at 1970-01-01 and 86400 s more for every next civil day (month lengths, leap
      years), i.e. the UTC POSIX timestamp of the date's midnight *)
Theorem midnight_next_day : forall y m d, date_ok y m d = true ->
  let '(y', m', d') := next_day y m d in midnight_us y' m' d' = midnight_us y m d + 86400 * 1000000.
Proof. exact midnight_next_day_proof. Qed.
Print Assumptions midnight_next_day.

Theorem midnight_epoch_zero : midnight_us 1970 1 1 = 0.
Proof. exact midnight_epoch. Qed.
Print Assumptions midnight_epoch_zero.
