(* Props/C19.v — C19 "Session-level merge and join helpers agree with relational join semantics".
   Statements only; proofs are in Proofs/SessionMerge*.v.
   Model: Model/SessionMerge.v (Session.ordered_merge_left as repaired by work/C19/fix-F-C19a.diff and
   fix-F-C19c.diff = version Fixed; the code as found = version Orig), Model/Join.v (streamed generators, C03),
   Model/MapStream.v (map_valid, safe_map_*, ordered_map_valid_stream, C04).
   Spec: Spec/JoinSpec.v (left_join, inner_join), Spec/SessionMergeSpec.v (left_payload, inner_payload_*, get_index_ok,
   join_rows), Spec/MapStreamSpec.v (decode / offsets_of for indexed strings). *)
From Coq Require Import ZArith List Bool Lia Permutation.
From EV Require Import Res Arr Join JoinSpec JoinMain MapStream MapStreamSpec SessionMerge SessionMergeSpec
  SessionMergeBase SessionMergeLeft SessionMergeTop SessionMergeIndex SessionMergePandas
  SessionMergeInner SessionMergeSwap SessionMergeInnerTop SessionMergeJoin
  JoinDriver JoinMainKRU SessionMergeStream.
Import ListNotations.
Open Scope Z_scope.

(* ================================================================== kernels *)
(* FULL.  generate_ordered_map_to_left_right_unique (both=false: left key sorted, duplicates allowed) and
   generate_ordered_map_to_left_both_unique (both=true: left key strictly increasing), right key strictly
   increasing, result array of the left length, any marker: the kernel terminates without an out-of-bounds
   access and fills the result with the right-row column of the relational left join. *)
Theorem left_map_kernels_correct : forall both L R inv,
  sorted L -> (both = true -> ssorted L) -> ssorted R -> forall res, len res = len L ->
  exists u, gen_left_map both L R res inv = Ok (map snd (left_join inv L R), u).
Proof. exact gen_left_map_correct. Qed.
Print Assumptions left_map_kernels_correct.

Example left_map_kernels_hyps :
  sorted [1;1;3;4;4] /\ ssorted [0;1;4;7] /\
  gen_left_map false [1;1;3;4;4] [0;1;4;7] [0;0;0;0;0] (-1) = Ok ([1;1;-1;2;2], true).
Proof. split; [apply sortedb_sorted; reflexivity|]. split; [apply ssortedb_ssorted; reflexivity|reflexivity]. Qed.

(* FULL.  ordered_inner_map_result_size on sorted keys (duplicates on both sides allowed) is the number of
   matching pairs. *)
Theorem inner_result_size_correct : forall L R, sorted L -> sorted R ->
  ordered_inner_map_result_size L R = Ok (len (inner_join L R)).
Proof. exact inner_result_size_correct_top. Qed.
Print Assumptions inner_result_size_correct.

(* FULL.  ordered_inner_map (IGen: duplicates on both sides), ordered_inner_map_left_unique (ILU: left key
   strictly increasing) and ordered_inner_map_both_unique (IBU), buffers of the result size: the two buffers
   receive the left and the right row numbers of the matching pairs in (left,right) order; no out-of-bounds
   write, termination. *)
Theorem inner_map_kernels_correct : forall k L R l2i r2i, sorted L -> sorted R ->
  (k <> IGen -> ssorted L) -> (k = IBU -> ssorted R) ->
  len l2i = len (inner_join L R) -> len r2i = len (inner_join L R) ->
  ordered_inner_map_k k L R l2i r2i = Ok (map fst (inner_join L R), map snd (inner_join L R)).
Proof. exact inner_map_kernels_correct_top. Qed.
Print Assumptions inner_map_kernels_correct.

Example inner_map_kernels_hyps :
  sorted [1;1;2;4] /\ sorted [1;1;3;4] /\
  ordered_inner_map_k IGen [1;1;2;4] [1;1;3;4] [0;0;0;0;0] [0;0;0;0;0] = Ok ([0;0;1;1;3], [0;1;0;1;3]).
Proof. split; [apply sortedb_sorted; reflexivity|]. split; [apply sortedb_sorted; reflexivity|reflexivity]. Qed.

(* FULL.  "inner results list exactly the matching pairs": membership and absence of repetitions of the
   specification list itself, for keys in any order. *)
Theorem inner_join_lists_exactly_the_matching_pairs : forall L R i j,
  In (i, j) (inner_join L R) <-> (0 <= i < len L /\ 0 <= j < len R /\ nthZ L i = nthZ R j).
Proof. exact inner_join_exactly_matching. Qed.
Print Assumptions inner_join_lists_exactly_the_matching_pairs.

Theorem inner_join_has_no_duplicates : forall L R, NoDup (inner_join L R).
Proof. exact inner_join_no_duplicates. Qed.
Print Assumptions inner_join_has_no_duplicates.

(* FULL.  Sorted left key, unique sorted right key: listing the pairs from the right side (what
   ordered_merge_inner does for left_unique=False, right_unique=True) gives the same list. *)
Theorem inner_join_from_the_other_side : forall L R, sorted L -> ssorted R ->
  inner_join L R = map swap (inner_join R L).
Proof. exact inner_join_swap. Qed.
Print Assumptions inner_join_from_the_other_side.

(* ================================================================== ordered_merge_left / ordered_merge_right *)
(* FULL.  Every in-memory argument form (ndarray or field keys and payloads; no sinks, zero-initialised ndarray
   sinks or field sinks; any map argument except the streamed combination "field sinks + field map"), both
   versions of the code, truthful flags (right key unique; left key unique when left_unique is set): the call
   succeeds and the payload columns it returns / writes are exactly `left_payload` of every source column. *)
Theorem ordered_merge_left_inmemory_correct : forall L R srcs lu,
  srcs <> [] -> sorted L -> (lu = true -> ssorted L) -> ssorted R -> len R <= INVALID_INDEX ->
  (forall s, In s srcs -> len s = len R) ->
  forall ver cs fm sinks0 mk,
  streamable ver fm mk = false -> (fm = FArrSink -> sinks0 = zero_sinks L srcs) ->
  exists o, ordered_merge_left ver cs L R srcs fm sinks0 mk lu true = Ok o /\
            oml_payloads o = Some (map (left_payload 0 L R) srcs) /\
            (oml_ret o = Some (map (left_payload 0 L R) srcs) <-> (fm = FArr \/ fm = FFld)).
Proof. exact oml_inmemory_correct. Qed.
Print Assumptions ordered_merge_left_inmemory_correct.

(* FULL.  ordered_merge_right is the same call with the sides exchanged. *)
Theorem ordered_merge_right_inmemory_correct : forall left_on right_on srcs left_unique,
  srcs <> [] -> sorted right_on -> (true = true -> ssorted right_on) -> ssorted left_on ->
  len left_on <= INVALID_INDEX -> (forall s, In s srcs -> len s = len left_on) ->
  forall ver cs fm sinks0 mk,
  streamable ver fm mk = false -> (fm = FArrSink -> sinks0 = zero_sinks right_on srcs) ->
  left_unique = true ->
  exists o, ordered_merge_right ver cs left_on right_on srcs fm sinks0 mk left_unique true = Ok o /\
            oml_payloads o = Some (map (left_payload 0 right_on left_on) srcs).
Proof. exact omr_inmemory_correct. Qed.
Print Assumptions ordered_merge_right_inmemory_correct.

(* FULL (both keys unique).  The streamed form of the repaired code — field keys, payloads, sinks and map — for
   EVERY chunk size >= 1: sinks = left_payload columns, the map field = the join map; no error, no
   out-of-bounds access, termination (composition of C03's both-unique theorem and C04's map_stream_correct). *)
Theorem ordered_merge_left_streamed_both_unique_correct : forall L R srcs lu,
  srcs <> [] -> sorted L -> (lu = true -> ssorted L) -> ssorted R -> len R <= INVALID_INDEX ->
  (forall s, In s srcs -> len s = len R) ->
  forall cs, lu = true -> 1 <= cs ->
  ordered_merge_left Fixed cs L R srcs FFldSink [] MFld lu true
  = Ok (mk_oml None (Some (map (left_payload 0 L R) srcs)) (Some (map snd (left_join INVALID_INDEX L R)))).
Proof. exact oml_streamed_both_unique_correct. Qed.
Print Assumptions ordered_merge_left_streamed_both_unique_correct.

(* FULL (left key with duplicates, right key unique).  The streamed form for EVERY chunk size >= 1: the call
   returns the join (sinks = left_payload columns, map field = join map), or raises the documented clear
   ValueError of get_next_chunk — and the latter only when a whole window of cs consecutive left keys is one
   run of equal keys that continues beyond the window (cs = 2^20 in production).  Composition of the C03
   end-to-end theorem for the right-unique streamed generator (Proofs/JoinRU.v, JoinMainKRU.v) with C04's
   map_stream_correct. *)
Theorem ordered_merge_left_streamed_right_unique_total : forall L R srcs,
  srcs <> [] -> sorted L -> ssorted R -> len R <= INVALID_INDEX -> (forall s, In s srcs -> len s = len R) ->
  forall cs, 1 <= cs ->
  ordered_merge_left Fixed cs L R srcs FFldSink [] MFld false true
  = Ok (mk_oml None (Some (map (left_payload 0 L R) srcs)) (Some (map snd (left_join INVALID_INDEX L R))))
  \/ (ordered_merge_left Fixed cs L R srcs FFldSink [] MFld false true = Raise E_ValueError /\ long_run_in cs L).
Proof. exact oml_streamed_right_unique_total. Qed.
Print Assumptions ordered_merge_left_streamed_right_unique_total.

(* FULL.  ... hence the join whenever every window of cs left keys that does not reach the end of the column
   contains two different adjacent keys (no_long_run; e.g. len L <= cs, or a unique left key and cs >= 2). *)
Theorem ordered_merge_left_streamed_right_unique_correct : forall L R srcs,
  srcs <> [] -> sorted L -> ssorted R -> len R <= INVALID_INDEX -> (forall s, In s srcs -> len s = len R) ->
  forall cs, 1 <= cs -> no_long_run L cs ->
  ordered_merge_left Fixed cs L R srcs FFldSink [] MFld false true
  = Ok (mk_oml None (Some (map (left_payload 0 L R) srcs)) (Some (map snd (left_join INVALID_INDEX L R)))).
Proof. exact oml_streamed_right_unique_correct. Qed.
Print Assumptions ordered_merge_left_streamed_right_unique_correct.

Example ordered_merge_left_streamed_right_unique_hyps :
  sorted [1;1;2;2;4;5;5;5] /\ ssorted [0;1;2;3;5] /\ no_long_run [1;1;2;2;4;5;5;5] 3 /\
  ordered_merge_left Fixed 3 [1;1;2;2;4;5;5;5] [0;1;2;3;5] [[10;20;30;40;50]] FFldSink [] MFld false true
  = Ok (mk_oml None (Some [[20;20;30;30;0;50;50;50]]) (Some [1;1;2;2;INVALID_INDEX;4;4;4])).
Proof.
  destruct right_unique_hyps_ex as (H1 & H2 & H3 & _).
  split; [exact H1|]. split; [exact H2|]. split; [exact H3|]. vm_compute. reflexivity.
Qed.

(* FULL.  "the array, field and streamed forms of the same call return the same values": any two in-memory
   forms, and (both keys unique) any in-memory form vs the streamed form at any chunk size. *)
Theorem ordered_merge_left_forms_agree : forall L R srcs lu,
  srcs <> [] -> sorted L -> (lu = true -> ssorted L) -> ssorted R -> len R <= INVALID_INDEX ->
  (forall s, In s srcs -> len s = len R) ->
  forall ver1 cs1 fm1 sinks1 mk1 ver2 cs2 fm2 sinks2 mk2,
  streamable ver1 fm1 mk1 = false -> (fm1 = FArrSink -> sinks1 = zero_sinks L srcs) ->
  streamable ver2 fm2 mk2 = false -> (fm2 = FArrSink -> sinks2 = zero_sinks L srcs) ->
  exists o1 o2, ordered_merge_left ver1 cs1 L R srcs fm1 sinks1 mk1 lu true = Ok o1 /\
                ordered_merge_left ver2 cs2 L R srcs fm2 sinks2 mk2 lu true = Ok o2 /\
                oml_payloads o1 = oml_payloads o2.
Proof. exact oml_forms_agree. Qed.
Print Assumptions ordered_merge_left_forms_agree.

Theorem ordered_merge_left_streamed_agrees : forall L R srcs lu,
  srcs <> [] -> sorted L -> (lu = true -> ssorted L) -> ssorted R -> len R <= INVALID_INDEX ->
  (forall s, In s srcs -> len s = len R) ->
  forall ver cs0 fm sinks0 mk cs, lu = true -> 1 <= cs ->
  streamable ver fm mk = false -> (fm = FArrSink -> sinks0 = zero_sinks L srcs) ->
  exists o1 o2, ordered_merge_left ver cs0 L R srcs fm sinks0 mk lu true = Ok o1 /\
                ordered_merge_left Fixed cs L R srcs FFldSink [] MFld lu true = Ok o2 /\
                oml_payloads o1 = oml_payloads o2.
Proof. exact oml_streamed_agrees_both_unique. Qed.
Print Assumptions ordered_merge_left_streamed_agrees.

Theorem ordered_merge_left_streamed_agrees_right_unique : forall L R srcs,
  srcs <> [] -> sorted L -> ssorted R -> len R <= INVALID_INDEX -> (forall s, In s srcs -> len s = len R) ->
  forall ver cs0 fm sinks0 mk cs, 1 <= cs -> no_long_run L cs ->
  streamable ver fm mk = false -> (fm = FArrSink -> sinks0 = zero_sinks L srcs) ->
  exists o1 o2, ordered_merge_left ver cs0 L R srcs fm sinks0 mk false true = Ok o1 /\
                ordered_merge_left Fixed cs L R srcs FFldSink [] MFld false true = Ok o2 /\
                oml_payloads o1 = oml_payloads o2.
Proof. exact oml_streamed_agrees_right_unique. Qed.
Print Assumptions ordered_merge_left_streamed_agrees_right_unique.

(* FULL.  The property text, row by row: "row r of a left-merge result is the right payload at the right row
   whose key equals left key r (empty value if none)". *)
Theorem left_merge_row_meaning : forall L R s r, ssorted R -> 0 <= r < len L ->
  len (left_payload 0 L R s) = len L /\
  ((exists j, 0 <= j < len R /\ nthZ R j = nthZ L r /\ nthZ (left_payload 0 L R s) r = nthZ s j) \/
   ((forall j, 0 <= j < len R -> nthZ R j <> nthZ L r) /\ nthZ (left_payload 0 L R s) r = 0)).
Proof. exact left_payload_rows. Qed.
Print Assumptions left_merge_row_meaning.

Example ordered_merge_left_nonvacuous :
  ordered_merge_left Fixed 3 [1;3;3;5] [0;3;5;9] [[10;20;30;40]] FFldSink [] MFld false true
  = Ok (mk_oml None (Some [[0;20;20;30]]) (Some [INVALID_INDEX;1;1;2])) /\
  ordered_merge_left Fixed 2 [1;3;3;5] [0;3;5;9] [[10;20;30;40]] FArr [] MNone false true
  = Ok (mk_oml (Some [[0;20;20;30]]) None None).
Proof. split; vm_compute; reflexivity. Qed.

(* ================================================================== the code as found: REFUTED *)
(* F-C19a: the deprecated streamed generator, sorted left key / unique right key, a chunk size larger than both
   inputs (as in production): the unmatched tail is missing; chunk size 1: a split run loses its matches. *)
Theorem streamed_old_refuted :
  exists L R cs, sorted L /\ ssorted R /\ 1 <= cs /\ len L < cs /\
    forall m u, streamed_old L R INVALID_INDEX cs = Ok (m, u) -> m <> map snd (left_join INVALID_INDEX L R).
Proof. exact streamed_old_refuted_lemma. Qed.
Print Assumptions streamed_old_refuted.

Theorem streamed_old_split_run_refuted :
  streamed_old [1;1;1;2] [1;2] INVALID_INDEX 1 = Ok ([0; INVALID_INDEX; INVALID_INDEX; 1], true) /\
  map snd (left_join INVALID_INDEX [1;1;1;2] [1;2]) = [0;0;0;1].
Proof. exact streamed_old_split_witness. Qed.
Print Assumptions streamed_old_split_run_refuted.

(* F-C19b: empty key field / empty map / empty payload: StopIteration *)
Theorem streamed_old_empty_refuted :
  streamed_old [1;2] [] INVALID_INDEX 8 = Raise E_StopIteration /\
  map_stream_old [] [INVALID_INDEX] INVALID_INDEX 8 = Raise E_StopIteration /\
  map_stream_old [5] [] INVALID_INDEX 8 = Raise E_StopIteration.
Proof. exact streamed_old_empty_witness. Qed.
Print Assumptions streamed_old_empty_refuted.

(* F-C19a at Session level: ordered_merge_left as found, streamed form, loses two of four rows *)
Theorem ordered_merge_left_streamed_orig_refuted :
  ordered_merge_left Orig 8 [0;2;3;4] [1;2] [[101;102]] FFldSink [] MFld false true
  = Ok (mk_oml None (Some [[0;102]]) (Some [INVALID_INDEX; 1])) /\
  map (left_payload 0 [0;2;3;4] [1;2]) [[101;102]] = [[0;102;0;0]].
Proof. exact oml_streamed_orig_witness. Qed.
Print Assumptions ordered_merge_left_streamed_orig_refuted.

(* F-C19c: as found, the streamable argument form always fails for left_unique=True or an ndarray map; the
   repaired code returns the join *)
Theorem ordered_merge_left_streamable_orig_refuted :
  ordered_merge_left Orig 8 [0;1] [0;2] [[101;102]] FFldSink [] MFld true true = Raise E_ValueError /\
  ordered_merge_left Orig 8 [0;1] [0;2] [[101;102]] FFldSink [] MArr false true = Raise E_ValueError /\
  ordered_merge_left Fixed 8 [0;1] [0;2] [[101;102]] FFldSink [] MFld true true
    = Ok (mk_oml None (Some [[101;0]]) (Some [0; INVALID_INDEX])) /\
  ordered_merge_left Fixed 8 [0;1] [0;2] [[101;102]] FFldSink [] MArr false true
    = Ok (mk_oml None (Some [[101;0]]) None).
Proof. exact oml_streamable_orig_witness. Qed.
Print Assumptions ordered_merge_left_streamable_orig_refuted.

(* ================================================================== ordered_merge_inner *)
(* FULL.  Every truthful flag combination (4), every argument form (ndarray / zero-initialised ndarray sinks /
   fields / field sinks), sorted keys with duplicates wherever the flags allow them: the call succeeds; the
   returned pair of tuples (no sinks) or the sinks hold inner_payload_l of every left source and
   inner_payload_r of every right source. *)
Theorem ordered_merge_inner_correct : forall L R lsrcs rsrcs lu ru,
  lsrcs <> [] -> rsrcs <> [] -> sorted L -> sorted R ->
  (lu = true -> ssorted L) -> (ru = true -> ssorted R) ->
  (forall s, In s lsrcs -> len s = len L) -> (forall s, In s rsrcs -> len s = len R) ->
  len L <= INVALID_INDEX -> len R <= INVALID_INDEX ->
  forall fm ls0 rs0,
  (fm = FArrSink -> ls0 = zero_inner_sinks L R lsrcs /\ rs0 = zero_inner_sinks L R rsrcs) ->
  ordered_merge_inner L R lsrcs rsrcs fm ls0 rs0 lu ru =
  Ok (match fm with FArr | FFld => RPair (map (inner_payload_l 0 L R) lsrcs) (map (inner_payload_r 0 L R) rsrcs)
                  | _ => RNone end,
      match fm with FArr | FFld => None | _ => Some (map (inner_payload_l 0 L R) lsrcs) end,
      match fm with FArr | FFld => None | _ => Some (map (inner_payload_r 0 L R) rsrcs) end).
Proof. exact omi_correct. Qed.
Print Assumptions ordered_merge_inner_correct.

Example ordered_merge_inner_nonvacuous :     (* left key with duplicates, right key unique: the swapped kernel *)
  ordered_merge_inner [1;1;2;4] [1;3;4] [[10;20;30;40]] [[5;6;7]] FArr [] [] false true
  = Ok (RPair [[10;20;40]] [[5;5;7]], None, None).
Proof. vm_compute. reflexivity. Qed.

(* ================================================================== join *)
(* FULL.  Session.join(destination_pkey of n rows, fkey_indices, values_to_join): for foreign-key indices that
   are destination rows or invalid markers (>= INVALID_INDEX) and one joined value per span of equal adjacent
   indices, destination row k receives the value of the LAST span whose index is k, 0 when there is none. *)
Theorem join_correct : forall n fk vals,
  0 <= n -> length vals = length (run_heads fk) ->
  (forall k, In k fk -> k < INVALID_INDEX -> 0 <= k < n) ->
  session_join n fk vals = Ok (join_rows INVALID_INDEX n fk vals).
Proof. exact session_join_correct_gen. Qed.
Print Assumptions join_correct.

Example join_example :      (* the repository's test vector *)
  session_join 12 [0;1;1;2;4;5;5;6;8;9;9;10] [1;2;1;1;2;1;1;2;1] = Ok [1;2;1;0;1;2;1;0;1;2;1;0].
Proof. vm_compute. reflexivity. Qed.

(* ================================================================== get_index *)
(* FULL.  For every target (any order, duplicates allowed, fewer than 2^62 rows) and every foreign key column:
   row r of the result is the index of the LAST row of `target` holding foreign_key[r] (the code builds a dict,
   so the last occurrence wins — with a unique primary key this is "the row whose key equals"), and a marker
   >= INVALID_INDEX when no row holds it. *)
Theorem get_index_correct : forall T, len T <= INVALID_INDEX ->
  forall F, get_index_ok INVALID_INDEX T F (get_index T F).
Proof. exact get_index_correct_gen. Qed.
Print Assumptions get_index_correct.

(* FULL.  What `last_index` (the specification function used above) means. *)
Theorem get_index_last_index_meaning : forall key T,
  match last_index key T with
  | Some i => 0 <= i < len T /\ nthZ T i = key /\ forall i', i < i' < len T -> nthZ T i' <> key
  | None => forall i', 0 <= i' < len T -> nthZ T i' <> key
  end.
Proof. exact last_index_meaning. Qed.
Print Assumptions get_index_last_index_meaning.

Example get_index_example :
  get_index [7;5;7;9] [5;7;8;9;8;6] = [1;2;INVALID_INDEX;3;INVALID_INDEX;INVALID_INDEX + 2].
Proof. vm_compute. reflexivity. Qed.

(* ================================================================== merge_left / merge_right / merge_inner *)
(* FULL relative to pandas.  Keys in ANY order, duplicates on both sides, numeric and indexed-string payload
   columns of the right table: if pandas.merge(how='left') lists the rows of the relational left join (premise;
   exercised by the correspondence on every generated key pair), merge_left maps every payload to
   `payload_left` = left_payload of the column (indexed strings: offsets / bytes of the mapped strings, '' for
   unmatched rows). *)
Theorem merge_left_correct : forall pd_merge_left,
  (forall L R, pd_merge_left L R = left_rows L R) ->
  forall L R fields, (forall p, In p fields -> wf_payload (len R) p) ->
  merge_left pd_merge_left L R fields = Ok (map (payload_left L R) fields).
Proof. exact merge_left_correct_gen. Qed.
Print Assumptions merge_left_correct.

Theorem merge_right_correct : forall pd_merge_left,
  (forall L R, pd_merge_left L R = left_rows L R) ->
  forall L R fields, (forall p, In p fields -> wf_payload (len L) p) ->
  merge_right pd_merge_left L R fields = Ok (map (payload_left R L) fields).
Proof. exact merge_right_correct_gen. Qed.
Print Assumptions merge_right_correct.

(* FULL relative to pandas.  "inner results list exactly the matching pairs": if pandas.merge(how='inner')
   returns SOME permutation of the matching pairs, every left payload is read at the left rows and every right
   payload at the right rows of that one permutation. *)
Theorem merge_inner_correct : forall pd_merge_inner,
  (forall L R, Permutation (pd_merge_inner L R) (inner_join L R)) ->
  forall L R lf rf,
  (forall p, In p lf -> wf_payload (len L) p) -> (forall p, In p rf -> wf_payload (len R) p) ->
  exists pairs, Permutation pairs (inner_join L R) /\
    merge_inner pd_merge_inner L R lf rf
    = Ok (map (payload_rows (map fst pairs)) lf, map (payload_rows (map snd pairs)) rf).
Proof. exact merge_inner_correct_gen. Qed.
Print Assumptions merge_inner_correct.

Example merge_left_example :      (* 'a','','cc' looked up through unsorted keys with a duplicate and a miss *)
  merge_left left_rows [2;0;5;2] [0;2;2] [PNum [10;20;30]; PIdx [0;1;1;3] [97;99;99]]
  = Ok [PNum [20;30;10;0;20;30]; PIdx [0;0;2;3;3;3;5] [99;99;97;99;99]].
Proof. vm_compute. reflexivity. Qed.
