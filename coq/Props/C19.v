(* Props/C19.v — placeholder while the proofs are being developed. *)
From Coq Require Import ZArith List.
From EV Require Import Res Arr SessionMerge.
Import ListNotations.
Open Scope Z_scope.

Theorem c19_placeholder : gen_left_map false [1;1;3] [1;2] [0;0;0] (-1) = Ok ([0;0;-1], false).
Proof. reflexivity. Qed.
Print Assumptions c19_placeholder.
