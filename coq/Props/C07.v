(* Props/C07.v — C07 "Group-by results equal the group-wise reference computation".
   Statements only; proofs are in Proofs/GroupCore.v (list level, generic in the key order), GroupModel.v
   (DataFrame.groupby), GroupFrames.v (the HDF5DataFrameGroupBy methods, drop_duplicates, the Session aggregates).
   Model: Model/Group.v (+ Spans.v, FilterIndex.v, StableSort.v: the code of /repo after work/C07/fix-*.diff).
   Spec: Spec/GroupSpec.v.   Reused: every span kernel theorem of Props/C08.v, the sort / apply_index
   theorems of Props/C09.v.  All theorems are unbounded in rows, key columns, groups and entry lengths.

   groups kr            the distinct key tuples of the key rows kr, ascending (lexicographic, bytewise)
   members k kr vals    the values of the rows whose key tuple is k, in original row order
   agg_ref f kr vals    [ f (members k kr vals) | k <- groups kr ]
   sort_rows / sort_vals  the key rows / a value column permuted by the stable lexicographic sort
                        (= Session.dataset_sort_index, Props/C09.v c09_sort_index_is_stable_lexsort)
   rneqb                row inequality as _get_spans_for_multi_fields computes it (exact, rneqb_exact) *)
From Coq Require Import ZArith List Bool Sorted.
From EV Require Import Res Arr StableSort Spans SpansSpec FilterIndex FilterIndexSpec Group GroupSpec
  GroupCore GroupModel.
Import ListNotations.
Open Scope Z_scope.

(* ---- 0. the specification means what the property says ------------------------------------------------- *)
(* groups: strictly ascending (hence duplicate-free) and exactly the key tuples that occur *)
Theorem groups_meaning : forall kr,
  StronglySorted (fun a b => rowle a b = true /\ rowle b a = false) (groups kr) /\
  forall k, In k (groups kr) <-> In k kr.
Proof. exact groups_meaning_pf. Qed.
Print Assumptions groups_meaning.

(* ---- 1. the composition at row level (the heart of C07) --------------------------------------------------- *)
(* full: stable lexicographic sort of the key rows, spans of the sorted rows (as the multi-field kernel computes
   them), first row of every span  =  the distinct key tuples in ascending order *)
Theorem spans_of_sorted_are_groups : forall kr,
  gather [] (sort_rows kr) (removelast (spans_ref rneqb (sort_rows kr))) = groups kr.
Proof. exact (@sorted_first_rows_are_groups (list Z) []). Qed.
Print Assumptions spans_of_sorted_are_groups.

(* full: reducing each span of the co-sorted value column by ANY function f of the span's rows (count, first,
   last, min, max, ...) = applying f to the members of each group in ORIGINAL row order (stability) *)
Theorem sorted_spans_reduce_is_groupwise : forall (V:Type) (dv:V) (R:Type) (f:list V -> R) kr vals,
  length kr = length vals ->
  reduce_spans (fun (_:Z) l => f l) (spans_ref rneqb (sort_rows kr)) (sort_vals dv kr vals) = agg_ref f kr vals.
Proof. exact (@sorted_spans_reduce). Qed.
Print Assumptions sorted_spans_reduce_is_groupwise.

Theorem span_lengths_are_group_sizes : forall (V:Type) (dv:V) kr (vals:list V), length kr = length vals ->
  count_ref (spans_ref rneqb (sort_rows kr)) = agg_ref (@len V) kr vals.
Proof. exact (@sorted_spans_count). Qed.
Print Assumptions span_lengths_are_group_sizes.

(* full: counts sum to the number of rows *)
Theorem counts_sum_to_rows : forall (V:Type) kr (vals:list V), length kr = length vals ->
  sumZ (agg_ref (@len V) kr vals) = len kr.
Proof. exact (@group_counts_sum). Qed.
Print Assumptions counts_sum_to_rows.

(* full: on sorted keys the stable sort is the identity — with or without the (truthful) hint the same rows reach
   the span kernels *)
Theorem sorted_hint_equivalent : forall (V:Type) (dv:V) kr (vals:list V), length kr = length vals ->
  StronglySorted (fun a b => rowle a b = true) kr ->
  sort_rows kr = kr /\ sort_vals dv kr vals = vals.
Proof. exact (@sorted_input_unchanged). Qed.
Print Assumptions sorted_hint_equivalent.

Theorem rneqb_exact : forall a b, rneqb a b = false <-> a = b.
Proof. exact rneqb_spec. Qed.
Print Assumptions rneqb_exact.

(* ---- 2. DataFrame.groupby -------------------------------------------------------------------------------- *)
(* full: for every well-formed frame, existing distinct key names and truthful hint (groupby_pre), the model of
   groupby — validation, stacking, check_if_sorted_for_multi_fields, dataset_sort_index, permuting the key
   columns, _get_spans_for_multi_fields — never fails and returns: no sort index and the spans of the key rows when
   they are sorted (or hinted); otherwise the stable lexicographic sort permutation and the spans of the sorted rows *)
Theorem groupby_correct : forall cols by_ hint kr,
  groupby_pre cols by_ hint = true -> key_rows cols by_ = Some kr ->
  df_groupby cols by_ hint = Ok (gb_of by_ hint kr).
Proof. exact df_groupby_correct. Qed.
Print Assumptions groupby_correct.
