(* Props/C07.v — placeholder, replaced below *)
From Coq Require Import ZArith List Bool.
From EV Require Import Res Arr Group GroupSpec.
Import ListNotations.
Open Scope Z_scope.
Theorem c07_placeholder : key_name 1 = 8.
Proof. reflexivity. Qed.
Print Assumptions c07_placeholder.
