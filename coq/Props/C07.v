(* Props/C07.v — C07 "Group-by results equal the group-wise reference computation".
   Statements only; proofs are in Proofs/GroupCore.v (list level, generic in the key order), GroupModel.v
   (DataFrame.groupby), GroupFrames.v (the HDF5DataFrameGroupBy methods, drop_duplicates), GroupCompose.v (every target class, several targets /
   calls, the Session aggregates, Session.distinct).
   Model: Model/Group.v (+ Spans.v, FilterIndex.v, StableSort.v: the code of /repo after work/C07/fix-*.diff).
   Spec: Spec/GroupSpec.v.   Reused: every span kernel theorem of Props/C08.v, the sort / apply_index
   theorems of Props/C09.v.  All theorems are unbounded in rows, key columns, groups and entry lengths.

   groups kr            the distinct key tuples of the key rows kr, ascending (lexicographic, bytewise)
   members k kr vals    the values of the rows whose key tuple is k, in original row order
   agg_ref f kr vals    [ f (members k kr vals) | k <- groups kr ]
   sort_rows / sort_vals  the key rows / a value column permuted by the stable lexicographic sort
                        (= Session.dataset_sort_index, Props/C09.v c09_sort_index_is_stable_lexsort)
   rneqb                row inequality as _get_spans_for_multi_fields computes it (exact, rneqb_exact) *)
From Coq Require Import ZArith List Bool Sorted.
From EV Require Import Res Arr StableSort Spans SpansSpec FilterIndex FilterIndexSpec Group GroupSpec
  GroupCore GroupModel GroupFrames GroupCompose GroupHist GroupHistSpec GroupHistP GroupEmbed.
Import ListNotations.
Open Scope Z_scope.

(* ---- 0. the specification means what the property says ------------------------------------------------- *)
(* groups: strictly ascending (hence duplicate-free) and exactly the key tuples that occur *)
Theorem groups_meaning : forall kr,
  StronglySorted (fun a b => rowle a b = true /\ rowle b a = false) (groups kr) /\
  forall k, In k (groups kr) <-> In k kr.
Proof. exact groups_meaning_pf. Qed.
Print Assumptions groups_meaning.

(* ---- 1. the composition at row level (the heart of C07) --------------------------------------------------- *)
(* full: stable lexicographic sort of the key rows, spans of the sorted rows (as the multi-field kernel computes
   them), first row of every span  =  the distinct key tuples in ascending order *)
Theorem spans_of_sorted_are_groups : forall kr,
  gather [] (sort_rows kr) (removelast (spans_ref rneqb (sort_rows kr))) = groups kr.
Proof. exact (@sorted_first_rows_are_groups (list Z) []). Qed.
Print Assumptions spans_of_sorted_are_groups.

(* full: reducing each span of the co-sorted value column by ANY function f of the span's rows (count, first,
   last, min, max, ...) = applying f to the members of each group in ORIGINAL row order (stability) *)
Theorem sorted_spans_reduce_is_groupwise : forall (V:Type) (dv:V) (R:Type) (f:list V -> R) kr vals,
  length kr = length vals ->
  reduce_spans (fun (_:Z) l => f l) (spans_ref rneqb (sort_rows kr)) (sort_vals dv kr vals) = agg_ref f kr vals.
Proof. exact (@sorted_spans_reduce). Qed.
Print Assumptions sorted_spans_reduce_is_groupwise.

Theorem span_lengths_are_group_sizes : forall (V:Type) (dv:V) kr (vals:list V), length kr = length vals ->
  count_ref (spans_ref rneqb (sort_rows kr)) = agg_ref (@len V) kr vals.
Proof. exact (@sorted_spans_count). Qed.
Print Assumptions span_lengths_are_group_sizes.

(* full: counts sum to the number of rows *)
Theorem counts_sum_to_rows : forall (V:Type) kr (vals:list V), length kr = length vals ->
  sumZ (agg_ref (@len V) kr vals) = len kr.
Proof. exact (@group_counts_sum). Qed.
Print Assumptions counts_sum_to_rows.

(* full: on sorted keys the stable sort is the identity — with or without the (truthful) hint the same rows reach
   the span kernels *)
Theorem sorted_hint_equivalent : forall (V:Type) (dv:V) kr (vals:list V), length kr = length vals ->
  StronglySorted (fun a b => rowle a b = true) kr ->
  sort_rows kr = kr /\ sort_vals dv kr vals = vals.
Proof. exact (@sorted_input_unchanged). Qed.
Print Assumptions sorted_hint_equivalent.

Theorem rneqb_exact : forall a b, rneqb a b = false <-> a = b.
Proof. exact rneqb_spec. Qed.
Print Assumptions rneqb_exact.

(* ---- 2. DataFrame.groupby -------------------------------------------------------------------------------- *)
(* full: for every well-formed frame, existing distinct key names and truthful hint (groupby_pre), the model of
   groupby — validation, stacking, check_if_sorted_for_multi_fields, dataset_sort_index, permuting the key
   columns, _get_spans_for_multi_fields — never fails and returns: no sort index and the spans of the key rows when
   they are sorted (or hinted); otherwise the stable lexicographic sort permutation and the spans of the sorted rows *)
Theorem groupby_correct : forall cols by_ hint kr,
  groupby_pre cols by_ hint = true -> key_rows cols by_ = Some kr ->
  df_groupby cols by_ hint = Ok (gb_of by_ hint kr).
Proof. exact df_groupby_correct. Qed.
Print Assumptions groupby_correct.

(* a frame / key list satisfying groupby_pre: keys [2;1;2] (unsorted, ties) over an int column and an indexed string column *)
Example groupby_pre_example :
  let cols := [(0, mkField [3;5;0] true (BDat [2;1;2])); (1, mkField [1;0;0] true (BIdx [0;1;1;3] [97;98;99]))] in
  groupby_pre cols [0] false = true /\ groupby_pre cols [0;1] false = true /\
  df_groupby_steps cols [0] false [] [GAgg AMin [1] true; GCount false]
  = Ok [(0, mkField [3;5;0] true (BDat [1;2])); (9, mkField [1;0;0] true (BIdx [0;0;1] [97])); (5, mkField [3;7;0] true (BDat [1;2]))].
Proof. vm_compute. repeat split; reflexivity. Qed.

(* ---- 3. the destination dataframe ---------------------------------------------------------------------------- *)
(* full: _write_groupby_keys on both paths (apply_index by the sort permutation into a create_like field, then
   apply_index by spans[:-1] in place / directly by spans[:-1]) appends, for EVERY key field class (numeric, categorical,
   timestamp, fixed string, indexed string), one column per key holding component j of every group, ascending, with the
   source column's metadata; hence drop_duplicates / groupby().distinct() = one row per distinct key tuple *)
Theorem drop_duplicates_correct : forall cols by_ hint kr ddf,
  groupby_pre cols by_ hint = true -> key_rows cols by_ = Some kr ->
  fresh_names (spec_key_cols cols by_ (groups kr)) ddf = true ->
  df_drop_duplicates cols by_ ddf hint = Ok (ddf ++ spec_key_cols cols by_ (groups kr)).
Proof. exact drop_duplicates_correct_pf. Qed.
Print Assumptions drop_duplicates_correct.

(* full: count (with or without write_keys) appends the key columns and the int64 column of group sizes *)
Theorem groupby_count_correct : forall cols by_ hint kr ddf wk,
  groupby_pre cols by_ hint = true -> key_rows cols by_ = Some kr ->
  let keys := if wk:bool then spec_key_cols cols by_ (groups kr) else [] in
  fresh_names keys ddf = true -> has_name COUNT_NAME (ddf ++ keys) = false ->
  gb_count cols (gb_of by_ hint kr) ddf wk = Ok (ddf ++ keys ++ [spec_count_col kr]).
Proof. exact gb_count_correct_pf. Qed.
Print Assumptions groupby_count_correct.

(* full: the body of the `for field in target_fields` loop of min / max / first / last for ONE target column of ANY
   field class — plain (numeric, categorical, timestamp, fixed string; `deliver_spans` of the value kernel) or indexed
   string (apply_spans_index_of_min/max_indexed | first | last, then apply_index on the source: C08 string_argmin_correct /
   string_argmax_correct give the row of every span, C09 c09_field_index_correct gathers them) — on both paths
   (apply_index by the sort permutation into a create_like field then apply_spans_X in place, or apply_spans_X into the
   create_like field when the keys are sorted / hinted): a column with the source's metadata holding, per group in
   ascending key order, agg_cells a (first / last / bytewise least / greatest) of the group's members in ORIGINAL row order *)
Theorem groupby_agg_target_correct : forall cols by_ hint kr a t f,
  groupby_pre cols by_ hint = true -> key_rows cols by_ = Some kr -> lookup t cols = Some f ->
  agg_one a (gb_of by_ hint kr) f = Ok (dest_col f (agg_ref (agg_cells a) kr (field_cells f))).
Proof. exact agg_one_col. Qed.
Print Assumptions groupby_agg_target_correct.

(* the same for a plain target, on the stored integers (agg_scalar = min/max/first/last under Z.ltb) *)
Theorem groupby_agg_plain_target_correct : forall cols by_ hint kr kcs a f d,
  groupby_pre cols by_ hint = true -> key_columns cols by_ = Some kcs ->
  kr = rows_of (nrows cols) kcs ->
  fbody f = BDat d -> len d = nrows cols ->
  agg_one a (gb_of by_ hint kr) f = Ok (mkField (fmeta f) true (BDat (agg_ref (agg_scalar a) kr d))).
Proof. exact agg_one_dat. Qed.
Print Assumptions groupby_agg_plain_target_correct.

(* the two readings of a plain column agree: the cell-level aggregate of one-element cells is the scalar aggregate *)
Theorem agg_cells_on_scalars : forall a l, uncell (agg_cells a (scalar_cells l)) = agg_scalar a l.
Proof. exact agg_cells_scalar. Qed.
Print Assumptions agg_cells_on_scalars.

(* agg_one IS the loop body of Model/Group.v agg_targets (definitional) *)
Theorem agg_targets_unfold : forall a cols g t rest ddf f,
  lookup t cols = Some f -> has_name (agg_name a t) ddf = false ->
  agg_targets a cols g (t :: rest) ddf
  = (do nf <- agg_one a g f; agg_targets a cols g rest (ddf ++ [(agg_name a t, nf)])).
Proof. exact agg_targets_unfold_pf. Qed.
Print Assumptions agg_targets_unfold.

(* full: one call g.min/max/first/last(target=[t1; t2; ...], ddf, write_keys) with ANY number of targets of ANY field
   class: validate_groupby_target accepts, the key columns are written when asked for, and one column per target is
   appended under the name t_min / t_max / t_first / t_last, in target order — exactly spec_agg_cols.
   targets_ok = non-empty, existing, pairwise distinct target names none of which is a key;
   fresh_names = the new names do not occur in ddf (otherwise create_like raises) *)
Theorem groupby_agg_correct : forall cols by_ hint kr,
  groupby_pre cols by_ hint = true -> key_rows cols by_ = Some kr ->
  forall a ts ddf wk, targets_ok cols by_ ts = true ->
  let new := (if wk:bool then spec_key_cols cols by_ (groups kr) else []) ++ spec_agg_cols a cols kr ts in
  fresh_names new ddf = true ->
  gb_agg a cols (gb_of by_ hint kr) ts ddf wk = Ok (ddf ++ new).
Proof. exact gb_agg_correct_pf. Qed.
Print Assumptions groupby_agg_correct.

(* full, THE frame-level theorem of C07: g = df.groupby(by, hint); then any sequence of calls count / distinct / min /
   max / first / last (each with or without write_keys, each aggregate with any list of targets) into ONE destination
   dataframe.  Whenever the specification is defined (groupby_pre; per call: targets_ok and the call's new names are
   fresh w.r.t. everything written before) the model never fails and the destination is exactly the specified one:
   ddf followed, call by call, by the key columns (one row per distinct key tuple, ascending), the count column
   (group sizes) and the aggregate columns (group-wise reference), every column with its source's class / dtype /
   strlen / categorical key *)
Theorem groupby_steps_correct : forall cols by_ hint ddf ss r,
  spec_groupby_steps cols by_ hint ddf ss = Some r -> df_groupby_steps cols by_ hint ddf ss = Ok r.
Proof. exact df_groupby_steps_correct. Qed.
Print Assumptions groupby_steps_correct.

(* three calls into one destination: two targets (indexed string + int64) with keys, then max of the indexed string
   target, then count *)
Example groupby_steps_example :
  let cols := [(0, mkField [3;5;0] true (BDat [2;1;2])); (1, mkField [1;0;0] true (BIdx [0;1;1;3] [97;98;99]));
               (2, mkField [3;7;0] false (BDat [5;6;4]))] in
  spec_groupby_steps cols [0] false [] [GAgg AMin [1;2] true; GAgg AMax [1] false; GCount false]
  = Some [(0, mkField [3;5;0] true (BDat [1;2])); (9, mkField [1;0;0] true (BIdx [0;0;1] [97]));
          (17, mkField [3;7;0] true (BDat [6;4])); (10, mkField [1;0;0] true (BIdx [0;0;2] [98;99]));
          (5, mkField [3;7;0] true (BDat [1;2]))].
Proof. vm_compute. reflexivity. Qed.

(* ---- 4. Session.aggregate_* and Session.distinct ------------------------------------------------------------ *)
(* index_rows c = the rows of the index column (one key cell per row); runs_spans = maximal runs of equal adjacent rows;
   session_aggregate_ref (Some a) index target = None when len target <> len index, else one entry per RUN:
   agg a of the run's target values — and, when the index is sorted, literally agg_ref (the group-by reference);
   column_okb: an indexed string index has well-formed offsets (0 .. len values, non-decreasing).
   full: Session.aggregate_min / max / first / last(index, target, dest) with an ndarray / numeric Field / fixed-string /
   indexed-string Field index (get_spans of C08, `len(target) != spans[-1]` guard, kernel, dest.data.write) *)
Theorem aggregate_correct : forall a index target dest r,
  column_okb index = true -> session_aggregate_ref (Some a) index target = Some r ->
  session_aggregate a index target dest = Ok (r, write_dest dest r).
Proof. exact session_aggregate_correct_pf. Qed.
Print Assumptions aggregate_correct.

Theorem aggregate_count_correct : forall index target dest r,
  column_okb index = true -> session_aggregate_ref None index target = Some r ->
  session_aggregate_count index dest = Ok (r, write_dest dest r).
Proof. exact session_aggregate_count_correct_pf. Qed.
Print Assumptions aggregate_count_correct.

(* full: on a SORTED index Session.aggregate_X is the group-wise reference of the dataframe group-by on that key *)
Theorem aggregate_agrees_with_groupby : forall a index target dest,
  column_okb index = true -> len target = len (index_rows index) ->
  rows_sortedb bytes_ltb (index_rows index) = true ->
  let r := agg_ref (agg_scalar a) (index_rows index) target in
  session_aggregate a index target dest = Ok (r, write_dest dest r).
Proof. exact session_aggregate_sorted_pf. Qed.
Print Assumptions aggregate_agrees_with_groupby.

(* index ["a";"a";"";""] (pre-grouped, NOT sorted): one entry per run; index [1;1;2;2;2] sorted: group sizes *)
Example aggregate_example :
  column_okb (ColIndexed [0;1;2;2;2] [97;97]) = true /\
  session_aggregate_ref (Some AMax) (ColIndexed [0;1;2;2;2] [97;97]) [3;1;2;7] = Some [3;7] /\
  session_aggregate AMax (ColIndexed [0;1;2;2;2] [97;97]) [3;1;2;7] (Some [9]) = Ok ([3;7], Some [9;3;7]) /\
  session_aggregate_ref None (ColNum [1;1;2;2;2]) [] = Some [2;3].
Proof. vm_compute. repeat split; reflexivity. Qed.

(* full: Session.distinct(fields=[f0; f1; ...]) on equally long arrays (np.unique of the structured array = stable
   lexicographic sort + drop adjacent duplicates, defined in Gallina) returns, per field, component j of the distinct
   rows in ascending order = `groups` of the rows *)
Theorem session_distinct_correct : forall fields r,
  session_distinct_ref fields = Some r -> session_distinct fields = Ok r.
Proof. exact session_distinct_correct_pf. Qed.
Print Assumptions session_distinct_correct.

Example session_distinct_example :
  session_distinct_ref [[[2];[1];[2]]; [[97];[];[97]]] = Some [[[1];[2]]; [[];[97]]].
Proof. vm_compute. reflexivity. Qed.

(* ---- 6. histories on ONE dataframe object (Model/GroupHist.v, Spec/GroupHistSpec.v) ------------------------ *)
(* full: in any sequence of group-by / drop_duplicates calls interleaved with in-place writes into a column
   (data[:] = new, clear()+write()), field-level apply_index and dataframe-level apply_filter / apply_index /
   sort_values, every group-by yields the group-wise reference of the frame AS IT IS AT THE TIME OF THE CALL
   (spec_hist = the per-call specification folded over the current frame).  Lifts groupby_steps_correct by
   induction; anything remembered between two calls (a memoised sort index / spans keyed by field identity, a
   cached sortedness flag) makes the real code differ from run_hist. *)
Theorem history_correct : forall evs cols outs r,
  spec_hist cols evs outs = Some r -> run_hist cols evs outs = Ok r.
Proof. exact hist_correct_pf. Qed.
Print Assumptions history_correct.

(* full: the group-by that follows a history is the call ALONE on the frame that history leaves behind *)
Theorem history_last_call_alone : forall evs cols outs outs' cols' by_ hint ss,
  run_hist cols evs outs = Ok (outs', cols') ->
  run_hist cols (evs ++ [HGroup by_ hint ss]) outs
  = (do d <- df_groupby_steps cols' by_ hint [] ss; Ok (outs' ++ [d], cols')).
Proof. exact hist_last_call_alone_pf. Qed.
Print Assumptions history_last_call_alone.

(* group by key 0, overwrite the key column in place (same length), group by key 0 again: the second result is
   the reference of the NEW keys ([1;1;3] -> counts [2;1]), not of the old ones ([2;1;2] -> counts [1;2]) *)
Example history_example :
  let f := mkField [3;5;0] true (BDat [2;1;2]) in
  spec_hist [(0, f)] [HGroup [0] false [GCount true]; HWrite 0 (BDat [1;1;3]); HGroup [0] false [GCount true]] []
  = Some ([[(0, mkField [3;5;0] true (BDat [1;2])); (5, mkField [3;7;0] true (BDat [1;2]))];
           [(0, mkField [3;5;0] true (BDat [1;3])); (5, mkField [3;7;0] true (BDat [2;1]))]],
          [(0, mkField [3;5;0] true (BDat [1;1;3]))]).
Proof. vm_compute. reflexivity. Qed.

(* ---- 7. key VALUES: the reference depends on the keys only through comparisons ------------------------------ *)
(* full: for any map c of key cells that preserves the cell comparison (an order embedding: ranks -> integers at
   the ends of a dtype / beyond 2^53, fixed or indexed strings differing only in trailing blanks, control
   characters, case, high bytes), the groups of the mapped key rows are the mapped groups and every aggregate
   column is unchanged.  Together with groupby_steps_correct: a result on concrete key values that is not the image
   of the result on their ranks is a violation — sortedness or equality decided after stripping / casting shows. *)
Theorem groupby_key_embedding : forall (c:list Z -> list Z) (A B:Type) (g:list A -> B) kr (vals:list A),
  (forall a b, cell_le (c a) (c b) = cell_le a b) ->
  agg_ref g (map (map c) kr) vals = agg_ref g kr vals /\
  groups (map (map c) kr) = map (map c) (groups kr).
Proof. exact (fun c A B => @agg_ref_key_embedding_pf c A B). Qed.
Print Assumptions groupby_key_embedding.

(* generic form (any key type, any comparisons related by f) *)
Theorem agg_by_order_embedding : forall (K K' A B:Type) (kle:K -> K -> bool) (kle':K' -> K' -> bool) (f:K -> K')
  (g:list A -> B) keys (vals:list A),
  (forall a b, kle' (f a) (f b) = kle a b) ->
  agg_by kle' g (map f keys) vals = agg_by kle g keys vals.
Proof. intros. apply agg_by_embed. assumption. Qed.
Print Assumptions agg_by_order_embedding.

(* the hypothesis on a non-trivial map: ranks 1 < 2 < 3 seen as the fixed strings b'ab\0' < b'ab\t' < b'ab ' *)
Example key_embedding_example :
  let c := fun x:list Z => match x with [1] => [97;98;0] | [2] => [97;98;9] | _ => [97;98;32] end in
  agg_ref (@len Z) (map (map c) [[[3]];[[1]];[[3]];[[2]]]) [10;20;30;40] = agg_ref (@len Z) [[[3]];[[1]];[[3]];[[2]]] [10;20;30;40]
  /\ groups (map (map c) [[[3]];[[1]];[[3]]]) = [[[97;98;0]];[[97;98;32]]].
Proof. vm_compute. split; reflexivity. Qed.
