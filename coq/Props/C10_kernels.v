(* Props/C10_kernels.v — C10/C11 for the kernels that no other property owns (DESIGN §5.C10 "not modelled"):
   Model/MiscKernels.v, Spec/MiscKernelsSpec.v.  Statements only; every proof is `exact <lemma of Proofs/MiscKernels*.v>`.
   `model = Ok spec` on every valid input means: no array access outside [0,len) (every access of the models is a
   checked get/set), termination within the stated fuel, and the list-level result.  Unbounded in all lengths.
   Examples with non-trivial inputs satisfying the hypotheses: Proofs/MiscKernelsAll.v. *)
From Coq Require Import ZArith List Bool Lia.
From EV Require Import Res Arr MiscKernels MiscKernelsSpec MiscKernelsBase MiscKernelsChunks MiscKernelsSizes
  MiscKernelsInner MiscKernelsSort MiscKernelsStream MiscKernelsJoin MiscKernelsAll.
Import ListNotations.
Open Scope Z_scope.

(* ------------------------------------------------------------------ chunks (compiled generator) *)
(* FULL. chunksize >= 1: the generator yields exactly the ceil(length/chunksize) consecutive ranges. *)
Theorem chunks_correct : forall length_ cs fuel, 1 <= cs -> (chunks_fuel length_ <= fuel)%nat ->
  chunks fuel length_ cs = Ok (chunks_spec length_ cs).
Proof. exact MiscKernelsChunks.chunks_correct. Qed.
Print Assumptions chunks_correct.

(* FULL. The ranges tile [0, length): concatenating the slices gives the column back. *)
Theorem chunks_tile : forall length_ cs, 1 <= cs -> 0 <= length_ -> forall D:list Z, len D = length_ ->
  concat (map (fun c => slice D (fst c) (snd c)) (chunks_spec length_ cs)) = D.
Proof. exact MiscKernelsChunks.chunks_spec_tile. Qed.
Print Assumptions chunks_tile.

(* FULL (characterisation, outside the valid inputs). chunksize <= 0 on a non-empty range never advances. *)
Theorem chunks_nonpositive_chunksize_spins : forall length_ cs fuel, cs <= 0 -> 0 < length_ ->
  chunks fuel length_ cs = OutOfFuel.
Proof. exact MiscKernelsChunks.chunks_nonpositive_chunksize_spins. Qed.
Print Assumptions chunks_nonpositive_chunksize_spins.

(* ------------------------------------------------------------------ ordered_left_map_result_size *)
(* FULL, all inputs: no out-of-bounds access; the value is the contribution of the first merge step only
   (the `return` sits inside the loop) ... *)
Theorem ordered_left_map_result_size_correct : forall left right,
  ordered_left_map_result_size left right = Ok (left_size_spec left right).
Proof. exact MiscKernelsSizes.ordered_left_map_result_size_correct. Qed.
Print Assumptions ordered_left_map_result_size_correct.

(* ... which is not the number of rows of the left join (semantic defect, not a memory-safety one; the
   repository's own test pins the value 4 for this witness, where the left join has 17 rows). *)
Theorem ordered_left_map_result_size_is_not_join_size_refuted :
  exists left right, sorted left /\ sorted right /\
    ordered_left_map_result_size left right <> Ok (left_join_size left right).
Proof. exact MiscKernelsSizes.ordered_left_map_result_size_is_not_join_size_refuted. Qed.
Print Assumptions ordered_left_map_result_size_is_not_join_size_refuted.

(* ------------------------------------------------------------------ ordered_outer_map_result_size_both_unique *)
(* FULL, all inputs (sorted or not). *)
Theorem ordered_outer_map_result_size_both_unique_correct : forall left right fuel,
  (outer_fuel left right <= fuel)%nat ->
  ordered_outer_map_result_size_both_unique fuel left right = Ok (outer_size_spec left right).
Proof. exact MiscKernelsSizes.ordered_outer_map_result_size_both_unique_correct. Qed.
Print Assumptions ordered_outer_map_result_size_both_unique_correct.

(* ------------------------------------------------------------------ ordered_inner_map_left_unique_partial *)
(* FULL. Valid input = right_to_inner at least as long as left_to_inner (the guard only looks at the latter). *)
Theorem ordered_inner_map_left_unique_partial_correct : forall d_i d_j left right lti rti fuel,
  ilu_pre_b lti rti = true -> (ilu_fuel left right <= fuel)%nat ->
  ordered_inner_map_left_unique_partial fuel d_i d_j left right lti rti =
  Ok (ilu_partial_spec d_i d_j left right lti rti).
Proof. exact MiscKernelsInner.ordered_inner_map_left_unique_partial_correct. Qed.
Print Assumptions ordered_inner_map_left_unique_partial_correct.

(* FULL (outside the precondition): a shorter right buffer is overrun. *)
Theorem ordered_inner_map_left_unique_partial_short_right_buffer_oob :
  exists left right lti rti,
    ordered_inner_map_left_unique_partial (ilu_fuel left right) 0 0 left right lti rti = OOB 133.
Proof. exact MiscKernelsInner.ordered_inner_map_left_unique_partial_short_right_buffer_oob. Qed.
Print Assumptions ordered_inner_map_left_unique_partial_short_right_buffer_oob.

(* ------------------------------------------------------------------ ordered_inner_map_left_unique_streamed (its driver) *)
(* FULL, all non-empty columns (sorted or not), every chunk/buffer size >= 1: the driver never passes its
   kernel an invalid buffer, never raises its two ValueErrors, never exhausts a chunk generator, terminates
   within |L|+|R|+1 kernel calls, and appends exactly the pairs of the global walk. *)
Theorem ordered_inner_map_left_unique_streamed_any_chunksize_correct : forall bs L R fuel,
  1 <= bs -> L <> [] -> R <> [] -> (ilus_fuel L R <= fuel)%nat ->
  ordered_inner_map_left_unique_streamed_bs fuel bs L R = Ok (ilus_spec bs L R).
Proof. exact MiscKernelsStream.streamed_bs_correct. Qed.
Print Assumptions ordered_inner_map_left_unique_streamed_any_chunksize_correct.

Theorem ordered_inner_map_left_unique_streamed_correct : forall L R fuel,
  L <> [] -> R <> [] -> (ilus_fuel L R <= fuel)%nat ->
  ordered_inner_map_left_unique_streamed fuel L R = Ok (ilus_spec 4 L R).
Proof. exact MiscKernelsStream.ordered_inner_map_left_unique_streamed_correct. Qed.
Print Assumptions ordered_inner_map_left_unique_streamed_correct.

(* FULL. An empty column: StopIteration from next() on the exhausted chunk generator (no array is touched). *)
Theorem ordered_inner_map_left_unique_streamed_empty_raises : forall L R fuel, L = [] \/ R = [] ->
  ordered_inner_map_left_unique_streamed fuel L R = Raise E_StopIteration.
Proof. exact MiscKernelsStream.ordered_inner_map_left_unique_streamed_empty_raises. Qed.
Print Assumptions ordered_inner_map_left_unique_streamed_empty_raises.

(* The walk is not the inner join when a run of equal right keys crosses a chunk boundary (semantic defect of a
   deprecated helper, not a memory-safety one): left [1], right [0,0,0,1,1] gives ([0],[3]), not ([0,0],[3,4]). *)
Theorem ordered_inner_map_left_unique_streamed_chunk_boundary_refuted :
  exists L R, ssorted L /\ sorted R /\
    ordered_inner_map_left_unique_streamed (ilus_fuel L R) L R <> Ok (inner_left_unique_join L R).
Proof. exact MiscKernelsStream.ordered_inner_map_left_unique_streamed_chunk_boundary_refuted. Qed.
Print Assumptions ordered_inner_map_left_unique_streamed_chunk_boundary_refuted.

(* FULL (meaning of the walk). On a strictly increasing left column and a sorted right column whose runs of equal
   keys do not cross a multiple of 4 rows (no_cross), the driver's result IS the inner join: every right row,
   ascending, paired with the left row of the same key. *)
Theorem ordered_inner_map_left_unique_streamed_is_inner_join : forall L R,
  ssortedb L = true -> sortedb R = true -> no_cross 4 4 R = true ->
  ilus_spec 4 L R = inner_left_unique_join L R.
Proof. exact MiscKernelsJoin.streamed_is_inner_join. Qed.
Print Assumptions ordered_inner_map_left_unique_streamed_is_inner_join.

(* ------------------------------------------------------------------ ordered_get_last_as_filter *)
(* FULL, all inputs, repaired code (fix F-C10a). *)
Theorem ordered_get_last_as_filter_correct : forall field,
  ordered_get_last_as_filter true field = Ok (last_spec field).
Proof. exact MiscKernelsSizes.ordered_get_last_as_filter_correct. Qed.
Print Assumptions ordered_get_last_as_filter_correct.

(* The code as found: correct on every non-empty array ... *)
Theorem ordered_get_last_as_filter_orig_nonempty : forall field, field <> [] ->
  ordered_get_last_as_filter false field = Ok (last_spec field).
Proof. exact MiscKernelsSizes.ordered_get_last_as_filter_orig_nonempty. Qed.
Print Assumptions ordered_get_last_as_filter_orig_nonempty.

(* ... and F-C10a: result[-1] of a zero-length buffer on the empty array (IndexError interpreted and
   bounds-checked; a one-byte write in front of the allocation when compiled). *)
Theorem ordered_get_last_as_filter_orig_empty_oob_refuted :
  ordered_get_last_as_filter false [] = OOB 143.
Proof. exact MiscKernelsSizes.ordered_get_last_as_filter_orig_empty_oob_refuted. Qed.
Print Assumptions ordered_get_last_as_filter_orig_empty_oob_refuted.

(* ------------------------------------------------------------------ streaming_sort_partial *)
(* FULL. Valid input (ssp_pre_b): one cursor/length/value chunk/index chunk per source, 0 <= cursor <= length
   <= chunk sizes, both destination buffers hold max_possible = sum(lengths) entries.  Then the kernel merges,
   smallest head first (first source on ties), until a source is exhausted. *)
Theorem streaming_sort_partial_correct : forall idx lens svals sidx dv di fuel,
  ssp_pre_b idx lens svals sidx dv di = true -> (ssp_fuel lens <= fuel)%nat ->
  streaming_sort_partial fuel idx lens svals sidx dv di = Ok (ssp_spec idx lens svals sidx dv di).
Proof. exact MiscKernelsSort.streaming_sort_partial_correct. Qed.
Print Assumptions streaming_sort_partial_correct.

(* FULL (outside the precondition): shorter destination buffers are overrun. *)
Theorem streaming_sort_partial_short_dest_oob :
  exists idx lens svals sidx dv di,
    streaming_sort_partial (ssp_fuel lens) idx lens svals sidx dv di = OOB 160.
Proof. exact MiscKernelsSort.streaming_sort_partial_short_dest_oob. Qed.
Print Assumptions streaming_sort_partial_short_dest_oob.

(* ------------------------------------------------------------------ data_iterator (interpreted generator) *)
(* FULL, repaired code (fix F-C10b): every chunksize >= 1 yields the column. *)
Theorem data_iterator_correct : forall D cs fuel, 1 <= cs -> (chunks_fuel (len D) <= fuel)%nat ->
  data_iterator true fuel D cs = Ok D.
Proof. exact MiscKernelsChunks.data_iterator_correct. Qed.
Print Assumptions data_iterator_correct.

(* The code as found works when the column fits one chunk (the only case the test suite has) ... *)
Theorem data_iterator_orig_single_chunk : forall D cs fuel,
  1 <= cs -> len D <= cs -> (chunks_fuel (len D) <= fuel)%nat ->
  data_iterator false fuel D cs = Ok D.
Proof. exact MiscKernelsChunks.data_iterator_orig_single_chunk. Qed.
Print Assumptions data_iterator_orig_single_chunk.

(* ... and F-C10b: with a second chunk it indexes the window, which starts at `start`, with the global row. *)
Theorem data_iterator_orig_second_chunk_refuted :
  exists D cs, 1 <= cs /\ data_iterator false (chunks_fuel (len D)) D cs = OOB 170.
Proof. exact MiscKernelsChunks.data_iterator_orig_second_chunk_refuted. Qed.
Print Assumptions data_iterator_orig_second_chunk_refuted.

(* FULL characterisation of the code as found: EVERY column longer than one chunk ends in the out-of-bounds read
   (the second chunk overruns its window unless there are three full chunks - it then yields the wrong rows - and
   in that case the third chunk does). *)
Theorem data_iterator_orig_beyond_one_chunk_oob_refuted : forall D cs fuel,
  1 <= cs -> cs < len D -> (chunks_fuel (len D) <= fuel)%nat ->
  data_iterator false fuel D cs = OOB 170.
Proof. exact MiscKernelsChunks.data_iterator_orig_fails_beyond_one_chunk. Qed.
Print Assumptions data_iterator_orig_beyond_one_chunk_oob_refuted.

(* ------------------------------------------------------------------ dict / flag helpers (interpreted) *)
Theorem foreign_key_is_in_primary_key_correct : forall pk fk,
  foreign_key_is_in_primary_key pk fk = Ok (fk_spec pk fk).
Proof. exact MiscKernelsSizes.foreign_key_is_in_primary_key_correct. Qed.
Print Assumptions foreign_key_is_in_primary_key_correct.

Theorem filter_duplicate_fields_correct : forall field,
  filter_duplicate_fields field = Ok (dup_spec [] field).
Proof. exact MiscKernelsSizes.filter_duplicate_fields_correct. Qed.
Print Assumptions filter_duplicate_fields_correct.

(* meaning of dup_spec: row i is kept iff its value does not occur before it *)
Theorem filter_duplicate_fields_meaning : forall l seen i, 0 <= i < len l ->
  nthZ (dup_spec seen l) i = (if memZ_spec (nthZ l i) (seen ++ firstn (Z.to_nat i) l) then 0 else 1).
Proof. exact MiscKernelsSizes.dup_spec_meaning. Qed.
Print Assumptions filter_duplicate_fields_meaning.

Theorem count_flag_empty_correct : forall flags,
  count_flag_empty flags = count_if (fun f => f =? 0) flags.
Proof. exact MiscKernelsSizes.count_flag_empty_correct. Qed.
Print Assumptions count_flag_empty_correct.

Theorem count_flag_not_set_correct : forall flags flag,
  count_flag_not_set flags flag = count_if (fun f => Z.land f flag =? 0) flags.
Proof. exact MiscKernelsSizes.count_flag_not_set_correct. Qed.
Print Assumptions count_flag_not_set_correct.

Theorem count_flag_set_correct : forall flags flag,
  count_flag_set flags flag = count_if (fun f => negb (Z.land f flag =? 0)) flags.
Proof. exact MiscKernelsSizes.count_flag_set_correct. Qed.
Print Assumptions count_flag_set_correct.

(* ------------------------------------------------------------------ the C10 reading *)
(* FULL. On every valid input none of these kernels performs an out-of-bounds access or loops for ever. *)
Theorem c10_misc_kernels_safe :
  (forall length_ cs, 1 <= cs -> safe (chunks (chunks_fuel length_) length_ cs)) /\
  (forall left right, safe (ordered_left_map_result_size left right)) /\
  (forall left right, safe (ordered_outer_map_result_size_both_unique (outer_fuel left right) left right)) /\
  (forall d_i d_j left right lti rti, ilu_pre_b lti rti = true ->
     safe (ordered_inner_map_left_unique_partial (ilu_fuel left right) d_i d_j left right lti rti)) /\
  (forall L R, safe (ordered_inner_map_left_unique_streamed (ilus_fuel L R) L R)) /\
  (forall field, safe (ordered_get_last_as_filter true field)) /\
  (forall idx lens svals sidx dv di, ssp_pre_b idx lens svals sidx dv di = true ->
     safe (streaming_sort_partial (ssp_fuel lens) idx lens svals sidx dv di)) /\
  (forall D cs, 1 <= cs -> safe (data_iterator true (chunks_fuel (len D)) D cs)) /\
  (forall pk fk, safe (foreign_key_is_in_primary_key pk fk)) /\
  (forall field, safe (filter_duplicate_fields field)).
Proof. exact MiscKernelsAll.misc_kernels_safe. Qed.
Print Assumptions c10_misc_kernels_safe.
