(* Props/C05.v — CSV import reproduces the file's records (statements; proofs in Proofs/Csv*.v).
   The model (Model/Csv.v) is the code with the repairs work/C05/fix-F-C05{a,c,d,e,b}.diff. *)
From Coq Require Import ZArith List Lia Bool.
From EV Require Import Res Arr Csv CsvSpec CsvBase CsvKernel CsvTable CsvRows CsvDriver.
Import ListNotations.
Open Scope Z_scope.

(* FULL.  fast_csv_reader on one window that holds a whole rendered file (header + records of
   arbitrary byte-string cells, any cell optionally quoted; every record as wide as the header,
   width >= 1), staging buffers large enough (index rows > number of records, every column's
   value budget > the column's total bytes): it consumes the whole window, reports |rows| records,
   raises no "full" flag, and the buffers hold, per column, the prefix sums of the cell lengths
   and the concatenated cell texts (predicate Good, Proofs/CsvTable.v), for every table size. *)
Theorem csv_kernel_roundtrip :
  forall (src offs : list Z) (maxrow ncols : Z),
  len offs = ncols + 1 -> 0 < ncols -> 0 < maxrow ->
  forall (V : Z) (rows : list (list cell)),
  nthZ offs 0 = 0 ->
  (forall c, 0 <= c < ncols -> nthZ offs c + len (CB rows c) < nthZ offs (c + 1)) ->
  nthZ offs ncols <= V -> len rows < maxrow ->
  forall (hdr : list cell) (inds : arr2) (vals : list Z),
  len hdr = ncols -> Forall (fun rw => len rw = ncols) rows ->
  src = render_file (hdr :: rows) ->
  shape ncols (maxrow + 1) inds -> (forall c, 0 <= c < ncols -> I2 inds c 0 = 0) -> len vals = V ->
  exists out, fast_csv_reader (fsm_fuel src 0) src 0 inds vals offs true = Ok out /\
    f_next out = len src /\ f_rows out = len rows /\ f_ifull out = false /\ f_vfull out = false /\
    Good ncols (maxrow + 1) V offs rows (fun _ => len rows) (f_inds out) (f_vals out).
Proof. exact kernel_roundtrip. Qed.
Print Assumptions csv_kernel_roundtrip.

(* FULL (the planned csv_single_window_roundtrip).  read_file_using_fast_csv_reader +
   IndexedStringImporter on a rendered file, with or without the final newline, for every
   chunk_row_size whose window holds the file and every column_offsets with budgets above the
   column totals: the number of rows is |rows| and every imported column is exactly the
   indexed-string encoding of that column's cell texts, in file order; index_map selects columns. *)
Theorem csv_single_window_roundtrip :
  forall hdr rows file crs ncols offs index_map fuel,
  0 < ncols -> len hdr = ncols -> Forall (fun rw => len rw = ncols) rows ->
  (file = render_file (hdr :: rows) \/
   (file ++ [NL] = render_file (hdr :: rows) /\ file <> [] /\ last file NL <> NL)) ->
  len (render_file (hdr :: rows)) <= crs * 2 * ncols ->
  len rows < crs * 2 ->
  len offs = ncols + 1 -> nthZ offs 0 = 0 ->
  (forall c, 0 <= c < ncols -> nthZ offs c + len (CB rows c) < nthZ offs (c + 1)) ->
  Forall (fun c => 0 <= c < ncols) index_map ->
  (2 <= fuel)%nat ->
  exists d, read_file fuel file crs ncols offs index_map = Ok d /\
    d_acc d = len rows /\
    map (fun m => (i_indices m, i_values m)) (d_imps d) =
    map (fun ts => (enc_indices ts, enc_values ts)) (select index_map rows).
Proof. exact read_file_single_window. Qed.
Print Assumptions csv_single_window_roundtrip.

(* a non-trivial instance of the hypotheses: 2 columns, 2 records with a separator, a doubled
   quote, a newline and a quoted leading blank, no final newline, chunk_row_size 20 *)
Example csv_single_window_example :
  let hdr := [(false, [97]); (false, [98])] in
  let rows := [[(false, [120; 44; 121]); (false, [34])]; [(true, [32; 122]); (false, [10; 10])]] in
  let src := render_file (hdr :: rows) in
  exists d, read_file 2 (removelast src) 20 2 [0; 200; 400] [0; 1] = Ok d /\ d_acc d = 2 /\
    map (fun m => (i_indices m, i_values m)) (d_imps d) =
    [([0; 3; 5], [120; 44; 121; 32; 122]); ([0; 1; 3], [34; 10; 10])].
Proof. vm_compute. eexists. repeat split. Qed.

(* PARTIAL.  Independence of chunk_row_size: proved for any two chunk sizes (and any two budget
   vectors) whose window holds the whole file.  Missing for the full statement of the property:
   files spanning several windows (needs csv_prefix_stable: a call commits exactly the records
   that end inside its window) and the regrowth paths (indices/values full, re-entry at the saved
   offset); those are covered by the exhaustive differential run only. *)
Theorem csv_chunk_independent_partial :
  forall hdr rows file crs1 crs2 ncols offs1 offs2 index_map fuel1 fuel2,
  0 < ncols -> len hdr = ncols -> Forall (fun rw => len rw = ncols) rows ->
  (file = render_file (hdr :: rows) \/
   (file ++ [NL] = render_file (hdr :: rows) /\ file <> [] /\ last file NL <> NL)) ->
  len (render_file (hdr :: rows)) <= crs1 * 2 * ncols -> len (render_file (hdr :: rows)) <= crs2 * 2 * ncols ->
  len rows < crs1 * 2 -> len rows < crs2 * 2 ->
  len offs1 = ncols + 1 -> nthZ offs1 0 = 0 -> len offs2 = ncols + 1 -> nthZ offs2 0 = 0 ->
  (forall c, 0 <= c < ncols -> nthZ offs1 c + len (CB rows c) < nthZ offs1 (c + 1)) ->
  (forall c, 0 <= c < ncols -> nthZ offs2 c + len (CB rows c) < nthZ offs2 (c + 1)) ->
  Forall (fun c => 0 <= c < ncols) index_map -> (2 <= fuel1)%nat -> (2 <= fuel2)%nat ->
  exists d1 d2, read_file fuel1 file crs1 ncols offs1 index_map = Ok d1 /\
                read_file fuel2 file crs2 ncols offs2 index_map = Ok d2 /\
                d_acc d1 = d_acc d2 /\
                map (fun m => (i_indices m, i_values m)) (d_imps d1) = map (fun m => (i_indices m, i_values m)) (d_imps d2).
Proof. exact read_file_chunk_independent_one_window. Qed.
Print Assumptions csv_chunk_independent_partial.

(* multi-window + regrowth instances, checked by computation (not theorems of the property):
   3 records over windows of 8 bytes with a 1-byte value budget (values-full, re-entry, doubling) *)
Example csv_multi_window_regrow_example :
  let hdr := [(false, [97])] in
  let rows := [[(false, [])]; [(false, [34])]; [(false, [97; 98; 99])]] in
  exists d, read_file 100 (render_file (hdr :: rows)) 4 1 [0; 1] [0] = Ok d /\ d_acc d = 3 /\
    map (fun m => (i_indices m, i_values m)) (d_imps d) = [([0; 0; 1; 4], [34; 97; 98; 99])].
Proof. vm_compute. eexists. repeat split. Qed.

(* FULL.  include / exclude select exactly the named columns (parsers.py:122-129) ... *)
Theorem csv_select_exact :
  forall names inc exc k,
  In k (fields_to_use names inc exc) <->
  In k names /\ (forall l, inc = Some l -> In k l) /\ (forall l, exc = Some l -> ~ In k l).
Proof. exact fields_to_use_spec. Qed.
Print Assumptions csv_select_exact.

(* ... and index_map points each selected name at a column carrying that name *)
Theorem csv_index_map_exact :
  forall k names, In k names ->
  exists i, index_of k names = Ok i /\ 0 <= i < len names /\ nthd [] names i = k.
Proof. exact index_of_spec. Qed.
Print Assumptions csv_index_map_exact.
