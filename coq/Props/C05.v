(* Props/C05.v — CSV import reproduces the file's records (statements; proofs in Proofs/Csv*.v).
   The model (Model/Csv.v) is the code with the repairs work/C05/fix-F-C05{a,c,d,e,b}.diff. *)
From Coq Require Import ZArith List Lia Bool.
From EV Require Import Res Arr Csv CsvSpec CsvBase CsvKernel CsvTable CsvRows CsvDriver CsvPrefix CsvMulti CsvRegrow CsvRegrowDrv.
Import ListNotations.
Open Scope Z_scope.

(* FULL.  fast_csv_reader on one window that holds a whole rendered file (header + records of
   arbitrary byte-string cells, any cell optionally quoted; every record as wide as the header,
   width >= 1), staging buffers large enough (index rows > number of records, every column's
   value budget > the column's total bytes): it consumes the whole window, reports |rows| records,
   raises no "full" flag, and the buffers hold, per column, the prefix sums of the cell lengths
   and the concatenated cell texts (predicate Good, Proofs/CsvTable.v), for every table size. *)
Theorem csv_kernel_roundtrip :
  forall (src offs : list Z) (maxrow ncols : Z),
  len offs = ncols + 1 -> 0 < ncols -> 0 < maxrow ->
  forall (V : Z) (rows : list (list cell)),
  nthZ offs 0 = 0 ->
  (forall c, 0 <= c < ncols -> nthZ offs c + len (CB rows c) < nthZ offs (c + 1)) ->
  nthZ offs ncols <= V -> len rows < maxrow ->
  forall (hdr : list cell) (inds : arr2) (vals : list Z),
  len hdr = ncols -> Forall (fun rw => len rw = ncols) rows ->
  src = render_file (hdr :: rows) ->
  shape ncols (maxrow + 1) inds -> (forall c, 0 <= c < ncols -> I2 inds c 0 = 0) -> len vals = V ->
  exists out, fast_csv_reader (fsm_fuel src 0) src 0 inds vals offs true = Ok out /\
    f_next out = len src /\ f_rows out = len rows /\ f_ifull out = false /\ f_vfull out = false /\
    Good ncols (maxrow + 1) V offs rows (fun _ => len rows) (f_inds out) (f_vals out).
Proof. exact kernel_roundtrip. Qed.
Print Assumptions csv_kernel_roundtrip.

(* FULL (the planned csv_single_window_roundtrip).  read_file_using_fast_csv_reader +
   IndexedStringImporter on a rendered file, with or without the final newline, for every
   chunk_row_size whose window holds the file and every column_offsets with budgets above the
   column totals: the number of rows is |rows| and every imported column is exactly the
   indexed-string encoding of that column's cell texts, in file order; index_map selects columns. *)
Theorem csv_single_window_roundtrip :
  forall hdr rows file crs ncols offs index_map fuel,
  0 < ncols -> len hdr = ncols -> Forall (fun rw => len rw = ncols) rows ->
  (file = render_file (hdr :: rows) \/
   (file ++ [NL] = render_file (hdr :: rows) /\ file <> [] /\ last file NL <> NL)) ->
  len (render_file (hdr :: rows)) <= crs * 2 * ncols ->
  len rows < crs * 2 ->
  len offs = ncols + 1 -> nthZ offs 0 = 0 ->
  (forall c, 0 <= c < ncols -> nthZ offs c + len (CB rows c) < nthZ offs (c + 1)) ->
  Forall (fun c => 0 <= c < ncols) index_map ->
  (2 <= fuel)%nat ->
  exists d, read_file fuel file crs ncols offs index_map = Ok d /\
    d_acc d = len rows /\
    map (fun m => (i_indices m, i_values m)) (d_imps d) =
    map (fun ts => (enc_indices ts, enc_values ts)) (select index_map rows).
Proof. exact read_file_single_window. Qed.
Print Assumptions csv_single_window_roundtrip.

(* a non-trivial instance of the hypotheses: 2 columns, 2 records with a separator, a doubled
   quote, a newline and a quoted leading blank, no final newline, chunk_row_size 20 *)
Example csv_single_window_example :
  let hdr := [(false, [97]); (false, [98])] in
  let rows := [[(false, [120; 44; 121]); (false, [34])]; [(true, [32; 122]); (false, [10; 10])]] in
  let src := render_file (hdr :: rows) in
  exists d, read_file 2 (removelast src) 20 2 [0; 200; 400] [0; 1] = Ok d /\ d_acc d = 2 /\
    map (fun m => (i_indices m, i_values m)) (d_imps d) =
    [([0; 3; 5], [120; 44; 121; 32; 122]); ([0; 1; 3], [34; 10; 10])].
Proof. vm_compute. eexists. repeat split. Qed.

(* FULL (extension E1).  Prefix stability of the kernel.  `rows` are the records from the byte at which
   the call starts (start_index i0; the header line first on the header call) to the end of the file; the
   window `src` ends anywhere: after k complete records comes p, which is empty or a proper non-empty
   prefix of the rendering of record k — so the cut may fall inside a plain cell, inside a quoted cell,
   between the two quotes of an escaped quote, right after a closing quote, after a separator, or exactly
   at a record end.  With k <= maxrow index rows (k = maxrow only when nothing follows) and every
   column's value budget above the column's bytes, the call commits exactly the k records that end inside
   the window (written_row_count = k, buffers = prefix sums and texts of those k records: predicate Good
   with count k), reports next_pos = the byte after the last of them, raises `values full` never and
   `indices full` exactly when k = maxrow, with the closed-form fuel len src - i0 + 1. *)
Theorem csv_prefix_stable :
  forall (src offs : list Z) (maxrow ncols : Z),
  len offs = ncols + 1 -> 0 < ncols -> 0 < maxrow ->
  forall (V : Z) (rows : list (list cell)),
  nthZ offs 0 = 0 ->
  (forall c, 0 <= c < ncols -> nthZ offs c + len (CB rows c) < nthZ offs (c + 1)) ->
  nthZ offs ncols <= V ->
  Forall (fun rw => len rw = ncols) rows ->
  forall (hasHeader : bool) (hdr : list cell) (k : nat) (i0 : Z) (inds : arr2) (vals p : list Z),
  (k <= length rows)%nat -> Z.of_nat k <= maxrow -> 0 <= i0 <= len src ->
  (hasHeader = true -> i0 = 0 /\ len hdr = ncols) ->
  suf src i0 = (if hasHeader then render_row hdr else []) ++ render_file (firstn k rows) ++ p ->
  (p = [] \/ (Z.of_nat k < maxrow /\ (k < length rows)%nat /\
              exists q, q <> [] /\ render_row (nth k rows []) = p ++ q)) ->
  shape ncols (maxrow + 1) inds -> (forall c, 0 <= c < ncols -> I2 inds c 0 = 0) -> len vals = V ->
  exists out, fast_csv_reader (fsm_fuel src i0) src i0 inds vals offs hasHeader = Ok out /\
    f_next out = i0 + len (if hasHeader then render_row hdr else []) + len (render_file (firstn k rows)) /\
    f_rows out = Z.of_nat k /\ f_ifull out = (Z.of_nat k =? maxrow) /\ f_vfull out = false /\
    Good ncols (maxrow + 1) V offs rows (fun _ => Z.of_nat k) (f_inds out) (f_vals out).
Proof. exact kernel_prefix_stable. Qed.
Print Assumptions csv_prefix_stable.

(* instances of the three delicate cut points (header `a`, records `x<quote>y` and `z`, one column):
   the file is  a LF Q x Q Q y Q LF z LF  (Q = the quote byte 34; bytes 0..10); windows of 4, 5 and 8 bytes end inside the quoted
   cell, between the two quotes of the escaped quote, and right after the closing quote: in all three the
   call commits no record and returns next_pos = 2, the byte after the header line; the 9-byte window
   holds the record and returns next_pos = 9 *)
Example csv_prefix_stable_cuts :
  let file := render_file [[(false, [97])]; [(false, [120; 34; 121])]; [(false, [122])]] in
  let run n := match fast_csv_reader (fsm_fuel (firstn n file) 0) (firstn n file) 0 (zeros2 1 5) (zeros 10) [0; 10] true with
               | Ok o => Some (f_next o, f_rows o, f_esc o, f_cand o) | _ => None end in
  file = [97; 10; 34; 120; 34; 34; 121; 34; 10; 122; 10] /\
  run 4%nat = Some (2, 0, true, false) /\ run 5%nat = Some (2, 0, true, false) /\
  run 8%nat = Some (2, 0, true, false) /\ run 9%nat = Some (9, 1, false, false).
Proof. vm_compute. repeat split. Qed.

(* FULL (extension E1).  The multi-window driver: a rendered file of any length, with or without the final
   newline, any chunk_row_size whose window (2 * chunk_row_size * ncols bytes) holds every line of the
   file on its own (the header line and each record; in particular "header plus longest record"
   suffices), every column's value budget above the column's total bytes (so the value buffers never
   regrow; the index buffer may regrow at a window end, lines 122-124), any index_map: read_file runs
   through all windows, reports |rows| rows and every imported column is exactly the indexed-string
   encoding of that column's cell texts in file order.  Fuel: one iteration per record suffices. *)
Theorem csv_multi_window_roundtrip :
  forall hdr rows file crs ncols offs index_map,
  0 < ncols -> len hdr = ncols -> Forall (fun rw => len rw = ncols) rows ->
  (file = render_file (hdr :: rows) \/
   (file ++ [NL] = render_file (hdr :: rows) /\ file <> [] /\ last file NL <> NL)) ->
  (forall r, In r (hdr :: rows) -> len (render_row r) <= crs * 2 * ncols) ->
  len offs = ncols + 1 -> nthZ offs 0 = 0 ->
  (forall c, 0 <= c < ncols -> nthZ offs c + len (CB rows c) < nthZ offs (c + 1)) ->
  Forall (fun c => 0 <= c < ncols) index_map ->
  forall fuel, (length rows + 2 <= fuel)%nat ->
  exists d, read_file fuel file crs ncols offs index_map = Ok d /\
    d_acc d = len rows /\
    map (fun m => (i_indices m, i_values m)) (d_imps d) =
    map (fun ts => (enc_indices ts, enc_values ts)) (select index_map rows).
Proof. exact read_file_multi_window. Qed.
Print Assumptions csv_multi_window_roundtrip.

(* FULL (extension E1).  The kernel with ARBITRARY positive value budgets (offs strictly increasing from 0)
   and any number maxrow >= 1 of index rows, entered at a record start of a window that ends anywhere:
   it commits j <= k of the k records that end inside the window (written_row_count = j, next_pos = the
   byte after the j-th, buffers = prefix sums / texts of those j records and every column's committed bytes
   strictly inside its budget: predicate GoodL with count j) and stops for exactly one of three reasons
   (predicate KOut, Proofs/CsvRegrow.v): `values full` in a column vfc whose budget is at most that
   column's bytes, with next_pos < len src (so the driver re-enters); `indices full` with j = maxrow;
   or no flag at all, and then j = k: every record that ends inside the window is committed. *)
Theorem csv_kernel_any_budget :
  forall (src offs : list Z) (maxrow ncols : Z),
  len offs = ncols + 1 -> 0 < ncols -> 0 < maxrow ->
  forall (V : Z) (rows : list (list cell)),
  nthZ offs 0 = 0 ->
  (forall c, 0 <= c < ncols -> nthZ offs c + 1 <= nthZ offs (c + 1)) ->
  nthZ offs ncols <= V ->
  Forall (fun rw => len rw = ncols) rows ->
  forall (hasHeader : bool) (hdr : list cell) (k : nat) (i0 : Z) (inds : arr2) (vals p : list Z),
  (k <= length rows)%nat -> 0 <= i0 <= len src ->
  (hasHeader = true -> i0 = 0 /\ len hdr = ncols) ->
  suf src i0 = (if hasHeader then render_row hdr else []) ++ render_file (firstn k rows) ++ p ->
  (p = [] \/ ((k < length rows)%nat /\ exists q, q <> [] /\ render_row (nth k rows []) = p ++ q)) ->
  shape ncols (maxrow + 1) inds -> (forall c, 0 <= c < ncols -> I2 inds c 0 = 0) -> len vals = V ->
  exists out, fast_csv_reader (fsm_fuel src i0) src i0 inds vals offs hasHeader = Ok out /\
  exists j : nat, (j <= k)%nat /\ f_rows out = Z.of_nat j /\ Z.of_nat j <= maxrow /\
    f_next out = i0 + len (if hasHeader then render_row hdr else []) + len (render_file (firstn j rows)) /\
    GoodL offs maxrow ncols V rows (fun _ => Z.of_nat j) (f_inds out) (f_vals out) /\
    ((f_vfull out = true /\ f_ifull out = false /\ 0 <= f_vfc out < ncols /\
      nthZ offs (f_vfc out + 1) - nthZ offs (f_vfc out) <= len (CB rows (f_vfc out)) /\ f_next out < len src)
     \/ (f_vfull out = false /\ f_ifull out = true /\ Z.of_nat j = maxrow)
     \/ (f_vfull out = false /\ f_ifull out = false /\ j = k)).
Proof. exact kernel_any_budget. Qed.
Print Assumptions csv_kernel_any_budget.

(* FULL (extension E1; the regrowth paths).  The driver with ARBITRARY positive column budgets
   (column_offsets strictly increasing from 0 - a zero budget makes the real code loop forever) and any
   chunk_row_size whose window holds every line of the file on its own: whenever a call raises `values
   full` the records it committed are imported, that column's budget is doubled, the value buffer is
   re-allocated and the same window is re-entered at the saved offset (lines 127-141); `indices full` in
   the middle of a window doubles the index buffer and re-enters likewise; the import is |rows| rows and,
   per column, exactly the indexed-string encoding of the column's cell texts.
   Fuel (closed form): 2 * |rows| + 2 * mu + 4 driver iterations, where mu (Proofs/CsvRegrowDrv.v) is the sum
   over the columns of max 0 (column bytes + 1 - budget) - an upper bound on the number of doublings
   (mu = 0 when every budget exceeds its column: lemma mu_zero). *)
Theorem csv_import_roundtrip :
  forall hdr rows file crs ncols index_map,
  0 < ncols -> len hdr = ncols -> Forall (fun rw => len rw = ncols) rows ->
  (file = render_file (hdr :: rows) \/
   (file ++ [NL] = render_file (hdr :: rows) /\ file <> [] /\ last file NL <> NL)) ->
  (forall r, In r (hdr :: rows) -> len (render_row r) <= crs * 2 * ncols) ->
  Forall (fun c => 0 <= c < ncols) index_map ->
  forall offs fuel,
  (len offs = ncols + 1 /\ nthZ offs 0 = 0 /\ forall c, 0 <= c < ncols -> nthZ offs c + 1 <= nthZ offs (c + 1)) ->
  (2 * length rows + 2 * Z.to_nat (mu ncols rows offs) + 4 <= fuel)%nat ->
  exists d, read_file fuel file crs ncols offs index_map = Ok d /\
    d_acc d = len rows /\
    map (fun m => (i_indices m, i_values m)) (d_imps d) =
    map (fun ts => (enc_indices ts, enc_values ts)) (select index_map rows).
Proof. exact read_file_regrow. Qed.
Print Assumptions csv_import_roundtrip.

(* FULL (extension E1; replaces csv_chunk_independent_partial: neither "the window holds the whole file"
   nor "the budgets exceed the column totals" is assumed any more).  Independence of chunking: for any two
   chunk_row_sizes whose windows hold every line of the file on its own (in particular: header plus longest
   record), and any two positive budget vectors, read_file returns the same row count and the same imported
   columns (both equal the specification) - across any number of windows, value-buffer regrowths, index-buffer
   regrowths and re-entries. *)
Theorem csv_chunk_independent :
  forall hdr rows file crs1 crs2 ncols offs1 offs2 index_map fuel1 fuel2,
  0 < ncols -> len hdr = ncols -> Forall (fun rw => len rw = ncols) rows ->
  (file = render_file (hdr :: rows) \/
   (file ++ [NL] = render_file (hdr :: rows) /\ file <> [] /\ last file NL <> NL)) ->
  (forall r, In r (hdr :: rows) -> len (render_row r) <= crs1 * 2 * ncols) ->
  (forall r, In r (hdr :: rows) -> len (render_row r) <= crs2 * 2 * ncols) ->
  (len offs1 = ncols + 1 /\ nthZ offs1 0 = 0 /\ forall c, 0 <= c < ncols -> nthZ offs1 c + 1 <= nthZ offs1 (c + 1)) ->
  (len offs2 = ncols + 1 /\ nthZ offs2 0 = 0 /\ forall c, 0 <= c < ncols -> nthZ offs2 c + 1 <= nthZ offs2 (c + 1)) ->
  Forall (fun c => 0 <= c < ncols) index_map ->
  (2 * length rows + 2 * Z.to_nat (mu ncols rows offs1) + 4 <= fuel1)%nat ->
  (2 * length rows + 2 * Z.to_nat (mu ncols rows offs2) + 4 <= fuel2)%nat ->
  exists d1 d2, read_file fuel1 file crs1 ncols offs1 index_map = Ok d1 /\
                read_file fuel2 file crs2 ncols offs2 index_map = Ok d2 /\
                d_acc d1 = d_acc d2 /\
                map (fun m => (i_indices m, i_values m)) (d_imps d1) = map (fun m => (i_indices m, i_values m)) (d_imps d2).
Proof. exact read_file_chunk_independent_any. Qed.
Print Assumptions csv_chunk_independent.

(* a non-trivial instance of the hypotheses: 2 columns, 3 records (a separator, a doubled quote, a line
   break inside cells), no final newline; chunk_row_size 3 with 1-byte budgets (windows of 12 bytes that cut
   quoted cells; 7 kernel calls, 4 budget doublings, 4 re-entries; mu = 9) against chunk_row_size 20 with large budgets
   (one call) *)
Example csv_chunk_independent_example :
  let hdr := [(false, [97]); (false, [98])] in
  let rows := [[(false, [120; 44; 121]); (false, [34])]; [(true, [32; 122]); (false, [10; 10])]; [(false, []); (false, [119])]] in
  let file := removelast (render_file (hdr :: rows)) in
  Forall (fun r => len (render_row r) <= 3 * 2 * 2) (hdr :: rows) /\
  Z.of_nat (2 * length rows + 2 * Z.to_nat (mu 2 rows [0; 1; 2]) + 4) = 28 /\
  exists d1 d2, read_file 28 file 3 2 [0; 1; 2] [0; 1] = Ok d1 /\ read_file 10 file 20 2 [0; 50; 90] [0; 1] = Ok d2 /\
    d_acc d1 = 3 /\ d_acc d2 = 3 /\ length (d_trace d1) = 7%nat /\ length (d_trace d2) = 1%nat /\
    d_offs d1 = [0; 4; 8] /\
    map (fun m => (i_indices m, i_values m)) (d_imps d1) = map (fun m => (i_indices m, i_values m)) (d_imps d2) /\
    map (fun m => (i_indices m, i_values m)) (d_imps d1) =
    [([0; 3; 5; 5], [120; 44; 121; 32; 122]); ([0; 1; 3; 4], [34; 10; 10; 119])].
Proof. vm_compute. split; [repeat constructor; discriminate|]. split; [reflexivity|]. eexists. eexists. repeat split. Qed.

(* multi-window + regrowth instances, checked by computation (not theorems of the property):
   3 records over windows of 8 bytes with a 1-byte value budget (values-full, re-entry, doubling) *)
Example csv_value_regrowth_example :
  let hdr := [(false, [97])] in
  let rows := [[(false, [])]; [(false, [34])]; [(false, [97; 98; 99])]] in
  exists d, read_file 100 (render_file (hdr :: rows)) 4 1 [0; 1] [0] = Ok d /\ d_acc d = 3 /\
    map (fun m => (i_indices m, i_values m)) (d_imps d) = [([0; 0; 1; 4], [34; 97; 98; 99])].
Proof. vm_compute. eexists. repeat split. Qed.

(* FULL.  include / exclude select exactly the named columns (parsers.py:122-129) ... *)
Theorem csv_select_exact :
  forall names inc exc k,
  In k (fields_to_use names inc exc) <->
  In k names /\ (forall l, inc = Some l -> In k l) /\ (forall l, exc = Some l -> ~ In k l).
Proof. exact fields_to_use_spec. Qed.
Print Assumptions csv_select_exact.

(* ... and index_map points each selected name at a column carrying that name *)
Theorem csv_index_map_exact :
  forall k names, In k names ->
  exists i, index_of k names = Ok i /\ 0 <= i < len names /\ nthd [] names i = k.
Proof. exact index_of_spec. Qed.
Print Assumptions csv_index_map_exact.
