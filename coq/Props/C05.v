(* Props/C05.v — placeholder until Proofs/Csv*.v land *)
From Coq Require Import ZArith List.
From EV Require Import Res Arr Csv.
Import ListNotations.
Open Scope Z_scope.

Theorem c05_smoke : (len (@nil Z)) = 0.
Proof. reflexivity. Qed.
Print Assumptions c05_smoke.
