(* Props/C10.v — C10 corollaries for the streamed join kernels: whatever the ratio of matches to rows, no
   kernel model performs an array access outside [0,len) (every access of the models is a checked get/set).
   The other kernels' safety is the `= Ok ...` conclusion of the theorems of Props/C01,C04,C05,C06,C08,C09,C14,
   C16,C17, which the C10 check re-compiles. *)
From Coq Require Import ZArith List.
From EV Require Import Res Arr Join JoinSpec JoinBase JoinIface JoinDriver JoinMain JoinAll.
Import ListNotations.
Open Scope Z_scope.

Theorem c10_streamed_join_no_oob : forall k is_left L R inv cs site,
  kind_pre k L R -> 1 <= cs -> streamed (mkvar k is_left) L R inv cs <> OOB site.
Proof. intros k is_left L R inv cs site Hp Hc. exact (streamed_no_oob k is_left L R inv cs Hp Hc site). Qed.
Print Assumptions c10_streamed_join_no_oob.

(* the result buffers of size chunksize are never overrun: the driver result is the full join, so every row was
   written inside a buffer and flushed *)
Theorem c10_streamed_join_total : forall k is_left L R inv cs,
  kind_pre k L R -> 1 <= cs ->
  streamed (mkvar k is_left) L R inv cs = Ok (expected k is_left inv L R) \/
  (streamed (mkvar k is_left) L R inv cs = Raise E_ValueError /\ LongRun k is_left L R cs).
Proof. exact streamed_total. Qed.
Print Assumptions c10_streamed_join_total.
