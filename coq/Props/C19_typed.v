(* Props/C19_typed.v — C19, the element types of the payloads and histories of calls ("for each requested payload").
   Statements only; proofs are in Proofs/SessionMergeTypedP.v.
   Model: Model/SessionMergeTyped.v (dtype, cast, the dtype every argument form stages a payload through,
   ordered_merge_left_t = Session.ordered_merge_left with typed sources and sinks, history) on top of
   Model/SessionMerge.v.  A payload value is an integer: the value itself (integer dtypes), 0/1 (bool), the IEEE bit
   pattern (float32/float64); conversions from/to floating point are not modelled.
   `well_staged srcs dts`: every source column is stored unchanged in an array of the corresponding dtype (same dtype,
   or an integer/bool column whose values all fit the integer dtype). *)
From Coq Require Import ZArith List Bool Lia.
From EV Require Import Res Arr Join JoinSpec JoinMain JoinDriver JoinMainKRU MapStream SessionMerge SessionMergeSpec SessionMergeTop
  SessionMergeTyped SessionMergeTypedP.
Import ListNotations.
Open Scope Z_scope.

(* FULL.  Every in-memory argument form, any number of payloads of any (modelled) dtypes, memory- or HDF5-backed
   fields: the call succeeds and payload k comes back as the left-join payload of source k, in the dtype the form
   prescribes (`out_dtypes`: the source's dtype when arrays are returned or an empty memory field is written; the
   sink's dtype for ndarray sinks and HDF5-backed field sinks). *)
Theorem ordered_merge_left_typed_inmemory_correct : forall L R srcs lu,
  srcs <> [] -> sorted L -> (lu = true -> ssorted L) -> ssorted R -> len R <= INVALID_INDEX ->
  (forall s, In s srcs -> len (snd s) = len R) ->
  forall cs fm snk_dts sinks0 mk bk dts,
  is_streamed fm mk = false ->
  (has_sinks fm = true -> length snk_dts = length srcs) ->
  (fm = FArrSink -> sinks0 = zero_sinks L (map snd srcs)) ->
  out_dtypes false fm bk srcs snk_dts = Ok dts ->
  well_staged srcs dts ->
  exists o, ordered_merge_left_t cs L R srcs fm snk_dts sinks0 mk lu true bk = Ok o /\
            toml_payloads o = Some (expected_t dts L R srcs).
Proof. exact oml_t_inmemory_correct. Qed.
Print Assumptions ordered_merge_left_typed_inmemory_correct.

(* FULL.  The streamed form (field keys, payloads, sinks, map), EVERY chunk size >= 1, any number of payloads whose
   sinks may all have different dtypes: sink k = left-join payload of source k in the dtype of sink k; the map field
   = the join map.  (A left key with duplicates must not contain a run as long as a chunk: no_long_run, as in
   Props/C19.v.) *)
Theorem ordered_merge_left_typed_streamed_correct : forall L R srcs lu,
  srcs <> [] -> sorted L -> (lu = true -> ssorted L) -> ssorted R -> len R <= INVALID_INDEX ->
  (forall s, In s srcs -> len (snd s) = len R) ->
  forall cs snk_dts bk,
  1 <= cs -> (lu = true \/ (lu = false /\ no_long_run L cs)) ->
  length snk_dts = length srcs -> well_staged srcs snk_dts ->
  ordered_merge_left_t cs L R srcs FFldSink snk_dts [] MFld lu true bk
  = Ok (mk_toml None (Some (expected_t snk_dts L R srcs)) (Some (map snd (left_join INVALID_INDEX L R)))).
Proof. exact oml_t_streamed_correct. Qed.
Print Assumptions ordered_merge_left_typed_streamed_correct.

(* FULL.  "for each requested payload": the column sink k receives in a streamed call with many payloads is the
   column it receives in a call with payload k alone — independent of the payload's position in the tuple and of
   the other payloads and sinks and their dtypes. *)
Theorem ordered_merge_left_payloads_independent : forall L R lu cs bk,
  sorted L -> (lu = true -> ssorted L) -> ssorted R -> len R <= INVALID_INDEX ->
  1 <= cs -> (lu = true \/ (lu = false /\ no_long_run L cs)) ->
  forall srcs snk_dts, srcs <> [] -> (forall s, In s srcs -> len (snd s) = len R) ->
  length snk_dts = length srcs -> well_staged srcs snk_dts ->
  exists cols,
    ordered_merge_left_t cs L R srcs FFldSink snk_dts [] MFld lu true bk
    = Ok (mk_toml None (Some cols) (Some (map snd (left_join INVALID_INDEX L R)))) /\
    Forall2 (fun (sd:tcol * dtype) (c:tcol) =>
               ordered_merge_left_t cs L R [fst sd] FFldSink [snd sd] [] MFld lu true bk
               = Ok (mk_toml None (Some [c]) (Some (map snd (left_join INVALID_INDEX L R)))))
            (combine srcs snk_dts) cols.
Proof. exact oml_t_streamed_payloads_independent. Qed.
Print Assumptions ordered_merge_left_payloads_independent.

(* FULL.  A cast that the model performs keeps every value the target dtype can represent. *)
Theorem cast_keeps_representable_values : forall a b v, int_like a = true -> fits b v -> cast a b v = Some v.
Proof. exact cast_fits. Qed.
Print Assumptions cast_keeps_representable_values.

Theorem cast_same_dtype : forall a v, cast a a v = Some v.
Proof. exact cast_same. Qed.
Print Assumptions cast_same_dtype.

(* FULL.  Histories: the model of a call is a function of the values of its arguments, so the k-th result of a
   sequence of calls on one Session is the result of the k-th call on its own (no state is carried from call to
   call, whatever the earlier calls were given). *)
Theorem session_history_call_alone : forall (C O:Type) (call:C -> O) calls k d d',
  (k < length calls)%nat -> nth k (history call calls) d' = call (nth k calls d).
Proof. exact @history_call_alone. Qed.
Print Assumptions session_history_call_alone.

Example ordered_merge_left_typed_hyps :
  well_staged [(DInt 8, [127; -128]); (DBool, [1;0]); (DFloat 64, [4634590711657168896; 0])] [DInt 64; DInt 8; DFloat 64] /\
  ordered_merge_left_t 3 [100;100;200;400] [100;200;300]
    [(DInt 32, [3;2;0]); (DFloat 64, [4634590711657168896; 4635347571006013440; 7]); (DInt 64, [2 ^ 53 + 1; - 2 ^ 63; 2 ^ 32 + 5])]
    FFldSink [DInt 32; DFloat 64; DInt 64] [] MFld false true BMem
  = Ok (mk_toml None
          (Some [(DInt 32, [3;3;2;0]); (DFloat 64, [4634590711657168896; 4634590711657168896; 4635347571006013440; 0]);
                 (DInt 64, [2 ^ 53 + 1; 2 ^ 53 + 1; - 2 ^ 63; 0])])
          (Some [0;0;1;INVALID_INDEX])).
Proof. split; [exact well_staged_example|exact oml_t_mixed_example]. Qed.
