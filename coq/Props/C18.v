(* Props/C18.v — CSV / pandas export writes exactly the selected rows and columns.
   Statements only; proofs are in coq/Proofs/ToCsv*.v.  V_fix is the code after the repairs
   work/C18/fix-F-C18{a,b,c,d,g}.diff; V_orig the code before them (refutation theorems). *)
From Coq Require Import ZArith List Bool.
From EV Require Import Res Arr ToCsv ToCsvSpec ToCsvParse ToCsvLoop ToCsvTop ToCsvRound ToCsvWriter
  ToCsvHist ToCsvHistSpec ToCsvHistP ToCsvFast ToCsvFastP.
Import ListNotations.
Open Scope Z_scope.

(* 1. The chunk loop: for EVERY chunk_row_size >= 1 and any frame (columns of any lengths), row
      filter (absent / array / field, of any length) and valid column filter, the file is exactly
      the header line followed by one line per selected row, in order; the fuel bound is the
      termination claim (one iteration per started chunk of the longest field, plus one). *)
Theorem to_csv_rows_correct : forall fr rf cf chunk fuel,
  0 < chunk -> cf_valid fr cf = true -> (fuel >= to_csv_fuel fr chunk)%nat ->
  to_csv fuel V_fix fr rf cf chunk = Ok (concat (map fix_line (spec_table fr rf cf))).
Proof. exact ToCsvTop.to_csv_rows_correct. Qed.
Print Assumptions to_csv_rows_correct.

Example to_csv_rows_correct_hyp :
  let fr := [([97], [CInt 1; CInt 2; CInt 3]); ([115], [CStr [120; 44]; CStr [32]; CStr []])] in
  cf_valid fr (CF_list [[115]; [97]]) = true /\ (2 >= to_csv_fuel fr 2)%nat /\
  to_csv 2 V_fix fr (RF_arr [true; false]) (CF_list [[115]; [97]]) 2
  = Ok [115; 44; 97; 10; 34; 120; 44; 34; 44; 49; 10].
Proof. vm_compute. repeat split; auto. Qed.

(* 2. A standard CSV parser recovers every cell: the reference parser applied to any sequence of
      written lines returns exactly the cell texts, for ARBITRARY cell bytes (separators, quotes,
      CR, LF, blanks, multi-byte text). *)
Theorem csv_parse_recovers_lines : forall rows : list (list bytes),
  csv_parse (concat (map fix_line rows)) = rows.
Proof. exact parse_fix_lines. Qed.
Print Assumptions csv_parse_recovers_lines.

Theorem to_csv_parse : forall fr rf cf chunk fuel file,
  0 < chunk -> cf_valid fr cf = true -> (fuel >= to_csv_fuel fr chunk)%nat ->
  to_csv fuel V_fix fr rf cf chunk = Ok file -> csv_parse file = spec_table fr rf cf.
Proof. exact ToCsvTop.to_csv_parse. Qed.
Print Assumptions to_csv_parse.

(* 3. chunk_row_size is unobservable *)
Theorem to_csv_chunking_unobservable : forall fr rf cf c1 c2 f1 f2,
  0 < c1 -> 0 < c2 -> (f1 >= to_csv_fuel fr c1)%nat -> (f2 >= to_csv_fuel fr c2)%nat ->
  to_csv f1 V_fix fr rf cf c1 = to_csv f2 V_fix fr rf cf c2.
Proof. exact ToCsvTop.to_csv_chunking_unobservable. Qed.
Print Assumptions to_csv_chunking_unobservable.

(* 4. termination, for all arguments (valid or not) *)
Theorem to_csv_terminates : forall fr rf cf chunk fuel,
  (fuel >= to_csv_fuel fr chunk)%nat -> to_csv fuel V_fix fr rf cf chunk <> OutOfFuel.
Proof. exact ToCsvTop.to_csv_terminates. Qed.
Print Assumptions to_csv_terminates.

Theorem to_csv_rejects : forall fr rf cf chunk fuel,
  chunk <= 0 \/ cf_valid fr cf = false -> to_csv fuel V_fix fr rf cf chunk = Raise E_ValueError.
Proof. exact ToCsvTop.to_csv_rejects. Qed.
Print Assumptions to_csv_rejects.

(* 5. re-import: the reference re-import of the file (header = first record, column j = field j of
      the other records) reproduces, per written name, the texts of its selected cells, when the
      selected columns have one length; and a decimal literal reads back as the integer written. *)
Theorem export_import_roundtrip : forall fr rf cf chunk fuel file,
  0 < chunk -> cf_valid fr cf = true -> (fuel >= to_csv_fuel fr chunk)%nat ->
  rect fr (spec_names fr rf cf) ->
  to_csv fuel V_fix fr rf cf chunk = Ok file ->
  table_columns (csv_parse file) = spec_columns fr rf cf.
Proof. exact ToCsvRound.export_import_roundtrip. Qed.
Print Assumptions export_import_roundtrip.

Example export_import_roundtrip_hyp :
  let fr := [([97], [CInt 1; CInt (-2)]); ([115], [CStr [32; 120]; CStr [13]])] in
  rect fr (spec_names fr RF_none CF_none) /\
  table_columns (csv_parse (concat (map fix_line (spec_table fr RF_none CF_none))))
  = [([97], [[49]; [45; 50]]); ([115], [[32; 120]; [13]])].
Proof.
  split; [|vm_compute; reflexivity].
  intros a b Ha Hb. cbn in Ha, Hb.
  destruct Ha as [<-|[<-|[]]]; destruct Hb as [<-|[<-|[]]]; reflexivity.
Qed.

Theorem int_literal_roundtrip : forall z, parse_int (render_int z) = Some z.
Proof. exact ToCsvRound.parse_render_int. Qed.
Print Assumptions int_literal_roundtrip.

(* 6. to_pandas *)
Theorem to_pandas_correct : forall fr rf cf,
  pandas_valid fr rf cf = true -> to_pandas V_fix fr rf cf = Ok (spec_pandas fr rf cf).
Proof. exact ToCsvTop.to_pandas_correct. Qed.
Print Assumptions to_pandas_correct.

Example to_pandas_correct_hyp :
  let fr := [([97], [CInt 1; CInt 2]); ([115], [CStr [120]; CStr []])] in
  pandas_valid fr (Some [false; true]) (CF_list [[115]; [97]]) = true /\
  to_pandas V_fix fr (Some [false; true]) (CF_list [[115]; [97]]) = Ok [([115], [CStr []]); ([97], [CInt 2])].
Proof. vm_compute. split; reflexivity. Qed.

(* 6b. reading of the specification: `select_opt` keeps row i iff the filter is absent or
       (i < |filter| and filter[i]) — the wording of the property *)
Theorem select_opt_index : forall (flt:option (list bool)) (rows:list (list cell)),
  select_opt flt rows
  = map snd (filter (fun p => match flt with None => true | Some f => nth (fst p) f false end)
                    (combine (seq 0 (length rows)) rows)).
Proof. exact (@ToCsvWriter.select_opt_index (list cell)). Qed.
Print Assumptions select_opt_index.

(* 6c. the repaired line writer is conservative: on records without a CR and without a cell that
       starts with a blank it writes byte for byte what the stdlib csv.writer (lineterminator LF,
       QUOTE_MINIMAL, as modelled from CPython 3.12) wrote *)
Theorem fix_line_conservative : forall cells,
  forallb plain_cell cells = true -> fix_line cells = writer_row [LF] cells.
Proof. exact ToCsvWriter.fix_line_conservative. Qed.
Print Assumptions fix_line_conservative.

Example fix_line_conservative_hyp :
  forallb plain_cell [[120; 44; 34]; []; [10; 32]] = true /\
  fix_line [[120; 44; 34]; []; [10; 32]] = [34; 120; 44; 34; 34; 34; 44; 44; 34; 10; 32; 34; 10].
Proof. vm_compute. auto. Qed.

(* 7. the code before the repairs does NOT meet the specification (findings F-C18a..d, g) *)
(* F-C18a: a cell holding a lone CR is written bare and parsed back as two records *)
Theorem to_csv_orig_parse_refuted : exists fr file,
  to_csv 2 V_orig fr RF_none CF_none 1 = Ok file /\ csv_parse file <> spec_table fr RF_none CF_none.
Proof.
  exists [([115], [CStr [97; 13; 98]])]. eexists. split; [vm_compute; reflexivity|].
  vm_compute. discriminate.
Qed.
Print Assumptions to_csv_orig_parse_refuted.

(* F-C18b: no column left to write (the filter field was the only column): IndexError *)
Theorem to_csv_orig_zero_columns_refuted : exists fr rf,
  cf_valid fr CF_none = true /\ to_csv 2 V_orig fr rf CF_none 2 = Raise E_IndexError.
Proof. exists [([102], [CLit [84]; CLit [70]])], (RF_field true [102] [true; false]). vm_compute. auto. Qed.
Print Assumptions to_csv_orig_zero_columns_refuted.

(* F-C18c: to_pandas of an empty dataframe: IndexError *)
Theorem to_pandas_orig_empty_refuted :
  pandas_valid [] None CF_none = true /\ to_pandas V_orig [] None CF_none = Raise E_IndexError.
Proof. vm_compute. auto. Qed.
Print Assumptions to_pandas_orig_empty_refuted.

(* F-C18d: the stdlib writer leaves a cell that starts with a blank bare (ExeTera's reader then drops the blank) *)
Theorem to_csv_orig_leading_blank_bare_refuted :
  writer_row [LF] [[32; 120]] = [32; 120; 10] /\ fix_line [[32; 120]] = [34; 32; 120; 34; 10].
Proof. vm_compute. auto. Qed.
Print Assumptions to_csv_orig_leading_blank_bare_refuted.

(* F-C18g: a filter field of ANOTHER dataframe that merely shares its name with a column removes that column *)
Theorem to_csv_orig_foreign_filter_refuted : exists fr rf file,
  to_csv 2 V_orig fr rf CF_none 2 = Ok file /\ csv_parse file <> spec_table fr rf CF_none.
Proof.
  exists [([97], [CInt 1]); ([115], [CStr [120]])], (RF_field false [97] [true]). eexists.
  split; [vm_compute; reflexivity|]. vm_compute. discriminate.
Qed.
Print Assumptions to_csv_orig_foreign_filter_refuted.

(* ---- added by SC18 (strengthening after seeded round 2) ------------------------------------- *)

(* 8. histories (Model/ToCsvHist.v): several exports of one dataframe object to one destination,
      the caller's column_filter list objects reused, the dataframe edited between exports.
      With the repaired code (copies = true) a history is a sequence of independent calls: every
      call writes what the single-call specification demands of the arguments as the caller wrote
      them and of the frame as it is then; a failing call leaves the destination untouched. *)
Theorem to_csv_history_correct : forall st calls file,
  run_hist true st file calls = spec_hist st file calls.
Proof. exact ToCsvHistP.history_correct. Qed.
Print Assumptions to_csv_history_correct.

Theorem to_csv_history_nth : forall st calls file k c,
  nth_error calls k = Some c -> 0 < c_chunk c -> cf_valid (c_fr c) (resolve st (c_cf c)) = true ->
  let out := concat (map fix_line (spec_table (c_fr c) (c_rf c) (resolve st (c_cf c)))) in
  nth_error (run_hist true st file calls) k = Some (Ok out, Some out).
Proof. exact ToCsvHistP.history_nth. Qed.
Print Assumptions to_csv_history_nth.

Example to_csv_history_nth_hyp :
  nth_error j_calls 1 = Some (mkcall j_frame RF_none (CA_ref 0) 2) /\
  cf_valid j_frame (resolve j_store (CA_ref 0)) = true /\
  nth_error (run_hist true j_store None j_calls) 1
  = Some (Ok [97; 44; 102; 10; 49; 44; 84; 10; 50; 44; 70; 10; 51; 44; 84; 10],
          Some [97; 44; 102; 10; 49; 44; 84; 10; 50; 44; 70; 10; 51; 44; 84; 10]).
Proof. vm_compute. repeat split; reflexivity. Qed.

Theorem to_csv_history_failed_call_keeps_file : forall st c t file,
  (c_chunk c <= 0 \/ cf_valid (c_fr c) (resolve st (c_cf c)) = false) ->
  hd_error (run_hist true st file (c :: t)) = Some (Raise E_ValueError, file).
Proof. exact ToCsvHistP.history_failed_call_keeps_file. Qed.
Print Assumptions to_csv_history_failed_call_keeps_file.

(* F-C18j: the code that passes the caller's list to list.remove (copies = false): the second export
   through the same list object lacks the column the first call removed *)
Theorem to_csv_history_aliasing_refuted :
  run_hist false j_store None j_calls <> spec_hist j_store None j_calls
  /\ run_hist true j_store None j_calls = spec_hist j_store None j_calls.
Proof. exact ToCsvHistP.history_aliasing_refuted. Qed.
Print Assumptions to_csv_history_aliasing_refuted.

(* 8b. closed form of a single call; the extracted entry evaluates frames with more than 4096 rows
       through it (the statement-level model indexes the filter list per row, quadratic) *)
Theorem to_csv_closed_form : forall fr rf cf chunk,
  to_csv (to_csv_fuel fr chunk) V_fix fr rf cf chunk = to_csv_closed fr rf cf chunk.
Proof. exact ToCsvHistP.closed_form. Qed.
Print Assumptions to_csv_closed_form.

(* 9. the linear-time parser evaluated by the extracted entry is the reference parser *)
Theorem csv_parse_fast_eq : forall file, csv_parse_f file = csv_parse file.
Proof. exact ToCsvFastP.csv_parse_f_eq. Qed.
Print Assumptions csv_parse_fast_eq.
