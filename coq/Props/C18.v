(* Props/C18.v — placeholder until the proofs land *)
From Coq Require Import ZArith List.
From EV Require Import Res Arr ToCsv ToCsvSpec.
Import ListNotations.
Open Scope Z_scope.

Theorem c18_smoke : csv_parse (fix_line [[97]; [32; 98]; []]) = [[[97]; [32; 98]; []]].
Proof. vm_compute. reflexivity. Qed.
Print Assumptions c18_smoke.
