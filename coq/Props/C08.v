(* Props/C08.v — placeholder until Proofs/Spans*.v land *)
From Coq Require Import ZArith List.
From EV Require Import Res Arr Spans SpansSpec.
Import ListNotations.
Open Scope Z_scope.

Theorem c08_smoke : get_spans_for_field Z_neqb [1;2;2;1;1;1;3] = [0;1;3;6;7].
Proof. vm_compute. reflexivity. Qed.
Print Assumptions c08_smoke.
