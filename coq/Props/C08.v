(* Props/C08.v — C08 "Spans are the maximal runs of equal adjacent rows; reductions respect them".
   Statements only; proofs are in Proofs/Spans*.v.  Models: Model/Spans.v (the code of /repo after
   work/C08/fix-*.diff).  Specification: Spec/SpansSpec.v.
   neq_test neqb  :=  forall x y, neqb x y = false <-> x = y      (the dtype's != is exact)
   strict_total ltb := irreflexive, transitive, incomparable elements are equal (the dtype's < ; NaN-free) *)
From Coq Require Import ZArith List Bool.
From EV Require Import Res Arr Spans SpansSpec SpansBase SpansRef SpansField SpansKernels SpansIndexed SpansOrder
  SpansReduce SpansMerge SpansIndexedReduce SpansMain SpansSorted SpansFilter SpansRle SpansRleProofs SpansRleReduce SpansRepr SpansReprProofs SpansTotals.
Import ListNotations.
Open Scope Z_scope.

(* ---- 1. get_spans on one column: Field.get_spans / Session.get_spans(field | ndarray) ------------------- *)
(* full: for every element type with an exact !=, every column (incl. lengths 0 and 1) *)
Theorem spans_field_correct : forall (A:Type) (neqb:A -> A -> bool) (d:A) (a:list A),
  neq_test neqb -> is_spans d a (get_spans_for_field neqb a).
Proof. exact (@spans_field_correct_pf). Qed.
Print Assumptions spans_field_correct.

(* the property predicate has exactly one solution: "the entry points agree" reduces to "each is correct" *)
Theorem spans_unique : forall (A:Type) (d:A) (xs:list A) (sp1 sp2:list Z),
  is_spans d xs sp1 -> is_spans d xs sp2 -> sp1 = sp2.
Proof. exact (@is_spans_unique). Qed.
Print Assumptions spans_unique.

Example neq_test_Z : neq_test Z_neqb.
Proof. exact Z_neqb_spec. Qed.
Example neq_test_bytes : neq_test bytes_neqb.
Proof. exact bytes_neqb_spec. Qed.
Example spans_example : get_spans_for_field Z_neqb [1;2;2;1;1;1;3;4;4;4;2;2;2;2;2] = [0;1;3;6;7;10;15].
Proof. vm_compute. reflexivity. Qed.
(* trailing blanks are significant (F-C08a, after the fix): b'a', b'a ', b'a' are three spans *)
Example spans_trailing_blank : get_spans_for_field bytes_neqb [[97;0];[97;32];[97;0]] = [0;1;2;3].
Proof. vm_compute. reflexivity. Qed.

(* ---- 2. two arrays: Session.get_spans(fields=(ndarray, ndarray)) = _get_spans_for_2_fields --------------- *)
(* full: no out-of-bounds access, and the result is the span list of the zipped column *)
Theorem spans_2_fields_correct : forall (A B:Type) (neqbA:A -> A -> bool) (neqbB:B -> B -> bool) (dA:A) (dB:B)
  (a0:list A) (a1:list B),
  neq_test neqbA -> neq_test neqbB -> len a0 = len a1 ->
  exists sp, get_spans_for_2_fields neqbA neqbB a0 a1 = Ok sp /\ is_spans (dA, dB) (combine a0 a1) sp.
Proof. exact (@spans_2_fields_correct_pf). Qed.
Print Assumptions spans_2_fields_correct.

(* ---- 3. several arrays: _get_spans_for_multi_fields (DataFrame.groupby) ---------------------------------- *)
Theorem spans_multi_correct : forall (A:Type) (neqb:A -> A -> bool) (d:A) (fields:list (list A)) (n:Z),
  neq_test neqb -> fields <> [] -> Forall (fun f => len f = n) fields ->
  exists sp, get_spans_for_multi_fields neqb fields = Ok sp /\ is_spans [] (rows_of d fields n) sp.
Proof. exact (@spans_multi_correct_pf). Qed.
Print Assumptions spans_multi_correct.

(* ---- 4. indexed string field: byte-exact, length first (after fix F-C08d: also with no rows) ------------- *)
Theorem spans_indexed_string_correct : forall indices values, valid_indexed indices values ->
  exists sp, get_spans_for_index_string_field indices values = Ok sp /\
             is_spans [] (indexed_rows indices values) sp.
Proof. exact spans_indexed_string_correct_pf. Qed.
Print Assumptions spans_indexed_string_correct.
Example valid_indexed_example : valid_indexed [0;1;1;3] [97;97;32].
Proof. right. split; [apply sortedb_sorted; reflexivity|]. repeat split; vm_compute; congruence. Qed.

(* ---- 5. two Fields: the merge of two boundary lists ---------------------------------------------------- *)
(* full: for any two strictly increasing lists with a common last element the kernel terminates within its
   fuel, never reads out of bounds, and returns their strictly increasing union *)
Theorem spans_2_by_spans_is_union : forall s0 s1, ssorted s0 -> ssorted s1 -> 1 <= len s0 -> 1 <= len s1 ->
  nthZ s0 (len s0 - 1) = nthZ s1 (len s1 - 1) ->
  exists R, get_spans_for_2_fields_by_spans s0 s1 = Ok R /\ ssorted R /\ (forall k, In k R <-> In k s0 \/ In k s1).
Proof. exact by_spans_union. Qed.
Print Assumptions spans_2_by_spans_is_union.

Theorem spans_2_by_spans_correct : forall (A B:Type) (dA:A) (dB:B) (a:list A) (b:list B) (sa sb:list Z),
  len a = len b -> is_spans dA a sa -> is_spans dB b sb ->
  exists R, get_spans_for_2_fields_by_spans sa sb = Ok R /\ is_spans (dA, dB) (combine a b) R.
Proof. exact (@by_spans_is_spans). Qed.
Print Assumptions spans_2_by_spans_correct.

(* ---- 6. the Field, ndarray and multi-field entry points agree -------------------------------------------- *)
Theorem entry_points_agree : forall (A B:Type) (neqbA:A -> A -> bool) (neqbB:B -> B -> bool) (dA:A) (dB:B) a b,
  neq_test neqbA -> neq_test neqbB -> len a = len b ->
  get_spans_for_2_fields_by_spans (get_spans_for_field neqbA a) (get_spans_for_field neqbB b)
  = get_spans_for_2_fields neqbA neqbB a b.
Proof. exact (@entry_points_agree_pf). Qed.
Print Assumptions entry_points_agree.

Theorem entry_points_agree_indexed : forall indices values, valid_indexed indices values ->
  get_spans_for_index_string_field indices values = Ok (get_spans_for_field bytes_neqb (indexed_rows indices values)).
Proof. exact entry_points_agree_indexed_pf. Qed.
Print Assumptions entry_points_agree_indexed.

Theorem session_entry_points_agree : forall c0 c1, is_array_col c0 -> is_array_col c1 -> col_len c0 = col_len c1 ->
  session_get_spans_fields c0 c1 = session_get_spans_arrays c0 c1.
Proof. exact session_entry_points_agree_pf. Qed.
Print Assumptions session_entry_points_agree.

Theorem session_fields_correct : forall c0 c1 (rows0 rows1:list (list Z)) sp0 sp1,
  field_get_spans c0 = Ok sp0 -> field_get_spans c1 = Ok sp1 ->
  is_spans [] rows0 sp0 -> is_spans [] rows1 sp1 -> len rows0 = len rows1 ->
  exists sp, session_get_spans_fields c0 c1 = Ok sp /\ is_spans ([], []) (combine rows0 rows1) sp.
Proof. exact session_fields_correct_pf. Qed.
Print Assumptions session_fields_correct.

(* ---- 7. span lists of get_spans are valid arguments of the reductions; int32 / int64 range ---------------- *)
Theorem is_spans_valid : forall (A:Type) (d:A) (xs:list A) sp, is_spans d xs sp -> valid_spans (len xs) sp.
Proof. exact (@is_spans_valid_pf). Qed.
Print Assumptions is_spans_valid.
(* every entry lies in [0, row count]: the int32 result dtype (chosen when row count < 2^31-1) cannot wrap *)
Theorem spans_in_range : forall (A:Type) (d:A) (xs:list A) sp k, is_spans d xs sp -> In k sp -> 0 <= k <= len xs.
Proof. exact (@is_spans_range_pf). Qed.
Print Assumptions spans_in_range.

(* (full, whole column) span sizes telescope: for any span list the counts add up to last - first; for
   the span list of a column (is_spans: what every get_spans entry point returns) the kernel's counts add up
   to the row count, i.e. no row lies outside every span or in two spans *)
Theorem count_ref_sum : forall sp, 1 <= len sp -> sumZ (count_ref sp) = nthZ sp (len sp - 1) - nthZ sp 0.
Proof. exact count_ref_sum_pf. Qed.
Print Assumptions count_ref_sum.
Theorem apply_spans_counts_sum_to_rows : forall (A:Type) (d:A) (xs:list A) sp cs,
  is_spans d xs sp -> apply_spans_count sp = Ok cs -> sumZ cs = len xs.
Proof.
  intros A d xs sp cs Hs Hc. pose proof Hs as (_ & Hl & _).
  rewrite (apply_spans_count_ref sp Hl) in Hc. injection Hc as <-. exact (counts_sum_to_rows_pf d xs sp Hs).
Qed.
Print Assumptions apply_spans_counts_sum_to_rows.
Example apply_spans_counts_sum_to_rows_ex :
  apply_spans_count [0; 2; 3; 6] = Ok [2; 1; 3] /\ sumZ [2; 1; 3] = len [7; 7; 8; 9; 9; 9].
Proof. vm_compute. split; reflexivity. Qed.

(* ---- 8. reductions: one entry per span, computed from exactly the rows slice xs sp[i] sp[i+1] ------------- *)
(* reduce_spans f sp xs = [ f sp[i] (rows sp[i] .. sp[i+1]-1) | i ];  valid_spans = strictly increasing, within [0, n] *)
Theorem apply_spans_count_correct : forall sp, 1 <= len sp -> apply_spans_count sp = Ok (count_ref sp).
Proof. exact apply_spans_count_ref. Qed.
Print Assumptions apply_spans_count_correct.
Theorem apply_spans_index_of_first_correct : forall sp, 1 <= len sp ->
  apply_spans_index_of_first sp = Ok (index_of_first_ref sp).
Proof. exact apply_spans_index_of_first_ref. Qed.
Print Assumptions apply_spans_index_of_first_correct.
Theorem apply_spans_index_of_last_correct : forall sp, 1 <= len sp ->
  apply_spans_index_of_last sp = Ok (index_of_last_ref sp).
Proof. exact apply_spans_index_of_last_ref. Qed.
Print Assumptions apply_spans_index_of_last_correct.
Theorem apply_spans_first_correct : forall (A:Type) (d zero:A) sp (src:list A), valid_spans (len src) sp ->
  apply_spans_first zero sp src = Ok (first_ref d sp src).
Proof. exact apply_spans_first_pf. Qed.
Print Assumptions apply_spans_first_correct.
Theorem apply_spans_last_correct : forall (A:Type) (d zero:A) sp (src:list A), valid_spans (len src) sp ->
  apply_spans_last zero sp src = Ok (last_ref d sp src).
Proof. exact apply_spans_last_pf. Qed.
Print Assumptions apply_spans_last_correct.
Theorem apply_spans_min_correct : forall (A:Type) (ltb:A -> A -> bool) (d zero:A) sp (src:list A),
  strict_total ltb -> valid_spans (len src) sp -> apply_spans_min ltb zero sp src = Ok (min_ref ltb d sp src).
Proof. exact apply_spans_min_pf. Qed.
Print Assumptions apply_spans_min_correct.
Theorem apply_spans_max_correct : forall (A:Type) (ltb:A -> A -> bool) (d zero:A) sp (src:list A),
  strict_total ltb -> valid_spans (len src) sp -> apply_spans_max ltb zero sp src = Ok (max_ref ltb d sp src).
Proof. exact apply_spans_max_pf. Qed.
Print Assumptions apply_spans_max_correct.
Theorem apply_spans_index_of_min_correct : forall (A:Type) (ltb:A -> A -> bool) (d:A) sp (src:list A),
  strict_total ltb -> valid_spans (len src) sp ->
  apply_spans_index_of_min ltb sp src = Ok (index_of_min_ref ltb sp src).
Proof. exact apply_spans_index_of_min_pf. Qed.
Print Assumptions apply_spans_index_of_min_correct.
Theorem apply_spans_index_of_max_correct : forall (A:Type) (ltb:A -> A -> bool) (d:A) sp (src:list A),
  strict_total ltb -> valid_spans (len src) sp ->
  apply_spans_index_of_max ltb sp src = Ok (index_of_max_ref ltb sp src).
Proof. exact apply_spans_index_of_max_pf. Qed.
Print Assumptions apply_spans_index_of_max_correct.

Example strict_total_Z : strict_total Z.ltb.
Proof. exact Z_ltb_strict_total. Qed.
Example strict_total_bytes : strict_total bytes_ltb.
Proof. exact bytes_ltb_strict_total. Qed.
Example valid_spans_example : valid_spans 5 [0;2;5].
Proof. split; [apply ssortedb_ssorted; reflexivity|]. repeat split; vm_compute; congruence. Qed.

(* min_spec / argmin_spec mean: a least element of the rows, and the position of its first occurrence *)
Theorem min_spec_meaning : forall (A:Type) (ltb:A -> A -> bool) (d:A) (x:A) (t:list A), strict_total ltb ->
  let l := x :: t in
  In (min_spec ltb d l) l /\ (forall y, In y l -> ltb y (min_spec ltb d l) = false) /\
  0 <= argmin_spec ltb l < len l /\
  (forall j, 0 <= j < argmin_spec ltb l -> ltb (min_spec ltb d l) (nthd d l j) = true).
Proof. exact (@min_spec_meaning_pf). Qed.
Print Assumptions min_spec_meaning.

(* indexed string sources (Field.apply_spans_min / max on IndexedStringField; groupby min/max of C07):
   string_argmin_correct holds after fix F-C07a (the unrepaired kernel kept a stale minlen) *)
Theorem string_argmin_correct : forall indices values sp,
  sorted indices -> 1 <= len indices -> nthZ indices 0 = 0 -> nthZ indices (len indices - 1) = len values ->
  valid_spans (len indices - 1) sp ->
  apply_spans_index_of_min_indexed sp indices values
  = Ok (index_of_min_ref bytes_ltb sp (indexed_rows indices values)).
Proof. exact string_argmin_pf. Qed.
Print Assumptions string_argmin_correct.
Theorem string_argmax_correct : forall indices values sp,
  sorted indices -> 1 <= len indices -> nthZ indices 0 = 0 -> nthZ indices (len indices - 1) = len values ->
  valid_spans (len indices - 1) sp ->
  apply_spans_index_of_max_indexed sp indices values
  = Ok (index_of_max_ref bytes_ltb sp (indexed_rows indices values)).
Proof. exact string_argmax_pf. Qed.
Print Assumptions string_argmax_correct.
(* the F-C07a witness on the repaired model: ["zz";"a";"a!"] -> row 1 ("a") *)
Example string_argmin_witness :
  apply_spans_index_of_min_indexed [0;3] [0;2;3;5] [122;122;97;97;33] = Ok [1].
Proof. vm_compute. reflexivity. Qed.

(* ---- 9. the Python-level guards are transparent on valid span lists ---------------------------------------- *)
Theorem session_apply_spans_src_ok : forall (A R:Type) (kernel:list Z -> list A -> res R) sp target,
  1 <= len sp -> nthZ sp (len sp - 1) = len target ->
  session_apply_spans_src kernel sp target = kernel sp target.
Proof. exact (@session_apply_spans_src_ok_pf). Qed.
Print Assumptions session_apply_spans_src_ok.
Theorem field_apply_spans_ok : forall (R:Type) (kernel:list Z -> res R) sp, ssorted sp ->
  field_apply_spans kernel sp = kernel sp.
Proof. exact (@field_apply_spans_ok_pf). Qed.
Print Assumptions field_apply_spans_ok.

(* ---- 10. the *_filter kernels: empty spans allowed; their flag is False and their dest entry is left alone -- *)
(* weak_spans n sp = non-decreasing, within [0, n];  filter_dest_ref f sp xs dest0 = [ if sp[i] = sp[i+1] then dest0[i]
   else f sp[i] (rows of span i) ];  filter_flags_ref sp = [ sp[i] <> sp[i+1] ] *)
Theorem apply_spans_index_of_min_filter_correct : forall (A:Type) (ltb:A -> A -> bool) (d:A), strict_total ltb ->
  forall sp (src:list A) dest flt, weak_spans (len src) sp -> len dest = len sp - 1 -> len flt = len sp - 1 ->
  apply_spans_index_of_min_filter ltb sp src dest flt =
  Ok (filter_dest_ref (fun a rows => a + argmin_spec ltb rows) sp src dest, filter_flags_ref sp).
Proof. exact (@apply_spans_index_of_min_filter_ref). Qed.
Print Assumptions apply_spans_index_of_min_filter_correct.
Theorem apply_spans_index_of_max_filter_correct : forall (A:Type) (ltb:A -> A -> bool) (d:A) sp (src:list A) dest flt,
  strict_total ltb -> weak_spans (len src) sp -> len dest = len sp - 1 -> len flt = len sp - 1 ->
  apply_spans_index_of_max_filter ltb sp src dest flt =
  Ok (filter_dest_ref (fun a rows => a + argmax_spec ltb rows) sp src dest, filter_flags_ref sp).
Proof. exact (@apply_spans_index_of_max_filter_ref). Qed.
Print Assumptions apply_spans_index_of_max_filter_correct.
Theorem apply_spans_index_of_first_filter_correct : forall (A:Type) sp (xs:list A) dest flt,
  sorted sp -> 1 <= len sp -> len dest = len sp - 1 -> len flt = len sp - 1 ->
  apply_spans_index_of_first_filter sp dest flt =
  Ok (filter_dest_ref (fun a (_:list A) => a) sp xs dest, filter_flags_ref sp).
Proof. exact (@apply_spans_index_of_first_filter_ref). Qed.
Print Assumptions apply_spans_index_of_first_filter_correct.
Theorem apply_spans_index_of_last_filter_correct : forall (A:Type) sp (xs:list A) dest flt,
  weak_spans (len xs) sp -> len dest = len sp - 1 -> len flt = len sp - 1 ->
  apply_spans_index_of_last_filter sp dest flt =
  Ok (filter_dest_ref (fun a (rows:list A) => a + len rows - 1) sp xs dest, filter_flags_ref sp).
Proof. exact (@apply_spans_index_of_last_filter_ref). Qed.
Print Assumptions apply_spans_index_of_last_filter_correct.
Example weak_spans_example : weak_spans 3 [0;0;2;2;3].
Proof. split; [apply sortedb_sorted; reflexivity|]. repeat split; vm_compute; congruence. Qed.

(* ---- 11. check_if_sorted_for_multi_fields (the group-by precondition test) decides lexicographic order ----- *)
Theorem check_if_sorted_correct : forall (A:Type) (ltb:A -> A -> bool) (d:A), strict_total ltb ->
  forall (fields:list (list A)) (n:Z), fields <> [] -> Forall (fun f => len f = n) fields ->
  check_if_sorted_for_multi_fields ltb fields = Ok (rows_sortedb ltb (rows_of d fields n)).
Proof. exact (@check_if_sorted_ref). Qed.
Print Assumptions check_if_sorted_correct.

(* ---- 12. run-length encoded columns (large inputs of the correspondence run; Model/SpansRle.v) ------------- *)
(* expand [(v0,n0);(v1,n1);…] = v0 × n0 ++ v1 × n1 ++ … (adjacent runs may carry equal values, n <= 0 = no rows);
   spans_of_rle works on the encoding only.  These theorems make the answer computed on the encoding the answer of
   the statement-level models on the expanded column, for every encoding (full). *)
Theorem spans_rle_correct : forall (A:Type) (neqb:A -> A -> bool) (d:A) (rl:list (A * Z)),
  neq_test neqb -> is_spans d (expand rl) (spans_of_rle neqb rl).
Proof. exact (@spans_rle_correct_pf). Qed.
Print Assumptions spans_rle_correct.
Theorem spans_rle_field : forall (A:Type) (neqb:A -> A -> bool) (rl:list (A * Z)),
  neq_test neqb -> get_spans_for_field neqb (expand rl) = spans_of_rle neqb rl.
Proof. exact (@spans_rle_field_pf). Qed.
Print Assumptions spans_rle_field.
Theorem field_get_spans_rle_num : forall r, field_get_spans (ColNum (expand r)) = Ok (spans_of_rle Z_neqb r).
Proof. exact field_get_spans_rle_num_pf. Qed.
Print Assumptions field_get_spans_rle_num.
Theorem field_get_spans_rle_fixed : forall r, field_get_spans (ColFixed (expand r)) = Ok (spans_of_rle bytes_neqb r).
Proof. exact field_get_spans_rle_fixed_pf. Qed.
Print Assumptions field_get_spans_rle_fixed.
Theorem field_get_spans_rle_indexed : forall indices values (r:list (list Z * Z)),
  valid_indexed indices values -> indexed_rows indices values = expand r ->
  field_get_spans (ColIndexed indices values) = Ok (spans_of_rle bytes_neqb r).
Proof. exact field_get_spans_rle_indexed_pf. Qed.
Print Assumptions field_get_spans_rle_indexed.
(* Session.get_spans(fields=(Field, Field)) merges whatever the two fields return … *)
Theorem session_fields_rle : forall c0 c1 s0 s1, field_get_spans c0 = Ok s0 -> field_get_spans c1 = Ok s1 ->
  session_get_spans_fields c0 c1 = get_spans_for_2_fields_by_spans s0 s1.
Proof. exact session_fields_rle_pf. Qed.
Print Assumptions session_fields_rle.
(* … and for equally long columns that merge is what the 2-array kernel returns on the expanded columns: THE span
   list of the zipped column *)
Theorem spans_rle_2_arrays : forall (A B:Type) (neqbA:A -> A -> bool) (neqbB:B -> B -> bool) (dA:A) (dB:B)
  (r0:list (A * Z)) (r1:list (B * Z)),
  neq_test neqbA -> neq_test neqbB -> rle_len r0 = rle_len r1 ->
  get_spans_for_2_fields neqbA neqbB (expand r0) (expand r1) = spans_of_rle_2 neqbA neqbB r0 r1 /\
  exists sp, spans_of_rle_2 neqbA neqbB r0 r1 = Ok sp /\ is_spans (dA, dB) (combine (expand r0) (expand r1)) sp.
Proof. exact (@spans_rle_2_arrays_pf). Qed.
Print Assumptions spans_rle_2_arrays.
Example spans_rle_example : spans_of_rle Z_neqb [(7, 4194304); (7, 1); (8, 0); (9, 4194303)] = [0; 4194305; 8388608].
Proof. vm_compute. reflexivity. Qed.

(* ---- 13. reductions of a run-length encoded column -------------------------------------------------------- *)
(* rle_slice rl a b encodes rows a..b-1 (expand_slice); rle_*_ref answer every span from the values of the non-empty runs
   of that slice.  Full: for every encoding and every span list they ARE the reference reductions on the expanded
   column … *)
Theorem rle_slice_correct : forall (A:Type) (rl:list (A * Z)) a b, expand (rle_slice rl a b) = slice (expand rl) a b.
Proof. exact (@expand_slice). Qed.
Print Assumptions rle_slice_correct.
Theorem rle_reductions_are_references : forall (A:Type) (ltb:A -> A -> bool) (d:A) sp (rl:list (A * Z)),
  rle_first_ref d sp rl = first_ref d sp (expand rl) /\
  rle_last_ref d sp rl = last_ref d sp (expand rl) /\
  rle_min_ref ltb d sp rl = min_ref ltb d sp (expand rl) /\
  rle_max_ref ltb d sp rl = max_ref ltb d sp (expand rl) /\
  rle_index_of_min_ref ltb sp rl = index_of_min_ref ltb sp (expand rl) /\
  rle_index_of_max_ref ltb sp rl = index_of_max_ref ltb sp (expand rl).
Proof.
  intros A ltb d sp rl.
  exact (conj (rle_first_ref_ok d sp rl) (conj (rle_last_ref_ok d sp rl) (conj (rle_min_ref_ok ltb d sp rl)
        (conj (rle_max_ref_ok ltb d sp rl) (conj (rle_index_of_min_ref_ok ltb sp rl) (rle_index_of_max_ref_ok ltb sp rl)))))).
Qed.
Print Assumptions rle_reductions_are_references.
(* … hence, on valid spans, what the statement-level kernels return on the expanded column *)
Theorem apply_spans_rle : forall (A:Type) (ltb:A -> A -> bool) (d zero:A), strict_total ltb ->
  forall sp (rl:list (A * Z)), valid_spans (rle_len rl) sp ->
  apply_spans_first zero sp (expand rl) = Ok (rle_first_ref d sp rl) /\
  apply_spans_last zero sp (expand rl) = Ok (rle_last_ref d sp rl) /\
  apply_spans_min ltb zero sp (expand rl) = Ok (rle_min_ref ltb d sp rl) /\
  apply_spans_max ltb zero sp (expand rl) = Ok (rle_max_ref ltb d sp rl) /\
  apply_spans_index_of_min ltb sp (expand rl) = Ok (rle_index_of_min_ref ltb sp rl) /\
  apply_spans_index_of_max ltb sp (expand rl) = Ok (rle_index_of_max_ref ltb sp rl).
Proof. exact (@apply_spans_rle_pf). Qed.
Print Assumptions apply_spans_rle.
Example rle_min_example :
  rle_min_ref Z.ltb 0 [0; 4194304; 8388609] [(5, 4194303); (1, 2); (5, 4194303); (0, 1)] = [1; 0] /\
  rle_index_of_min_ref Z.ltb [0; 4194304; 8388609] [(5, 4194303); (1, 2); (5, 4194303); (0, 1)] = [4194303; 8388608].
Proof. vm_compute. split; reflexivity. Qed.

(* ---- 14. keys as stored versus keys as they compare (value equality, not representation equality) --------- *)
(* The span kernels compare by VALUE.  float_key decodes a non-NaN binary<w> bit pattern into an integer key; full:
   two patterns get the same key iff they are the same pattern or both are zeros (+0.0 / -0.0), and the keys are ordered
   as sign-magnitude numbers (IEEE 754: that is the order of the floats — trusted, see TRUSTED in harness/props/C08.py) *)
Theorem float_key_signed_zero : forall w, 0 < w -> float_key w (2 ^ (w - 1)) = float_key w 0.
Proof. exact float_key_signed_zero_pf. Qed.
Print Assumptions float_key_signed_zero.
Theorem float_key_eq_iff : forall w a b, 0 < w -> 0 <= a < 2 ^ w -> 0 <= b < 2 ^ w ->
  (float_key w a = float_key w b <-> a = b \/ (zero_bits w a /\ zero_bits w b)).
Proof. exact float_key_eq_iff_pf. Qed.
Print Assumptions float_key_eq_iff.
Theorem float_key_order : forall w a b, 0 < w -> 0 <= a < 2 ^ w -> 0 <= b < 2 ^ w ->
  (float_key w a < float_key w b <->
   (a < 2 ^ (w - 1) /\ b < 2 ^ (w - 1) /\ a < b) \/
   (2 ^ (w - 1) <= a /\ 2 ^ (w - 1) <= b /\ b < a) \/
   (2 ^ (w - 1) <= a /\ b < 2 ^ (w - 1) /\ (2 ^ (w - 1) < a \/ 0 < b))).
Proof. exact float_key_order_pf. Qed.
Print Assumptions float_key_order.
(* spans of a float column given by its bit patterns: THE spans of the column of values, through every model
   (instances of sections 1-3 at the keys); rows 0.0, -0.0, 0.0 lie in ONE span … *)
Theorem spans_float_column_correct : forall w (bits:list Z),
  is_spans 0 (map (float_key w) bits) (get_spans_for_field Z_neqb (map (float_key w) bits)).
Proof. intros w bits. apply spans_field_correct_pf. exact Z_neqb_spec. Qed.
Print Assumptions spans_float_column_correct.
Theorem spans_multi_float_correct : forall w (cols:list (list Z)) (n:Z),
  cols <> [] -> Forall (fun f => len f = n) cols ->
  exists sp, get_spans_for_multi_fields Z_neqb (map (map (float_key w)) cols) = Ok sp /\
             is_spans [] (rows_of 0 (map (map (float_key w)) cols) n) sp.
Proof.
  intros w cols n Hne Hall. apply spans_multi_correct_pf; [exact Z_neqb_spec|destruct cols; [congruence|discriminate]|].
  apply Forall_map. eapply Forall_impl; [|exact Hall]. cbn beta. intros f Hf. unfold len in *. rewrite map_length. exact Hf.
Qed.
Print Assumptions spans_multi_float_correct.
Example spans_signed_zero :   (* -1.5, 0.0, -0.0, 0.0, 2.5, 2.5 as binary64 *)
  get_spans_for_field Z_neqb (map (float_key 64)
    [13832806255468478464; 0; 9223372036854775808; 0; 4612811918334230528; 4612811918334230528]) = [0; 1; 4; 6].
Proof. vm_compute. reflexivity. Qed.
(* … whereas comparing the stored bit patterns is NOT the span list of the column (the class of defect the
   correspondence run must see: it feeds the real code the patterns and the model the keys) *)
Theorem bitwise_spans_refuted : exists bits,
  ~ is_spans 0 (map (float_key 64) bits) (get_spans_for_field Z_neqb bits).
Proof.
  exists [0; 9223372036854775808]. intros H.
  assert (E : get_spans_for_field Z_neqb [0; 9223372036854775808] =
              get_spans_for_field Z_neqb (map (float_key 64) [0; 9223372036854775808])).
  { eapply is_spans_unique; [exact H|]. apply spans_field_correct_pf. exact Z_neqb_spec. }
  vm_compute in E. discriminate.
Qed.
Print Assumptions bitwise_spans_refuted.
(* 'S<w>' elements: trailing NULs are padding, not content *)
Theorem pad_fixed_trailing_nul : forall w r, len r + 1 <= w -> pad_fixed w (r ++ [0]) = pad_fixed w r.
Proof. exact pad_fixed_trailing_nul_pf. Qed.
Print Assumptions pad_fixed_trailing_nul.
(* np.unique(c, return_inverse=True)[1] (the ranks DataFrame.groupby stacks when the key dtypes differ): two rows get
   the same rank iff they hold the same value.  Full: any exact !=, any strict total < *)
Theorem unique_inverse_exact : forall (A:Type) (neqb ltb:A -> A -> bool) (d:A) (c:list A) i j,
  neq_test neqb -> strict_total ltb -> 0 <= i < len c -> 0 <= j < len c ->
  (nthd 0 (unique_inverse neqb ltb c) i = nthd 0 (unique_inverse neqb ltb c) j <-> nthd d c i = nthd d c j).
Proof. intros A neqb ltb d c i j Hn Hl. exact (unique_inverse_adjacent neqb ltb Hn Hl d c i j). Qed.
Print Assumptions unique_inverse_exact.
(* DataFrame.groupby(by=[...]): the spans computed from the stacked key columns (as they are, or rank-replaced when the
   dtypes differ) are THE spans of the table of key rows.  Full: every table with at least one column, incl. no rows *)
Theorem groupby_spans_correct : forall (mixed:bool) (cols:list (list (list Z))) (n:Z),
  cols <> [] -> Forall (fun f => len f = n) cols ->
  exists sp, groupby_spans mixed cols = Ok sp /\ is_spans [] (rows_of [] cols n) sp.
Proof. exact groupby_spans_correct_pf. Qed.
Print Assumptions groupby_spans_correct.
Example groupby_spans_example :   (* keys (0.0 | -0.0 as key 0, 'a') x3 then (0.5 -> key, 'a'): dtypes differ *)
  groupby_spans true [[[0]; [0]; [0]; [4602678819172646912]]; [[97]; [97]; [97]; [97]]] = Ok [0; 3; 4].
Proof. vm_compute. reflexivity. Qed.
