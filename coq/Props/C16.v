(* Props/C16.v — placeholder until Proofs/Concat*.v land *)
From Coq Require Import ZArith List.
From EV Require Import Res Arr Concat ConcatSpec.
Import ListNotations.
Open Scope Z_scope.

Theorem c16_smoke :
  session_concat 5 [0;1;2] [0;1;2] [97;98] 2 4 1 = Ok ([0;1;2], [97;98]).
Proof. vm_compute. reflexivity. Qed.
Print Assumptions c16_smoke.
