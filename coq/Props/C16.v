(* Props/C16.v — C16: span concatenation produces the CSV-joined non-empty entries of each span.
   Model: Model/Concat.v (_apply_spans_concat_2 + Session.apply_spans_concat, repaired driver
   `session_concat` and driver as found `session_concat_v0`).  Spec: Spec/ConcatSpec.v.
   Statements only; proofs are in Proofs/Concat*.v. *)
From Coq Require Import ZArith List.
From EV Require Import Res Arr Concat ConcatSpec ConcatLists ConcatBatch ConcatSpan ConcatCsv ConcatTheorems ConcatPartition.
Import ListNotations.
Open Scope Z_scope.

(* (full) For every column `strs`, every boundary array with entries in [0, #rows] (partitions,
   but also empty / partial / unordered spans), every src_chunksize >= 1 and every value
   buffer N = dest_chunksize*mult in which one span output fits next to the N/2-1 bytes that may
   already be there, the repaired driver terminates within |spans|+1 loop iterations, performs
   no out-of-bounds access, and stores exactly: offsets = prefix sums of the entry lengths,
   values = the concatenated entries, entry k = the CSV-escaped non-empty strings of span k
   joined by commas. *)
Theorem concat_session_correct : forall strs spans csz dcs mult fuel,
  spans_in_range spans (len strs) -> 1 <= csz -> 0 <= dcs * mult ->
  fits (dcs * mult) (concat_spec spans strs) ->
  (length spans < fuel)%nat ->
  session_concat fuel spans (psums (map (@len Z) strs)) (concat strs) csz dcs mult
  = Ok (spec_indices (concat_spec spans strs), spec_values (concat_spec spans strs)).
Proof. exact session_concat_correct_proof. Qed.
Print Assumptions concat_session_correct.

Example concat_session_correct_ex :
  let strs := [[97]; [98; 44; 99]; []; [100; 34]; [195; 169; 44]] in
  let spans := [0; 2; 4; 5] in
  spans_in_rangeb spans (len strs) = true /\ fitsb (6 * 2) (concat_spec spans strs) = true /\
  concat_spec spans strs = [[97; 44; 34; 98; 44; 99; 34]; [34; 100; 34; 34; 34]; [34; 195; 169; 44; 34]] /\
  session_concat (session_fuel spans) spans (psums (map (@len Z) strs)) (concat strs) 3 6 2
  = Ok ([0; 7; 12; 17], concat (concat_spec spans strs)).
Proof. vm_compute. repeat split; reflexivity. Qed.

(* (full) the same, stated on the index / value arrays of a stored column: an empty column has an
   empty index array (not [0]), for which the only admissible boundary arrays are [] and [x] *)
Theorem concat_session_correct_field : forall strs spans csz dcs mult fuel,
  spans_in_range spans (len strs) -> (strs <> [] \/ (length spans <= 1)%nat) ->
  1 <= csz -> 0 <= dcs * mult ->
  fits (dcs * mult) (concat_spec spans strs) ->
  (length spans < fuel)%nat ->
  session_concat fuel spans (field_index strs) (field_values strs) csz dcs mult
  = Ok (spec_indices (concat_spec spans strs), spec_values (concat_spec spans strs)).
Proof. exact session_concat_field_proof. Qed.
Print Assumptions concat_session_correct_field.

(* the `fits` hypothesis is needed: a 7-byte entry does not fit a 6-byte value buffer (site 5 =
   dest_values), and with N = 8 a 6-byte entry starting at offset 3 = N/2-1 overruns although it would fit an empty buffer *)
Example concat_fits_needed :
  session_concat 5 [0; 2] [0; 1; 4] [97; 98; 44; 99] 2 6 1 = OOB 5 /\
  session_concat 5 [0; 1; 2] [0; 3; 7] [97; 98; 99; 98; 44; 99; 100] 4 8 1 = OOB 5.
Proof. vm_compute. split; reflexivity. Qed.

(* (full) the stored arrays do not depend on (src_chunksize, dest_chunksize, mult) *)
Theorem concat_chunking_unobservable : forall strs spans csz1 dcs1 mult1 csz2 dcs2 mult2 fuel1 fuel2,
  spans_in_range spans (len strs) ->
  1 <= csz1 -> 0 <= dcs1 * mult1 -> fits (dcs1 * mult1) (concat_spec spans strs) -> (length spans < fuel1)%nat ->
  1 <= csz2 -> 0 <= dcs2 * mult2 -> fits (dcs2 * mult2) (concat_spec spans strs) -> (length spans < fuel2)%nat ->
  session_concat fuel1 spans (psums (map (@len Z) strs)) (concat strs) csz1 dcs1 mult1
  = session_concat fuel2 spans (psums (map (@len Z) strs)) (concat strs) csz2 dcs2 mult2.
Proof. exact concat_chunking_unobservable_proof. Qed.
Print Assumptions concat_chunking_unobservable.

(* (full) dest.data[:] — the strings read back from the stored offsets/values — are the entries *)
Theorem concat_data_readback : forall entries,
  read_all (spec_indices entries) (spec_values entries) = entries.
Proof. exact read_all_spec_proof. Qed.
Print Assumptions concat_data_readback.

(* (full) parsing an output entry as a CSV line returns the span's non-empty strings
   (any bytes; an empty line is the empty row) *)
Theorem concat_entry_parses_back : forall strs,
  csv_parse_line (concat_entry strs) = filter nonempty strs.
Proof. exact concat_entry_parses_back_proof. Qed.
Print Assumptions concat_entry_parses_back.

(* (full, whole column) when the boundary array is a partition of the rows (non-decreasing,
   first 0, last #rows; repeated boundaries = empty spans allowed), the stored entries parsed
   back as CSV lines and laid end to end are exactly the non-empty strings of the column in
   order: no string is lost, duplicated, or moved across a span boundary.  With
   concat_session_correct and concat_data_readback this is a statement about dest.data[:]. *)
Theorem concat_partition_complete : forall strs spans,
  is_partition spans (len strs) ->
  concat (map csv_parse_line (concat_spec spans strs)) = filter nonempty strs.
Proof. exact concat_partition_complete_proof. Qed.
Print Assumptions concat_partition_complete.

Example concat_partition_complete_ex :
  let strs := [[97]; [98; 44; 99]; []; [100; 34]; [195; 169; 44]] in
  let spans := [0; 2; 2; 4; 5] in
  is_partition spans (len strs) /\
  map csv_parse_line (concat_spec spans strs) = [[[97]; [98; 44; 99]]; []; [[100; 34]]; [[195; 169; 44]]].
Proof. vm_compute. repeat split; reflexivity. Qed.

(* the partition hypothesis is needed: overlapping spans repeat a string, a gap drops one *)
Example concat_partition_needed :
  concat (map csv_parse_line (concat_spec [0; 2; 1; 3] [[97]; [98]; [99]])) = [[97]; [98]; [98]; [99]] /\
  concat (map csv_parse_line (concat_spec [0; 1] [[97]; [98]])) = [[97]].
Proof. vm_compute. split; reflexivity. Qed.

(* (full) one stored entry per span: #entries = #boundaries - 1 (0 for an empty boundary array) *)
Theorem concat_entry_count : forall strs spans,
  length (concat_spec spans strs) = pred (length spans).
Proof. exact concat_entry_count_proof. Qed.
Print Assumptions concat_entry_count.

(* (full, per span) one iteration of the kernel's span loop appends concat_entry of the span's
   strings to the value buffer and stores the end offset + dest_start_v in the index buffer *)
Theorem concat_span_correct : forall strs spre a b srest iacc x irest dv0 acc start_v,
  0 <= a <= len strs -> 0 <= b <= len strs ->
  let e := concat_entry (slice strs a b) in
  len acc + len e <= len dv0 ->
  one_span (len spre) (spre ++ a :: b :: srest) (psums (map (@len Z) strs)) (concat strs)
           (iacc ++ x :: irest) (blit dv0 0 acc) SEP DELIM start_v (len iacc) (len acc)
  = Ok ((iacc ++ [len acc + len e + start_v]) ++ irest, blit dv0 0 (acc ++ e), len iacc + 1, len acc + len e).
Proof. exact one_span_ok. Qed.
Print Assumptions concat_span_correct.

(* (full, one kernel call) a batch consumes k >= 1 spans, never leaves its buffers, and writes
   exactly the entries of those spans and their running end offsets *)
Theorem concat_batch_correct : forall strs maxi maxv start_v N rest spre a iacc irest acc dv0,
  rest <> [] ->
  Forall (fun x => 0 <= x <= len strs) (a :: rest) ->
  let es := map (entry_of strs) (adjacent_pairs (a :: rest)) in
  len dv0 = N ->
  (forall e, In e es -> len e + Z.max 0 (maxv - 1) <= N) ->
  len acc + len (hd [] es) <= N ->
  len iacc + len irest = maxi + 1 -> len iacc <= maxi ->
  exists k, (1 <= k <= length rest)%nat /\ (k <= length irest)%nat /\
    len acc + len (concat (firstn k es)) <= N /\
    span_loop (length rest) (len spre) (spre ++ a :: rest) (psums (map (@len Z) strs)) (concat strs)
              (iacc ++ irest) (blit dv0 0 acc) maxi maxv SEP DELIM start_v (len iacc) (len acc)
    = Ok (len spre + Z.of_nat k, len iacc + Z.of_nat k, len acc + len (concat (firstn k es)),
          (iacc ++ offs_from (len acc + start_v) (map (@len Z) (firstn k es))) ++ skipn k irest,
          blit dv0 0 (acc ++ concat (firstn k es))).
Proof. exact span_loop_ok. Qed.
Print Assumptions concat_batch_correct.

(* (refuted, F-C16a) the driver as found forwards the previous batch's local byte count:
   with four batches the stored offsets are not the prefix sums although every hypothesis of
   concat_session_correct holds.  Repaired by work/C16/fix-F-C16a.diff. *)
Theorem concat_batches_refuted :
  exists strs spans csz dcs mult,
    spans_in_range spans (len strs) /\ 1 <= csz /\ 0 <= dcs * mult /\ fits (dcs * mult) (concat_spec spans strs) /\
    session_concat_v0 (session_fuel spans) spans (psums (map (@len Z) strs)) (concat strs) csz dcs mult
    = Ok ([0; 1; 2; 3; 3; 4; 3], [97; 98; 99; 100; 101; 102]) /\
    spec_indices (concat_spec spans strs) = [0; 1; 2; 3; 4; 5; 6].
Proof. exact concat_batches_refuted_proof. Qed.
Print Assumptions concat_batches_refuted.

(* (refuted, F-C16b) the driver as found with src_chunksize = 1 writes dest_index[1] of a
   one-slot buffer (site 6).  Repaired by work/C16/fix-F-C16b.diff. *)
Theorem concat_chunksize1_oob_refuted :
  session_concat_v0 (session_fuel [0; 2]) [0; 2] (psums (map (@len Z) [[97]; [98]])) (concat [[97]; [98]]) 1 16 1
  = OOB 6.
Proof. exact concat_chunksize1_oob_refuted_proof. Qed.
Print Assumptions concat_chunksize1_oob_refuted.
