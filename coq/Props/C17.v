(* Props/C17.v — placeholder until Proofs/Journal*.v land *)
From Coq Require Import ZArith List.
From EV Require Import Res Arr Journal JournalSpec.
Import ListNotations.
Open Scope Z_scope.

Theorem c17_smoke :
  journal_table 10 [1;0;0] [1;2;1] [2;0] [(NumCol [10;11;12], NumCol [70;11])]
  = Ok (journal_spec [1;0;0] [1;2;1] [2;0] [(NumCol [10;11;12], NumCol [70;11])]).
Proof. vm_compute. reflexivity. Qed.
Print Assumptions c17_smoke.
