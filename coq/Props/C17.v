(* Props/C17.v — theorems of property C17 (snapshot journalling).  Statements only; proofs in Proofs/Journal*.v. *)
From Coq Require Import ZArith List Bool Sorted Permutation Lia.
From EV Require Import Res Arr Journal JournalSpec JournalBase JournalWalk JournalMerge JournalSort JournalMain JournalFinal.
From EV Require Import JournalKeys JournalKeysSpec JournalKeysProofs.
Import ListNotations.
Open Scope Z_scope.


(* 0. MAIN THEOREM (full strength, all sizes, arbitrary physical order of both tables, any number of numeric /
      indexed-string payload columns): with the stated closed-form fuel the model of journal_table terminates, raises
      nothing, performs no out-of-bounds access and returns exactly the columns of the specification
      (per key ascending: old versions in j_valid_from order, then the new record iff the key is new or some compared
      field differs from the latest old version). *)
Theorem journal_table_correct : forall fuel okeys ovf nkeys fields,
  length okeys = length ovf -> NoDup nkeys -> Forall wf_field fields ->
  Z.of_nat fuel > len okeys + len nkeys ->
  journal_table fuel okeys ovf nkeys fields = Ok (journal_spec okeys ovf nkeys fields).
Proof. exact JournalFinal.journal_table_correct. Qed.
Print Assumptions journal_table_correct.

(* the fuel used by the wire entry satisfies the bound *)
Theorem journal_fuel_enough : forall okeys nkeys, Z.of_nat (journal_fuel okeys nkeys) > len okeys + len nkeys.
Proof. intros. unfold journal_fuel, len. rewrite Nat2Z.inj_succ, Nat2Z.inj_add. apply Z.lt_gt, Z.lt_succ_diag_r. Qed.
Print Assumptions journal_fuel_enough.

(* if every key's versions are physically stored in ascending j_valid_from order (the state journalling itself
   produces), "old versions in j_valid_from order" is the physical order: see versions_physical below. *)

(* 1. ordered_generate_journalling_indices (both passes, all sizes): one joint row per distinct key in ascending
      order; old_map = last old position of the key or -1, new_map = its snapshot position or -1
      (entry_ok states exactly that, in terms of the specification's filter / find). *)
Theorem journal_indices_correct : forall oks nks fuel,
  sorted oks -> ssorted nks -> Z.of_nat fuel > len oks + len nks ->
  exists E, gen_indices fuel oks nks = Ok (map e_old E, map e_new E) /\
    map e_key E = all_keys oks nks /\ Forall (entry_ok oks nks) E.
Proof. exact JournalMain.journal_indices_correct. Qed.
Print Assumptions journal_indices_correct.

Example journal_indices_hyps : sorted [0;0;1;3] /\ ssorted [0;2;3].
Proof. split; [apply sortedb_sorted|apply ssortedb_ssorted]; reflexivity. Qed.
Print Assumptions journal_indices_hyps.

(* 2. the accumulation of to_keep over the compared fields: per joint row and field, keep_step *)
Theorem to_keep_is_any_field_differs : forall osi nsi om nm,
  maps_ok om nm (len osi) (len nsi) ->
  forall fields tk, Forall wf_field fields -> len tk = len om ->
  exists tk', compare_fields osi nsi om nm fields tk = Ok tk' /\ len tk' = len om /\
    forall t, 0 <= t < len om ->
      nthd false tk' t = fold_left (fun b f => keep_step om nm (kdif osi nsi f) t b) fields (nthd false tk t).
Proof. exact compare_fields_spec. Qed.
Print Assumptions to_keep_is_any_field_differs.

Theorem to_keep_closed_form : forall om nm t (d:(col * col)%type -> Z -> Z -> bool) f fs,
  fold_left (fun b f => keep_step om nm (d f) t b) (f :: fs) false =
  (nthZ om t =? -1) || (negb (nthZ nm t =? -1) && existsb (fun f => d f (nthZ om t) (nthZ nm t)) (f :: fs)).
Proof. exact fold_keep_nonempty. Qed.
Print Assumptions to_keep_closed_form.

(* 3. the merge kernels write exactly the plan (numeric payload / indexed-string payload) *)
Theorem journal_merge_correct_numeric : forall oks osrc nsrc, len osrc = len oks ->
  forall fuel E keep,
  chain oks 0 E -> Forall (ebound (len oks) (len nsrc)) E -> length keep = length E -> keep_valid E keep ->
  Z.of_nat fuel > len oks ->
  merge_entries fuel (map e_old E) (map e_new E) keep osrc nsrc (repeat 0 (Z.to_nat (len oks + count_true keep)))
  = Ok (map (cellnum osrc nsrc) (planE E keep)).
Proof. exact merge_entries_spec. Qed.
Print Assumptions journal_merge_correct_numeric.

Theorem journal_merge_correct_indexed : forall oks os ns, len os = len oks ->
  forall fuel E keep,
  chain oks 0 E -> Forall (ebound (len oks) (len ns)) E -> length keep = length E -> keep_valid E keep ->
  Z.of_nat fuel > len oks ->
  merge_indexed_count fuel (map e_old E) (map e_new E) keep (fst (encode os)) (fst (encode ns))
    = Ok (len (concat (map (cellstr os ns) (planE E keep)))) /\
  merge_indexed fuel (map e_old E) (map e_new E) keep (fst (encode os)) (snd (encode os))
    (fst (encode ns)) (snd (encode ns))
    (repeat 0 (Z.to_nat (len oks + count_true keep + 1)))
    (repeat 0 (Z.to_nat (len (concat (map (cellstr os ns) (planE E keep))))))
  = Ok (encode (map (cellstr os ns) (planE E keep))).
Proof.
  intros oks os ns Hlo fuel E keep Hc Hb Hl Hkv Hf. split.
  - apply (merge_indexed_count_spec oks os ns Hlo); auto.
  - apply (merge_indexed_spec oks os ns Hlo); auto.
Qed.
Print Assumptions journal_merge_correct_indexed.

(* 4. journal_table, any physical order, any sizes: terminates with the stated fuel, raises nothing, and returns,
      for every field, the column of the one plan  planE E keep  (E = joint rows of the sorted keys,
      keep = key new || (key in both && some compared field differs at (last old version, new row))). *)
Theorem journal_table_sorted_view : forall fuel okeys ovf nkeys fields,
  length okeys = length ovf -> NoDup nkeys -> Forall wf_field fields ->
  Z.of_nat fuel > len okeys + len nkeys ->
  let osi := dataset_sort_index [okeys; ovf] in
  let nsi := dataset_sort_index [nkeys] in
  exists E, W (take okeys osi) (take nkeys nsi) 0 0 E /\
    journal_table fuel okeys ovf nkeys fields =
    Ok (map (outS osi nsi (planE E (map (kfun osi nsi fields) E))) fields).
Proof. exact JournalMain.journal_table_sorted_view. Qed.
Print Assumptions journal_table_sorted_view.

Example journal_table_hyps :
  length [1;0;0] = length [1;2;1] /\ NoDup [2;0] /\ Forall wf_field [(NumCol [10;11;12], NumCol [70;11])] /\
  Z.of_nat (journal_fuel [1;0;0] [2;0]) > len [1;0;0] + len [2;0].
Proof. repeat split; try reflexivity; repeat constructor; cbn; intuition discriminate. Qed.
Print Assumptions journal_table_hyps.

(* 5. every output column has the same number of rows *)
Theorem journal_columns_aligned : forall fuel okeys ovf nkeys fields,
  length okeys = length ovf -> NoDup nkeys -> Forall wf_field fields ->
  Z.of_nat fuel > len okeys + len nkeys ->
  exists cols n, journal_table fuel okeys ovf nkeys fields = Ok cols /\
    length cols = length fields /\ Forall (fun c => col_rows c = n) cols.
Proof. exact JournalMain.journal_columns_aligned. Qed.
Print Assumptions journal_columns_aligned.

(* 6. the sort indices: what numpy's two stable argsorts give, and its relation to the specification's
      per-key history (versions) and snapshot row (new_row) *)
Theorem sort_index_versions : forall okeys ovf k, length okeys = length ovf ->
  versions okeys ovf k = filter (fun i => nthZ okeys i =? k) (dataset_sort_index [okeys; ovf]).
Proof. intros. apply dsi2_versions. assumption. Qed.
Print Assumptions sort_index_versions.

Theorem sort_index_new_row : forall nkeys k, NoDup nkeys ->
  new_row nkeys k =
  option_map (nthZ (dataset_sort_index [nkeys])) (new_row (take nkeys (dataset_sort_index [nkeys])) k).
Proof. intros. apply dsi1_new_row. assumption. Qed.
Print Assumptions sort_index_new_row.

Theorem sort_index_keys : forall okeys ovf nkeys, length okeys = length ovf ->
  all_keys okeys nkeys =
  all_keys (take okeys (dataset_sort_index [okeys; ovf])) (take nkeys (dataset_sort_index [nkeys])).
Proof.
  intros okeys ovf nkeys Hl. apply all_keys_perm; apply Permutation_sym; apply take_perm.
  - apply dsi2_perm. exact Hl.
  - apply dsi1_perm.
Qed.
Print Assumptions sort_index_keys.

(* 7. model = specification on a concrete table (arbitrary physical order, ties in j_valid_from, both column kinds) *)
Theorem journal_table_spec_example :
  let fields := [(NumCol [10;11;12;13], NumCol [70;10;12]);
                 (StrCol [0;1;1;3;3] [97;98;99], StrCol [0;0;2;2] [98;99])] in
  journal_table 10 [1;0;0;2] [1;2;1;1] [3;0;1] fields = Ok (journal_spec [1;0;0;2] [1;2;1;1] [3;0;1] fields).
Proof. vm_compute. reflexivity. Qed.
Print Assumptions journal_table_spec_example.

(* 8. "old versions in their original order": when a key's versions are physically stored oldest first, the
      specification's history order is the physical order of those rows *)
Theorem versions_physical : forall okeys ovf k,
  StronglySorted (fun a b => nthZ ovf a <= nthZ ovf b) (filter (fun i => nthZ okeys i =? k) (upto (length okeys))) ->
  versions okeys ovf k = filter (fun i => nthZ okeys i =? k) (upto (length okeys)).
Proof. exact JournalFinal.versions_physical. Qed.
Print Assumptions versions_physical.


(* ---- strengthening (work/SC17): key domains and size parameters --------------------------------------------------- *)

(* 9. fixed-width byte-string keys (numpy S<w>): the code of a cell (big-endian value of the w stored, NUL-padded bytes)
      is an order isomorphism from the cells under bytewise unsigned lexicographic order - the order of np.argsort and
      of the kernels' <, >, == on such keys - to Z.  No stripping of blanks, no stop at an embedded NUL, no sign. *)
Theorem key_enc_order : forall w a b, is_bytes a -> is_bytes b ->
  (key_lt w a b <-> key_enc w a < key_enc w b).
Proof. exact key_enc_lt_iff. Qed.
Print Assumptions key_enc_order.

Theorem key_enc_injective : forall w a b, is_bytes a -> is_bytes b ->
  (key_eq w a b <-> key_enc w a = key_enc w b).
Proof. exact key_enc_eq_iff. Qed.
Print Assumptions key_enc_injective.

Example key_enc_hyps : is_bytes [112;48;55] /\ is_bytes [112;48;55;32] /\
  key_lt 4 [112;48;55] [112;48;55;32] /\ ~ key_eq 4 [112;48;55] [112;48;55;32] /\ key_eq 4 [112;0] [112].
Proof.
  assert (B1 : is_bytes [112;48;55]) by (repeat constructor; lia).
  assert (B2 : is_bytes [112;48;55;32]) by (repeat constructor; lia).
  split; [exact B1|]. split; [exact B2|]. split; [|split].
  - apply key_enc_lt_iff; [exact B1|exact B2|]. vm_compute. reflexivity.
  - intros H. apply key_enc_eq_iff in H; [|exact B1|exact B2]. vm_compute in H. discriminate H.
  - reflexivity.
Qed.
Print Assumptions key_enc_hyps.

(* "per key in ascending order" over byte keys: the ascending distinct codes are the codes of the ascending
   (lexicographic) distinct cells *)
Theorem journal_keys_ascending_lex : forall w okeys nkeys, Forall is_bytes okeys -> Forall is_bytes nkeys ->
  all_keys (map (key_enc w) okeys) (map (key_enc w) nkeys) = map be_val (all_keys_lex w okeys nkeys).
Proof. exact all_keys_enc. Qed.
Print Assumptions journal_keys_ascending_lex.

(* 10. journal_table on byte keys, executed with any ops.DEFAULT_CHUNKSIZE = cs and any field chunk size scs:
       exactly the per-key history specification over the codes (all sizes, arbitrary physical order). *)
Theorem journal_table_bytes_correct : forall w cs scs fuel okeys ovf nkeys fields,
  length okeys = length ovf -> Forall is_bytes okeys -> Forall is_bytes nkeys ->
  NoDup (map (pad w) nkeys) -> Forall wf_field fields ->
  Z.of_nat fuel > len okeys + len nkeys ->
  journal_table_bytes w cs scs fuel okeys ovf nkeys fields =
  Ok (journal_spec (map (key_enc w) okeys) ovf (map (key_enc w) nkeys) fields).
Proof. exact JournalKeysProofs.journal_table_bytes_correct. Qed.
Print Assumptions journal_table_bytes_correct.

(* 11. the size parameters are unobservable: whatever ops.DEFAULT_CHUNKSIZE / the chunksize defaults / the field chunk
       size are, the result is the specification (which does not mention them). *)
Theorem journal_table_size_independent : forall cs scs fuel okeys ovf nkeys fields,
  length okeys = length ovf -> NoDup nkeys -> Forall wf_field fields ->
  Z.of_nat fuel > len okeys + len nkeys ->
  journal_table_sized cs scs fuel okeys ovf nkeys fields = Ok (journal_spec okeys ovf nkeys fields).
Proof. exact JournalKeysProofs.journal_table_size_independent. Qed.
Print Assumptions journal_table_size_independent.
