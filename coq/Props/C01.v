(* Props/C01.v — placeholder until Proofs/IdxWriterProofs.v lands *)
From Coq Require Import ZArith List.
From EV Require Import Res Arr IdxWriter.
Import ListNotations.
Open Scope Z_scope.

Theorem c01_smoke : iw_history true 2 [OpWrite [[97;98]; []; [99]]] = Ok ([0;2;2;3], [97;98;99]).
Proof. vm_compute. reflexivity. Qed.
Print Assumptions c01_smoke.
