(* Props/C01.v — C01 Field storage round-trip: statements only (proofs in Proofs/StoreProofs.v,
   Proofs/IdxWriterProofs.v, Proofs/IdxReadProofs.v, Proofs/FieldWorldProofs.v, Proofs/FieldAliasProofs.v).
   Model: Model/IdxWriter.v (the repaired tree: fix-F-C01a, fix-F-C01c, fix-F-C01d), Model/FieldWorld.v
   (several fields; arrays as objects); spec: Spec/IdxWriterSpec.v, Spec/FieldWorldSpec.v. *)
From Coq Require Import ZArith List.
From EV Require Import Res Arr IdxWriter IdxWriterSpec StoreProofs IdxWriterProofs IdxReadProofs.
From EV Require Import FieldWorld FieldWorldSpec FieldWorldProofs FieldAliasProofs.
Import ListNotations.
Open Scope Z_scope.

(* FULL.  For every backing (memory / HDF5), every chunksize >= 1 and every history of
   write_part / complete / write calls on a fresh indexed-string field that ends with nothing
   staged (clear, and continuing through a new wrapper on the same datasets — e.g. after the dataset was
   closed and reopened 'r+' — allowed only when nothing is staged), the index dataset holds the prefix sums of the
   entry lengths ([] when no entry was written: see offsets_empty_refuted) and the values dataset the
   concatenated bytes.  No fuel, no size bound, no bound on the chunksize. *)
Theorem idx_writer_roundtrip : forall (h5:bool) (cs:Z) (ops:list iwop),
  1 <= cs -> hist_ok false ops = true ->
  iw_history h5 cs ops
  = Ok (stored_offsets (hist_written [] ops), spec_bytes (hist_written [] ops)).
Proof. exact idx_writer_roundtrip_lemma. Qed.
Print Assumptions idx_writer_roundtrip.

Example idx_writer_roundtrip_ex :
  hist_ok false [OpPart [[97]; []]; OpPart []; OpPart [[195;169;98]]; OpComplete; OpReopen; OpWrite [[99]]] = true
  /\ iw_history true 2 [OpPart [[97]; []]; OpPart []; OpPart [[195;169;98]]; OpComplete; OpReopen; OpWrite [[99]]]
     = Ok ([0;1;1;4;5], [97;195;169;98;99]).
Proof. split; vm_compute; reflexivity. Qed.

(* FULL.  The two histories the property names. *)
Theorem idx_write_roundtrip : forall h5 cs strs, 1 <= cs ->
  iw_history h5 cs [OpWrite strs] = Ok (stored_offsets strs, spec_bytes strs).
Proof. exact idx_write_lemma. Qed.
Print Assumptions idx_write_roundtrip.

Theorem idx_partition_roundtrip : forall h5 cs (parts:list (list (list Z))), 1 <= cs ->
  iw_history h5 cs (map OpPart parts ++ [OpComplete])
  = Ok (stored_offsets (concat parts), spec_bytes (concat parts)).
Proof. exact idx_partition_lemma. Qed.
Print Assumptions idx_partition_roundtrip.

(* FULL.  The offsets sentence of the property: start at 0, never decrease, end at the number of
   stored bytes, number one more than the entries — for the specification's offsets always, for the
   stored ones as soon as one entry exists. *)
Theorem offsets_invariant : forall strs, offsets_ok (spec_offsets strs) (spec_bytes strs) (len strs).
Proof. exact offsets_ok_lemma. Qed.
Print Assumptions offsets_invariant.

Theorem stored_offsets_invariant : forall strs, strs <> [] ->
  offsets_ok (stored_offsets strs) (spec_bytes strs) (len strs).
Proof. exact stored_offsets_ok_lemma. Qed.
Print Assumptions stored_offsets_invariant.

(* REFUTED (F-C01e, known): for the empty sequence the stored offsets are [], not [0]. *)
Theorem offsets_empty_refuted : forall h5 cs, 1 <= cs ->
  iw_history h5 cs [OpWrite []] = Ok ([], []) /\ ~ offsets_ok [] [] 0 /\ spec_offsets [] = [0].
Proof. exact offsets_empty_refuted_lemma. Qed.
Print Assumptions offsets_empty_refuted.

(* FULL.  Plain field arrays (numeric, timestamp, fixed string, categorical codes), either backing:
   any partition of a sequence into write_part calls stores the sequence. *)
Theorem append_partition_independent : forall (A:Type) (zero:A) (h5:bool) (parts:list (list A)),
  exists s', st_write_parts zero (if h5 then H5 [] else Mem None) parts = Ok s'
             /\ st_data s' = spec_written parts.
Proof. exact @append_partition_independent_lemma. Qed.
Print Assumptions append_partition_independent.

Theorem append_two_partitions_agree : forall (A:Type) (zero:A) (h5:bool) (p1 p2:list (list A)),
  concat p1 = concat p2 ->
  exists s1 s2, st_write_parts zero (if h5 then H5 [] else Mem None) p1 = Ok s1
             /\ st_write_parts zero (if h5 then H5 [] else Mem None) p2 = Ok s2
             /\ st_data s1 = st_data s2.
Proof. exact @append_two_partitions. Qed.
Print Assumptions append_two_partitions_agree.

(* REFUTED on the pinned tree (F-C01a, fixed by fix-F-C01a): new[-len(part):] = part with an empty part. *)
Theorem mem_write_part_empty_refuted :
  st_write_parts_orig 0 (Mem None) [[1; 2]; []] = Raise E_ValueError
  /\ spec_written [[1; 2]; []] = [1; 2].
Proof. exact mem_write_part_empty_refuted_lemma. Qed.
Print Assumptions mem_write_part_empty_refuted.

(* REFUTED (F-C01b, known): a memory-backed array adopts the dtype (code) of the first part written. *)
Theorem mem_dtype_refuted : stored_dtype false 3 [4] <> 3 /\ stored_dtype true 3 [4] = 3.
Proof. exact mem_dtype_refuted_lemma. Qed.
Print Assumptions mem_dtype_refuted.

(* FULL (repaired tree) / REFUTED on the pinned tree (F-C01c): categorical key values in the range of
   the dtype they are stored with come back unchanged; with the pinned int8 a key value 300 raises. *)
Theorem key_store_roundtrip : forall lo hi kv,
  (forall v, In v kv -> lo <= v <= hi) -> key_store lo hi kv = Ok kv.
Proof. exact key_store_ok. Qed.
Print Assumptions key_store_roundtrip.

Example key_store_roundtrip_ex : key_store (-32768) 32767 [300; -1] = Ok [300; -1].
Proof. vm_compute. reflexivity. Qed.

Theorem key_store_int8_refuted : key_store (-128) 127 [300; -1] = Raise E_Overflow.
Proof. exact key_store_int8_refuted_lemma. Qed.
Print Assumptions key_store_int8_refuted.

(* FULL.  Reads.  Given what the writer stored for the entries strs, data[a:b] through either wrapper
   class (ro = ReadOnlyIndexedFieldArray, repaired by fix-F-C01d; else WriteableIndexedFieldArray) is
   the sub-list of entries for every 0 <= a <= b <= n, and data[i] is entry i for every 0 <= i < n. *)
Theorem idx_read_slice : forall (ro:bool) strs a b, 0 <= a -> a <= b -> b <= len strs ->
  iw_getslice ro (stored_offsets strs) (spec_bytes strs) a b = Ok (spec_slice strs a b).
Proof. exact idx_read_slice_lemma. Qed.
Print Assumptions idx_read_slice.

Example idx_read_slice_ex :
  iw_getslice true (stored_offsets [[97]; []; [195;169]]) (spec_bytes [[97]; []; [195;169]]) 1 3
  = Ok [[]; [195;169]].
Proof. vm_compute. reflexivity. Qed.

Theorem idx_read_item : forall strs i, 0 <= i < len strs ->
  iw_getint (stored_offsets strs) (spec_bytes strs) i = Ok (spec_item strs i).
Proof. exact idx_read_item_lemma. Qed.
Print Assumptions idx_read_item.

(* FULL.  End to end: any admissible history, then any in-range slice / item, in one statement.
   (data[:] is the slice 0..n: spec_slice l 0 (len l) = l.) *)
Theorem idx_write_then_read_slice : forall (h5:bool) (cs:Z) (ops:list iwop) (ro:bool) (a b:Z),
  1 <= cs -> hist_ok false ops = true ->
  0 <= a -> a <= b -> b <= len (hist_written [] ops) ->
  (do st <- iw_history h5 cs ops; iw_getslice ro (fst st) (snd st) a b)
  = Ok (spec_slice (hist_written [] ops) a b).
Proof. exact idx_end_to_end_lemma. Qed.
Print Assumptions idx_write_then_read_slice.

Theorem idx_write_then_read_item : forall (h5:bool) (cs:Z) (ops:list iwop) (i:Z),
  1 <= cs -> hist_ok false ops = true -> 0 <= i < len (hist_written [] ops) ->
  (do st <- iw_history h5 cs ops; iw_getint (fst st) (snd st) i)
  = Ok (spec_item (hist_written [] ops) i).
Proof. exact idx_end_to_end_item_lemma. Qed.
Print Assumptions idx_write_then_read_item.

Theorem read_full_is_identity : forall (A:Type) (l:list A), spec_slice l 0 (len l) = l.
Proof. exact @spec_slice_full. Qed.
Print Assumptions read_full_is_identity.

(* REFUTED on the pinned tree (F-C01d, fixed by fix-F-C01d): the ReadOnly class evaluates index[0] on
   the empty offsets of an empty field (IndexError = OOB at site 10); with at least one entry the pinned
   class agrees with the specification. *)
Theorem ro_read_empty_refuted :
  iw_getslice_orig true (stored_offsets []) (spec_bytes []) 0 0 = OOB 10
  /\ spec_slice (@nil (list Z)) 0 0 = [].
Proof. exact ro_read_empty_refuted_lemma. Qed.
Print Assumptions ro_read_empty_refuted.

Theorem idx_read_slice_pinned_nonempty : forall (ro:bool) strs a b,
  strs <> [] -> 0 <= a -> a <= b -> b <= len strs ->
  iw_getslice_orig ro (stored_offsets strs) (spec_bytes strs) a b = Ok (spec_slice strs a b).
Proof. exact idx_read_slice_orig_lemma. Qed.
Print Assumptions idx_read_slice_pinned_nonempty.

(* OBSERVATION outside the property's histories (not a C01 finding; hist_ok excludes it): clear() while
   entries are staged does not reset the staging fill levels, the abandoned entry resurfaces. The
   correspondence replays this on the real code (generator stream 5, "no claim"). *)
Theorem clear_with_staged_data_outside_property :
  hist_ok false [OpPart [[97]]; OpClear; OpWrite [[98]]] = false
  /\ iw_history true 2 [OpPart [[97]]; OpClear; OpWrite [[98]]] = Ok ([0; 1; 1], [97; 98])
  /\ hist_written [] [OpPart [[97]]; OpClear; OpWrite [[98]]] = [[98]].
Proof. exact clear_with_staged_data_lemma. Qed.
Print Assumptions clear_with_staged_data_outside_property.

(* ==== histories over several objects (Model/FieldWorld.v) ======================================= *)

(* FULL.  Fields are independent (frame property), for any fields in any state and any interleaved
   history: what field i holds afterwards is what its own operations alone produce. *)
Theorem fields_independent : forall (fs fs':list fld) (h:list (Z * mop)) (i:Z) (f:fld),
  world_run fs h = Ok fs' -> get 30 fs i = Ok f ->
  exists f', get 30 fs' i = Ok f' /\ fld_run f (proj i h) = Ok f'.
Proof. exact fields_independent_lemma. Qed.
Print Assumptions fields_independent.

(* FULL.  Two interleavings of the same per-field histories leave every field in the same state. *)
Theorem interleavings_agree : forall (fs fs1 fs2:list fld) (h1 h2:list (Z * mop)),
  (forall i, proj i h1 = proj i h2) ->
  world_run fs h1 = Ok fs1 -> world_run fs h2 = Ok fs2 ->
  forall i, get 30 fs1 i = get 30 fs2 i.
Proof. exact interleavings_agree_lemma. Qed.
Print Assumptions interleavings_agree.

(* FULL.  The round trip for every interleaving: any number of fresh fields (indexed strings with any
   chunk sizes >= 1 — equal or not —, plain fields, either backing each), any interleaved history whose
   per-field projections are histories of the property (reads anywhere): the run succeeds and every
   field holds the prefix sums / concatenation (resp. the sequence) of what was written TO THAT FIELD. *)
Theorem interleaved_roundtrip : forall (specs:list fspec) (h:list (Z * mop)),
  world_ok specs h ->
  exists fs, world_history specs h = Ok fs /\ len fs = len specs /\
    forall i s, get 30 specs i = Ok s ->
      exists f, get 30 fs i = Ok f /\ field_holds s f (field_written i h).
Proof. exact interleaved_roundtrip_lemma. Qed.
Print Assumptions interleaved_roundtrip.

Example interleaved_roundtrip_ex :
  let specs := [SIdx true 2; SIdx true 2; SPlain false] in
  let h := [(0, MOp (OpPart [[97]; [98; 99]])); (1, MOp (OpPart [[65]])); (2, MOp (OpPart [[1]; [2]]));
            (0, MOp (OpPart [[100]])); (1, MRead); (1, MOp OpComplete); (0, MOp OpComplete); (2, MOp OpComplete)] in
  hist_ok false (mops_iw (proj 0 h)) = true /\ hist_ok false (mops_iw (proj 1 h)) = true /\
  match world_history specs h with
  | Ok [f0; f1; f2] => fld_idx_data f0 = ([0; 1; 3; 4], [97; 98; 99; 100])
                       /\ fld_idx_data f1 = ([0; 1], [65]) /\ fld_plain_data f2 = [[1]; [2]]
  | _ => False
  end.
Proof. vm_compute. repeat split; reflexivity. Qed.

(* FULL.  Fields hold values, not objects.  In the model with array identity (the heap; a memory field's
   _dataset is a reference), every history of caller statements (new array, a[:] = vals, a[i] = v) and
   field operations (write_part of an array, of a view of it, of a view of a field's — also its own —
   storage; complete; data[i] = v; clear) that the value semantics defines — i.e. without
   move_mem=True and with in-range indices — ends with every caller array and every field holding
   what the value semantics says: a write stores the values the argument had at the call, later
   changes of the argument do not reach the field, and changing a field reaches neither another
   field nor a caller array. *)
Theorem fields_hold_values_not_objects : forall (A:Type) (zero:A) (backings:list bool) (ops:list (aop A))
  (v:list (list A) * list (list A)),
  v_run (v_fresh backings) ops = Some v -> aw_history zero backings ops = Ok v.
Proof. exact @alias_free_lemma. Qed.
Print Assumptions fields_hold_values_not_objects.

(* one buffer refilled for each batch; the same array written to two fields, one of them edited *)
Example fields_hold_values_not_objects_ex :
  let ops := [CNew [1; 2]; FPart 0 (ACaller 0); CFill 0 [3; 4]; FPart 0 (ACaller 0); CSet 0 0 9;
              FPart 1 (ACaller 0); FSetItem 1 1 7; FPart 0 (AField 0 1 3)] in
  v_run (v_fresh [false; false]) ops = Some ([[9; 4]], [[1; 2; 3; 4; 2; 3]; [9; 7]])
  /\ aw_history 0 [false; false] ops = Ok ([[9; 4]], [[1; 2; 3; 4; 2; 3]; [9; 7]]).
Proof. split; vm_compute; reflexivity. Qed.

(* OBSERVATION outside the property: write_part(a, move_mem=True) hands the array object over — the
   field then changes when the caller edits a.  No code of the library passes move_mem=True; the value
   semantics leaves such histories undefined.  The correspondence replays this on the real code. *)
Theorem move_mem_aliases_outside_property :
  aw_history 0 [false] [CNew [1; 2]; FPartMove 0 0 true; CSet 0 0 9] = Ok ([[9; 2]], [[9; 2]])
  /\ aw_history 0 [false] [CNew [1; 2]; FPartMove 0 0 false; CSet 0 0 9] = Ok ([[9; 2]], [[1; 2]])
  /\ v_run (v_fresh [false]) [CNew [1; 2]; FPartMove 0 0 true; CSet 0 0 9] = None.
Proof. repeat split; vm_compute; reflexivity. Qed.
Print Assumptions move_mem_aliases_outside_property.
