(* Props/C20.v — C20 "Date helpers bucket timestamps into the day and period that contain them".
   Statements only; every proof is `exact <lemma of Proofs/DatesProofs.v>`.
   Model: Model/Dates.v (integer ticks, `dlen` ticks per day; get_period_offsets as repaired by
   work/C20/fix-F-C20c.diff).  Spec: Spec/DatesSpec.v. *)
From Coq Require Import ZArith List Bool Lia.
From EV Require Import Res Arr Dates DatesSpec DatesProofs DatesAlgebra.
Import ListNotations.
Open Scope Z_scope.

(* ------------------------------------------------------------------ get_periods *)
(* FULL.  With enough fuel (periods_fuel = |e-s|/|td| + 2 iterations) the stepping loop returns
   exactly [s + k*td | 0 <= k <= n], n = |e-s| / |td|, td = unit*delta, for both signs of delta,
   and raises ValueError exactly on delta = 0 / end on the wrong side. *)
Theorem get_periods_arith_progression : forall s e unit delta fuel,
  0 < unit -> (fuel >= periods_fuel s e unit delta)%nat ->
  get_periods fuel s e unit delta = periods_spec s e unit delta.
Proof. exact get_periods_spec_eq. Qed.
Print Assumptions get_periods_arith_progression.

(* FULL.  What the closed form means: n+1 equally spaced boundaries from `s` towards `e` in the
   sign of delta; the last one does not pass `e`, the next one would (the exact n). *)
Theorem get_periods_meaning : forall s e unit delta l, 0 < unit ->
  periods_spec s e unit delta = Ok l ->
  let td := unit * delta in
  exists n, 0 <= n /\ len l = n + 1 /\ (forall k, 0 <= k <= n -> nthZ l k = s + k * td) /\
            (0 < delta -> s <= e /\ s + n * td <= e < s + (n + 1) * td) /\
            (delta < 0 -> e <= s /\ s + (n + 1) * td < e <= s + n * td).
Proof. exact periods_spec_meaning. Qed.
Print Assumptions get_periods_meaning.

(* FULL.  Error cases of get_periods: ValueError iff delta = 0, or delta < 0 with start < end,
   or delta > 0 with end < start; nothing else is ever raised. *)
Theorem get_periods_raises : forall s e unit delta,
  (periods_spec s e unit delta = Raise E_ValueError <->
   delta = 0 \/ (delta < 0 /\ s < e) \/ (0 < delta /\ e < s)) /\
  (forall r, periods_spec s e unit delta = r -> r = Raise E_ValueError \/ exists l, r = Ok l).
Proof. exact periods_spec_raises. Qed.
Print Assumptions get_periods_raises.

Example get_periods_example_up :
  get_periods (periods_fuel 0 100 10 2) 0 100 10 2 = Ok [0; 20; 40; 60; 80; 100].
Proof. vm_compute. reflexivity. Qed.
Example get_periods_example_down :
  get_periods (periods_fuel 100 35 10 (-2)) 100 35 10 (-2) = Ok [100; 80; 60; 40].
Proof. vm_compute. reflexivity. Qed.

(* ------------------------------------------------------------------ get_days *)
(* FULL (on integer ticks).  For a filter of the field's length (or none):
   either an origin exists — the explicit start, else the minimum of the filter-selected
   timestamps — and get_days returns days[i] = (t_i - origin) / dlen together with
   flag[i] = filter_i && start <= t_i && t_i < end (None when no argument is given),
   or there is no start and nothing is selected, and it raises ValueError. *)
Theorem get_days_correct : forall dlen ts flt s e,
  let f := eff_filter ts flt in
  length f = length ts ->
  (exists o, origin_spec ts f s o /\
     get_days dlen ts flt s e =
     Ok (days_spec dlen o ts, if no_args flt s e then None else Some (flags_spec ts f s e)))
  \/ (s = None /\ selected ts f = [] /\ get_days dlen ts flt s e = Raise E_ValueError).
Proof. exact get_days_total. Qed.
Print Assumptions get_days_correct.

(* the origin is unique, so the theorem above determines the result *)
Theorem get_days_origin_unique : forall ts f s o1 o2,
  origin_spec ts f s o1 -> origin_spec ts f s o2 -> o1 = o2.
Proof. exact origin_unique. Qed.
Print Assumptions get_days_origin_unique.

(* index-level reading of the three spec functions used above *)
Theorem get_days_flag_pointwise : forall ts f s e j, length f = length ts -> (j < length ts)%nat ->
  nth j (flags_spec ts f s e) false =
  nth j f false && geb_opt s (nth j ts 0) && ltb_opt e (nth j ts 0).
Proof. exact flags_spec_nth. Qed.
Print Assumptions get_days_flag_pointwise.

Theorem get_days_selected_pointwise : forall ts f x,
  In x (selected ts f) <-> exists j, (j < length ts)%nat /\ nth j f false = true /\ nth j ts 0 = x.
Proof. exact selected_In. Qed.
Print Assumptions get_days_selected_pointwise.

(* (t - o) / dlen is the whole number of dlen-tick days elapsed since o (floor, also for t < o) *)
Theorem get_days_day_is_floor : forall dlen o t q, 0 < dlen ->
  ((t - o) / dlen = q <-> o + q * dlen <= t < o + (q + 1) * dlen).
Proof. exact day_floor. Qed.
Print Assumptions get_days_day_is_floor.

(* (full) day numbers depend only on the offsets from the origin: shifting every timestamp and the
   origin by the same k (a change of epoch or time zone) leaves every day number unchanged *)
Theorem get_days_shift_invariant : forall dlen o k ts,
  days_spec dlen (o + k) (map (fun t => t + k) ts) = days_spec dlen o ts.
Proof. exact days_shift_invariant_pf. Qed.
Print Assumptions get_days_shift_invariant.

(* (full) day numbers are monotone in the timestamp: a later row never gets an earlier day *)
Theorem get_days_monotone : forall dlen o ts i j, 0 < dlen ->
  0 <= i < len ts -> 0 <= j < len ts -> nthZ ts i <= nthZ ts j ->
  nthZ (days_spec dlen o ts) i <= nthZ (days_spec dlen o ts) j.
Proof. exact days_monotone_pf. Qed.
Print Assumptions get_days_monotone.

Example get_days_shift_monotone_ex :
  days_spec 86400 (5 + 3600) (map (fun t => t + 3600) [172800; 86400; 5; 259200]) = [1; 0; 0; 2] /\
  days_spec 86400 5 [172800; 86400; 5; 259200] = [1; 0; 0; 2].
Proof. vm_compute. split; reflexivity. Qed.

(* a flagged (in-range) day is never negative *)
Theorem get_days_flagged_day_nonneg : forall dlen ts f s e o j,
  0 < dlen -> length f = length ts -> origin_spec ts f s o -> (j < length ts)%nat ->
  nth j (flags_spec ts f s e) false = true -> 0 <= nth j (days_spec dlen o ts) 0.
Proof. exact flagged_day_nonneg. Qed.
Print Assumptions get_days_flagged_day_nonneg.

Example get_days_example :
  get_days 86400 [172800; 86400; 5; 259200] (Some [false; true; false; true]) None (Some 200000)
  = Ok ([1; 0; -1; 2], Some [false; true; false; false]).
Proof. vm_compute. reflexivity. Qed.

(* filters of another length than the field (outside the property; the model follows numpy) *)
Theorem get_days_mismatch_nostart : forall dlen ts f e, length f <> length ts ->
  get_days dlen ts (Some f) None e =
  if (length f =? 0)%nat then Raise E_ValueError else Raise E_IndexError.
Proof. exact get_days_mismatch_nostart_proof. Qed.
Print Assumptions get_days_mismatch_nostart.

Theorem get_days_mismatch_start_bad : forall dlen ts f sd e,
  length f <> length ts -> length f <> 1%nat -> length ts <> 1%nat ->
  get_days dlen ts (Some f) (Some sd) e = Raise E_ValueError.
Proof. exact get_days_mismatch_start_bad_proof. Qed.
Print Assumptions get_days_mismatch_start_bad.

Theorem get_days_broadcast_filter : forall dlen ts b sd e, length ts <> 1%nat ->
  get_days dlen ts (Some [b]) (Some sd) e =
  Ok (days_spec dlen sd ts, Some (flags_spec ts (repeat b (length ts)) (Some sd) e)).
Proof. exact get_days_broadcast_filter_proof. Qed.
Print Assumptions get_days_broadcast_filter.

Theorem get_days_broadcast_field : forall dlen t f sd e, length f <> 1%nat ->
  get_days dlen [t] (Some f) (Some sd) e =
  Ok ([(t - sd) / dlen], Some (map (fun b => flag_at (Some sd) e t b) f)).
Proof. exact get_days_broadcast_field_proof. Qed.
Print Assumptions get_days_broadcast_field.

(* REFUTED (old code, F-C20a, fixed in /repo cc68812): the int8 filter used as integer indices
   does not select the origin of the property *)
Theorem get_days_int8_filter_refuted :
  exists ts f o, length f = length ts /\ origin_spec ts f None o /\
    get_days_origin_int8_prefix ts f <> Ok o.
Proof. exact get_days_int8_filter_refuted_proof. Qed.
Print Assumptions get_days_int8_filter_refuted.

(* ------------------------------------------------------------------ generate_period_offset_map *)
(* FULL.  For non-decreasing boundaries (so the day deltas are non-decreasing and start at 0) the
   map has one entry per day of [0, last delta) and entry d is i  <->  deltas[i] <= d < deltas[i+1];
   every entry is the index of the (unique) period whose half-open interval contains the day. *)
Theorem period_map_halfopen : forall dlen periods,
  0 < dlen -> periods <> [] -> sorted periods ->
  let ds := deltas_spec dlen periods in
  exists m, generate_period_offset_map dlen periods = Ok m /\
    nthZ ds 0 = 0 /\ len m = last ds 0 /\
    (forall d, 0 <= d < len m -> 0 <= nthZ m d < len ds - 1 /\ in_period ds (nthZ m d) d) /\
    (forall d i, 0 <= d < len m -> 0 <= i < len ds - 1 -> (nthZ m d = i <-> in_period ds i d)).
Proof. exact period_map_halfopen_proof. Qed.
Print Assumptions period_map_halfopen.

Example period_map_example :
  sortedb [0; 604800; 1209600; 1814400] = true /\
  generate_period_offset_map 86400 [0; 604800; 1209600; 1814400]
  = Ok [0;0;0;0;0;0;0; 1;1;1;1;1;1;1; 2;2;2;2;2;2;2].
Proof. vm_compute. split; reflexivity. Qed.

(* FULL.  Errors of generate_period_offset_map, for every input: IndexError on an empty list,
   ValueError ("negative dimensions") iff the last boundary precedes the first — in particular
   on every descending list (F-C20b: documented limitation) — and otherwise a map of
   (last - first) / dlen entries. *)
Theorem period_map_errors : forall dlen periods, 0 < dlen ->
  (periods = [] -> generate_period_offset_map dlen periods = Raise E_IndexError) /\
  (periods <> [] -> last periods 0 < nthZ periods 0 ->
     generate_period_offset_map dlen periods = Raise E_ValueError) /\
  (periods <> [] -> nthZ periods 0 <= last periods 0 ->
     exists m, generate_period_offset_map dlen periods = Ok m /\
               len m = (last periods 0 - nthZ periods 0) / dlen).
Proof. exact period_map_errors_proof. Qed.
Print Assumptions period_map_errors.

(* F-C20b as a theorem: whatever get_periods returns for a negative delta (two or more
   boundaries) makes generate_period_offset_map raise ValueError. *)
Theorem period_map_descending_raises : forall dlen s e unit delta l,
  0 < dlen -> 0 < unit -> delta < 0 -> 1 <= periods_n s e (unit * delta) ->
  periods_spec s e unit delta = Ok l ->
  generate_period_offset_map dlen l = Raise E_ValueError.
Proof. exact descending_periods_raise_proof. Qed.
Print Assumptions period_map_descending_raises.

Example period_map_descending_example :
  periods_spec 1814400 0 604800 (-1) = Ok [1814400; 1209600; 604800; 0] /\
  generate_period_offset_map 86400 [1814400; 1209600; 604800; 0] = Raise E_ValueError.
Proof. vm_compute. split; reflexivity. Qed.

(* FULL.  Boundaries w whole days apart (what get_periods produces for delta > 0): the map is
   d |-> d / w on [0, n*w). *)
Theorem period_map_of_progression : forall dlen s w n, 0 < dlen -> 0 < w ->
  exists m, generate_period_offset_map dlen (arith_prog s (w * dlen) (S n)) = Ok m /\
    len m = Z.of_nat n * w /\ forall d, 0 <= d < len m -> nthZ m d = d / w.
Proof. exact period_map_of_progression_proof. Qed.
Print Assumptions period_map_of_progression.

(* ------------------------------------------------------------------ get_period_offsets *)
(* FULL, with in_range (repaired code): if every flagged day is a legal index of the map
   (-len <= d < len; a negative one wraps once) the result is  pbd[day] where flagged, -1 where
   not; if some flagged day is not, IndexError (OOB site 2). *)
Theorem period_offsets_correct : forall pbd days fl, length fl = length days ->
  (offsets_pre pbd days fl ->
     get_period_offsets pbd days (Some fl) = Ok (offsets_spec pbd days fl)) /\
  ((exists d, In (d, true) (combine days fl) /\ ~ idx_ok pbd d) ->
     get_period_offsets pbd days (Some fl) = OOB 2).
Proof. exact period_offsets_correct_proof. Qed.
Print Assumptions period_offsets_correct.

(* FULL, without in_range: pbd[day] with numpy's single negative wrap, IndexError (OOB site 1)
   iff some day is outside [-len, len). *)
Theorem period_offsets_noflags_correct : forall pbd days,
  ((forall d, In d days -> idx_ok pbd d) ->
     get_period_offsets pbd days None = Ok (map (wrap_get pbd) days)) /\
  ((exists d, In d days /\ ~ idx_ok pbd d) -> get_period_offsets pbd days None = OOB 1).
Proof. exact period_offsets_noflags_correct_proof. Qed.
Print Assumptions period_offsets_noflags_correct.

Theorem period_offsets_pre_pointwise : forall pbd days fl, length fl = length days ->
  (offsets_pre pbd days fl <->
   forall j, (j < length days)%nat -> nth j fl false = true -> idx_ok pbd (nth j days 0)).
Proof. exact offsets_pre_iff. Qed.
Print Assumptions period_offsets_pre_pointwise.

Theorem period_offsets_spec_pointwise : forall pbd days fl j,
  length fl = length days -> (j < length days)%nat ->
  nth j (offsets_spec pbd days fl) 0 = if nth j fl false then wrap_get pbd (nth j days 0) else -1.
Proof. exact offsets_spec_nth. Qed.
Print Assumptions period_offsets_spec_pointwise.

(* FULL.  -1 iff the in-range flag is off (for a map of period indices, which are >= 0). *)
Theorem period_offsets_minus1_iff_out_of_range : forall pbd days fl j,
  length fl = length days -> offsets_pre pbd days fl -> (forall v, In v pbd -> 0 <= v) ->
  (j < length days)%nat ->
  (nth j (offsets_spec pbd days fl) 0 = -1 <-> nth j fl false = false).
Proof. exact offsets_minus1_iff. Qed.
Print Assumptions period_offsets_minus1_iff_out_of_range.

(* an in_range array of another length is rejected (numpy accepts only the empty mask) *)
Theorem period_offsets_mismatch : forall pbd days fl, length fl <> length days -> fl <> [] ->
  get_period_offsets pbd days (Some fl) = Raise E_IndexError.
Proof. exact period_offsets_flags_mismatch. Qed.
Print Assumptions period_offsets_mismatch.

Example period_offsets_example :
  get_period_offsets [0;0;0;1;1;2;2] [3; 9; -1; 6; 0] (Some [true; false; false; true; true])
  = Ok [1; -1; -1; 2; 0].
Proof. vm_compute. reflexivity. Qed.

(* REFUTED (code before work/C20/fix-F-C20c.diff): an out-of-range entry with an empty map made
   get_period_offsets raise IndexError; the property (and the repaired code) say -1. *)
Theorem period_offsets_prefix_refuted :
  exists pbd days fl, length fl = length days /\ offsets_pre pbd days fl /\
    get_period_offsets_prefix pbd days fl = OOB 2 /\
    get_period_offsets pbd days (Some fl) = Ok (offsets_spec pbd days fl) /\
    offsets_spec pbd days fl = [-1].
Proof. exact period_offsets_prefix_refuted_proof. Qed.
Print Assumptions period_offsets_prefix_refuted.

(* ------------------------------------------------------------------ compositions: the property *)
(* FULL.  generate_period_offset_map + get_period_offsets with flags: each in-range day gets the
   index of the period whose half-open interval contains it, every other entry -1. *)
Theorem period_offsets_halfopen : forall dlen periods days fl,
  0 < dlen -> periods <> [] -> sorted periods -> length fl = length days ->
  let ds := deltas_spec dlen periods in
  (forall j, (j < length days)%nat -> nth j fl false = true -> 0 <= nth j days 0 < last ds 0) ->
  exists m r, generate_period_offset_map dlen periods = Ok m /\
    get_period_offsets m days (Some fl) = Ok r /\ length r = length days /\
    forall j, (j < length days)%nat ->
      (nth j fl false = false -> nth j r 0 = -1) /\
      (nth j fl false = true ->
         (0 <= nth j r 0 < len ds - 1 /\ in_period ds (nth j r 0) (nth j days 0)) /\
         forall i, 0 <= i < len ds - 1 -> (nth j r 0 = i <-> in_period ds i (nth j days 0))).
Proof. exact period_offsets_halfopen_proof. Qed.
Print Assumptions period_offsets_halfopen.

(* FULL.  The same without flags, under the precondition the code needs: every day is a day of
   the map (outside it: period_offsets_noflags_correct — IndexError, or a negative day wraps). *)
Theorem period_offsets_noflags_halfopen : forall dlen periods days,
  0 < dlen -> periods <> [] -> sorted periods ->
  let ds := deltas_spec dlen periods in
  (forall d, In d days -> 0 <= d < last ds 0) ->
  exists m r, generate_period_offset_map dlen periods = Ok m /\
    get_period_offsets m days None = Ok r /\ length r = length days /\
    forall j, (j < length days)%nat ->
      forall i, 0 <= i < len ds - 1 -> (nth j r 0 = i <-> in_period ds i (nth j days 0)).
Proof. exact period_offsets_noflags_halfopen_proof. Qed.
Print Assumptions period_offsets_noflags_halfopen.

(* FULL.  The pipeline of the docstring, end to end, for delta > 0 and a unit of u whole days:
   get_periods -> generate_period_offset_map, get_days(ts, filter, start, end') ->
   get_period_offsets yields (t - start) / td for the timestamps that pass the filter and lie
   in [start, end'), and -1 for all others (end' not after the last boundary). *)
Theorem pipeline_correct : forall dlen u delta s e e' ts flt fuel,
  0 < dlen -> 0 < u -> 0 < delta -> s <= e ->
  let unit := u * dlen in
  let td := unit * delta in
  let n := periods_n s e td in
  let f := eff_filter ts flt in
  length f = length ts -> e' <= s + n * td ->
  (fuel >= periods_fuel s e unit delta)%nat ->
  exists l m days fl r,
    get_periods fuel s e unit delta = Ok l /\
    generate_period_offset_map dlen l = Ok m /\
    get_days dlen ts flt (Some s) (Some e') = Ok (days, Some fl) /\
    get_period_offsets m days (Some fl) = Ok r /\
    r = map (fun p => if flag_at (Some s) (Some e') (fst p) (snd p) then (fst p - s) / td else -1)
            (combine ts f).
Proof. exact pipeline_proof. Qed.
Print Assumptions pipeline_correct.

Example pipeline_example :
  let ts := [5; 700000; 1300000; 86400; 1209599; 1209600] in
  let l := [0; 604800; 1209600] in
  let m := [0;0;0;0;0;0;0; 1;1;1;1;1;1;1] in
  get_periods (periods_fuel 0 1300000 604800 1) 0 1300000 604800 1 = Ok l /\
  generate_period_offset_map 86400 l = Ok m /\
  get_days 86400 ts (Some [true; true; true; false; true; true]) (Some 0) (Some 1209600)
    = Ok ([0; 8; 15; 1; 13; 14], Some [true; true; false; false; true; false]) /\
  get_period_offsets m [0; 8; 15; 1; 13; 14] (Some [true; true; false; false; true; false])
    = Ok [0; 1; -1; -1; 1; -1].
Proof. vm_compute. repeat split; reflexivity. Qed.
