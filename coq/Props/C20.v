(* Props/C20.v — placeholder until Proofs/Dates.v lands *)
From Coq Require Import ZArith List.
From EV Require Import Res Arr Dates.
Import ListNotations.
Open Scope Z_scope.

Theorem c20_smoke : get_periods 10 0 100 10 2 = Ok [0; 20; 40; 60; 80; 100].
Proof. vm_compute. reflexivity. Qed.
Print Assumptions c20_smoke.
