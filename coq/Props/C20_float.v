(* Props/C20_float.v — C20 stretch theorem (NOT in PROPS_FILES of harness/props/C20.py: it depends on
   the axioms of the standard library's real numbers, listed below by Print Assumptions).
   RN is IEEE-754 binary64 round-to-nearest-even (Flocq: format FLT, emin = -1074, 53 bits); IEEE
   subtraction and division return RN of the exact result; 86400.0 and integer timestamps below 2^53
   are binary64 numbers; np.floor of a binary64 number is exact.  Hence for integer-valued
   timestamps t, m with |t - m| < 2^50 the float computation of get_days
       np.floor((t - m) / 86400.0).astype(int32)
   is the integer floor division that Model/Dates.v uses (`day_of`). *)
From Coq Require Import ZArith Reals.
From Flocq Require Import Core.
From EV Require Import DatesFloat.
Open Scope R_scope.

Theorem float_days_exact_on_integers : forall t m : Z, (Z.abs (t - m) < 2 ^ 50)%Z ->
  Zfloor (RN (RN (IZR t - IZR m) / 86400)) = ((t - m) / 86400)%Z.
Proof. exact float_days_exact_proof. Qed.
Print Assumptions float_days_exact_on_integers.
