(* Props/C20_float.v — C20 stretch theorem (NOT in PROPS_FILES of harness/props/C20.py: it depends on
   the axioms of the standard library's real numbers, listed below by Print Assumptions).
   RN is IEEE-754 binary64 round-to-nearest-even (Flocq: format FLT, emin = -1074, 53 bits); IEEE
   subtraction and division return RN of the exact result; 86400.0 and integer timestamps below 2^53
   are binary64 numbers; np.floor of a binary64 number is exact.  Hence for integer-valued
   timestamps t, m with |t - m| < 2^50 the float computation of get_days
       np.floor((t - m) / 86400.0).astype(int32)
   is the integer floor division that Model/Dates.v uses (`day_of`). *)
From Coq Require Import ZArith Reals.
From Flocq Require Import Core.
From EV Require Import DatesFloat.
Open Scope R_scope.

Theorem float_days_exact_on_integers : forall t m : Z, (Z.abs (t - m) < 2 ^ 50)%Z ->
  Zfloor (RN (RN (IZR t - IZR m) / 86400)) = ((t - m) / 86400)%Z.
Proof. exact float_days_exact_proof. Qed.
Print Assumptions float_days_exact_on_integers.

(* The same statement about Flocq's IEEE-754 binary64 operations themselves (Bminus, Bdiv with
   mode_NE, any NaN payload policy): the result is finite (no overflow, no NaN) and its floor is the
   integer floor division. *)
From Flocq Require Import IEEE754.BinarySingleNaN IEEE754.Binary.

Theorem float_days_exact_ieee : forall
  (minus_nan div_nan : binary_float 53 1024 -> binary_float 53 1024 ->
                       {x : binary_float 53 1024 | is_nan 53 1024 x = true})
  (x y c : binary_float 53 1024) (t m : Z),
  is_finite 53 1024 x = true -> is_finite 53 1024 y = true ->
  B2R 53 1024 x = IZR t -> B2R 53 1024 y = IZR m -> B2R 53 1024 c = 86400 ->
  (Z.abs (t - m) < 2 ^ 50)%Z ->
  let r := Bdiv 53 1024 prec53 prec_lt_emax64 div_nan mode_NE
             (Bminus 53 1024 prec53 prec_lt_emax64 minus_nan mode_NE x y) c in
  is_finite 53 1024 r = true /\ Zfloor (B2R 53 1024 r) = ((t - m) / 86400)%Z.
Proof. exact float_days_exact_ieee_proof. Qed.
Print Assumptions float_days_exact_ieee.
