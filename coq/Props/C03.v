(* Props/C03.v — C03: streaming join maps equal the relational join for every chunk size.
   Statements only; proofs are in Proofs/Join*.v (model: Model/Join.v, spec: Spec/JoinSpec.v).

   `streamed (mkvar k is_left) L R inv cs` is the model of generate_ordered_map_to_{left,inner}[_left_unique|
   _right_unique|_both_unique]_streamed; `expected k is_left inv L R` is (left map or [], right map) of the
   relational join `join_spec`; `kind_pre` is "sorted ascending, strictly on the side(s) declared unique";
   `chunks_ok` says that no window of cs keys on a trimmed side is a single run continuing beyond it. *)
From Coq Require Import ZArith List.
From EV Require Import Res Arr Join JoinSpec JoinBase JoinIface JoinDriver JoinMain JoinAll JoinEmbed.
Import ListNotations.
Open Scope Z_scope.

(* All 8 variants, every chunk size >= 1, all sorted inputs (truthful uniqueness): the result is exactly the
   relational join, or the clear ValueError of get_next_chunk - and that error only when a run of equal keys
   fills a whole chunk of a trimmed side (LongRun). *)
Theorem c03_streamed_total : forall k is_left L R inv cs,
  kind_pre k L R -> 1 <= cs ->
  streamed (mkvar k is_left) L R inv cs = Ok (expected k is_left inv L R) \/
  (streamed (mkvar k is_left) L R inv cs = Raise E_ValueError /\ LongRun k is_left L R cs).
Proof. exact streamed_total. Qed.
Print Assumptions c03_streamed_total.

Theorem c03_streamed_correct : forall k is_left L R inv cs,
  kind_pre k L R -> 1 <= cs -> chunks_ok k cs L R ->
  streamed (mkvar k is_left) L R inv cs = Ok (expected k is_left inv L R).
Proof. exact streamed_correct. Qed.
Print Assumptions c03_streamed_correct.

(* chunking is unobservable *)
Theorem c03_chunking_unobservable : forall k is_left L R inv cs1 cs2,
  kind_pre k L R -> 1 <= cs1 -> 1 <= cs2 -> chunks_ok k cs1 L R -> chunks_ok k cs2 L R ->
  streamed (mkvar k is_left) L R inv cs1 = streamed (mkvar k is_left) L R inv cs2.
Proof. exact streamed_chunking_unobservable. Qed.
Print Assumptions c03_chunking_unobservable.

Theorem c03_results_agree : forall k is_left L R inv cs1 cs2 r1 r2,
  kind_pre k L R -> 1 <= cs1 -> 1 <= cs2 ->
  streamed (mkvar k is_left) L R inv cs1 = Ok r1 -> streamed (mkvar k is_left) L R inv cs2 = Ok r2 -> r1 = r2.
Proof. exact streamed_results_agree. Qed.
Print Assumptions c03_results_agree.

(* both sides unique: no side is trimmed, so there is no error case at all *)
Theorem c03_both_unique_correct : forall is_left L R inv cs,
  1 <= cs -> ssorted L -> ssorted R ->
  streamed (mkvar KBU is_left) L R inv cs = Ok (expected KBU is_left inv L R).
Proof. exact streamed_both_unique_correct. Qed.
Print Assumptions c03_both_unique_correct.

(* sufficient conditions for chunks_ok that a caller can check *)
Theorem c03_windows_ok_short : forall cs X, len X <= cs -> windows_ok cs X.
Proof. exact windows_ok_short. Qed.
Print Assumptions c03_windows_ok_short.

Theorem c03_windows_ok_unique : forall cs X, 2 <= cs -> ssorted X -> windows_ok cs X.
Proof. exact windows_ok_ssorted. Qed.
Print Assumptions c03_windows_ok_unique.

(* the hypotheses are satisfiable by a non-trivial input (duplicates on both sides, several chunks) *)
Theorem c03_nonvacuous :
  kind_pre KGen [1;1;2;3;3] [1;3;3;4] /\ chunks_ok KGen 3 [1;1;2;3;3] [1;3;3;4] /\
  streamed (mkvar KGen true) [1;1;2;3;3] [1;3;3;4] (-1) 3 = Ok ([0;1;2;3;3;4;4], [0;0;-1;1;2;1;2]).
Proof. exact all_hyps_nonvacuous. Qed.
Print Assumptions c03_nonvacuous.

(* the generators see keys only through comparisons: run on the keys seen through any strictly monotone map
   (integers at the ends of a dtype, binary64 values, fixed strings with blanks: the encodings the harness uses
   to turn an order type into concrete key columns) they return what they return on the order type itself *)
Theorem c03_key_embedding : forall (f:Z -> Z) k is_left L R inv cs,
  kind_pre k L R -> (forall x y, In x (L ++ R) -> In y (L ++ R) -> x < y -> f x < f y) -> 1 <= cs -> chunks_ok k cs L R ->
  streamed (mkvar k is_left) (map f L) (map f R) inv cs = streamed (mkvar k is_left) L R inv cs.
Proof. exact JoinEmbed.streamed_key_embedding. Qed.
Print Assumptions c03_key_embedding.
