(* Props/C03.v — placeholder until Proofs/Join*.v land *)
From Coq Require Import ZArith List.
From EV Require Import Res Arr Join JoinSpec.
Import ListNotations.
Open Scope Z_scope.

Theorem c03_smoke : streamed (mkvar KGen true) [1;1;2;3] [1;2;2;5] (-1) 3 = Ok ([0;1;2;2;3], [0;0;1;2;-1]).
Proof. vm_compute. reflexivity. Qed.
Print Assumptions c03_smoke.
