(* Props/C03.v — C03: streaming join maps equal the relational join for every chunk size.
   Statements only; proofs are in Proofs/Join*.v. *)
From Coq Require Import ZArith List.
From EV Require Import Res Arr Join JoinSpec JoinBase JoinIface JoinDriver JoinMain.
Import ListNotations.
Open Scope Z_scope.

(* Both key columns strictly increasing (the uniqueness both *_both_unique variants assume):
   for EVERY chunk size >= 1 the streamed left-join / inner-join maps are exactly the relational
   join; no error, no out-of-bounds access (the model's OOB), no fuel exhaustion (termination). *)
Theorem c03_both_unique_correct : forall is_left L R inv cs,
  1 <= cs -> ssorted L -> ssorted R ->
  streamed (mkvar KBU is_left) L R inv cs = Ok (expected KBU is_left inv L R).
Proof. exact streamed_both_unique_correct. Qed.
Print Assumptions c03_both_unique_correct.

(* chunking is unobservable (both-unique variants) *)
Theorem c03_both_unique_chunking_unobservable : forall is_left L R inv cs1 cs2,
  1 <= cs1 -> 1 <= cs2 -> ssorted L -> ssorted R ->
  streamed (mkvar KBU is_left) L R inv cs1 = streamed (mkvar KBU is_left) L R inv cs2.
Proof.
  intros. rewrite !streamed_both_unique_correct by assumption. reflexivity.
Qed.
Print Assumptions c03_both_unique_chunking_unobservable.

Example c03_both_unique_nonvacuous :
  ssorted [1;3;5;7] /\ ssorted [0;3;4;7;9] /\
  streamed (mkvar KBU true) [1;3;5;7] [0;3;4;7;9] (-1) 2 = Ok ([], [-1;1;-1;3]).
Proof. repeat split; try (apply ssortedb_ssorted; reflexivity). Qed.
