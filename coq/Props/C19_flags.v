(* Props/C19_flags.v — C19, the TYPE FORM of the uniqueness hints ("uniqueness flags truthful").
   Statements only; proofs are in Proofs/FlagFormP.v.  Model: Model/FlagForm.v (pyflag: Python bool, numpy bool, Python
   int, numpy int, 0-d boolean array; `x == False` = py_eq_False, `x is False` = py_is_False; the Session entry points
   taking hints in their type form) on top of Model/SessionMerge.v / SessionMergeTyped.v.
   `flag_denotes f b`: f is what a truthful caller passes for the truth value b in one of these forms. *)
From Coq Require Import ZArith List Bool Lia.
From EV Require Import Res Arr Join JoinSpec MapStream SessionMerge SessionMergeSpec SessionMergeTyped SessionMergeTypedP FlagForm FlagFormP
  SessionMergeInner SessionMergeInnerTop.
Import ListNotations.
Open Scope Z_scope.

(* FULL.  A hint compared by value (`== False`) is its truth value, whatever its type form. *)
Theorem hint_compared_by_value_ignores_its_type_form : forall f b, flag_denotes f b -> hint_by_value f = b.
Proof. exact hint_by_value_denotes. Qed.
Print Assumptions hint_compared_by_value_ignores_its_type_form.

Example hint_forms_nontrivial :
  flag_denotes (NpBool false) false /\ flag_denotes (PyInt 0) false /\ flag_denotes (NpInt 1) true /\ flag_denotes (NpArr0 true) true.
Proof. repeat split. Qed.

(* FULL.  Session.ordered_merge_left / _right (every argument form, every chunk size, as found and as repaired): the call
   with hints in any type form IS the call with the Python bools of their truth values — so every theorem of
   Props/C19.v about ordered_merge_left holds for numpy-bool / integer hints. *)
Theorem ordered_merge_left_hint_form_irrelevant : forall ver cs L R srcs fm sinks0 mk fl fr bl br,
  flag_denotes fl bl -> flag_denotes fr br ->
  ordered_merge_left_pf ver cs L R srcs fm sinks0 mk fl fr = ordered_merge_left ver cs L R srcs fm sinks0 mk bl br.
Proof. exact oml_pf_forms. Qed.
Print Assumptions ordered_merge_left_hint_form_irrelevant.

(* FULL.  The same for typed payloads (Props/C19_typed.v). *)
Theorem ordered_merge_left_typed_hint_form_irrelevant : forall cs L R srcs fm dts sinks0 mk fl fr bk bl br,
  flag_denotes fl bl -> flag_denotes fr br ->
  ordered_merge_left_t_pf cs L R srcs fm dts sinks0 mk fl fr bk = ordered_merge_left_t cs L R srcs fm dts sinks0 mk bl br bk.
Proof. exact oml_t_pf_forms. Qed.
Print Assumptions ordered_merge_left_typed_hint_form_irrelevant.

(* FULL.  Session.ordered_merge_inner as repaired by fix-F-C19g (`== False`): hints in any type form. *)
Theorem ordered_merge_inner_hint_form_irrelevant : forall L R ls rs fm ls0 rs0 fl fr bl br,
  flag_denotes fl bl -> flag_denotes fr br ->
  ordered_merge_inner_pf L R ls rs fm ls0 rs0 fl fr = ordered_merge_inner L R ls rs fm ls0 rs0 bl br.
Proof. exact omi_pf_forms. Qed.
Print Assumptions ordered_merge_inner_hint_form_irrelevant.

(* REFUTED (the class of seeded/C19-r3-2).  The identity test `x is False` takes every form of False but the singleton for
   True: a truthful np.False_ sends keys with duplicates to the unique-key kernels. *)
Theorem hint_compared_by_identity_refuted : exists f, flag_denotes f false /\ hint_by_identity f = true.
Proof. exact hint_by_identity_wrong. Qed.
Print Assumptions hint_compared_by_identity_refuted.

Theorem hint_compared_by_identity_only_knows_the_singleton : forall f,
  flag_denotes f false -> f <> PyBool false -> hint_by_identity f = true.
Proof. exact hint_by_identity_only_singleton. Qed.
Print Assumptions hint_compared_by_identity_only_knows_the_singleton.

(* REFUTED (F-C19g).  Session.ordered_merge_inner AS FOUND (`is False`): with a truthful np.False_ for a left key with
   duplicates the call differs from the call with the Python bool (which is the inner join, ordered_merge_inner_correct). *)
Theorem ordered_merge_inner_as_found_refuted :
  exists fl fr, flag_denotes fl false /\ flag_denotes fr true /\
  ordered_merge_inner_pf_found [1;1;2] [1;2] [[101;102;103]] [[601;602]] FArr [] [] fl fr <>
  ordered_merge_inner [1;1;2] [1;2] [[101;102;103]] [[601;602]] FArr [] [] false true.
Proof. exact omi_found_refuted. Qed.
Print Assumptions ordered_merge_inner_as_found_refuted.

(* ---- key columns of two different integer dtypes (the class of seeded/C19-r3-1).  The theorems of Props/C19.v are
   about keys that are mathematical integers (Z): they hold whatever dtypes store the two columns, PROVIDED the code
   compares the values.  Presenting the right key in the left key's dtype is harmless exactly when it is lossless: *)
Theorem key_cast_harmless_when_representable : forall a b R,
  int_like a = true -> (forall v, In v R -> fits b v) -> cast_keys a b R = R.
Proof. exact cast_keys_fits. Qed.
Print Assumptions key_cast_harmless_when_representable.

(* REFUTED otherwise: an int64 right key 2^32+7 cast to the int32 of the left key becomes 7 and takes the left rows 7. *)
Theorem key_cast_to_the_other_dtype_refuted :
  left_payload 0 [1;2;7;7;9] (cast_keys (DInt 64) (DInt 32) [1;2;4294967303;8589934592]) [11;22;33;44] <>
  left_payload 0 [1;2;7;7;9] [1;2;4294967303;8589934592] [11;22;33;44].
Proof. exact cast_keys_changes_the_join. Qed.
Print Assumptions key_cast_to_the_other_dtype_refuted.
