(* Props/C19_world.v — C19, histories of calls on ONE Session whose arguments are HDF5-backed columns addressed by
   path (dataset/dataframe, column name).  Statements only; proofs are in Proofs/SessionWorldP.v.
   Model: Model/SessionWorld.v (world = columns by FULL path, newest first; step = write to a path | call whose
   argument positions are filled from the columns its handles point to at the time of the call).  `call` is any of
   the stateless call models of Model/SessionMerge*.v (the extracted entry instantiates it with entry_C19_one). *)
From Coq Require Import ZArith List Bool.
From EV Require Import SessionWorld SessionWorldP.
Import ListNotations.
Open Scope Z_scope.

(* FULL.  The result of a call of a history is the result of that call alone on the columns its handles point to as
   they are at that moment: nothing else of the history reaches it. *)
Theorem session_world_history_call_alone : forall (C O:Type) (fill:C -> nat -> list Z -> C) (call:C -> O)
  (pre post:list (step C)) w c refs d,
  nth (ncalls C pre) (world_history C O fill call w (pre ++ SCall c refs :: post)) d
  = option_map call (resolve C fill (writes C w pre) c refs).
Proof. exact world_history_call_alone. Qed.
Print Assumptions session_world_history_call_alone.

(* FULL.  What a handle reads after a prefix of the history is the LAST column written to its full path (in place,
   or as a same-named replacement), else what was there before ... *)
Theorem session_world_lookup_last_write : forall (C:Type) (pre:list (step C)) w p,
  lookup (writes C w pre) p = match last_write C pre p with Some c => Some c | None => lookup w p end.
Proof. exact lookup_writes. Qed.
Print Assumptions session_world_lookup_last_write.

(* FULL.  ... and a column of another dataframe / dataset that has the SAME column name (and any length, any
   content) is another column. *)
Theorem session_world_same_name_other_frame : forall w p q c,
  name_of q = name_of p -> frame_of q <> frame_of p -> lookup (write w q c) p = lookup w p.
Proof. exact lookup_write_same_name_other_frame. Qed.
Print Assumptions session_world_same_name_other_frame.

(* FULL.  Hence earlier steps that do not write to the paths of a call's handles (whatever they write under the same
   column names elsewhere, whatever they call) leave its result as in a fresh Session. *)
Theorem session_world_history_call_frame : forall (C O:Type) (fill:C -> nat -> list Z -> C) (call:C -> O)
  (pre post:list (step C)) w c refs d,
  (forall i p, In (i, p) refs -> last_write C pre p = None) ->
  nth (ncalls C pre) (world_history C O fill call w (pre ++ SCall c refs :: post)) d
  = option_map call (resolve C fill w c refs).
Proof. exact world_history_call_frame. Qed.
Print Assumptions session_world_history_call_frame.

Example session_world_history_hyps :
  last_write (list Z) [SWrite (0, 7) [11; 12]; SCall [] []; SWrite (1, 7) [12; 11]] (2, 7) = None /\
  last_write (list Z) [SWrite (0, 7) [11; 12]; SCall [] []; SWrite (0, 7) [12; 11]] (0, 7) = Some [12; 11].
Proof. split; reflexivity. Qed.
