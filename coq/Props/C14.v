(* Props/C14.v — C14: isin and unique have exact set semantics.
   Statements only; proofs in Proofs/Unique*.v.  `stored xs ind vals` = the (offsets, bytes) storage
   of the rows xs (an empty field stores indices = [] or [0]); `valid_col ss` = every Python str is a
   list of Unicode scalar values and does not end in NUL (F-C14b); strings are compared as UTF-8
   byte sequences (lexcmp on utf8_encode). *)
From Coq Require Import ZArith List Bool Sorted.
From EV Require Import Res Arr UniqueSpec Unique UniqueOrder UniqueUtf8 UniqueSort UniqueStore UniqueIsin
                       UniqueScan UniqueMain UniqueCor UniqueSafe UniqueContainer UniqueCoerce UniqueHash.
Import ListNotations.
Open Scope Z_scope.

(* ---- kernels ---- *)
(* full: compare_arrays is the lexicographic order on byte sequences, never out of bounds *)
Theorem compare_arrays_is_lex_order : forall a b, compare_arrays a b = Ok (cmp_code (lexcmp a b)).
Proof. exact UniqueIsin.compare_arrays_is_lex_order. Qed.
Print Assumptions compare_arrays_is_lex_order.

(* full: CPython's UTF-8 decoder inverts the encoder on scalar values *)
Theorem utf8_decode_encode : forall s, forallb scalarb s = true -> utf8_decode (utf8_encode s) = Some s.
Proof. exact UniqueUtf8.utf8_decode_encode. Qed.
Print Assumptions utf8_decode_encode.

(* full: code-point order (numpy's sort of str) = byte order of the UTF-8 encodings (the kernels' order) *)
Theorem utf8_encode_monotone : forall s t,
  Forall cp_range s -> Forall cp_range t -> lexcmp (utf8_encode s) (utf8_encode t) = lexcmp s t.
Proof. exact UniqueUtf8.utf8_encode_monotone. Qed.
Print Assumptions utf8_encode_monotone.

(* full: the binary search decides membership in any sorted test list, with fuel |tests| + 1 *)
Theorem isin_binary_search_correct : forall fuel v tests,
  lesorted tests -> (length tests < fuel)%nat ->
  bsearch fuel v tests 0 (len tests - 1) = Ok (existsb (eqc lexcmp v) tests).
Proof. exact UniqueIsin.bsearch_all. Qed.
Print Assumptions isin_binary_search_correct.

Example lesorted_example : lesorted [[]; [97]; [97]; [97; 98]; [195; 169]].
Proof. apply StronglySorted_lesorted. repeat constructor. Qed.

(* full, ANY arrays (malformed offsets, unsorted tests, invalid UTF-8): no out-of-bounds access,
   termination within the fuel — the memory-safety / termination half for the two kernels *)
Theorem isin_kernel_total : forall fuel tests ind vals,
  (length tests < fuel)%nat -> exists r, isin_indexed_string_speedup fuel tests ind vals = Ok r.
Proof. exact UniqueSafe.isin_kernel_total. Qed.
Print Assumptions isin_kernel_total.

Theorem unique_scan_total : forall wi wv wc ind vals,
  exists s, get_indexed_string_unique wi wv wc ind vals = Ok s.
Proof. exact UniqueSafe.unique_scan_total. Qed.
Print Assumptions unique_scan_total.

(* full: the scan returns each distinct row once, with first-occurrence index / inverse / counts *)
Theorem unique_scan_correct : forall wi wv wc xs ind vals,
  stored xs ind vals ->
  exists s, get_indexed_string_unique wi wv wc ind vals = Ok s /\ inv_ok wi wv wc xs s.
Proof. exact UniqueScan.unique_scan_correct. Qed.
Print Assumptions unique_scan_correct.

(* ---- the property: unique on indexed strings (repaired code, fixed = true) ---- *)
(* full, all columns, all 8 flag combinations: the result is the specification *)
Theorem unique_indexed_correct : forall ss ind vals ri rv rc,
  valid_col ss -> let xs := map utf8_encode ss in stored xs ind vals ->
  exists r, unique_for_indexed_string true ind vals ri rv rc = Ok r /\
            encode_result r = spec_unique lexcmp xs ri rv rc.
Proof. exact UniqueMain.unique_indexed_correct. Qed.
Print Assumptions unique_indexed_correct.

Example valid_col_example : valid_col [[99]; [97; 233]; []; [97; 0; 98]; [65536]; [97; 233]].
Proof. repeat constructor. Qed.
Example stored_example : stored [[99]; [97; 195; 169]; []] [0; 1; 4; 4] [99; 97; 195; 169].
Proof. split; [reflexivity|left; reflexivity]. Qed.
Example stored_empty_example : stored [] [] [] /\ stored [] [0] [].
Proof. split; (split; [reflexivity|]); [right; split; reflexivity|left; reflexivity]. Qed.

(* the property text, clause by clause, read off the model's result *)
Theorem unique_values_sorted_distinct : forall ss ind vals ri rv rc,
  valid_col ss -> let xs := map utf8_encode ss in stored xs ind vals ->
  exists u ix iv ct, unique_for_indexed_string true ind vals ri rv rc = Ok (u, ix, iv, ct) /\
    StronglySorted (slt lexcmp) (map utf8_encode u) /\
    (forall x, In x (map utf8_encode u) <-> In x xs).
Proof. exact UniqueCor.unique_values_sorted_distinct. Qed.
Print Assumptions unique_values_sorted_distinct.

Theorem unique_index_first_occurrence : forall ss ind vals rv rc,
  valid_col ss -> let xs := map utf8_encode ss in stored xs ind vals ->
  exists u ix iv ct, unique_for_indexed_string true ind vals true rv rc = Ok (u, Some ix, iv, ct) /\
    len ix = len u /\
    forall k, 0 <= k < len u ->
      let i := nthZ ix k in let v := utf8_encode (nthd [] u k) in
      0 <= i < len xs /\ nthd [] xs i = v /\ forall j, 0 <= j < i -> nthd [] xs j <> v.
Proof. exact UniqueCor.unique_index_first_occurrence. Qed.
Print Assumptions unique_index_first_occurrence.

Theorem unique_inverse_reconstructs : forall ss ind vals ri rc,
  valid_col ss -> let xs := map utf8_encode ss in stored xs ind vals ->
  exists u ix iv ct, unique_for_indexed_string true ind vals ri true rc = Ok (u, ix, Some iv, ct) /\
    len iv = len xs /\
    forall i, 0 <= i < len xs ->
      0 <= nthZ iv i < len u /\ utf8_encode (nthd [] u (nthZ iv i)) = nthd [] xs i.
Proof. exact UniqueCor.unique_inverse_reconstructs. Qed.
Print Assumptions unique_inverse_reconstructs.

Theorem counts_sum : forall ss ind vals ri rv,
  valid_col ss -> let xs := map utf8_encode ss in stored xs ind vals ->
  exists u ix iv ct, unique_for_indexed_string true ind vals ri rv true = Ok (u, ix, iv, Some ct) /\
    len ct = len u /\ sumZ ct = len xs /\
    forall k, 0 <= k < len u -> nthZ ct k = count lexcmp (utf8_encode (nthd [] u k)) xs /\ 1 <= nthZ ct k.
Proof. exact UniqueCor.unique_counts_sum. Qed.
Print Assumptions counts_sum.

(* refuted for the code as found (fixed = false): F-C14a, witness ['c','a','b','a'] *)
Theorem unique_inverse_refuted :
  exists ss, valid_col ss /\
    let xs := map utf8_encode ss in
    forall r, unique_for_indexed_string false (offsets_of xs) (values_of xs) false true false = Ok r ->
              encode_result r <> spec_unique lexcmp xs false true false.
Proof. exact UniqueMain.unique_inverse_refuted. Qed.
Print Assumptions unique_inverse_refuted.

(* refuted outside valid_col: F-C14b, witness ['a\0','a'] (numpy str arrays drop trailing NULs) *)
Theorem unique_trailing_nul_refuted :
  exists ss, let xs := map utf8_encode ss in
    forall r, unique_for_indexed_string true (offsets_of xs) (values_of xs) false false false = Ok r ->
              encode_result r <> spec_unique lexcmp xs false false false.
Proof. exact UniqueMain.unique_trailing_nul_refuted. Qed.
Print Assumptions unique_trailing_nul_refuted.

(* ---- the property: isin on indexed strings ---- *)
(* full: any column of byte strings (valid UTF-8 or not), any test list with None entries and
   duplicates in any order (a set or array is converted to such a list), fuel |tests| + 1 *)
Theorem isin_indexed_correct : forall (ts:list (option (list Z))) xs ind vals fuel,
  Forall (fun s => valid_strb s = true) (somes ts) -> stored xs ind vals ->
  (fuel >= isin_fuel (somes ts))%nat ->
  isin_for_indexed_string_field fuel (Some ts) ind vals
  = Ok (spec_isin lexcmp xs (map (option_map utf8_encode) ts)).
Proof. exact UniqueIsin.isin_indexed_correct. Qed.
Print Assumptions isin_indexed_correct.

Example isin_hyp_example :
  Forall (fun s => valid_strb s = true) (somes [Some [97; 233]; None; Some []; Some [97; 233]]) /\
  (4 >= isin_fuel (somes [Some [97; 233]; None; Some []; Some [97; 233]])%Z)%nat.
Proof. split; [repeat constructor|cbn; auto]. Qed.

Theorem isin_membership : forall (ts:list (option (list Z))) xs ind vals fuel,
  Forall (fun s => valid_strb s = true) (somes ts) -> stored xs ind vals ->
  (fuel >= isin_fuel (somes ts))%nat ->
  exists flags, isin_for_indexed_string_field fuel (Some ts) ind vals = Ok flags /\
    len flags = len xs /\
    forall i, 0 <= i < len xs ->
      (nthd false flags i = true <-> exists s, In (Some s) ts /\ utf8_encode s = nthd [] xs i).
Proof. exact UniqueCor.isin_membership. Qed.
Print Assumptions isin_membership.

(* ---- isin does not depend on the container form of the test values ---- *)
(* full: Field.isin accepts a list, a set or an ndarray (a set is converted with list(...): each member once, in an
   order the caller does not control; lists / arrays may repeat members).  Two collections with the same non-None
   members give the same answer: for the specification over every carrier ... *)
Theorem spec_isin_container_independent : forall (A:Type) (cmp:A -> A -> comparison) xs ts ts',
  same_members ts ts' -> spec_isin cmp xs ts = spec_isin cmp xs ts'.
Proof. exact @UniqueContainer.spec_isin_container_independent. Qed.
Print Assumptions spec_isin_container_independent.

(* ... in particular for a collection with a repeated member and its de-duplicated form ... *)
Theorem spec_isin_duplicate_member : forall (A:Type) (cmp:A -> A -> comparison) xs t ts,
  In t ts -> spec_isin cmp xs (t :: ts) = spec_isin cmp xs ts.
Proof. exact @UniqueContainer.spec_isin_dup. Qed.
Print Assumptions spec_isin_duplicate_member.

(* ... and for the model of the indexed-string path (np.sort, UTF-8 encoding, binary search), rows of any byte length *)
Theorem isin_indexed_container_independent : forall (ts ts':list (option (list Z))) xs ind vals fuel fuel',
  Forall (fun s => valid_strb s = true) (somes ts) ->
  Forall (fun s => valid_strb s = true) (somes ts') ->
  stored xs ind vals ->
  (fuel >= isin_fuel (somes ts))%nat -> (fuel' >= isin_fuel (somes ts'))%nat ->
  same_members ts ts' ->
  isin_for_indexed_string_field fuel (Some ts) ind vals = isin_for_indexed_string_field fuel' (Some ts') ind vals.
Proof. exact UniqueContainer.isin_indexed_container_independent. Qed.
Print Assumptions isin_indexed_container_independent.

Example same_members_example : same_members [Some [98]; None; Some [97]; Some [98]] [Some [97]; Some [98]].
Proof. intros a; cbn [In]; split; intros H; repeat (destruct H as [H|H]; try discriminate; auto). Qed.

(* ---- the specification functions meet the property text, for every field type's carrier ---- *)
(* integers: numeric, categorical, timestamp ticks *)
Theorem spec_Z_inverse_reconstructs : forall xs i, 0 <= i < len xs ->
  let k := index_of Z.compare (nthZ xs i) (sort_uniq Z.compare xs) 0 in
  0 <= k < len (sort_uniq Z.compare xs) /\ nthZ (sort_uniq Z.compare xs) k = nthZ xs i.
Proof. exact (spec_inverse_reconstructs Z.compare Z.compare_eq_iff 0). Qed.
Print Assumptions spec_Z_inverse_reconstructs.

Theorem spec_Z_counts_sum : forall xs,
  sumZ (map (fun x => count Z.compare x xs) (sort_uniq Z.compare xs)) = len xs.
Proof. exact (spec_counts_sum Z.compare Z.compare_eq_iff Zcompare_antisym Zcompare_trans). Qed.
Print Assumptions spec_Z_counts_sum.

Theorem spec_Z_uniques_sorted_distinct : forall xs,
  StronglySorted (fun a b => a < b) (sort_uniq Z.compare xs) /\
  forall x, In x (sort_uniq Z.compare xs) <-> In x xs.
Proof.
  intros xs. split; [|exact (spec_uniques_members Z.compare Z.compare_eq_iff xs)].
  exact (spec_uniques_sorted Z.compare Z.compare_eq_iff Zcompare_antisym Zcompare_trans xs).
Qed.
Print Assumptions spec_Z_uniques_sorted_distinct.

Theorem spec_Z_index_first_occurrence : forall xs k, 0 <= k < len (sort_uniq Z.compare xs) ->
  let u := nthZ (sort_uniq Z.compare xs) k in
  let i := index_of Z.compare u xs 0 in
  0 <= i < len xs /\ nthZ xs i = u /\ forall j, 0 <= j < i -> nthZ xs j <> u.
Proof. exact (spec_index_first_occurrence Z.compare Z.compare_eq_iff 0). Qed.
Print Assumptions spec_Z_index_first_occurrence.

Theorem spec_Z_isin_iff : forall xs tests i, 0 <= i < len xs ->
  (nthd false (spec_isin Z.compare xs tests) i = true <-> In (Some (nthZ xs i)) tests).
Proof. intros xs tests i Hi. exact (spec_isin_iff Z.compare Z.compare_eq_iff xs tests i Hi 0). Qed.
Print Assumptions spec_Z_isin_iff.

(* byte strings: fixed-string fields, and the indexed-string specification used above *)
Theorem spec_bytes_inverse_reconstructs : forall xs i, 0 <= i < len xs ->
  let k := index_of lexcmp (nthd [] xs i) (sort_uniq lexcmp xs) 0 in
  0 <= k < len (sort_uniq lexcmp xs) /\ nthd [] (sort_uniq lexcmp xs) k = nthd [] xs i.
Proof. exact (spec_inverse_reconstructs lexcmp lexcmp_eq []). Qed.
Print Assumptions spec_bytes_inverse_reconstructs.

Theorem spec_bytes_counts_sum : forall xs,
  sumZ (map (fun x => count lexcmp x xs) (sort_uniq lexcmp xs)) = len xs.
Proof. exact (spec_counts_sum lexcmp lexcmp_eq lexcmp_antisym lexcmp_trans). Qed.
Print Assumptions spec_bytes_counts_sum.

Theorem spec_bytes_uniques_sorted_distinct : forall xs,
  StronglySorted (slt lexcmp) (sort_uniq lexcmp xs) /\ forall x, In x (sort_uniq lexcmp xs) <-> In x xs.
Proof.
  intros xs. split; [|exact (spec_uniques_members lexcmp lexcmp_eq xs)].
  exact (spec_uniques_sorted lexcmp lexcmp_eq lexcmp_antisym lexcmp_trans xs).
Qed.
Print Assumptions spec_bytes_uniques_sorted_distinct.

Theorem spec_bytes_isin_iff : forall xs tests i, 0 <= i < len xs ->
  (nthd false (spec_isin lexcmp xs tests) i = true <-> In (Some (nthd [] xs i)) tests).
Proof. intros xs tests i Hi. exact (spec_isin_iff lexcmp lexcmp_eq xs tests i Hi []). Qed.
Print Assumptions spec_bytes_isin_iff.

(* ---- non-indexed field types: the numpy dispatch is DEFINED as the specification ---- *)
(* definitional (no content beyond the definition): np.unique / np.isin are external; that they
   behave as spec_unique / spec_isin is established by the correspondence run only *)
Theorem plain_dispatch_definitional : forall (A:Type) (cmp:A -> A -> comparison) data ri rv rc tests,
  apply_unique_plain cmp data ri rv rc = spec_unique cmp data ri rv rc /\
  apply_isin_plain cmp data tests = spec_isin cmp data tests.
Proof. intros. split; reflexivity. Qed.
Print Assumptions plain_dispatch_definitional.

(* ---- integer columns: exact membership at every magnitude (repair of F-C14c) ---- *)
(* full: the repaired integer path of apply_isin (None entries and integers outside the column's dtype
   [lo, hi] dropped, the rest compared in the column's own dtype) = the specification, for every column
   the dtype can hold - no bound on the magnitude (beyond 2^53, at the int64 / uint64 extremes) *)
Theorem isin_int_exact : forall lo hi (data:list Z) (tests:list (option Z)),
  Forall (fun x => lo <= x <= hi) data ->
  apply_isin_int lo hi data tests = spec_isin Z.compare data tests.
Proof. exact UniqueCoerce.isin_int_exact. Qed.
Print Assumptions isin_int_exact.

(* full: an implicit coercion of column and test values (int -> float64, int64 <-> uint64, narrowing) is
   unobservable when it is injective on the (column value, test value) pairs ... *)
Theorem isin_coercion_injective : forall (c:Z -> Z) (data:list Z) (tests:list (option Z)),
  (forall x t, In x data -> In (Some t) tests -> c x = c t -> x = t) ->
  isin_coerced c data tests = spec_isin Z.compare data tests.
Proof. exact UniqueCoerce.isin_coercion_injective. Qed.
Print Assumptions isin_coercion_injective.

(* full: ... and observable as soon as it merges a row's value with a test value while the row's value is
   not a member: that row is a false positive (what the generators' collision pairs plant) *)
Theorem isin_coercion_collision : forall (c:Z -> Z) (data:list Z) (tests:list (option Z)) i t,
  0 <= i < len data -> In (Some t) tests -> c (nthZ data i) = c t -> ~ In (Some (nthZ data i)) tests ->
  nthd false (isin_coerced c data tests) i = true /\ nthd false (spec_isin Z.compare data tests) i = false.
Proof. exact UniqueCoerce.isin_coercion_collision. Qed.
Print Assumptions isin_coercion_collision.

(* refuted (R): comparing in binary64 (a None entry replaced by NaN types the test values float64) is not
   exact beyond 2^53; witness column [2^53+1, 5], tests [2^53, None] *)
Theorem isin_float64_coercion_refuted : exists data tests,
  isin_coerced f64_round data tests <> spec_isin Z.compare data tests.
Proof.
  exists [2 ^ 53 + 1; 5], [Some (2 ^ 53); None]. destruct UniqueCoerce.coerced_f64_refuted as [H1 [H2 _]].
  rewrite H1, H2. discriminate.
Qed.
Print Assumptions isin_float64_coercion_refuted.

(* ---- hash buckets (region (f) of the generators) ---- *)
(* full: for ANY function h of the bytes into ANY type with a reflexive equality test, the scan whose lookup compares a
   row only with the values in the row's hash bucket (all of them) IS the scan of get_indexed_string_unique: values,
   first-occurrence indices, inverse and counts do not depend on how the values are partitioned into buckets
   (a partition induced by a function of the value is always consistent with equality).  With unique_scan_correct /
   unique_indexed_correct: a correctly bucketed implementation satisfies the specification whatever its hash. *)
Theorem unique_hash_bucket_independent : forall (B:Type) (h:list Z -> B) (beq:B -> B -> bool),
  (forall b, beq b b = true) ->
  forall wi wv wc ind vals,
    get_indexed_string_unique_with (fun v us => find_equal_bucket B h beq v us 0) wi wv wc ind vals
    = get_indexed_string_unique wi wv wc ind vals.
Proof. exact UniqueHash.unique_hash_bucket_independent. Qed.
Print Assumptions unique_hash_bucket_independent.

Example hash_bucket_hyp_example : forall b:Z, Z.eqb b b = true.
Proof. exact Z.eqb_refl. Qed.

(* full: any lookup that agrees with the linear one yields the same scan *)
Theorem unique_lookup_extensional : forall lookup,
  (forall v us, lookup v us = find_equal v us 0) ->
  forall wi wv wc ind vals,
    get_indexed_string_unique_with lookup wi wv wc ind vals = get_indexed_string_unique wi wv wc ind vals.
Proof. exact UniqueHash.get_unique_with_eq. Qed.
Print Assumptions unique_lookup_extensional.

(* refuted (R): a lookup that keeps ONE value per bucket (the latest) is a different function as soon as two different
   values share a bucket and the earlier one recurs: h = len, then h*31+c; column 'Aa', 'BB', 'Aa' *)
Theorem unique_hash_single_slot_refuted :
  exists xs ind vals, stored xs ind vals /\
    get_indexed_string_unique_with (find_equal_slot Z poly31 Z.eqb) true true true ind vals
    <> get_indexed_string_unique true true true ind vals.
Proof. exact UniqueHash.unique_hash_single_slot_refuted. Qed.
Print Assumptions unique_hash_single_slot_refuted.
