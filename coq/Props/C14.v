(* Props/C14.v — placeholder until Proofs/Unique*.v land *)
From Coq Require Import ZArith List.
From EV Require Import Res Arr UniqueSpec Unique.
Import ListNotations.
Open Scope Z_scope.

(* F-C14a: the code as found composes the inverse with indices_sort itself; ['c','a','b','a'] *)
Theorem unique_inverse_refuted :
  exists xs, option_map encode_result
               (match unique_for_indexed_string false (offsets_of xs) (values_of xs) false true false with
                | Ok r => Some r | _ => None end)
             <> Some (spec_unique lexcmp xs false true false).
Proof. exists [[99];[97];[98];[97]]. vm_compute. discriminate. Qed.
Print Assumptions unique_inverse_refuted.
