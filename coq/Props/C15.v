(* Props/C15.v — C15: the catalogue stays consistent under any history of structural edits.
   Model: Model/Catalogue.v (dual Python / HDF5 catalogue, statement by statement);
   specification: Spec/CatalogueSpec.v (verdicts on observations) and the state invariant Inv of
   Proofs/CatalogueInv.v.  `repaired c` = the code after fix-F-C15a.diff and fix-F-C15b.diff (fix_c free:
   both variants of IndexedStringField.__init__ are covered). *)
From Coq Require Import ZArith List Bool.
From EV Require Import Res Catalogue CatalogueSpec CatalogueIdentSpec CatalogueBase CatalogueInv CatalogueRename CatalogueRenameOk CatalogueStep CatalogueObs CatalogueData CatalogueHandles CatalogueVerdicts CatalogueTrace CatalogueWitness CatalogueIdent CatalogueIdentTrace CatalogueLoader CatalogueLoaderOk.
Import ListNotations.
Open Scope Z_scope.

(* ---- (1) FULL: after any history (any length, any names, any dataset indices, failing operations
   included) the in-memory catalogue and the HDF5 link tables agree at both levels, field objects in a
   catalogue are valid and sit in exactly one place *)
Theorem c15_reachable_inv : forall c ops,
  fix_a c = true -> fix_b c = true -> Inv (run_ops c ops init_state).
Proof. exact reachable_Inv. Qed.
Print Assumptions c15_reachable_inv.

Theorem c15_step_inv : forall c p s s' r,
  fix_a c = true -> fix_b c = true -> Inv s -> step c p s = (s', r) -> Inv s'.
Proof. exact step_Inv. Qed.
Print Assumptions c15_step_inv.

(* the verdict the harness evaluates after every step (names reported = groups present, per frame and per
   dataset) is true in every reachable state, whatever handles are held *)
Theorem c15_names_are_groups : forall c ops held,
  fix_a c = true -> fix_b c = true -> chk_inv (observe (run_ops c ops init_state) held) = true.
Proof. exact names_are_groups. Qed.
Print Assumptions c15_names_are_groups.

(* ---- (2) FULL: a fresh reopen (catalogue rebuilt from the link tables) finds under every frame / field
   name the same type and data as the live objects *)
Theorem c15_reopen_same : forall c ops i d n,
  fix_a c = true -> fix_b c = true ->
  live_lookup (run_ops c ops init_state) i d n = file_lookup (run_ops c ops init_state) i d n.
Proof. exact reopen_same. Qed.
Print Assumptions c15_reopen_same.

(* ---- (2b) FULL: the reopen WITH the loader's filter (Model/CatalogueLoader.v: HDF5Dataset.__init__ skips the one
   reserved top-level group name 'trash').  For every frame name other than that name - substrings, prefixes, suffixes,
   superstrings and case variants of it included: names are arbitrary byte lists - the reopened dataset finds under every
   field name the type and data the live objects hold; the reserved name itself, and nothing else, is hidden (which is
   why the harness never generates it as a frame name); and when the file holds no group of that name the loaded view
   is exactly the reopen view the final verdict is stated on. *)
Theorem c15_loader_reopen_same : forall c ops i d n,
  fix_a c = true -> fix_b c = true -> d <> reserved_group ->
  loaded_lookup (run_ops c ops init_state) i d n = live_lookup (run_ops c ops init_state) i d n.
Proof. exact loader_reopen_same. Qed.
Print Assumptions c15_loader_reopen_same.

Theorem c15_loader_hides_reserved : forall s i n, loaded_lookup s i reserved_group n = None.
Proof. exact loader_hides_reserved. Qed.
Print Assumptions c15_loader_hides_reserved.

Theorem c15_loaded_view_is_reopen_view : forall s i,
  (forall kg, In kg (h5_root s i) -> fst kg <> reserved_group) -> loaded_view s i = reopen_view s i.
Proof. exact loaded_view_is_reopen_view. Qed.
Print Assumptions c15_loaded_view_is_reopen_view.
(* non-vacuity: Proofs/CatalogueLoaderOk.v loader_keeps_relatives (24 relatives of the reserved name are kept, it is not) *)

(* ---- (3) FULL: rename is all or nothing.  If it raises (unknown key, clash) the state is unchanged; if it
   returns, the frame lists `subst m` of its old names in the old order on the Python side, the h5 group holds
   the same map, nothing else moved, no data or validity flag changed.  In particular the two passes of h5
   moves through generated temporary names can never fail after the clash check (get_unique_name terminates
   within |used|+1 iterations: unique_name_ok). *)
Theorem c15_rename_all_or_nothing : forall c i d m s s' r,
  fix_a c = true -> Inv s -> step c (ORename i d m) s = (s', r) ->
  Inv s' /\ (is_ok r = false -> s' = s) /\
  (is_ok r = true -> exists g, d_find (py_dfs s i) d = Some g /\
     py_cols s' g = renamed m (py_cols s g) /\ same_map (py_cols s' g) (h5_grp s' g) /\
     (forall x, x <> g -> py_cols s' x = py_cols s x /\ h5_grp s' x = h5_grp s x) /\
     (forall j, py_dfs s' j = py_dfs s j) /\ (forall j, h5_root s' j = h5_root s j) /\
     (forall x, py_name s' x = py_name s x) /\ (forall f, py_valid s' f = py_valid s f) /\
     (forall f, fld_type s' f = fld_type s f) /\ (forall f, fld_data s' f = fld_data s f)).
Proof. exact rename_step_spec. Qed.
Print Assumptions c15_rename_all_or_nothing.

Theorem c15_unique_name_terminates : forall nm used,
  exists u, unique_name (S (length used)) nm used = Ok u /\ ~ In u used /\ (u = nm \/ In nm used).
Proof. exact unique_name_ok. Qed.
Print Assumptions c15_unique_name_terminates.

(* ---- (4) FULL: a field handle held across a successful rename is afterwards the column `subst m k`, on both
   sides, as valid as before, same type and data *)
Theorem c15_handles_follow_rename : forall c i d m s s' g k f,
  fix_a c = true -> Inv s -> step c (ORename i d m) s = (s', Ok tt) ->
  d_find (py_dfs s i) d = Some g -> d_find (py_cols s g) k = Some f ->
  d_find (py_cols s' g) (subst m k) = Some f /\ d_find (h5_grp s' g) (subst m k) = Some f /\
  py_valid s' f = py_valid s f /\ fld_type s' f = fld_type s f /\ fld_data s' f = fld_data s f.
Proof. exact handles_follow_rename. Qed.
Print Assumptions c15_handles_follow_rename.

(* ---- (5) FULL: after dataframe.move to another frame the old handle says invalid and the destination holds a
   valid field with the moved type and data *)
Theorem c15_moved_handle_invalid : forall c i d n j d' n' s s' sg f g,
  fix_a c = true -> Inv s -> step c (OFMove i d n j d' n') s = (s', Ok tt) ->
  d_find (py_dfs s i) d = Some sg -> d_find (py_cols s sg) n = Some f -> d_find (py_dfs s j) d' = Some g -> sg <> g ->
  py_valid s' f = false /\
  exists nf, d_find (py_cols s' g) n' = Some nf /\ py_valid s' nf = true /\
             fld_type s' nf = fld_type s f /\ fld_data s' nf = fld_data s f.
Proof. exact move_step_invalid. Qed.
Print Assumptions c15_moved_handle_invalid.

(* ---- (6) FULL, for BOTH code variants and whatever the outcome of the operation: a field object that exists
   before a step has the same type and the same stored data after it ("untouched fields keep their data";
   touched ones too) *)
Theorem c15_fields_keep_data : forall c p s s' r f,
  step c p s = (s', r) -> f < next_id s ->
  fld_type s' f = fld_type s f /\ fld_data s' f = fld_data s f /\ next_id s <= next_id s'.
Proof. exact step_keeps_data. Qed.
Print Assumptions c15_fields_keep_data.

(* ---- (6b) FULL (after fix F-C15d): a create_<type> call whose remaining arguments are invalid (unknown nformat, empty
   categorical key, fixed-string length 0: type codes >= 5 of the model) raises and changes nothing at all — in
   particular it leaves no group behind in the file. As found, base_field_contructor had already created the group when
   the specific constructor failed: the file then held a group the dataframe did not list (witness: corpus/C15). *)
Theorem c15_invalid_create_changes_nothing : forall c i d n t dat s s' r,
  5 <= t -> step c (OCreate i d n t dat) s = (s', r) -> s' = s /\ is_ok r = false.
Proof. exact invalid_create_changes_nothing. Qed.
Print Assumptions c15_invalid_create_changes_nothing.

(* ---- (7) FULL trace theorem: everything ./check evaluates on the model side is true on every history.
   For every history whose dataframe.move operations address the two observed files (wf_op; the harness never
   does otherwise), every verdict of every recorded step - names = groups, live handles keep type and data, a
   df.rename that raises leaves the whole observation unchanged and one that returns (or a move within a frame)
   substitutes the names in the frame listing and in the handle statuses, a move across frames invalidates the old
   handle and shows a live one at the destination with the moved type and data - and the final reopen comparison
   of both files are true.  The recording never stops early. *)
Theorem c15_all_verdicts_true : forall c ops,
  fix_a c = true -> fix_b c = true -> Forall wf_op ops -> case_ok c ops = true.
Proof. exact case_ok_true. Qed.
Print Assumptions c15_all_verdicts_true.

Theorem c15_step_verdicts : forall c p s s' r held,
  fix_a c = true -> Inv s -> closed s held -> (forall f, In f held -> f < next_id s) -> wf_op p ->
  step c p s = (s', r) -> Inv s' ->
  all_true (verdicts p (is_ok r) (observe s held) (observe s' (rescan s' held))) = true.
Proof. exact step_verdicts. Qed.
Print Assumptions c15_step_verdicts.

(* ---- (3b) FULL: WHEN rename succeeds.  In a consistent state ds_i[d].rename(m) returns exactly when the keys of m are
   distinct column names and the resulting names are distinct — for every order in which the columns were created (the
   order of the two passes, hence the choice of the temporary names) and every names, '_'-suffixed variants of one another
   included.  So every permutation / cycle / chain / identity mapping of any number of columns is carried out
   (c15_rename_all_or_nothing then says what the frame lists).  Examples computed on the model:
   CatalogueRenameOk.three_cycle_computed (columns created as a_, a__, a), two_swaps_computed (a, b_, a_, b). *)
Theorem c15_rename_succeeds_iff : forall c i d m s g,
  fix_a c = true -> Inv s -> d_find (py_dfs s i) d = Some g ->
  ((exists s', step c (ORename i d m) s = (s', Ok tt)) <->
   (NoDup (d_keys m) /\ incl (d_keys m) (d_keys (py_cols s g)) /\ NoDup (map (subst m) (d_keys (py_cols s g))))).
Proof. exact rename_step_succeeds_iff. Qed.
Print Assumptions c15_rename_succeeds_iff.

Theorem c15_permutation_rename_succeeds : forall c g m s,
  fix_a c = true -> df_ok s g ->
  NoDup (d_keys m) -> incl (d_keys m) (d_keys (py_cols s g)) -> NoDup (map (subst m) (d_keys (py_cols s g))) ->
  exists s', df_rename c g m s = (s', Ok tt) /\ py_cols s' g = renamed m (py_cols s g) /\
             same_map (h5_grp s' g) (py_cols s' g).
Proof. exact permutation_rename_succeeds. Qed.
Print Assumptions c15_permutation_rename_succeeds.

(* ---- (8) FULL: object identity of dataframes.  The model has one object per frame (its id g; the Python DataFrame
   object and its h5py group are created together).  require_dataframe on a name the dataset serves — whatever the frame
   holds, nothing included — hands back the catalogued object and changes nothing at all; on a new name it binds the name
   to the object it returns; in both cases no name is re-bound (in any state, both code variants). *)
Theorem c15_require_returns_catalogued : forall c i n s s' g,
  ds_require_dataframe c i n s = (s', Ok g) ->
  d_find (py_dfs s' i) n = Some g /\ (forall g0, d_find (py_dfs s i) n = Some g0 -> g = g0 /\ s' = s).
Proof. exact require_returns_catalogued. Qed.
Print Assumptions c15_require_returns_catalogued.

Theorem c15_require_keeps_bindings : forall c i d s s' r j k g,
  step c (ORequireDF i d) s = (s', r) -> d_find (py_dfs s j) k = Some g -> d_find (py_dfs s' j) k = Some g.
Proof. intros c i d s s' r j k g E. exact (step_require_keeps_bindings c i d s s' r E j k g). Qed.
Print Assumptions c15_require_keeps_bindings.

(* a lookup ds[name] is pure *)
Theorem c15_lookup_pure : forall i n s s' r,
  ds_getitem i n s = (s', r) -> s' = s /\ (forall g, r = Ok g <-> d_find (py_dfs s i) n = Some g).
Proof. exact ds_getitem_lookup. Qed.
Print Assumptions c15_lookup_pure.

(* every one of the 18 operations, whatever its outcome: a name a dataset serves before and after the step is served by
   the same object (a handle kept by a caller stays THE dataframe of that name); the nine field-level operations do not
   touch any dataset's catalogue at all *)
Theorem c15_bindings_stable : forall c p s s' r j k g g',
  fix_b c = true -> Inv s -> step c p s = (s', r) ->
  d_find (py_dfs s j) k = Some g -> d_find (py_dfs s' j) k = Some g' -> g = g'.
Proof. intros c p s s' r j k g g' FB I E. exact (step_bindings_stable c p s s' r FB I E j k g g'). Qed.
Print Assumptions c15_bindings_stable.

Theorem c15_field_ops_keep_catalogue : forall c p s s' r,
  field_level p = true -> step c p s = (s', r) -> py_dfs s' = py_dfs s.
Proof. intros c p s s' r FL E. exact (kd_step_field_level c p FL s s' r E). Qed.
Print Assumptions c15_field_ops_keep_catalogue.

(* the identity verdict ./check evaluates (Spec/CatalogueIdentSpec.v: chk_ident on the identity observation) is true on
   every step of every history *)
Theorem c15_ident_verdict_true : forall c ops,
  fix_a c = true -> fix_b c = true -> forallb (fun x => snd x) (ident_trace c ops init_state) = true.
Proof. exact ident_trace_true. Qed.
Print Assumptions c15_ident_verdict_true.

(* non-vacuity examples: Proofs/CatalogueWitness.v (repaired_rename_ok, repaired_move_ok) *)

(* ---- REFUTED (code as found): F-C15a.  rename({a: 'a_', b: 'a'}) on columns [a, b] has no clash, but both
   keys get the temporary name 'a_' (chosen against the original columns only); the second h5 move raises,
   _columns still says [a, b] while the file has [a_, b]: a reachable state that violates the invariant,
   produced by a rename that raised. *)
Theorem c15_rename_temp_collision_refuted :
  let s := run_ops as_found two_cols init_state in
  let (s', r) := step as_found (ORename 0 D [(A, A_); (B, A)]) s in
  chk_inv (observe s []) = true /\ is_ok r = false /\ chk_inv (observe s' []) = false /\
  obs_eqb (observe s []) (observe s' []) = false.
Proof. exact rename_temp_collision_witness. Qed.
Print Assumptions c15_rename_temp_collision_refuted.

Theorem c15_as_found_breaks_inv_a_refuted : exists ops, ~ Inv (run_ops as_found ops init_state).
Proof. exact as_found_breaks_inv_a. Qed.
Print Assumptions c15_as_found_breaks_inv_a_refuted.

(* ---- REFUTED (code as found): F-C15b.  ds['e'] = ds['d'] with 'e' existing mutates _dataframes before
   file.move raises: keys ['e'] against groups ['d', 'e']. *)
Theorem c15_dataset_setitem_clash_refuted :
  let s := run_ops as_found two_frames init_state in
  let (s', r) := step as_found (ODSSetItem 0 E 0 D) s in
  chk_inv (observe s []) = true /\ is_ok r = false /\ chk_inv (observe s' []) = false.
Proof. exact dataset_setitem_clash_witness. Qed.
Print Assumptions c15_dataset_setitem_clash_refuted.

Theorem c15_as_found_breaks_inv_b_refuted : exists ops, ~ Inv (run_ops as_found ops init_state).
Proof. exact as_found_breaks_inv_b. Qed.
Print Assumptions c15_as_found_breaks_inv_b_refuted.
