(* Props/C15.v — placeholder until Proofs land *)
From Coq Require Import ZArith List.
From EV Require Import Res Catalogue CatalogueSpec.
Import ListNotations.
Open Scope Z_scope.

Theorem c15_smoke : case_ok (mkCfg true true true) [OCreateDF 0 [100]; OCreate 0 [100] [97] 0 [1]; ORename 0 [100] [([97],[98])]] = true.
Proof. vm_compute. reflexivity. Qed.
Print Assumptions c15_smoke.
