(* Props/C04.v — theorems of property C04 (statements only; proofs in coq/Proofs/MapStream*.v).
   Model: coq/Model/MapStream.v (version Fixed = /repo after work/C04/fix-*.diff, Orig = as found).
   Spec:  coq/Spec/MapStreamSpec.v. *)
From Coq Require Import ZArith List Lia.
From EV Require Import Res Arr MapStream MapStreamSpec MapStreamBase MapStreamFixed MapStreamRefuted MapHelpers
  MapIndexedBase MapIndexedKernel MapIndexedDriver MapIndexedHelper MapStreamOrig.
Import ListNotations.
Open Scope Z_scope.

(* ---- streaming, fixed-width element types (numeric, bool, fixed string): FULL ----------------
   For every element type, every invalid marker, every chunk size >= 1, every source and every
   map whose valid entries are in range and non-decreasing: the repaired driver terminates with
   any fuel >= |map|+1 and yields exactly map_spec (length |map|, row r = data[map[r]] or empty). *)
Theorem map_stream_correct :
  forall (A:Type) (zfill empty:A) (data:list A) (inv:Z) (m:list Z) (cs:Z) (fuel:nat),
    1 <= cs -> valid_map (len data) inv m -> (fuel >= length m + 1)%nat ->
    ordered_map_valid_stream zfill empty fuel Fixed data m inv cs = Ok (map_spec empty data inv m).
Proof. exact @map_stream_correct_gen. Qed.
Print Assumptions map_stream_correct.

Example map_stream_correct_hyps :
  valid_mapb 6 INVALID_INDEX_32 [INVALID_INDEX_32; 0; 2; 2; INVALID_INDEX_32; 5; INVALID_INDEX_32] = true.
Proof. reflexivity. Qed.

(* ---- streaming, indexed-string sources: FULL in the property's regime ------------------------
   For every well-formed indexed column (offsets start at 0, non-decreasing, end at |values|),
   every marker, every chunk size >= 1 and value factor >= 0 such that every *mapped* entry fits
   the value buffer of chunksize*value_factor bytes ("every value-buffer size that can hold the
   longest entry"), every valid map: the repaired driver terminates with any fuel >=
   |map|+|offsets|+1 and yields the prefix-sum offsets and concatenated bytes of the mapped
   strings (empty string where the map holds the marker). *)
Theorem indexed_stream_correct :
  forall (d_idx d_val:list Z) (inv:Z) (m:list Z) (cs vf:Z) (fuel:nat),
    wf_indexed d_idx d_val -> 1 <= cs -> 0 <= vf ->
    valid_map (len d_idx - 1) inv m -> entries_fit d_idx d_val inv m (cs * vf) ->
    (fuel >= length m + length d_idx + 1)%nat ->
    ordered_map_valid_indexed_stream fuel Fixed d_idx d_val m inv cs vf = Ok (indexed_spec d_idx d_val inv m).
Proof. exact indexed_stream_correct_top. Qed.
Print Assumptions indexed_stream_correct.

Example indexed_stream_correct_hyps :   (* 'a','bb','','dddd'; buffer 4 bytes; marker S64 *)
  valid_mapb 4 INVALID_INDEX_64 [INVALID_INDEX_64; 0; 1; 1; INVALID_INDEX_64; 3] = true /\
  ordered_map_valid_indexed_stream 20 Fixed [0;1;3;3;7] [97;98;98;100;100;100;100]
     [INVALID_INDEX_64; 0; 1; 1; INVALID_INDEX_64; 3] INVALID_INDEX_64 2 2
  = Ok ([0;0;1;3;5;5;9], [97;98;98;98;98;100;100;100;100]).
Proof. split; vm_compute; reflexivity. Qed.

(* ---- non-streaming helpers give the same answer: FULL ------------------------------------------
   (no ordering needed: valid entries only have to be in range) *)
Theorem map_valid_correct :
  forall (A:Type) (empty:A) (data:list A) (inv:Z) (m:list Z),
    in_range_map (len data) inv m -> map_valid empty data m inv = Ok (map_spec empty data inv m).
Proof. exact @map_valid_correct_gen. Qed.
Print Assumptions map_valid_correct.

Theorem safe_map_values_correct :
  forall (A:Type) (empty:A) (data:list A) (inv:Z) (m:list Z) (ev:option A),
    in_range_map (len data) inv m ->
    safe_map_values empty Fixed data m (filter_of inv m) ev
    = Ok (map_spec (match ev with Some e => e | None => empty end) data inv m).
Proof. exact @safe_map_values_correct_gen. Qed.
Print Assumptions safe_map_values_correct.

Theorem safe_map_indexed_values_correct :
  forall (d_idx d_val:list Z) (inv:Z) (m ev:list Z),
    wf_indexed d_idx d_val -> in_range_map (len d_idx - 1) inv m ->
    safe_map_indexed_values d_idx d_val m (filter_of inv m) ev
    = Ok (let strs := map_spec ev (decode d_idx d_val) inv m in (offsets_of strs, concat strs)).
Proof. exact safe_map_indexed_values_correct_top. Qed.
Print Assumptions safe_map_indexed_values_correct.

Theorem indexed_stream_equals_helper :   (* streaming and non-streaming indexed mapping agree *)
  forall (d_idx d_val:list Z) (inv:Z) (m:list Z) (cs vf:Z) (fuel:nat),
    wf_indexed d_idx d_val -> 1 <= cs -> 0 <= vf ->
    valid_map (len d_idx - 1) inv m -> entries_fit d_idx d_val inv m (cs * vf) ->
    (fuel >= length m + length d_idx + 1)%nat ->
    ordered_map_valid_indexed_stream fuel Fixed d_idx d_val m inv cs vf
    = safe_map_indexed_values d_idx d_val m (filter_of inv m) [].
Proof.
  intros d_idx d_val inv m cs vf fuel Hwf Hcs Hvf Hv Hfit Hf.
  rewrite (indexed_stream_correct d_idx d_val inv m cs vf fuel Hwf Hcs Hvf Hv Hfit Hf).
  rewrite (safe_map_indexed_values_correct d_idx d_val inv m [] Hwf (valid_map_in_range _ _ _ Hv)).
  reflexivity.
Qed.
Print Assumptions indexed_stream_equals_helper.

Theorem stream_equals_helpers :   (* "the non-streaming mapping helpers give the same answer" *)
  forall (A:Type) (zfill empty:A) (data:list A) (inv:Z) (m:list Z) (cs:Z) (fuel:nat),
    1 <= cs -> valid_map (len data) inv m -> (fuel >= length m + 1)%nat ->
    ordered_map_valid_stream zfill empty fuel Fixed data m inv cs = map_valid empty data m inv /\
    ordered_map_valid_stream zfill empty fuel Fixed data m inv cs
      = safe_map_values empty Fixed data m (filter_of inv m) None.
Proof.
  intros A zfill empty data inv m cs fuel Hcs Hv Hf.
  rewrite (map_stream_correct A zfill empty data inv m cs fuel Hcs Hv Hf).
  rewrite (map_valid_correct A empty data inv m (valid_map_in_range _ _ _ Hv)).
  rewrite (safe_map_values_correct A empty data inv m None (valid_map_in_range _ _ _ Hv)).
  split; reflexivity.
Qed.
Print Assumptions stream_equals_helpers.

(* ---- the code as found, in the configuration the repository's tests use: FULL ----------------
   marker -1 and a column whose fill(0) value is its empty value (numeric, bool): the original
   driver was already correct for every chunk size — the defect needs a sentinel marker
   (F-C04a) or a fixed-string column (F-C04c). *)
Theorem map_stream_correct_minus1 :
  forall (A:Type) (empty:A) (data:list A) (m:list Z) (cs:Z) (fuel:nat),
    1 <= cs -> valid_map (len data) (-1) m -> (fuel >= length m + 1)%nat ->
    ordered_map_valid_stream empty empty fuel Orig data m (-1) cs = Ok (map_spec empty data (-1) m).
Proof. exact @map_stream_orig_minus1_gen. Qed.
Print Assumptions map_stream_correct_minus1.

(* ---- the code as found: REFUTED (each witness is replayed on the real code, corpus/C04) ------ *)
Theorem map_stream_sentinel_refuted :   (* F-C04a *)
  exists data m inv cs, valid_mapb (len data) inv m = true /\ 1 <= cs /\
    ordered_map_valid_stream 0 0 (length m + 8) Orig data m inv cs <> Ok (map_spec 0 data inv m).
Proof.
  exists [10;20;30;40;50;60], [0; S32], S32, 4.
  destruct stream_sentinel_witness as [H1 [H2 H3]]. split; [exact H1|]. split; [lia|].
  cbn [length Nat.add]. rewrite H2, H3. discriminate.
Qed.
Print Assumptions map_stream_sentinel_refuted.

Theorem map_stream_fixedstring_refuted :   (* F-C04c: marker -1, fixed-string column *)
  exists data m cs, valid_mapb (len data) (-1) m = true /\ 1 <= cs /\
    ordered_map_valid_stream [48] [] (length m + 8) Orig data m (-1) cs <> Ok (map_spec [] data (-1) m).
Proof.
  exists [[97];[98;98]], [-1; -1], 4.
  destruct stream_fixedstring_witness as [H2 H3]. split; [reflexivity|]. split; [lia|].
  cbn [length Nat.add]. rewrite H2, H3. discriminate.
Qed.
Print Assumptions map_stream_fixedstring_refuted.

Theorem indexed_sentinel_refuted :   (* F-C04b *)
  exists di dv m inv cs vf, valid_mapb (len di - 1) inv m = true /\
    ordered_map_valid_indexed_stream 20 Orig di dv m inv cs vf = Raise E_IndexError.
Proof.
  exists [0;1;3;6], [97;98;98;99;99;99], [0; S32], S32, 4, 4.
  split; [reflexivity|]. exact (proj1 indexed_sentinel_witness).
Qed.
Print Assumptions indexed_sentinel_refuted.

Theorem indexed_entry_too_long_spins :   (* F-C12b: no fuel lets the original driver finish *)
  exists di dv m inv cs vf, valid_mapb (len di - 1) inv m = true /\
    forall fuel, ordered_map_valid_indexed_stream fuel Orig di dv m inv cs vf = OutOfFuel.
Proof.
  exists spin_idx, spin_val, [3], (-1), 1, 1. split; [reflexivity|]. exact indexed_spin_all_fuel.
Qed.
Print Assumptions indexed_entry_too_long_spins.

Theorem indexed_entry_too_long_raises_after_fix :
  ordered_map_valid_indexed_stream 20 Fixed spin_idx spin_val [3] (-1) 1 1 = Raise E_ValueError.
Proof. exact indexed_too_long_raises. Qed.
Print Assumptions indexed_entry_too_long_raises_after_fix.

Theorem safe_map_values_empty_refuted :   (* F-C04d *)
  safe_map_values 0 Orig [10;20] [] [] None = OOB 200.
Proof. exact (proj1 safe_map_values_empty_witness). Qed.
Print Assumptions safe_map_values_empty_refuted.
