(* Props/C04.v — placeholder until the proofs land *)
From Coq Require Import ZArith List.
From EV Require Import Res Arr MapStream MapStreamSpec.
Import ListNotations.
Open Scope Z_scope.

Theorem c04_smoke : ordered_map_valid_stream 0 0 10 Fixed [10;20;30] [0;2147483647;2] 2147483647 2 = Ok [10;0;30].
Proof. vm_compute. reflexivity. Qed.
Print Assumptions c04_smoke.
