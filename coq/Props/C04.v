(* Props/C04.v — theorems of property C04 (statements only; proofs in coq/Proofs/MapStream*.v).
   Model: coq/Model/MapStream.v (version Fixed = /repo after work/C04/fix-*.diff AND work/E7/fix-F-C02f.diff,
          Fixed0 = after work/C04/fix-*.diff only, Orig = as found).
   Spec:  coq/Spec/MapStreamSpec.v. *)
From Coq Require Import ZArith List Lia.
From EV Require Import Res Arr MapStream MapStreamSpec MapStreamBase MapStreamFixed MapStreamGen MapStreamRefuted MapHelpers
  MapIndexedBase MapIndexedKernel MapIndexedDriver MapIndexedHelper MapStreamOrig MapStreamSpan
  MapHistorySpec MapHistory MapHistoryProofs MapCallForms MapCallFormsProofs MapCompose.
Import ListNotations.
Open Scope Z_scope.

(* ---- streaming, fixed-width element types (numeric, bool, fixed string): FULL ----------------
   For every element type, every invalid marker, every chunk size >= 1, every source and EVERY
   map whose valid entries are in range (since fix-F-C02f no order is required: the value window of
   a sub-chunk is the min..max of its valid entries): the repaired driver terminates with
   any fuel >= |map|+1 and yields exactly map_spec (length |map|, row r = data[map[r]] or empty). *)
Theorem map_stream_correct :
  forall (A:Type) (zfill empty:A) (data:list A) (inv:Z) (m:list Z) (cs:Z) (fuel:nat),
    1 <= cs -> in_range_map (len data) inv m -> (fuel >= length m + 1)%nat ->
    ordered_map_valid_stream zfill empty fuel Fixed data m inv cs = Ok (map_spec empty data inv m).
Proof. exact @map_stream_correct_any. Qed.
Print Assumptions map_stream_correct.

(* the statement under the old precondition (valid entries in range and non-decreasing) is the special case *)
Theorem map_stream_correct_ordered_map :
  forall (A:Type) (zfill empty:A) (data:list A) (inv:Z) (m:list Z) (cs:Z) (fuel:nat),
    1 <= cs -> valid_map (len data) inv m -> (fuel >= length m + 1)%nat ->
    ordered_map_valid_stream zfill empty fuel Fixed data m inv cs = Ok (map_spec empty data inv m).
Proof.
  intros A zfill empty data inv m cs fuel Hcs Hv Hf.
  exact (map_stream_correct A zfill empty data inv m cs fuel Hcs (valid_map_in_range _ _ _ Hv) Hf).
Qed.
Print Assumptions map_stream_correct_ordered_map.

Example map_stream_correct_hyps_unordered :    (* a non-monotone map: the right-hand map of a many-to-many join *)
  in_range_mapb 6 INVALID_INDEX_64 [0;1;2;0;1;2;INVALID_INDEX_64;5] = true /\
  valid_mapb 6 INVALID_INDEX_64 [0;1;2;0;1;2;INVALID_INDEX_64;5] = false.
Proof. split; reflexivity. Qed.

Example map_stream_correct_hyps :
  valid_mapb 6 INVALID_INDEX_32 [INVALID_INDEX_32; 0; 2; 2; INVALID_INDEX_32; 5; INVALID_INDEX_32] = true.
Proof. reflexivity. Qed.

(* ---- streaming, indexed-string sources: FULL in the property's regime ------------------------
   For every well-formed indexed column (offsets start at 0, non-decreasing, end at |values|),
   every marker, every chunk size >= 1 and value factor >= 0 such that every *mapped* entry fits
   the value buffer of chunksize*value_factor bytes ("every value-buffer size that can hold the
   longest entry"), EVERY map whose valid entries are in range (no order required since fix-F-C02f:
   the driver seeks the value sub-chunk that holds the next entry, forwards or backwards): the
   repaired driver terminates with any fuel >= 2*|map|+2 (per map entry at most one kernel call
   that consumes it and one that asks for its value sub-chunk) and yields the prefix-sum offsets and
   concatenated bytes of the mapped strings (empty string where the map holds the marker). *)
Theorem indexed_stream_correct :
  forall (d_idx d_val:list Z) (inv:Z) (m:list Z) (cs vf:Z) (fuel:nat),
    wf_indexed d_idx d_val -> 1 <= cs -> 0 <= vf ->
    in_range_map (len d_idx - 1) inv m -> entries_fit d_idx d_val inv m (cs * vf) ->
    (fuel >= 2 * length m + 2)%nat ->
    ordered_map_valid_indexed_stream fuel Fixed d_idx d_val m inv cs vf = Ok (indexed_spec d_idx d_val inv m).
Proof. exact indexed_stream_correct_top. Qed.
Print Assumptions indexed_stream_correct.

(* the old precondition is the special case *)
Theorem indexed_stream_correct_ordered_map :
  forall (d_idx d_val:list Z) (inv:Z) (m:list Z) (cs vf:Z) (fuel:nat),
    wf_indexed d_idx d_val -> 1 <= cs -> 0 <= vf ->
    valid_map (len d_idx - 1) inv m -> entries_fit d_idx d_val inv m (cs * vf) ->
    (fuel >= 2 * length m + 2)%nat ->
    ordered_map_valid_indexed_stream fuel Fixed d_idx d_val m inv cs vf = Ok (indexed_spec d_idx d_val inv m).
Proof.
  intros d_idx d_val inv m cs vf fuel Hwf Hcs Hvf Hv Hfit Hf.
  exact (indexed_stream_correct d_idx d_val inv m cs vf fuel Hwf Hcs Hvf (valid_map_in_range _ _ _ Hv) Hfit Hf).
Qed.
Print Assumptions indexed_stream_correct_ordered_map.

Example indexed_stream_correct_unordered :   (* "aaaa","bbbb"; buffer 4 bytes = one entry; the value sub-chunks are revisited *)
  ordered_map_valid_indexed_stream 10 Fixed [0;4;8] [97;97;97;97;98;98;98;98] [1;0;1;0] (-1) 4 1
  = Ok ([0;4;8;12;16], [98;98;98;98;97;97;97;97;98;98;98;98;97;97;97;97]).
Proof. exact indexed_seek_back_witness. Qed.

Example indexed_stream_correct_hyps :   (* 'a','bb','','dddd'; buffer 4 bytes; marker S64 *)
  valid_mapb 4 INVALID_INDEX_64 [INVALID_INDEX_64; 0; 1; 1; INVALID_INDEX_64; 3] = true /\
  ordered_map_valid_indexed_stream 20 Fixed [0;1;3;3;7] [97;98;98;100;100;100;100]
     [INVALID_INDEX_64; 0; 1; 1; INVALID_INDEX_64; 3] INVALID_INDEX_64 2 2
  = Ok ([0;0;1;3;5;5;9], [97;98;98;98;98;100;100;100;100]).
Proof. split; vm_compute; reflexivity. Qed.

(* ---- the memory bound of the repaired sub-chunker: FULL ----------------------------------------
   whatever the order of the map, the valid entries of a sub-chunk cut by the repaired
   next_map_subchunk lie fewer than chunksize source rows apart, so the source window
   data[first:last+1] (first/last = min/max returned by the repaired get_valid_value_extents) read for
   it holds at most chunksize rows — the bound the code as found guaranteed for ordered maps only. *)
Theorem subchunk_window_bounded :
  forall (map_:list Z) (sm inv cs nsm first last:Z),
    1 <= cs -> 0 <= sm <= len map_ -> next_map_subchunk2 map_ sm inv cs = Ok nsm ->
    get_valid_value_extents2 map_ sm nsm inv = Ok (first, last) -> first <> inv ->
    0 <= last - first < cs.
Proof. exact subchunk_window_rows. Qed.
Print Assumptions subchunk_window_bounded.

Example subchunk_window_bounded_hyps :   (* unordered map, chunk size 4: first sub-chunk [5;3;-1;6], window rows 3..6 *)
  next_map_subchunk2 [5;3;-1;6;2;4] 0 (-1) 4 = Ok 4 /\
  get_valid_value_extents2 [5;3;-1;6;2;4] 0 4 (-1) = Ok (3, 6).
Proof. split; vm_compute; reflexivity. Qed.

(* ---- non-streaming helpers give the same answer: FULL ------------------------------------------
   (no ordering needed: valid entries only have to be in range) *)
Theorem map_valid_correct :
  forall (A:Type) (empty:A) (data:list A) (inv:Z) (m:list Z),
    in_range_map (len data) inv m -> map_valid empty data m inv = Ok (map_spec empty data inv m).
Proof. exact @map_valid_correct_gen. Qed.
Print Assumptions map_valid_correct.

Theorem safe_map_values_correct :
  forall (A:Type) (empty:A) (data:list A) (inv:Z) (m:list Z) (ev:option A),
    in_range_map (len data) inv m ->
    safe_map_values empty Fixed data m (filter_of inv m) ev
    = Ok (map_spec (match ev with Some e => e | None => empty end) data inv m).
Proof. exact @safe_map_values_correct_gen. Qed.
Print Assumptions safe_map_values_correct.

Theorem safe_map_indexed_values_correct :
  forall (d_idx d_val:list Z) (inv:Z) (m ev:list Z),
    wf_indexed d_idx d_val -> in_range_map (len d_idx - 1) inv m ->
    safe_map_indexed_values d_idx d_val m (filter_of inv m) ev
    = Ok (let strs := map_spec ev (decode d_idx d_val) inv m in (offsets_of strs, concat strs)).
Proof. exact safe_map_indexed_values_correct_top. Qed.
Print Assumptions safe_map_indexed_values_correct.

Theorem indexed_stream_equals_helper :   (* streaming and non-streaming indexed mapping agree *)
  forall (d_idx d_val:list Z) (inv:Z) (m:list Z) (cs vf:Z) (fuel:nat),
    wf_indexed d_idx d_val -> 1 <= cs -> 0 <= vf ->
    in_range_map (len d_idx - 1) inv m -> entries_fit d_idx d_val inv m (cs * vf) ->
    (fuel >= 2 * length m + 2)%nat ->
    ordered_map_valid_indexed_stream fuel Fixed d_idx d_val m inv cs vf
    = safe_map_indexed_values d_idx d_val m (filter_of inv m) [].
Proof.
  intros d_idx d_val inv m cs vf fuel Hwf Hcs Hvf Hv Hfit Hf.
  rewrite (indexed_stream_correct d_idx d_val inv m cs vf fuel Hwf Hcs Hvf Hv Hfit Hf).
  rewrite (safe_map_indexed_values_correct d_idx d_val inv m [] Hwf Hv).
  reflexivity.
Qed.
Print Assumptions indexed_stream_equals_helper.

Theorem stream_equals_helpers :   (* "the non-streaming mapping helpers give the same answer" *)
  forall (A:Type) (zfill empty:A) (data:list A) (inv:Z) (m:list Z) (cs:Z) (fuel:nat),
    1 <= cs -> in_range_map (len data) inv m -> (fuel >= length m + 1)%nat ->
    ordered_map_valid_stream zfill empty fuel Fixed data m inv cs = map_valid empty data m inv /\
    ordered_map_valid_stream zfill empty fuel Fixed data m inv cs
      = safe_map_values empty Fixed data m (filter_of inv m) None.
Proof.
  intros A zfill empty data inv m cs fuel Hcs Hv Hf.
  rewrite (map_stream_correct A zfill empty data inv m cs fuel Hcs Hv Hf).
  rewrite (map_valid_correct A empty data inv m Hv).
  rewrite (safe_map_values_correct A empty data inv m None Hv).
  split; reflexivity.
Qed.
Print Assumptions stream_equals_helpers.

(* ---- the code as found, in the configuration the repository's tests use: FULL ----------------
   marker -1 and a column whose fill(0) value is its empty value (numeric, bool): the original
   driver was already correct for every chunk size — the defect needs a sentinel marker
   (F-C04a) or a fixed-string column (F-C04c). *)
Theorem map_stream_correct_minus1 :
  forall (A:Type) (empty:A) (data:list A) (m:list Z) (cs:Z) (fuel:nat),
    1 <= cs -> valid_map (len data) (-1) m -> (fuel >= length m + 1)%nat ->
    ordered_map_valid_stream empty empty fuel Orig data m (-1) cs = Ok (map_spec empty data (-1) m).
Proof. exact @map_stream_orig_minus1_gen. Qed.
Print Assumptions map_stream_correct_minus1.

(* ---- the code as found: REFUTED (each witness is replayed on the real code, corpus/C04) ------ *)
Theorem map_stream_sentinel_refuted :   (* F-C04a *)
  exists data m inv cs, valid_mapb (len data) inv m = true /\ 1 <= cs /\
    ordered_map_valid_stream 0 0 (length m + 8) Orig data m inv cs <> Ok (map_spec 0 data inv m).
Proof.
  exists [10;20;30;40;50;60], [0; S32], S32, 4.
  destruct stream_sentinel_witness as [H1 [H2 H3]]. split; [exact H1|]. split; [lia|].
  cbn [length Nat.add]. rewrite H2, H3. discriminate.
Qed.
Print Assumptions map_stream_sentinel_refuted.

Theorem map_stream_fixedstring_refuted :   (* F-C04c: marker -1, fixed-string column *)
  exists data m cs, valid_mapb (len data) (-1) m = true /\ 1 <= cs /\
    ordered_map_valid_stream [48] [] (length m + 8) Orig data m (-1) cs <> Ok (map_spec [] data (-1) m).
Proof.
  exists [[97];[98;98]], [-1; -1], 4.
  destruct stream_fixedstring_witness as [H2 H3]. split; [reflexivity|]. split; [lia|].
  cbn [length Nat.add]. rewrite H2, H3. discriminate.
Qed.
Print Assumptions map_stream_fixedstring_refuted.

Theorem indexed_sentinel_refuted :   (* F-C04b *)
  exists di dv m inv cs vf, valid_mapb (len di - 1) inv m = true /\
    ordered_map_valid_indexed_stream 20 Orig di dv m inv cs vf = Raise E_IndexError.
Proof.
  exists [0;1;3;6], [97;98;98;99;99;99], [0; S32], S32, 4, 4.
  split; [reflexivity|]. exact (proj1 indexed_sentinel_witness).
Qed.
Print Assumptions indexed_sentinel_refuted.

Theorem indexed_entry_too_long_spins :   (* F-C12b: no fuel lets the original driver finish *)
  exists di dv m inv cs vf, valid_mapb (len di - 1) inv m = true /\
    forall fuel, ordered_map_valid_indexed_stream fuel Orig di dv m inv cs vf = OutOfFuel.
Proof.
  exists spin_idx, spin_val, [3], (-1), 1, 1. split; [reflexivity|]. exact indexed_spin_all_fuel.
Qed.
Print Assumptions indexed_entry_too_long_spins.

Theorem indexed_entry_too_long_raises_after_fix :
  ordered_map_valid_indexed_stream 20 Fixed spin_idx spin_val [3] (-1) 1 1 = Raise E_ValueError.
Proof. exact indexed_too_long_raises. Qed.
Print Assumptions indexed_entry_too_long_raises_after_fix.

Theorem safe_map_values_empty_refuted :   (* F-C04d *)
  safe_map_values 0 Orig [10;20] [] [] None = OOB 200.
Proof. exact (proj1 safe_map_values_empty_witness). Qed.
Print Assumptions safe_map_values_empty_refuted.

(* ---- F-C02f: the code after the C04 fixes only (version Fixed0) on in-range maps that are not
   non-decreasing (the right-hand map of a many-to-many ordered merge): REFUTED; the same witnesses
   on the code after fix-F-C02f give the specified answer (replayed on the real code: corpus/C04/F-C02f.json,
   corpus/C02/witnesses.json) -------------------------------------------------------------------- *)
Theorem map_stream_unordered_map_refuted :
  exists data m inv cs, in_range_mapb (len data) inv m = true /\ 1 <= cs /\
    (exists site, ordered_map_valid_stream 0 0 (length m + 8) Fixed0 data m inv cs = OOB site) /\
    ordered_map_valid_stream 0 0 (length m + 8) Fixed data m inv cs = Ok (map_spec 0 data inv m).
Proof.
  exists [30;40], [0;1;0;1], (-1), 3. split; [reflexivity|]. split; [lia|]. split; [exists 123|]; vm_compute; reflexivity.
Qed.
Print Assumptions map_stream_unordered_map_refuted.

Theorem indexed_stream_unordered_map_refuted :
  exists di dv m inv cs vf, in_range_mapb (len di - 1) inv m = true /\
    ordered_map_valid_indexed_stream 10 Fixed0 di dv m inv cs vf = Raise E_IndexError /\
    ordered_map_valid_indexed_stream 10 Fixed di dv m inv cs vf = Ok (indexed_spec di dv inv m).
Proof.
  exists [0;1;3], [97;98;98], [1;0], (-1), 2, 4. split; [reflexivity|]. split; vm_compute; reflexivity.
Qed.
Print Assumptions indexed_stream_unordered_map_refuted.

(* ---- histories of calls on the same fields: FULL ------------------------------------------------
   One map field, one numeric source and one indexed-string source are used by ANY sequence of calls
   (streamed, indexed streamed, the three helpers, and the streamed mapping of the map column through
   itself — source aliases map), each call meeting its own single-call precondition: every call of
   the history yields the single-call specification computed from the ORIGINAL map and sources (so the
   order and number of earlier calls is unobservable), and the map and the sources are unchanged at the
   end. The differential run replays such histories on memory-backed fields (whose chunk reads are
   views of the field's own array) and on HDF5-backed fields, and compares the fields afterwards. *)
Theorem history_correct :
  forall (fuel:nat) (inv:Z) (m num idx val:list Z) (steps:list hstep),
    Forall (step_pre m num idx val inv) steps -> (fuel >= 2 * length m + 2)%nat ->
    run_history fuel Fixed inv m num idx val steps = Ok (history_spec m num idx val inv steps).
Proof. exact history_correct_top. Qed.
Print Assumptions history_correct.

Theorem history_last_call_as_if_alone :
  forall (fuel:nat) (inv:Z) (m num idx val:list Z) (steps:list hstep) (st:hstep) (s1 s2:hstate),
    Forall (step_pre m num idx val inv) (steps ++ [st]) -> (fuel >= 2 * length m + 2)%nat ->
    run_history fuel Fixed inv m num idx val (steps ++ [st]) = Ok s1 ->
    run_history fuel Fixed inv m num idx val [st] = Ok s2 ->
    last (h_out s1) (ONum []) = last (h_out s2) (ONum []) /\
    h_map s1 = m /\ h_num s1 = num /\ h_idx s1 = idx /\ h_val s1 = val.
Proof. exact history_last_call_alone. Qed.
Print Assumptions history_last_call_as_if_alone.

Example history_correct_hyps :   (* 'a','bb','ccc'; numeric then indexed then helper through one S32-marked map *)
  run_history 20 Fixed INVALID_INDEX_32 [0; INVALID_INDEX_32; 2; 1] [10;20;30] [0;1;3;6] [97;98;98;99;99;99]
    [HStream 2; HIStream 2 2; HMapValid; HSelf 3]
  = Ok (mk_hstate [0; INVALID_INDEX_32; 2; 1] [10;20;30] [0;1;3;6] [97;98;98;99;99;99]
         [ONum [10;0;30;20]; OIdx [0;1;1;4;6] [97;99;99;99;98;98]; ONum [10;0;30;20];
          ONum [0;0;2;INVALID_INDEX_32]]).
Proof. vm_compute. reflexivity. Qed.

(* ---- CALL FORMS: optional arguments omitted (Model/MapCallForms.v): FULL ---------------------------
   `invalid`, `chunksize` and `value_factor` are optional; DataFrame.merge and Session._streaming_map_fields
   never pass the two sizes. An omitted argument is None; its default is a CONSTANT (invalid -1, chunksize
   DEFAULT_CHUNKSIZE = 2^20, value_factor 8) that depends neither on the map nor on the source. For every
   combination of given / omitted arguments the call yields the specification; with both sizes omitted the
   only size condition of the indexed mapping is absolute (no mapped entry longer than 2^23 bytes) — the
   length of the map does not enter. *)
Theorem stream_call_correct :
  forall (A:Type) (zfill empty:A) (data:list A) (m:list Z) (inv cs:option Z) (fuel:nat),
    1 <= opt_default cs DEFAULT_CHUNKSIZE ->
    in_range_map (len data) (opt_default inv DEFAULT_INVALID) m -> (fuel >= length m + 1)%nat ->
    stream_call zfill empty fuel Fixed data m inv cs
    = Ok (map_spec empty data (opt_default inv DEFAULT_INVALID) m).
Proof. exact stream_call_correct_top. Qed.
Print Assumptions stream_call_correct.

Theorem stream_call_omitted_chunksize :
  forall (A:Type) (zfill empty:A) (data:list A) (m:list Z) (inv:option Z) (fuel:nat),
    in_range_map (len data) (opt_default inv DEFAULT_INVALID) m -> (fuel >= length m + 1)%nat ->
    stream_call zfill empty fuel Fixed data m inv None
    = Ok (map_spec empty data (opt_default inv DEFAULT_INVALID) m).
Proof. exact stream_call_omitted_chunksize_top. Qed.
Print Assumptions stream_call_omitted_chunksize.

Theorem indexed_stream_call_correct :
  forall (d_idx d_val:list Z) (m:list Z) (inv cs vf:option Z) (fuel:nat),
    wf_indexed d_idx d_val ->
    1 <= opt_default cs DEFAULT_CHUNKSIZE -> 0 <= opt_default vf DEFAULT_VALUE_FACTOR ->
    in_range_map (len d_idx - 1) (opt_default inv DEFAULT_INVALID) m ->
    entries_fit d_idx d_val (opt_default inv DEFAULT_INVALID) m
                (opt_default cs DEFAULT_CHUNKSIZE * opt_default vf DEFAULT_VALUE_FACTOR) ->
    (fuel >= 2 * length m + 2)%nat ->
    indexed_stream_call fuel Fixed d_idx d_val m inv cs vf
    = Ok (indexed_spec d_idx d_val (opt_default inv DEFAULT_INVALID) m).
Proof. exact indexed_stream_call_correct_top. Qed.
Print Assumptions indexed_stream_call_correct.

Theorem indexed_stream_call_omitted_sizes :      (* f(src, map, dst[, invalid]) — the production call form *)
  forall (d_idx d_val:list Z) (m:list Z) (inv:option Z) (fuel:nat),
    wf_indexed d_idx d_val ->
    in_range_map (len d_idx - 1) (opt_default inv DEFAULT_INVALID) m ->
    entries_fit d_idx d_val (opt_default inv DEFAULT_INVALID) m 8388608 ->
    (fuel >= 2 * length m + 2)%nat ->
    indexed_stream_call fuel Fixed d_idx d_val m inv None None
    = Ok (indexed_spec d_idx d_val (opt_default inv DEFAULT_INVALID) m).
Proof. exact indexed_stream_call_omitted_sizes_top. Qed.
Print Assumptions indexed_stream_call_omitted_sizes.

Theorem indexed_stream_call_omitted_chunksize :  (* value_factor alone *)
  forall (d_idx d_val:list Z) (m:list Z) (inv:option Z) (vf:Z) (fuel:nat),
    wf_indexed d_idx d_val -> 0 <= vf ->
    in_range_map (len d_idx - 1) (opt_default inv DEFAULT_INVALID) m ->
    entries_fit d_idx d_val (opt_default inv DEFAULT_INVALID) m (1048576 * vf) ->
    (fuel >= 2 * length m + 2)%nat ->
    indexed_stream_call fuel Fixed d_idx d_val m inv None (Some vf)
    = Ok (indexed_spec d_idx d_val (opt_default inv DEFAULT_INVALID) m).
Proof. exact indexed_stream_call_omitted_chunksize_top. Qed.
Print Assumptions indexed_stream_call_omitted_chunksize.

Theorem indexed_stream_call_omitted_value_factor :   (* chunksize alone: 8 bytes per row of the chunk *)
  forall (d_idx d_val:list Z) (m:list Z) (inv:option Z) (cs:Z) (fuel:nat),
    wf_indexed d_idx d_val -> 1 <= cs ->
    in_range_map (len d_idx - 1) (opt_default inv DEFAULT_INVALID) m ->
    entries_fit d_idx d_val (opt_default inv DEFAULT_INVALID) m (cs * 8) ->
    (fuel >= 2 * length m + 2)%nat ->
    indexed_stream_call fuel Fixed d_idx d_val m inv (Some cs) None
    = Ok (indexed_spec d_idx d_val (opt_default inv DEFAULT_INVALID) m).
Proof. exact indexed_stream_call_omitted_value_factor_top. Qed.
Print Assumptions indexed_stream_call_omitted_value_factor.

(* ---- size independence in the supported regime: FULL -------------------------------------------------
   whatever sizes a call uses (given or defaulted), its answer is that of the driver run with ANY other
   sizes of the regime. This is what allows the extracted entry to evaluate a call that uses the 2^20-row
   default through a small proxy size (stream_call_eval / indexed_stream_call_eval test the regime on the
   case at hand with boolean checks and otherwise run the call as it is). *)
Theorem stream_call_size_independent :
  forall (A:Type) (zfill empty:A) (data:list A) (m:list Z) (inv cs:option Z) (cs':Z) (fuel fuel':nat),
    1 <= opt_default cs DEFAULT_CHUNKSIZE -> 1 <= cs' ->
    in_range_map (len data) (opt_default inv DEFAULT_INVALID) m ->
    (fuel >= length m + 1)%nat -> (fuel' >= length m + 1)%nat ->
    stream_call zfill empty fuel Fixed data m inv cs
    = ordered_map_valid_stream zfill empty fuel' Fixed data m (opt_default inv DEFAULT_INVALID) cs'.
Proof. exact stream_call_size_independent_top. Qed.
Print Assumptions stream_call_size_independent.

Theorem indexed_stream_call_size_independent :
  forall (d_idx d_val:list Z) (m:list Z) (inv cs vf:option Z) (cs' vf':Z) (fuel fuel':nat),
    wf_indexed d_idx d_val ->
    1 <= opt_default cs DEFAULT_CHUNKSIZE -> 0 <= opt_default vf DEFAULT_VALUE_FACTOR -> 1 <= cs' -> 0 <= vf' ->
    in_range_map (len d_idx - 1) (opt_default inv DEFAULT_INVALID) m ->
    entries_fit d_idx d_val (opt_default inv DEFAULT_INVALID) m
                (opt_default cs DEFAULT_CHUNKSIZE * opt_default vf DEFAULT_VALUE_FACTOR) ->
    entries_fit d_idx d_val (opt_default inv DEFAULT_INVALID) m (cs' * vf') ->
    (fuel >= 2 * length m + 2)%nat -> (fuel' >= 2 * length m + 2)%nat ->
    indexed_stream_call fuel Fixed d_idx d_val m inv cs vf
    = ordered_map_valid_indexed_stream fuel' Fixed d_idx d_val m (opt_default inv DEFAULT_INVALID) cs' vf'.
Proof. exact indexed_stream_call_size_independent_top. Qed.
Print Assumptions indexed_stream_call_size_independent.

Theorem stream_call_eval_correct :       (* what the entry runs = the call, for every proxy size *)
  forall (A:Type) (zfill empty:A) (data:list A) (m:list Z) (inv cs:option Z) (pcs:Z) (fuel:nat),
    in_range_map (len data) (opt_default inv DEFAULT_INVALID) m -> (fuel >= length m + 1)%nat ->
    stream_call_eval zfill empty fuel data m inv cs pcs = stream_call zfill empty fuel Fixed data m inv cs.
Proof. exact stream_call_eval_ok. Qed.
Print Assumptions stream_call_eval_correct.

Theorem indexed_stream_call_eval_correct :
  forall (d_idx d_val:list Z) (m:list Z) (inv cs vf:option Z) (pcs pvf:Z) (fuel:nat),
    wf_indexed d_idx d_val ->
    in_range_map (len d_idx - 1) (opt_default inv DEFAULT_INVALID) m -> (fuel >= 2 * length m + 2)%nat ->
    indexed_stream_call_eval fuel d_idx d_val m inv cs vf pcs pvf
    = indexed_stream_call fuel Fixed d_idx d_val m inv cs vf.
Proof. exact indexed_stream_call_eval_ok. Qed.
Print Assumptions indexed_stream_call_eval_correct.

Example indexed_stream_call_hyps :   (* 3-row map, a 53-byte entry (> 8 bytes per map row), all sizes omitted, proxy 4 x 16 *)
  let di := [0; 53; 64; 64] in let dv := repeat 97 53 ++ repeat 98 11 in
  fitb di dv (-1) [0; -1; 2] (DEFAULT_CHUNKSIZE * DEFAULT_VALUE_FACTOR) = true /\
  fitb di dv (-1) [0; -1; 2] (4 * 16) = true /\
  indexed_stream_call_eval 20 di dv [0; -1; 2] None None None 4 16 = Ok ([0; 53; 53; 53], repeat 97 53).
Proof. exact indexed_call_eval_witness. Qed.

(* ---- algebra of the mapping (Proofs/MapCompose.v) --------------------------------------------
   full, no precondition: mapping through m1 and then through m2 is mapping once through the composed
   map  compose_maps inv m1 m2 = m2 mapped through m1 with the marker as filler  (a row is empty iff
   either step maps it to the marker); the mapping is row-wise (length, append). *)
Theorem map_spec_compose : forall (A:Type) (e:A) data inv m1 m2,
  map_spec e (map_spec e data inv m1) inv m2 = map_spec e data inv (compose_maps inv m1 m2).
Proof. exact @map_spec_compose_pf. Qed.
Print Assumptions map_spec_compose.

Theorem map_spec_rowwise : forall (A:Type) (e:A) data inv m1 m2,
  length (map_spec e data inv m1) = length m1 /\
  map_spec e data inv (m1 ++ m2) = map_spec e data inv m1 ++ map_spec e data inv m2.
Proof. intros. split; [apply map_spec_length_pf|apply map_spec_app_pf]. Qed.
Print Assumptions map_spec_rowwise.

(* full: the repaired streaming driver run twice (any chunk sizes, in-range maps in any order) yields what
   one run through the composed map yields; the composed map is itself in range (compose_in_range) *)
Theorem map_stream_twice :
  forall (A:Type) (zfill empty:A) (data:list A) (inv:Z) (m1 m2:list Z) (cs1 cs2 cs3:Z) (f1 f2 f3:nat),
  1 <= cs1 -> 1 <= cs2 -> 1 <= cs3 ->
  in_range_map (len data) inv m1 -> in_range_map (len m1) inv m2 ->
  (f1 >= length m1 + 1)%nat -> (f2 >= length m2 + 1)%nat -> (f3 >= length m2 + 1)%nat ->
  exists d1, ordered_map_valid_stream zfill empty f1 Fixed data m1 inv cs1 = Ok d1 /\
             ordered_map_valid_stream zfill empty f2 Fixed d1 m2 inv cs2
             = ordered_map_valid_stream zfill empty f3 Fixed data (compose_maps inv m1 m2) inv cs3.
Proof. exact map_stream_twice_pf. Qed.
Print Assumptions map_stream_twice.

Example map_stream_twice_ex :
  compose_maps (-1) [2; -1; 0; 0] [3; 1; -1; 0] = [0; -1; -1; 2] /\
  ordered_map_valid_stream 0 0 5 Fixed [10; 20; 30] [2; -1; 0; 0] (-1) 2 = Ok [30; 0; 10; 10] /\
  ordered_map_valid_stream 0 0 5 Fixed [30; 0; 10; 10] [3; 1; -1; 0] (-1) 3 = Ok [10; 0; 0; 30] /\
  ordered_map_valid_stream 0 0 5 Fixed [10; 20; 30] [0; -1; -1; 2] (-1) 1 = Ok [10; 0; 0; 30].
Proof. vm_compute. repeat split; reflexivity. Qed.
