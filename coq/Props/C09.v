(* Props/C09.v — placeholder until the proofs land *)
From Coq Require Import ZArith List.
From EV Require Import Res Arr StableSort FilterIndex.
Import ListNotations.
Open Scope Z_scope.

Theorem c09_smoke :
  apply_filter_to_index_values [true; false; true] [0; 1; 1; 3] [7; 8; 9] = Ok ([0; 1; 3], [7; 8; 9]).
Proof. vm_compute. reflexivity. Qed.
Print Assumptions c09_smoke.
