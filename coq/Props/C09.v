(* Props/C09.v — "Filter, re-index and sort keep rows intact and leave the source untouched".
   Statements only; proofs are in Proofs/StableSortProofs.v, FilterIndexKernels.v, FilterIndexSort.v,
   FilterIndexFrames.v (examples satisfying the hypotheses: Proofs/FilterIndexExamples.v).
   Model: Model/FilterIndex.v, Model/StableSort.v.  Spec: Spec/FilterIndexSpec.v.
   All theorems are unbounded in the number of rows, columns, key columns and entry lengths. *)
From Coq Require Import ZArith List Bool Permutation Sorted.
From EV Require Import Res Arr StableSort StableSortProofs FilterIndex FilterIndexSpec
                       FilterIndexKernels FilterIndexSort FilterIndexFrames FilterIndexCompose
                       FrameHist FrameHistSpec FrameHistP.
Import ListNotations.
Open Scope Z_scope.

(* ---- the numba kernels (operations.py:647-698) ---------------------------------------------- *)
(* full: for every column of byte strings stored canonically and every filter with at most one
   entry per row, the kernel returns the canonical storage of exactly the selected entries, in order *)
Theorem c09_filter_indexed_correct : forall (cells:list (list Z)) (flt:list bool),
  (length flt <= length cells)%nat ->
  apply_filter_to_index_values flt (psums (lens cells)) (concat cells)
  = Ok (psums (lens (FilterIndex.mask cells flt)), concat (FilterIndex.mask cells flt)).
Proof. exact filter_indexed_correct. Qed.
Print Assumptions c09_filter_indexed_correct.

(* full: destination entry i = source entry index[i] (negative indices wrap once, as numba does) *)
Theorem c09_index_indexed_correct : forall (cells:list (list Z)) (ix:list Z),
  Forall (valid_ix cells) ix ->
  apply_indices_to_index_values ix (psums (lens cells)) (concat cells)
  = Ok (psums (lens (map (cell_at cells) ix)), concat (map (cell_at cells) ix)).
Proof. exact index_indexed_correct. Qed.
Print Assumptions c09_index_indexed_correct.

(* a set filter entry beyond the last row is an out-of-bounds read (site 2 = next_[i]) *)
Theorem c09_filter_too_long_oob : forall (cells:list (list Z)) (flt_ok:list bool),
  length flt_ok = length cells ->
  forall tail, apply_filter_to_index_values (flt_ok ++ true :: tail) (psums (lens cells)) (concat cells) = OOB 2.
Proof. exact filter_too_long_oob. Qed.
Print Assumptions c09_filter_too_long_oob.

(* ---- sorting (session.py:239-269, numpy argsort(kind='stable') defined in Model/StableSort.v) -- *)
(* full: repeated stable argsort, least significant key first, IS the stable lexicographic sort *)
Theorem c09_sort_index_is_stable_lexsort : forall (readers:list (list (list Z))) (n:Z),
  readers <> [] -> 0 <= n -> Forall (fun c => len c = n) readers ->
  dataset_sort_index readers (iota 0 (Z.to_nat n)) = Ok (lexsort_perm (rows_of n readers)).
Proof. exact dataset_sort_index_lexsort. Qed.
Print Assumptions c09_sort_index_is_stable_lexsort.

(* full: that permutation orders the key rows ascending and keeps tied rows in their original order ... *)
Theorem c09_sort_is_stable_permutation : forall (keyrows:list (list (list Z))),
  let q := lexsort_perm keyrows in
  Permutation q (iota 0 (length keyrows)) /\
  forall i j, 0 <= i -> i < j -> j < len q ->
    rowle (nthd [] keyrows (nthd 0 q i)) (nthd [] keyrows (nthd 0 q j)) = true /\
    (rowle (nthd [] keyrows (nthd 0 q j)) (nthd [] keyrows (nthd 0 q i)) = true -> nthd 0 q i < nthd 0 q j).
Proof. exact lexsort_perm_stable. Qed.
Print Assumptions c09_sort_is_stable_permutation.

(* ... and it is the only permutation that does *)
Theorem c09_stable_permutation_unique : forall (keyrows:list (list (list Z))) (q:list Z),
  stable_sorting rowle [] keyrows q -> q = lexsort_perm keyrows.
Proof. exact lexsort_perm_unique. Qed.
Print Assumptions c09_stable_permutation_unique.

(* ---- fields (fields.py:3684-3837) ------------------------------------------------------------ *)
(* full: every apply_filter entry point stores the gather of the decoded entries at the selected positions *)
Theorem c09_field_filter_correct : forall f dt flt target in_place,
  wf_body (fbody f) -> (dt =? 0) || (dt =? 1) = true -> len flt = field_len f ->
  in_place && is_some target = false ->
  field_apply_filter f dt flt target in_place
  = deliver f (select_body (fbody f) (sel (truthy flt))) target in_place.
Proof. exact field_filter_correct. Qed.
Print Assumptions c09_field_filter_correct.

Theorem c09_field_index_correct : forall f idx target in_place,
  wf_body (fbody f) -> in_range (field_len f) idx = true -> in_place && is_some target = false ->
  field_apply_index f idx target in_place = deliver f (select_body (fbody f) idx) target in_place.
Proof. exact field_index_correct. Qed.
Print Assumptions c09_field_index_correct.

(* the filter semantics: `sel` lists, ascending, exactly the positions whose entry is true/non-zero *)
Theorem c09_filter_selects_true_entries_in_order : forall m,
  StronglySorted Z.lt (sel m) /\ forall x, In x (sel m) <-> (0 <= x /\ nth (Z.to_nat x) m false = true).
Proof. exact sel_spec. Qed.
Print Assumptions c09_filter_selects_true_entries_in_order.

(* stated, trivial in the functional model: the aliasing this is about lives in numpy/h5py and is
   established for the real code by the correspondence run only *)
Theorem c09_source_unchanged : forall f b t r, deliver f b t false = Ok r -> r_src r = f.
Proof. exact source_unchanged. Qed.
Print Assumptions c09_source_unchanged.

(* full on the model: in place / into create_like(source) / into a new memory field give the same content,
   and the destination keeps the source's metadata (class, dtype, strlen, key) *)
Theorem c09_inplace_equals_outofplace : forall f ps r1 r2 r3,
  let b := select_body (fbody f) ps in
  deliver f b None true = Ok r1 ->
  deliver f b (Some (create_like f)) false = Ok r2 ->
  deliver f b None false = Ok r3 ->
  fbody (r_src r1) = b /\ fbody (r_ret r2) = b /\ fbody (r_ret r3) = b /\
  fmeta (r_src r1) = fmeta f /\ fmeta (r_ret r2) = fmeta f /\ fmeta (r_ret r3) = fmeta f /\
  r_src r2 = f /\ r_src r3 = f.
Proof. exact inplace_equals_outofplace. Qed.
Print Assumptions c09_inplace_equals_outofplace.

(* ---- dataframes (dataframe.py:456-571, session.py:190-237) ------------------------------------ *)
(* full: whenever the row-level specification is defined (well-formed frame, one filter entry per row /
   indices in range / existing keys, fresh destination names), the model of the real loop returns exactly
   the specified pair (source frame, destination frame): same gather on every column, source untouched
   when a destination is given, metadata copied *)
Theorem c09_df_filter_correct : forall cols dt flt ddf r,
  spec_filter cols dt flt ddf = Some r -> df_apply_filter cols dt flt ddf = Ok r.
Proof. exact df_filter_correct. Qed.
Print Assumptions c09_df_filter_correct.

Theorem c09_df_index_correct : forall cols idx ddf r,
  spec_index cols idx ddf = Some r -> df_apply_index cols idx ddf = Ok r.
Proof. exact df_index_correct. Qed.
Print Assumptions c09_df_index_correct.

Theorem c09_df_sort_correct : forall cols by_ ddf r,
  spec_sort cols by_ ddf = Some r -> df_sort_values cols by_ ddf = Ok r.
Proof. exact df_sort_correct. Qed.
Print Assumptions c09_df_sort_correct.

Theorem c09_session_sort_on_dest_correct : forall cols keys d r,
  spec_sort cols keys (Some d) = Some r -> session_sort_on cols keys (Some d) = Ok r.
Proof. exact session_sort_on_dest_correct. Qed.
Print Assumptions c09_session_sort_on_dest_correct.

(* full: gathering every column by the same positions gathers the rows: rows stay aligned *)
Theorem c09_columns_stay_aligned : forall (colcells:list (list (list Z))) ps n,
  in_range n ps = true ->
  rows_of (len ps) (map (fun c => gather [] c ps) colcells) = gather [] (rows_of n colcells) ps.
Proof. exact columns_stay_aligned. Qed.
Print Assumptions c09_columns_stay_aligned.

(* ... through the storage: the decoded rows of the frame the spec/model produce are the gathered rows *)
Theorem c09_select_rows_aligned : forall cols ps,
  let n := nrows cols in
  cols <> [] -> frame_ok n cols = true -> in_range n ps = true ->
  frame_rows (map (sel_col ps None) cols) = gather [] (frame_rows cols) ps.
Proof. exact select_rows_aligned. Qed.
Print Assumptions c09_select_rows_aligned.

(* sort preserves the multiset of rows; filter keeps a sub-sequence of the rows *)
Theorem c09_sort_multiset_preserved : forall (rows:list (list (list Z))) ps,
  Permutation ps (iota 0 (length rows)) -> Permutation (gather [] rows ps) rows.
Proof. exact (sort_multiset_preserved []). Qed.
Print Assumptions c09_sort_multiset_preserved.

Theorem c09_filter_subset : forall (rows:list (list (list Z))) m,
  length m = length rows -> sublist (gather [] rows (sel m)) rows.
Proof. exact (filter_subset []). Qed.
Print Assumptions c09_filter_subset.

(* Session.apply_filter / apply_index with an ndarray source (after fixes F-C09a / F-C09c) *)
Theorem c09_session_filter_array_correct : forall src dt flt dest,
  (dt =? 0) || (dt =? 1) = true -> len flt = len src ->
  session_apply_filter_array src dt flt dest
  = Ok (gather 0 src (sel (truthy flt)),
        match dest with Some d => Some (d ++ gather 0 src (sel (truthy flt))) | None => None end).
Proof. exact session_filter_array_correct. Qed.
Print Assumptions c09_session_filter_array_correct.

Theorem c09_session_index_array_correct : forall src idx dest,
  in_range (len src) idx = true ->
  session_apply_index_array src idx dest
  = Ok (gather 0 src idx, match dest with Some d => Some (d ++ gather 0 src idx) | None => None end).
Proof. exact session_index_array_correct. Qed.
Print Assumptions c09_session_index_array_correct.

(* Session.sort_on onto the SAME group: values are overwritten through h5py slice assignment; a 0-row
   frame is left byte-identical (spec_sort_on), otherwise as sort_values in place *)
Theorem c09_session_sort_on_same_correct : forall cols keys r,
  spec_sort_on cols keys None = Some r -> session_sort_on cols keys None = Ok r.
Proof. exact session_sort_on_same_correct. Qed.
Print Assumptions c09_session_sort_on_same_correct.

(* ---- histories that cross entry-point levels (Model/FrameHist.v, Spec/FrameHistSpec.v) ------------------ *)
(* full: one dataframe- / session-level call on a world of frames = its one-call row-level specification *)
Theorem c09_call_on_world_correct : forall w s w',
  spec_call w s = Some w' -> run_step w s = Ok w'.
Proof. exact spec_call_correct. Qed.
Print Assumptions c09_call_on_world_correct.

(* full: a whole history (dataframe-level calls, Session.sort_on, writes into one column, Field.apply_index /
   apply_filter in place on one column, Session.apply_index onto the column itself, in any order) equals the fold
   of the one-call specifications over the frames as they stand at the time of each call *)
Theorem c09_history_correct : forall evs w w',
  spec_fhist w evs = Some w' -> run_fhist w evs = Ok w'.
Proof. exact fhist_correct_pf. Qed.
Print Assumptions c09_history_correct.

(* full: the last call of any history is that call ALONE on the world the prefix leaves behind (the model keeps
   no state between calls; the real code is tied to this by the `fh` correspondence) *)
Theorem c09_history_last_call_alone : forall evs w w1 s,
  run_fhist w evs = Ok w1 -> run_fhist w (evs ++ [FCall s]) = run_step w1 s.
Proof. exact fhist_last_call_alone_pf. Qed.
Print Assumptions c09_history_last_call_alone.

(* full: after ANY history a filter / re-index / sort (in place or into a destination) whose one-call
   precondition holds on the frames as they stand leaves exactly what the row-level specification says of them *)
Theorem c09_call_after_any_history : forall evs w w1 s w2,
  run_fhist w evs = Ok w1 -> spec_call w1 s = Some w2 -> run_fhist w (evs ++ [FCall s]) = Ok w2.
Proof. exact fhist_call_after_any_history_pf. Qed.
Print Assumptions c09_call_after_any_history.

(* ---- algebra of row selections (Proofs/FilterIndexCompose.v) -------------------------------- *)
(* full: apply_index after apply_index (or after a sort / filter, whose positions are `ps`) is one
   apply_index through the composed positions, for any column content and any in-range qs *)
Theorem c09_select_composes : forall (l:list (list Z)) (ps qs:list Z),
  in_range (len ps) qs = true ->
  gather [] (gather [] l ps) qs = gather [] l (gather 0 ps qs).
Proof. intros l ps qs. exact (gather_gather_proof [] l ps qs). Qed.
Print Assumptions c09_select_composes.

(* full: a filter with one entry per selected row applied after any selection keeps exactly the
   rows at the surviving positions *)
Theorem c09_filter_after_select : forall (l:list (list Z)) (ps:list Z) (m:list bool),
  len m = len ps ->
  gather [] (gather [] l ps) (sel m) = gather [] l (gather 0 ps (sel m)).
Proof. intros l ps m. exact (filter_after_select_proof [] l ps m). Qed.
Print Assumptions c09_filter_after_select.

Example c09_select_composes_ex :
  in_range (len [2; 0; 1]) [1; 1; 2] = true /\
  gather [] (gather [] [[10]; [20]; [30]] [2; 0; 1]) [1; 1; 2] = [[10]; [10]; [20]] /\
  gather 0 [2; 0; 1] [1; 1; 2] = [0; 0; 1] /\
  gather [] (gather [] [[10]; [20]; [30]] [2; 0; 1]) (sel [true; false; true]) = [[30]; [20]].
Proof. vm_compute. repeat split; reflexivity. Qed.

(* the range hypothesis is needed: an out-of-range position reads the default in the two-step
   form but row 0 of the source in the composed form (the implementation rejects both: c09_*_oob) *)
Example c09_select_composes_needs_range :
  gather [] (gather [] [[10]; [20]] [1]) [5] = [[]] /\ gather [] [[10]; [20]] (gather 0 [1] [5]) = [[10]].
Proof. vm_compute. split; reflexivity. Qed.

(* full: selecting rows commutes with any per-cell transformation (decode, cast, escape ...) *)
Theorem c09_select_commutes_with_cell_map : forall (f:list Z -> list Z) (l:list (list Z)) (ps:list Z),
  in_range (len l) ps = true ->
  gather [] (map f l) ps = map f (gather [] l ps).
Proof. intros f l ps. exact (gather_map_proof f [] [] l ps). Qed.
Print Assumptions c09_select_commutes_with_cell_map.
