(* Props/C11.v — what a theorem can carry for C11: one model stands for both runtimes because the two semantic
   forks between CPython and compiled code are closed for the join kernels: no out-of-bounds access (IndexError vs
   silent read) and no fixed-width overflow (every produced index is a row number in range, or the marker). *)
From Coq Require Import ZArith List.
From EV Require Import Res Arr Join JoinSpec JoinBase JoinIface JoinDriver JoinMain JoinAll.
Import ListNotations.
Open Scope Z_scope.

Theorem c11_join_maps_in_range : forall k is_left inv L R,
  (forall x, In x (fst (expected k is_left inv L R)) -> 0 <= x < len L) /\
  (forall y, In y (snd (expected k is_left inv L R)) -> y = inv \/ 0 <= y < len R).
Proof. exact expected_in_range. Qed.
Print Assumptions c11_join_maps_in_range.

Theorem c11_join_no_oob : forall k is_left L R inv cs site,
  kind_pre k L R -> 1 <= cs -> streamed (mkvar k is_left) L R inv cs <> OOB site.
Proof. intros k is_left L R inv cs site Hp Hc. exact (streamed_no_oob k is_left L R inv cs Hp Hc site). Qed.
Print Assumptions c11_join_no_oob.
