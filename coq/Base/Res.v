(* Base/Res.v — result monad shared by every kernel model.
   Ok a        normal result
   OOB site    an array access outside [0,len) at the (numbered) access site: what
               NUMBA_BOUNDSCHECK=1 / USE_NUMBA=false report as IndexError
   Raise code  an exception the Python code raises on purpose (codes below)
   OutOfFuel   the fuel of a modelled `while` loop ran out (the real code would still be looping) *)
From Coq Require Import ZArith List.
Import ListNotations.
Open Scope Z_scope.

Inductive res (A:Type) : Type :=
| Ok (a:A)
| OOB (site:Z)
| Raise (code:Z)
| OutOfFuel.
Arguments Ok {A} a.
Arguments OOB {A} site.
Arguments Raise {A} code.
Arguments OutOfFuel {A}.

Definition bind {A B} (r:res A) (f:A -> res B) : res B :=
  match r with
  | Ok a => f a
  | OOB s => OOB s
  | Raise c => Raise c
  | OutOfFuel => OutOfFuel
  end.

Notation "'do' x <- e ; k" := (bind e (fun x => k))
  (at level 200, x name, e at level 100, k at level 200).
Notation "'do' ' p <- e ; k" := (bind e (fun x => let p := x in k))
  (at level 200, p pattern, e at level 100, k at level 200).

Definition is_ok {A} (r:res A) : bool := match r with Ok _ => true | _ => false end.

(* exception codes (harness/common.py maps Python exception classes to the same numbers) *)
Definition E_ValueError : Z := 1.
Definition E_TypeError : Z := 2.
Definition E_IndexError : Z := 3.
Definition E_KeyError : Z := 4.
Definition E_Overflow : Z := 5.
Definition E_Other : Z := 9.

Lemma bind_ok {A B} (r:res A) (f:A -> res B) b :
  bind r f = Ok b -> exists a, r = Ok a /\ f a = Ok b.
Proof. destruct r; cbn; intros H; try discriminate. eauto. Qed.
