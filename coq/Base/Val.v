(* Base/Val.v — the universal value exchanged between the harness and the extracted model.
   A case is a `val`; every property exports `entry_Cxx : val -> val`.  The OCaml driver
   parses one JSON-like line into a `val`, calls the entry and prints the resulting `val`.
   Nothing here is trusted for the theorems; it is glue (named in the trusted base of the
   correspondence). *)
From Coq Require Import ZArith List.
From EV Require Import Res.
Import ListNotations.
Open Scope Z_scope.

Inductive val : Type :=
| VZ (z:Z)
| VL (l:list val).

(* error encodings, printed as ["E", kind, arg] on the wire: VL [VZ (-999); VZ kind; VZ arg] *)
Definition V_ERR_TAG : Z := -999.
Definition VErr (kind arg:Z) : val := VL [VZ V_ERR_TAG; VZ kind; VZ arg].
Definition K_OOB : Z := 1.
Definition K_RAISE : Z := 2.
Definition K_FUEL : Z := 3.
Definition K_BADCASE : Z := 4.   (* the case did not decode: harness bug, never a verdict *)

Definition vbad : val := VErr K_BADCASE 0.

Definition of_res {A} (f:A -> val) (r:res A) : val :=
  match r with
  | Ok a => f a
  | OOB s => VErr K_OOB s
  | Raise c => VErr K_RAISE c
  | OutOfFuel => VErr K_FUEL 0
  end.

Definition vlist (l:list Z) : val := VL (map VZ l).
Definition vlist2 (l:list (list Z)) : val := VL (map vlist l).
Definition vbool (b:bool) : val := VZ (if b then 1 else 0).
Definition vpair (a b:val) : val := VL [a; b].
Definition vopt {A} (f:A -> val) (o:option A) : val :=
  match o with Some a => VL [f a] | None => VL [] end.

Definition as_Z (v:val) : option Z := match v with VZ z => Some z | _ => None end.
Definition as_bool (v:val) : option bool := match v with VZ z => Some (negb (z =? 0)) | _ => None end.

Fixpoint all_some {A} (l:list (option A)) : option (list A) :=
  match l with
  | [] => Some []
  | Some a :: t => match all_some t with Some t' => Some (a :: t') | None => None end
  | None :: _ => None
  end.

Definition as_list (v:val) : option (list Z) :=
  match v with VL l => all_some (map as_Z l) | _ => None end.
Definition as_list2 (v:val) : option (list (list Z)) :=
  match v with VL l => all_some (map as_list l) | _ => None end.
Definition as_vals (v:val) : option (list val) :=
  match v with VL l => Some l | _ => None end.

(* big-integer wire helpers used by ocaml/driver.ml for numbers beyond 62 bits *)
Definition z_push_digit (z d:Z) : Z := z * 10 + d.
Definition z_pop_digit (z:Z) : Z * Z := (z / 10, z mod 10).
Definition z_is_zero (z:Z) : bool := z =? 0.
Definition z_neg (z:Z) : Z := - z.
Definition z_is_neg (z:Z) : bool := z <? 0.
