(* Base/Arr.v — arrays as lists with checked accesses, and the lemmas that turn a
   checked access with a provably in-range index into a plain list function. *)
From Coq Require Import ZArith List Lia Bool.
From EV Require Import Res.
Import ListNotations.
Open Scope Z_scope.

Section Poly.
Context {A:Type}.

Definition len (l:list A) : Z := Z.of_nat (length l).

Definition get (site:Z) (l:list A) (i:Z) : res A :=
  if i <? 0 then OOB site
  else match nth_error l (Z.to_nat i) with Some v => Ok v | None => OOB site end.

Fixpoint set_nat (l:list A) (n:nat) (v:A) : option (list A) :=
  match l, n with
  | [], _ => None
  | _ :: t, O => Some (v :: t)
  | h :: t, S n' => match set_nat t n' v with Some t' => Some (h :: t') | None => None end
  end.

Definition set (site:Z) (l:list A) (i:Z) (v:A) : res (list A) :=
  if i <? 0 then OOB site
  else match set_nat l (Z.to_nat i) v with Some l' => Ok l' | None => OOB site end.

(* numpy slice l[a:b] for 0 <= a; clamps like numpy does *)
Definition slice (l:list A) (a b:Z) : list A :=
  firstn (Z.to_nat (b - a)) (skipn (Z.to_nat a) l).

Definition nthd (d:A) (l:list A) (i:Z) : A := nth (Z.to_nat i) l d.

(* plain update, used on the proof side *)
Fixpoint upd_nat (l:list A) (n:nat) (v:A) : list A :=
  match l, n with
  | [], _ => []
  | _ :: t, O => v :: t
  | h :: t, S n' => h :: upd_nat t n' v
  end.
Definition upd (l:list A) (i:Z) (v:A) : list A := upd_nat l (Z.to_nat i) v.

Lemma len_nonneg (l:list A) : 0 <= len l.
Proof. unfold len; lia. Qed.

Lemma len_nil : len (@nil A) = 0.
Proof. reflexivity. Qed.

Lemma len_cons (x:A) l : len (x :: l) = len l + 1.
Proof. unfold len; cbn [length]; lia. Qed.

Lemma len_app (l1 l2:list A) : len (l1 ++ l2) = len l1 + len l2.
Proof. unfold len; rewrite app_length; lia. Qed.

Lemma get_ok site d (l:list A) i : 0 <= i < len l -> get site l i = Ok (nthd d l i).
Proof.
  intros H. unfold get, nthd, len in *. destruct (i <? 0) eqn:E; [lia|].
  destruct (nth_error l (Z.to_nat i)) eqn:N.
  - f_equal. symmetry. apply nth_error_nth. exact N.
  - apply nth_error_None in N. lia.
Qed.

Lemma get_oob site (l:list A) i : ~ (0 <= i < len l) -> get site l i = OOB site.
Proof.
  intros H. unfold get, len in *. destruct (i <? 0) eqn:E; [reflexivity|].
  destruct (nth_error l (Z.to_nat i)) eqn:N; [|reflexivity].
  assert (nth_error l (Z.to_nat i) <> None) as Hn by congruence.
  apply nth_error_Some in Hn. lia.
Qed.

Lemma get_Ok_inv site (l:list A) i v : get site l i = Ok v -> 0 <= i < len l.
Proof.
  unfold get, len. destruct (i <? 0) eqn:E; [discriminate|].
  destruct (nth_error l (Z.to_nat i)) eqn:N; [|discriminate]. intros _.
  assert (nth_error l (Z.to_nat i) <> None) as Hn by congruence.
  apply nth_error_Some in Hn. lia.
Qed.

Lemma set_nat_ok (l:list A) n v : (n < length l)%nat -> set_nat l n v = Some (upd_nat l n v).
Proof.
  revert n. induction l as [|h t IH]; intros n H; cbn in *; [lia|].
  destruct n; [reflexivity|]. rewrite IH by lia. reflexivity.
Qed.

Lemma set_nat_none (l:list A) n v : (length l <= n)%nat -> set_nat l n v = None.
Proof.
  revert n. induction l as [|h t IH]; intros n H; cbn in *; [reflexivity|].
  destruct n; [lia|]. rewrite IH by lia. reflexivity.
Qed.

Lemma set_ok site (l:list A) i v : 0 <= i < len l -> set site l i v = Ok (upd l i v).
Proof.
  intros H. unfold set, upd, len in *. destruct (i <? 0) eqn:E; [lia|].
  rewrite set_nat_ok by lia. reflexivity.
Qed.

Lemma set_oob site (l:list A) i v : ~ (0 <= i < len l) -> set site l i v = OOB site.
Proof.
  intros H. unfold set, len in *. destruct (i <? 0) eqn:E; [reflexivity|].
  rewrite set_nat_none by lia. reflexivity.
Qed.

Lemma upd_nat_length (l:list A) n v : length (upd_nat l n v) = length l.
Proof. revert n; induction l as [|h t IH]; intros [|n]; cbn; auto. Qed.

Lemma len_upd (l:list A) i v : len (upd l i v) = len l.
Proof. unfold len, upd. rewrite upd_nat_length. reflexivity. Qed.

Lemma nth_upd_nat_same d (l:list A) n v : (n < length l)%nat -> nth n (upd_nat l n v) d = v.
Proof. revert n; induction l as [|h t IH]; intros [|n] H; cbn in *; try lia; auto. apply IH; lia. Qed.

Lemma nth_upd_nat_other d (l:list A) n m v : n <> m -> nth m (upd_nat l n v) d = nth m l d.
Proof.
  revert n m; induction l as [|h t IH]; intros [|n] [|m] H; cbn; try reflexivity; try lia.
  apply IH; lia.
Qed.

Lemma nthd_upd_same d (l:list A) i v : 0 <= i < len l -> nthd d (upd l i v) i = v.
Proof. intros H. unfold nthd, upd, len in *. apply nth_upd_nat_same. lia. Qed.

Lemma nthd_upd_other d (l:list A) i j v : 0 <= i -> 0 <= j -> i <> j -> nthd d (upd l i v) j = nthd d l j.
Proof. intros Hi Hj H. unfold nthd, upd. apply nth_upd_nat_other. lia. Qed.

Lemma firstn_upd_nat (l:list A) n v : firstn n (upd_nat l n v) = firstn n l.
Proof. revert n; induction l as [|h t IH]; intros [|n]; cbn; auto. f_equal; apply IH. Qed.

Lemma firstn_upd_nat_lt (l:list A) n m v : (m <= n)%nat -> firstn m (upd_nat l n v) = firstn m l.
Proof.
  revert n m; induction l as [|h t IH]; intros [|n] [|m] H; cbn; auto; try lia.
  f_equal; apply IH; lia.
Qed.

Lemma firstn_succ_upd_nat (l:list A) n v : (n < length l)%nat ->
  firstn (S n) (upd_nat l n v) = firstn n l ++ [v].
Proof.
  revert n; induction l as [|h t IH]; intros [|n] H; cbn in *; try lia; auto.
  f_equal. apply IH. lia.
Qed.

Lemma nthd_cons_succ d (x:A) l i : 0 <= i -> nthd d (x :: l) (i + 1) = nthd d l i.
Proof. intros H. unfold nthd. replace (Z.to_nat (i+1)) with (S (Z.to_nat i)) by lia. reflexivity. Qed.

Lemma nthd_cons_0 d (x:A) l : nthd d (x :: l) 0 = x.
Proof. reflexivity. Qed.

Lemma nthd_app_l d (l1 l2:list A) i : 0 <= i < len l1 -> nthd d (l1 ++ l2) i = nthd d l1 i.
Proof. intros H. unfold nthd, len in *. apply app_nth1. lia. Qed.

Lemma nthd_app_r d (l1 l2:list A) i : len l1 <= i -> nthd d (l1 ++ l2) i = nthd d l2 (i - len l1).
Proof.
  intros H. unfold nthd, len in *. rewrite app_nth2 by lia. f_equal. lia.
Qed.

Lemma firstn_snoc d (l:list A) i : 0 <= i < len l ->
  firstn (Z.to_nat (i + 1)) l = firstn (Z.to_nat i) l ++ [nthd d l i].
Proof.
  intros H. unfold nthd, len in *. replace (Z.to_nat (i+1)) with (S (Z.to_nat i)) by lia.
  assert (Hn : (Z.to_nat i < length l)%nat) by lia. revert Hn. generalize (Z.to_nat i) as n. clear H.
  induction l as [|x l IH]; intros n Hn; cbn in *; [lia|].
  destruct n; cbn; [reflexivity|]. f_equal. apply IH. lia.
Qed.

Lemma nth_skipn (l:list A) m n d : nth n (skipn m l) d = nth (m + n) l d.
Proof.
  revert l. induction m as [|m IH]; intros l; [reflexivity|].
  destruct l; cbn; [destruct n; reflexivity|apply IH].
Qed.

Lemma nth_firstn (l:list A) m n d : (n < m)%nat -> nth n (firstn m l) d = nth n l d.
Proof.
  revert l n. induction m as [|m IH]; intros l n H; [lia|].
  destruct l; cbn; [destruct n; reflexivity|]. destruct n; [reflexivity|]. apply IH. lia.
Qed.

Lemma len_slice (l:list A) a b : 0 <= a -> a <= b -> b <= len l -> len (slice l a b) = b - a.
Proof.
  intros Ha Hab Hb. unfold slice, len in *. rewrite firstn_length, skipn_length. lia.
Qed.

Lemma len_slice_clamp (l:list A) a b : 0 <= a -> len (slice l a b) = Z.max 0 (Z.min b (len l) - a).
Proof.
  intros Ha. unfold slice, len in *. rewrite firstn_length, skipn_length. lia.
Qed.

Lemma nthd_slice d (l:list A) a b i : 0 <= a -> 0 <= i < b - a ->
  nthd d (slice l a b) i = nthd d l (a + i).
Proof.
  intros Ha Hi. unfold nthd, slice. rewrite nth_firstn by lia. rewrite nth_skipn. f_equal. lia.
Qed.

Lemma slice_full (l:list A) : slice l 0 (len l) = l.
Proof.
  unfold slice, len. cbn [Z.to_nat skipn]. rewrite Z.sub_0_r, Nat2Z.id. apply firstn_all.
Qed.

Lemma list_eq_nthd d (l1 l2:list A) :
  len l1 = len l2 -> (forall i, 0 <= i < len l1 -> nthd d l1 i = nthd d l2 i) -> l1 = l2.
Proof.
  unfold len, nthd. intros Hl H. apply (nth_ext l1 l2 d d); [lia|].
  intros n Hn. specialize (H (Z.of_nat n)). rewrite Nat2Z.id in H. apply H. lia.
Qed.

End Poly.

(* integer arrays: default 0 *)
Definition nthZ (l:list Z) (i:Z) : Z := nthd 0 l i.

Lemma getZ_ok site (l:list Z) i : 0 <= i < len l -> get site l i = Ok (nthZ l i).
Proof. apply get_ok. Qed.

(* sortedness, index-based (what `lia` likes) *)
Definition sorted (l:list Z) : Prop :=
  forall i j, 0 <= i -> i <= j -> j < len l -> nthZ l i <= nthZ l j.
Definition ssorted (l:list Z) : Prop :=
  forall i j, 0 <= i -> i < j -> j < len l -> nthZ l i < nthZ l j.

Lemma ssorted_sorted l : ssorted l -> sorted l.
Proof.
  intros H i j Hi Hij Hj. destruct (Z.eq_dec i j) as [->|Hne]; [lia|].
  specialize (H i j). lia.
Qed.

Fixpoint sortedb (l:list Z) : bool :=
  match l with
  | [] => true
  | x :: t => match t with [] => true | y :: _ => (x <=? y) && sortedb t end
  end.
Fixpoint ssortedb (l:list Z) : bool :=
  match l with
  | [] => true
  | x :: t => match t with [] => true | y :: _ => (x <? y) && ssortedb t end
  end.

Lemma sorted_tail x l : sorted (x :: l) -> sorted l.
Proof.
  intros H i j Hi Hij Hj. specialize (H (i+1) (j+1)).
  unfold nthZ in *. rewrite !nthd_cons_succ in H by lia. apply H; try lia. rewrite len_cons. lia.
Qed.

Lemma sortedb_sorted l : sortedb l = true -> sorted l.
Proof.
  induction l as [|x t IH]; intros Hb i j Hi Hij Hj.
  - unfold len in Hj; cbn in Hj; lia.
  - cbn [sortedb] in Hb. destruct t as [|y t'].
    + rewrite len_cons, len_nil in Hj. assert (i = 0) by lia. assert (j = 0) by lia. subst. lia.
    + apply andb_prop in Hb. destruct Hb as [Hxy Ht]. specialize (IH Ht).
      destruct (Z.eq_dec i 0) as [->|Hi0].
      * destruct (Z.eq_dec j 0) as [->|Hj0]; [lia|].
        replace j with ((j-1)+1) by lia. unfold nthZ. rewrite nthd_cons_succ by lia. rewrite nthd_cons_0.
        assert (Hy : y <= nthZ (y :: t') (j-1)).
        { specialize (IH 0 (j-1)). unfold nthZ in IH. rewrite nthd_cons_0 in IH. apply IH; try lia.
          rewrite len_cons in Hj. lia. }
        unfold nthZ in Hy. apply Z.leb_le in Hxy. lia.
      * replace i with ((i-1)+1) by lia. replace j with ((j-1)+1) by lia.
        unfold nthZ. rewrite !nthd_cons_succ by lia. apply IH; try lia. rewrite len_cons in Hj. lia.
Qed.

Lemma ssortedb_ssorted l : ssortedb l = true -> ssorted l.
Proof.
  induction l as [|x t IH]; intros Hb i j Hi Hij Hj.
  - unfold len in Hj; cbn in Hj; lia.
  - cbn [ssortedb] in Hb. destruct t as [|y t'].
    + rewrite len_cons, len_nil in Hj. lia.
    + apply andb_prop in Hb. destruct Hb as [Hxy Ht]. specialize (IH Ht).
      apply Z.ltb_lt in Hxy.
      assert (Hmono : forall k, 0 <= k < len (y :: t') -> y <= nthZ (y :: t') k).
      { intros k Hk. destruct (Z.eq_dec k 0) as [->|]; [unfold nthZ; rewrite nthd_cons_0; lia|].
        specialize (IH 0 k). unfold nthZ in *. rewrite nthd_cons_0 in IH. lia. }
      destruct (Z.eq_dec i 0) as [->|Hi0].
      * replace j with ((j-1)+1) by lia. unfold nthZ. rewrite nthd_cons_succ by lia. rewrite nthd_cons_0.
        specialize (Hmono (j-1)). unfold nthZ in Hmono. rewrite len_cons in Hj. lia.
      * replace i with ((i-1)+1) by lia. replace j with ((j-1)+1) by lia.
        unfold nthZ. rewrite !nthd_cons_succ by lia. apply IH; try lia. rewrite len_cons in Hj. lia.
Qed.

(* prefix sums: [0; a0; a0+a1; ...] *)
Fixpoint psums_from (acc:Z) (l:list Z) : list Z :=
  match l with [] => [acc] | x :: t => acc :: psums_from (acc + x) t end.
Definition psums (l:list Z) : list Z := psums_from 0 l.

Fixpoint sumZ (l:list Z) : Z := match l with [] => 0 | x :: t => x + sumZ t end.

Lemma psums_from_length acc l : length (psums_from acc l) = S (length l).
Proof. revert acc; induction l as [|x t IH]; intros acc; cbn; [reflexivity|]. rewrite IH; reflexivity. Qed.

Lemma sumZ_app l1 l2 : sumZ (l1 ++ l2) = sumZ l1 + sumZ l2.
Proof. induction l1 as [|x t IH]; cbn; [reflexivity|]. rewrite IH. lia. Qed.

Lemma psums_from_snoc acc l x : psums_from acc (l ++ [x]) = psums_from acc l ++ [acc + sumZ l + x].
Proof.
  revert acc; induction l as [|y t IH]; intros acc; cbn.
  - f_equal. f_equal. lia.
  - f_equal. rewrite IH. f_equal. f_equal. lia.
Qed.

Lemma psums_from_last acc l : last (psums_from acc l) 0 = acc + sumZ l.
Proof.
  revert acc; induction l as [|x t IH]; intros acc; cbn [psums_from sumZ].
  - cbn. lia.
  - specialize (IH (acc + x)). destruct (psums_from (acc + x) t) eqn:E.
    + pose proof (psums_from_length (acc+x) t) as Hl. rewrite E in Hl. cbn in Hl. lia.
    + cbn [last]. cbn [last] in IH. rewrite IH. lia.
Qed.
