(* GenProps/C13Table.v — the GENERATED OBLIGATIONS of C13.  Not part of the make build: on every run
   harness/c13_table.py re-translates $VERIF_REPO/exetera/core/fields.py into Gen/DispatchTable.v and
   compiles this file against it; each theorem below is one obligation.  A theorem that no longer
   compiles means the operator layer of the tree changed in a way that breaks the property (or the
   tie between the tree and the extracted model): reported by ./check as a violation. *)
From Coq Require Import ZArith List.
From EV Require Import Res Dispatch DispatchSpec DispatchProofs DispatchTable.
Import ListNotations.
Open Scope Z_scope.

Definition gen_tables : code_tables := {| t_methods := gen_table; t_ufunc := gen_ufunc; t_ops := gen_ops |}.

(* the wrappers _binary_op/_unary_op/numeric_divmod/dtype_to_str still have the modelled statements *)
Theorem gen_wrappers_unchanged : gen_wrappers_ok = true.
Proof. vm_compute. reflexivity. Qed.
Print Assumptions gen_wrappers_unchanged.

(* dispatch_table_correct on the freshly translated table *)
Theorem gen_dispatch_table_correct : tables_ok gen_tables = true.
Proof. vm_compute. reflexivity. Qed.
Print Assumptions gen_dispatch_table_correct.

Theorem gen_entries_wellformed : forallb entry_wellformed gen_table = true.
Proof. vm_compute. reflexivity. Qed.
Print Assumptions gen_entries_wellformed.

(* reflected_ops_reachable on the freshly translated class flags *)
Theorem gen_reflected_ops_reachable : reflected_reachable gen_tables = true.
Proof. vm_compute. reflexivity. Qed.
Print Assumptions gen_reflected_ops_reachable.

(* the tie: the tables compiled into the extracted model (used by the correspondence run) are the
   tables of the tree *)
Theorem gen_methods_are_model_methods : gen_table = repo_table.
Proof. vm_compute. reflexivity. Qed.
Print Assumptions gen_methods_are_model_methods.

Theorem gen_flags_are_model_flags : gen_ufunc = repo_ufunc.
Proof. vm_compute. reflexivity. Qed.
Print Assumptions gen_flags_are_model_flags.

Theorem gen_ops_are_model_ops : gen_ops = repo_ops.
Proof. vm_compute. reflexivity. Qed.
Print Assumptions gen_ops_are_model_ops.

(* hence the pass-through theorem holds of the tree's own table *)
Theorem gen_binop_passthrough :
  forall (arr nformat:Type)
         (np_bin : npop -> arr -> arr -> res arr) (np_divmod : arr -> arr -> res (arr * arr))
         (np_un : npop -> arr -> res arr) (np_item : arr -> arr)
         (dtype_to_str : arr -> res nformat) (np_cast : nformat -> arr -> res arr) (np_empty : nformat -> arr),
    (forall o a b, is_cmp o = true -> np_bin (npop_of (mirror o)) b a = np_bin (npop_of o) a b) ->
    (forall r nf, dtype_to_str r = Ok nf -> np_cast nf r = Ok r) ->
    forall (h:heap arr nformat) lhs rhs o store kl kr,
      kind_of arr nformat h lhs = Ok kl -> kind_of arr nformat h rhs = Ok kr -> in_scope kl o kr = true ->
      run_binop arr nformat np_bin np_divmod np_un np_item dtype_to_str np_cast np_empty gen_tables h lhs o rhs store
      = spec_binop arr nformat np_bin np_divmod dtype_to_str np_empty h lhs o rhs store.
Proof.
  intros arr nformat np_bin np_divmod np_un np_item d2s np_cast np_empty H1 H2.
  exact (binop_passthrough arr nformat np_bin np_divmod np_un np_item d2s np_cast np_empty H1 H2 gen_tables gen_dispatch_table_correct).
Qed.
Print Assumptions gen_binop_passthrough.
