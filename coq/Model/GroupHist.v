(* Model/GroupHist.v — C07: HISTORIES of calls on ONE dataframe object.  Proof-free, executable.

   The real code keeps no state between two group-bys: DataFrame.groupby reads `self._columns[k].data[:]` at
   the time of the call and the HDF5DataFrameGroupBy object lives for one chain of calls.  A history is
   therefore modelled as a fold over the CURRENT frame: every group-by / drop_duplicates event is the call
   of Model/Group.v ALONE on the frame as it is at that moment (into a fresh destination), every other event
   changes the frame through the functions of Model/FilterIndex.v (C09):

     HGroup by hint steps     g = df.groupby(by, hint); g.step1(ddf_new); g.step2(ddf_new); ...
     HDropDup by hint         df.drop_duplicates(by, ddf_new, hint)
     HWrite name body         df[name].data[:] = new   |   df[name].data.clear(); df[name].data.write(new)
                              (same field object; h5py slice assignment / clear+write: the stored content
                              is replaced by `body`, metadata and write flag stay)
     HFieldIndex name idx     df[name].apply_index(idx, in_place=True)     (one column only)
     HFilter flt              df.apply_filter(flt)                          (in place, every column)
     HIndex idx               df.apply_index(idx)                           (in place, every column)
     HSort by                 df.sort_values(by)                            (in place)

   Any memo kept on the dataframe, on a field or on the session between two calls makes the real code
   differ from this fold. *)
From Coq Require Import ZArith List Bool.
From EV Require Import Res Arr StableSort Spans FilterIndex Group.
Import ListNotations.
Open Scope Z_scope.

Inductive hev : Type :=
| HGroup (by_:list Z) (hint:bool) (steps:list gstep)
| HDropDup (by_:list Z) (hint:bool)
| HWrite (name:Z) (b:body)
| HFieldIndex (name:Z) (idx:list Z)
| HFilter (flt:list Z)
| HIndex (idx:list Z)
| HSort (by_:list Z).

(* self._columns[name] = op(self._columns[name]) (the field object stays in its place in the ordered dict) *)
Fixpoint update_field (name:Z) (op:field -> res field) (cols:frame) : res frame :=
  match cols with
  | [] => Raise E_KeyError
  | (m, f) :: t =>
    if m =? name then do f' <- op f; Ok ((m, f') :: t)
    else do t' <- update_field name op t; Ok ((m, f) :: t')
  end.

(* the events that change the frame; None for the two group-by events *)
Definition hist_mutate (cols:frame) (e:hev) : option (res frame) :=
  match e with
  | HGroup _ _ _ | HDropDup _ _ => None
  | HWrite name b =>
    Some (update_field name (fun f => if fwr f then Ok (with_body f b) else Raise E_ValueError) cols)
  | HFieldIndex name idx =>
    Some (update_field name (fun f => do r <- field_apply_index f idx None true; Ok (r_src r)) cols)
  | HFilter flt => Some (do r <- df_apply_filter cols 0 flt None; Ok (fst r))
  | HIndex idx => Some (do r <- df_apply_index cols idx None; Ok (fst r))
  | HSort by_ => Some (do r <- df_sort_values cols by_ None; Ok (fst r))
  end.

(* the history: the destination frames of the group-by events in call order, and the final source frame *)
Fixpoint run_hist (cols:frame) (evs:list hev) (outs:list frame) : res (list frame * frame) :=
  match evs with
  | [] => Ok (outs, cols)
  | e :: t =>
    match e with
    | HGroup by_ hint ss =>
      do d <- df_groupby_steps cols by_ hint [] ss; run_hist cols t (outs ++ [d])
    | HDropDup by_ hint =>
      do d <- df_drop_duplicates cols by_ [] hint; run_hist cols t (outs ++ [d])
    | _ =>
      match hist_mutate cols e with
      | Some r => do cols' <- r; run_hist cols' t outs
      | None => Raise E_Other
      end
    end
  end.
