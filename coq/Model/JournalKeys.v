(* Model/JournalKeys.v — the parts of journal_table's input domain that Model/Journal.v abstracts to Z (C17, strengthening).

   1. Fixed-width byte-string primary keys (numpy dtype S<w>).  numpy stores such a cell as exactly w bytes, NUL-padded on
      the right; np.argsort / the `<`, `>`, `==` of the numba kernels order the cells bytewise, unsigned, over the whole
      width (no stripping of blanks, no stop at an embedded NUL, no sign).  `key_enc w` is the big-endian value of the
      padded cell: Proofs/JournalKeysProofs.v shows it is an order isomorphism, so journal_table on byte keys is
      journal_table on their codes.
   2. Size parameters.  journal_table (journal.py:38-130) and the kernels it calls read neither ops.DEFAULT_CHUNKSIZE nor
      any `chunksize=` default, nor the chunk size of the Session / of the fields: the whole merged column is produced by
      one kernel call and written by one `write`.  `journal_table_sized cs scs` is the model of the call executed with
      ops.DEFAULT_CHUNKSIZE (and every chunksize default of operations.py) = cs and field chunk size = scs; the code that
      exists does not look at them, so neither does the model (the correspondence run executes the real code with
      cs, scs in 1..8 so that any segment-wise processing of the tables is multi-segment on tables of a few rows). *)
From Coq Require Import ZArith List Bool.
From EV Require Import Res Arr Journal.
Import ListNotations.
Open Scope Z_scope.

(* the w stored bytes of a cell *)
Definition pad (w:nat) (bs:list Z) : list Z := firstn w (bs ++ repeat 0 w).

(* big-endian value of a byte string *)
Fixpoint be_val (bs:list Z) : Z :=
  match bs with
  | [] => 0
  | b :: t => b * 256 ^ len t + be_val t
  end.

Definition key_enc (w:nat) (bs:list Z) : Z := be_val (pad w bs).

Definition journal_table_sized (cs scs:Z) (fuel:nat) (okeys ovf nkeys:list Z) (fields:list (col * col))
  : res (list col) :=
  journal_table fuel okeys ovf nkeys fields.

Definition journal_table_bytes (w:nat) (cs scs:Z) (fuel:nat) (okeys:list (list Z)) (ovf:list Z)
  (nkeys:list (list Z)) (fields:list (col * col)) : res (list col) :=
  journal_table_sized cs scs fuel (map (key_enc w) okeys) ovf (map (key_enc w) nkeys) fields.
