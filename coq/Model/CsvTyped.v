(* Model/CsvTyped.v — the CSV import path with TYPED columns (C05, strengthening SC05).

   Model/Csv.v models read_file_using_fast_csv_reader with IndexedStringImporter objects only.  The
   real `field_importer_list` holds one importer per imported column, of whatever class the schema
   asks for (field_importers.py: IndexedStringImporter, FixedStringImporter, CategoricalImporter,
   LeakyCategoricalImporter, NumericImporter), and several of these carry state from one reader
   pass to the next (chunk_accumulated, freetext_index_accumulated, the append position of every
   destination field).  This file models

     * the driver once more, statement by statement as in Csv.drv_step, but with the importer list
       as a parameter (Section GenDriver): the state I of the whole list and the function `imp_all`
       that lines 117-119 apply to it after every kernel call;
     * the typed importer list: constructors (`__init__`) and import_part of each class, built from
       the per-class models of Model/Transform.v (C06) on the chunk view the driver hands over:
       column_inds[col_idx] (the WHOLE index row, stale entries included), the whole column_vals,
       column_offsets[col_idx], column_offsets[col_idx+1]-column_offsets[col_idx], written_row_count;
     * read_csv_with_schema_dict with a typed schema (all columns imported).

   Proof-free.  Proofs/CsvTyped*.v show that the generic driver instantiated with indexed-string
   importers IS Csv.read_file, and that for any importer list the result is the fold of `imp_all`
   over the record groups the reader commits (so it cannot depend on chunk_row_size or budgets). *)
From Coq Require Import ZArith List Bool.
From EV Require Import Res Arr Csv Transform.
Import ListNotations.
Open Scope Z_scope.

(* ---- read_file_using_fast_csv_reader with an arbitrary importer list ------------------------------ *)
Section GenDriver.
  Variable I : Type.
  (* for ith, i_c in enumerate(index_map): field_importer_list[ith].import_part(column_inds, column_vals,
     column_offsets, i_c, written_row_count) *)
  Variable imp_all : arr2 -> list Z -> list Z -> Z -> I -> res I.

  Record gdst : Type := mkG {
    g_chunk : Z; g_hdr : bool; g_acc : Z;
    g_inds : arr2; g_vals : list Z; g_offs : list Z;
    g_ifull : bool; g_vfull : bool;
    g_content : list Z; g_start : Z;
    g_imps : I;
    g_trace : list (list Z) }.

  (* Csv.drv_step with `import_all ... index_map ... (d_imps d)` replaced by `imp_all ... (g_imps d)` *)
  Definition gdrv_step (file:list Z) (ncols cbs:Z) (d:gdst) : res (gdst + gdst) :=
    let total := len file in
    let fresh := negb (g_ifull d) && negb (g_vfull d) in
    let content0 := if fresh then slice file (g_chunk d) (g_chunk d + cbs) else g_content d in
    let start := if fresh then 0 else g_start d in
    if fresh && (len content0 =? 0) then Ok (Datatypes.inr d)
    else
    let content :=
      if fresh && (g_chunk d + len content0 =? total) && negb (last content0 NL =? NL)
      then content0 ++ [NL] else content0 in
    do r <- fast_csv_reader (fsm_fuel content start) content start (g_inds d) (g_vals d) (g_offs d) (g_hdr d);
    if negb (f_ifull r) && negb (f_vfull r) && (f_next r <=? 0) then Raise E_ValueError else
    do imps' <- imp_all (f_inds r) (f_vals r) (g_offs d) (f_rows r) (g_imps d);
    let inds' := if f_ifull r then zeros2 ncols ((fst (f_inds r) - 1) * 2 + 1) else f_inds r in
    do '(offs', vals') <-
       (if f_vfull r && negb (f_vfc r =? -1) then
          do a <- get 30 (g_offs d) (f_vfc r + 1);
          do b <- get 30 (g_offs d) (f_vfc r);
          let delta := (a - b) * (2 - 1) in
          let n := Z.to_nat (f_vfc r + 1) in
          let offs' := firstn n (g_offs d) ++ map (fun x => x + delta) (skipn n (g_offs d)) in
          Ok (offs', Csv.zeros (last offs' 0))
        else Ok (g_offs d, f_vals r));
    let full := (f_ifull r || f_vfull r) && (f_next r <? len content) in
    let tr := [g_chunk d; start; len content; f_next r; f_rows r; b2z (f_ifull r); b2z (f_vfull r);
               b2z (f_esc r); b2z (f_cand r)] in
    Ok (Datatypes.inl (mkG (if full then g_chunk d else g_chunk d + f_next r) false (g_acc d + f_rows r)
                   inds' vals' offs' (full && f_ifull r) (full && f_vfull r) content (if full then f_next r else start)
                   imps' (tr :: g_trace d))).

  Fixpoint gdrv_loop (fuel:nat) (file:list Z) (ncols cbs:Z) (d:gdst) : res gdst :=
    match fuel with
    | O => OutOfFuel
    | S f =>
      if g_chunk d <? len file then
        do r <- gdrv_step file ncols cbs d;
        match r with
        | Datatypes.inl d' => gdrv_loop f file ncols cbs d'
        | Datatypes.inr d' => Ok d'
        end
      else Ok d
    end.

  Definition gread_file (fuel:nat) (file:list Z) (chunk_row_size ncols:Z) (offs:list Z) (i0:I) : res gdst :=
    let crs2 := chunk_row_size * 2 in
    let cbs := crs2 * ncols in
    gdrv_loop fuel file ncols cbs
      (mkG 0 true 0 (zeros2 ncols (crs2 + 1)) (Csv.zeros (last offs 0)) offs false false [] 0 i0 []).
End GenDriver.

Arguments mkG {I}.
Arguments g_chunk {I}. Arguments g_hdr {I}. Arguments g_acc {I}. Arguments g_inds {I}. Arguments g_vals {I}.
Arguments g_offs {I}. Arguments g_ifull {I}. Arguments g_vfull {I}. Arguments g_content {I}.
Arguments g_start {I}. Arguments g_imps {I}. Arguments g_trace {I}.

(* ---- the importer classes -------------------------------------------------------------------------- *)
(* what a schema says about a column (ImporterDefinition objects) *)
Inductive fdef : Type :=
| FStr                                                           (* String()                                 *)
| FFixed (n:Z)                                                   (* String(fixed_length=n), n > 0            *)
| FCat (cats:list (list Z * Z))                                  (* Categorical(cats)                        *)
| FLeaky (cats:list (list Z * Z))                                (* Categorical(cats, allow_freetext=True)   *)
| FBool (inv mode:Z)                                             (* Numeric('bool', inv, mode)               *)
| FInt (lo hi mode:Z) (inv_text:list Z) (inv_val:Z).             (* Numeric('int8'..'int64', inv, mode)      *)

(* an importer object: its parameters and everything it has written / accumulated so far *)
Inductive fimp : Type :=
| MStr (m:imp)
| MFixed (n:Z) (data:list Z)
| MCat (bm:list Z * list Z * list Z) (data:list Z)
| MLeaky (bm:list Z * list Z * list Z) (st:lkst)
| MBool (inv mode:Z) (st:list Z * list Z)
| MInt (lo hi mode:Z) (inv_text:list Z) (inv_val:Z) (st:list Z * list Z).

(* __init__ (read_csv_with_schema_dict builds the importers, in column order, before the first read) *)
Definition fimp_new (d:fdef) : res fimp :=
  match d with
  | FStr => Ok (MStr imp_new)
  | FFixed n => Ok (MFixed n [])
  | FCat cats =>
      do _ <- create_categorical cats;            (* df.create_categorical(name, 'int8', categories) *)
      do bm <- get_byte_map cats;
      Ok (MCat bm [])
  | FLeaky cats =>
      do bm <- get_byte_map cats;
      do _ <- create_categorical cats;
      Ok (MLeaky bm lkst0)
  | FBool inv mode => Ok (MBool inv mode ([], []))
  | FInt lo hi mode it iv => Ok (MInt lo hi mode it iv ([], []))
  end.

(* the view of one column of the staging buffers that import_part works on *)
Definition chunk_of (inds:arr2) (vals offs:list Z) (col wrc:Z) : res chunk :=
  do rowv <- get 70 (snd inds) col;
  do o0 <- get 71 offs col;
  do o1 <- get 72 offs (col + 1);
  Ok (mkChunk rowv vals o0 (o1 - o0) wrc).

Definition fimp_part (inds:arr2) (vals offs:list Z) (col wrc:Z) (m:fimp) : res fimp :=
  match m with
  | MStr s => do s' <- import_part inds vals offs col wrc s; Ok (MStr s')
  | MFixed n data =>
      do c <- chunk_of inds vals offs col wrc;
      do data' <- fixed_import_part n data c; Ok (MFixed n data')
  | MCat bm data =>
      do c <- chunk_of inds vals offs col wrc;
      do data' <- cat_import_part bm data c; Ok (MCat bm data')
  | MLeaky bm st =>
      do c <- chunk_of inds vals offs col wrc;
      do st' <- leaky_import_part bm st c; Ok (MLeaky bm st')
  | MBool inv mode st =>
      do c <- chunk_of inds vals offs col wrc;
      do st' <- bool_import_part inv mode st c; Ok (MBool inv mode st')
  | MInt lo hi mode it iv st =>
      do c <- chunk_of inds vals offs col wrc;
      do st' <- num_import_part py_int (Some (lo, hi)) mode it iv st c; Ok (MInt lo hi mode it iv st')
  end.

Fixpoint fimp_all (index_map:list Z) (inds:arr2) (vals offs:list Z) (wrc:Z) (ms:list fimp)
  : res (list fimp) :=
  match index_map, ms with
  | i_c :: it, m :: mt =>
      do m' <- fimp_part inds vals offs i_c wrc m;
      do mt' <- fimp_all it inds vals offs wrc mt;
      Ok (m' :: mt')
  | _, _ => Ok []
  end.

(* the driver called with a typed importer list *)
Definition tread_file (fuel:nat) (file:list Z) (chunk_row_size ncols:Z) (offs index_map:list Z)
           (defs:list fdef) : res (gdst (list fimp)) :=
  do ms <- Csv.map_res fimp_new defs;
  gread_file (list fimp) (fimp_all index_map) fuel file chunk_row_size ncols offs ms.

(* read_csv_with_schema_dict, every column of the file imported (include = exclude = None);
   sizes = the _field_size of each column's definition *)
Definition tread_csv (fuel:nat) (file:list Z) (names:list (list Z)) (sizes:list Z) (defs:list fdef)
           (chunk_row_size:Z) : res (gdst (list fimp)) :=
  do index_map <- Csv.map_res (fun k => index_of k names) names;
  tread_file fuel file chunk_row_size (len names) (col_offsets_from 0 sizes chunk_row_size) index_map defs.

(* the same driver with the indexed-string importers of Model/Csv.v (for the conservativity theorem) *)
Definition sread_file (fuel:nat) (file:list Z) (chunk_row_size ncols:Z) (offs index_map:list Z)
  : res (gdst (list imp)) :=
  gread_file (list imp) (fun inds vals offs wrc ms => import_all inds vals offs index_map wrc ms)
             fuel file chunk_row_size ncols offs (map (fun _ => imp_new) index_map).
