(* Model/Catalogue.v — executable model of the structural-edit code of
   exetera/core/dataframe.py (HDF5DataFrame, module functions copy/move),
   exetera/core/dataset.py (HDF5Dataset, module functions copy/move) and the
   validity / name part of exetera/core/fields.py (HDF5Field).

   Two catalogues are kept side by side, exactly as the code does:
     - the Python one:  Dataset._dataframes, DataFrame.name/_dataset/_columns,
                        Field._valid_reference/_dataframe
     - the HDF5 one:    the link table of the file root and of every group; h5py
                        objects are referred to by identity (an integer id), their
                        `.name` is recomputed from the link tables (HDF5 tracks the
                        path of open objects through H5Lmove; an unlinked object has
                        name None).
   A Python DataFrame object and its h5py group are created together and never
   separated, so they share one id; the same for a Field object and its h5py group.

   Exceptions do not roll anything back: every operation is a state transformer
   returning the state reached when the exception left the method.

   cfg selects, per defect, the code as found (false) or the code after
   work/C15/fix-F-C15a.diff / fix-F-C15b.diff / fix-F-C15c.diff (true).  No proofs here. *)
From Coq Require Import ZArith List Bool.
From EV Require Import Res.
Import ListNotations.
Open Scope Z_scope.

(* ------------------------------------------------------------------ names, dicts *)
Definition name := list Z.

Fixpoint name_eqb (a b:name) : bool :=
  match a, b with
  | [], [] => true
  | x :: a', y :: b' => (x =? y) && name_eqb a' b'
  | _, _ => false
  end.

Fixpoint nmem (n:name) (l:list name) : bool :=
  match l with [] => false | h :: t => name_eqb n h || nmem n t end.

Fixpoint nremove (n:name) (l:list name) : list name :=
  match l with [] => [] | h :: t => if name_eqb n h then t else h :: nremove n t end.

(* Python dict / OrderedDict (insertion ordered) and HDF5 link table: name -> value *)
Section Dict.
Context {V:Type}.
Definition dict := list (name * V).
Fixpoint d_find (l:dict) (n:name) : option V :=
  match l with [] => None | (k, v) :: t => if name_eqb n k then Some v else d_find t n end.
Definition d_mem (l:dict) (n:name) : bool := match d_find l n with Some _ => true | None => false end.
(* d[n] = v : replace in place or append *)
Fixpoint d_set (l:dict) (n:name) (v:V) : dict :=
  match l with
  | [] => [(n, v)]
  | (k, w) :: t => if name_eqb n k then (k, v) :: t else (k, w) :: d_set t n v
  end.
Fixpoint d_del (l:dict) (n:name) : dict :=
  match l with [] => [] | (k, w) :: t => if name_eqb n k then t else (k, w) :: d_del t n end.
Definition d_keys (l:dict) : list name := map fst l.
End Dict.
Arguments dict V : clear implicits.

Definition alist := dict Z.

(* reverse lookup: the name under which an object id is linked *)
Fixpoint d_rfind (l:alist) (x:Z) : option name :=
  match l with [] => None | (k, v) :: t => if v =? x then Some k else d_rfind t x end.

Definition fupd {A} (f:Z -> A) (k:Z) (v:A) : Z -> A := fun i => if i =? k then v else f i.

(* ------------------------------------------------------------------ state *)
Record state := mkState {
  next_id : Z;                 (* fresh object ids *)
  (* HDF5 side *)
  h5_root : Z -> alist;        (* file index -> links of the root group (name -> group id) *)
  h5_grp : Z -> alist;         (* group id -> links (name -> field id) *)
  fld_type : Z -> Z;           (* field id -> 'fieldtype' attribute *)
  fld_data : Z -> list Z;      (* field id -> stored values *)
  (* Python side *)
  py_dfs : Z -> alist;         (* dataset index -> Dataset._dataframes (name -> dataframe id) *)
  py_name : Z -> name;         (* dataframe id -> DataFrame.name *)
  py_ds : Z -> Z;              (* dataframe id -> DataFrame._dataset *)
  py_cols : Z -> alist;        (* dataframe id -> DataFrame._columns (name -> field id) *)
  py_valid : Z -> bool;        (* field id -> Field._valid_reference *)
  py_fdf : Z -> Z              (* field id -> Field._dataframe *)
}.

Definition init_state : state :=
  mkState 1 (fun _ => []) (fun _ => []) (fun _ => 0) (fun _ => [])
          (fun _ => []) (fun _ => []) (fun _ => 0) (fun _ => []) (fun _ => false) (fun _ => 0).

Definition set_next s v := mkState v (h5_root s) (h5_grp s) (fld_type s) (fld_data s) (py_dfs s) (py_name s) (py_ds s) (py_cols s) (py_valid s) (py_fdf s).
Definition set_h5_root s v := mkState (next_id s) v (h5_grp s) (fld_type s) (fld_data s) (py_dfs s) (py_name s) (py_ds s) (py_cols s) (py_valid s) (py_fdf s).
Definition set_h5_grp s v := mkState (next_id s) (h5_root s) v (fld_type s) (fld_data s) (py_dfs s) (py_name s) (py_ds s) (py_cols s) (py_valid s) (py_fdf s).
Definition set_fld_type s v := mkState (next_id s) (h5_root s) (h5_grp s) v (fld_data s) (py_dfs s) (py_name s) (py_ds s) (py_cols s) (py_valid s) (py_fdf s).
Definition set_fld_data s v := mkState (next_id s) (h5_root s) (h5_grp s) (fld_type s) v (py_dfs s) (py_name s) (py_ds s) (py_cols s) (py_valid s) (py_fdf s).
Definition set_py_dfs s v := mkState (next_id s) (h5_root s) (h5_grp s) (fld_type s) (fld_data s) v (py_name s) (py_ds s) (py_cols s) (py_valid s) (py_fdf s).
Definition set_py_name s v := mkState (next_id s) (h5_root s) (h5_grp s) (fld_type s) (fld_data s) (py_dfs s) v (py_ds s) (py_cols s) (py_valid s) (py_fdf s).
Definition set_py_ds s v := mkState (next_id s) (h5_root s) (h5_grp s) (fld_type s) (fld_data s) (py_dfs s) (py_name s) v (py_cols s) (py_valid s) (py_fdf s).
Definition set_py_cols s v := mkState (next_id s) (h5_root s) (h5_grp s) (fld_type s) (fld_data s) (py_dfs s) (py_name s) (py_ds s) v (py_valid s) (py_fdf s).
Definition set_py_valid s v := mkState (next_id s) (h5_root s) (h5_grp s) (fld_type s) (fld_data s) (py_dfs s) (py_name s) (py_ds s) (py_cols s) v (py_fdf s).
Definition set_py_fdf s v := mkState (next_id s) (h5_root s) (h5_grp s) (fld_type s) (fld_data s) (py_dfs s) (py_name s) (py_ds s) (py_cols s) (py_valid s) v.

Record cfg := mkCfg { fix_a : bool; fix_b : bool; fix_c : bool }.

Definition NONE : Z := -1.   (* Python None where an object id is expected *)

(* ------------------------------------------------------------------ state monad with exceptions *)
Definition M (A:Type) := state -> state * res A.
Definition ret {A} (a:A) : M A := fun s => (s, Ok a).
Definition raise {A} (c:Z) : M A := fun s => (s, Raise c).
Definition bindM {A B} (m:M A) (f:A -> M B) : M B :=
  fun s => match m s with
           | (s1, Ok a) => f a s1
           | (s1, OOB x) => (s1, OOB x)
           | (s1, Raise c) => (s1, Raise c)
           | (s1, OutOfFuel) => (s1, OutOfFuel)
           end.
Notation "'run' x <-- e ;; k" := (bindM e (fun x => k)) (at level 200, x name, e at level 100, k at level 200).
Notation "'exec' e ;; k" := (bindM e (fun _ => k)) (at level 200, e at level 100, k at level 200).
Definition mget : M state := fun s => (s, Ok s).
Definition modify (f:state -> state) : M unit := fun s => (f s, Ok tt).
Definition liftR {A} (r:res A) : M A := fun s => (s, r).

Definition E_Attr : Z := 9.   (* AttributeError: `None.split`, `None.drop` *)

(* ------------------------------------------------------------------ h5py primitives *)
Inductive tref := TRoot (i:Z) | TGrp (g:Z).
Definition tget (s:state) (r:tref) : alist :=
  match r with TRoot i => h5_root s i | TGrp g => h5_grp s g end.
Definition tset (s:state) (r:tref) (l:alist) : state :=
  match r with
  | TRoot i => set_h5_root s (fupd (h5_root s) i l)
  | TGrp g => set_h5_grp s (fupd (h5_grp s) g l)
  end.

(* group.create_group(name): ValueError "name already exists" *)
Definition h5_create (r:tref) (n:name) : M Z := fun s =>
  if d_mem (tget s r) n then (s, Raise E_ValueError)
  else let id := next_id s in
       (set_next (tset s r (tget s r ++ [(n, id)])) (id + 1), Ok id).

(* group.move(src, dst): h5py returns at once when src == dst (even when src does not exist);
   ValueError when src is missing or dst exists *)
Definition h5_move (r:tref) (src dst:name) : M unit := fun s =>
  if name_eqb src dst then (s, Ok tt)
  else match d_find (tget s r) src with
       | None => (s, Raise E_ValueError)
       | Some x => if d_mem (tget s r) dst then (s, Raise E_ValueError)
                   else (tset s r (d_del (tget s r) src ++ [(dst, x)]), Ok tt)
       end.

(* del group[name]: KeyError when missing *)
Definition h5_del (r:tref) (n:name) : M unit := fun s =>
  if d_mem (tget s r) n then (tset s r (d_del (tget s r) n), Ok tt) else (s, Raise E_KeyError).

(* file.move(dataframe.h5group.name, name): the source is an absolute path '/cur', never textually
   equal to `name`, so the src == dst shortcut does not apply; an unlinked group has name None (TypeError) *)
Definition h5_move_path (i g:Z) (dst:name) : M unit := fun s =>
  match d_rfind (h5_root s i) g with
  | None => (s, Raise E_TypeError)
  | Some src => if d_mem (h5_root s i) dst then (s, Raise E_ValueError)
                else (tset s (TRoot i) (d_del (h5_root s i) src ++ [(dst, g)]), Ok tt)
  end.

(* path of an open field object: (file, group name, link name), None when unlinked *)
Definition ds_indices : list Z := [0; 1].

Fixpoint path_in_groups (s:state) (i:Z) (groups:alist) (f:Z) : option (Z * name * name) :=
  match groups with
  | [] => None
  | (dn, g) :: t => match d_rfind (h5_grp s g) f with
                    | Some fn => Some (i, dn, fn)
                    | None => path_in_groups s i t f
                    end
  end.
Fixpoint path_in_files (s:state) (files:list Z) (f:Z) : option (Z * name * name) :=
  match files with
  | [] => None
  | i :: t => match path_in_groups s i (h5_root s i) f with
              | Some p => Some p
              | None => path_in_files s t f
              end
  end.
Definition h5_fld_path (s:state) (f:Z) : option (Z * name * name) := path_in_files s ds_indices f.

(* ------------------------------------------------------------------ fields.py *)
(* HDF5Field._ensure_valid *)
Definition field_ensure_valid (f:Z) : M unit := fun s =>
  if py_valid s f then (s, Ok tt) else (s, Raise E_ValueError).
(* HDF5Field.name : self._field.name.split('/')[-1] *)
Definition field_name (f:Z) : M name :=
  exec field_ensure_valid f ;;
  (fun s => match h5_fld_path s f with
            | Some (_, _, n) => (s, Ok n)
            | None => (s, Raise E_Attr)
            end).
(* HDF5Field.dataframe *)
Definition field_dataframe (f:Z) : M Z :=
  exec field_ensure_valid f ;; (fun s => (s, Ok (py_fdf s f))).

(* ------------------------------------------------------------------ dataframe.py : HDF5DataFrame *)
(* Dataset.__getitem__ / DataFrame.__getitem__ : ValueError when absent *)
Definition ds_getitem (i:Z) (n:name) : M Z := fun s =>
  match d_find (py_dfs s i) n with Some g => (s, Ok g) | None => (s, Raise E_ValueError) end.
Definition df_getitem (g:Z) (n:name) : M Z := fun s =>
  match d_find (py_cols s g) n with Some f => (s, Ok f) | None => (s, Raise E_ValueError) end.

(* DataFrame.create_<type>(name):
     fld.<type>_field_constructor(session, self, name, ...)
        base_field_contructor: `if name in group` (DataFrame.__contains__ -> _columns) raise ValueError
                               group.create_group(name)  (DataFrame.create_group -> self._h5group.create_group)
        attrs, empty 'values'
     field = <Type>Field(session, self._h5group[name], self, write_enabled=True)
        (IndexedStringField.__init__ as found overwrites self._dataframe with None: F-C15c)
     self._columns[name] = field *)
Definition T_INDEXED : Z := 1.
Definition df_create_field (c:cfg) (g:Z) (n:name) (t:Z) : M Z :=
  run s0 <-- mget ;;
  if d_mem (py_cols s0 g) n then raise E_ValueError
  else
    run f <-- h5_create (TGrp g) n ;;
    exec modify (fun s => set_fld_data (set_fld_type s (fupd (fld_type s) f t)) (fupd (fld_data s) f [])) ;;
    exec modify (fun s => set_py_fdf (set_py_valid s (fupd (py_valid s) f true)) (fupd (py_fdf s) f (if (t =? T_INDEXED) && negb (fix_c c) then NONE else g))) ;;
    exec modify (fun s => set_py_cols s (fupd (py_cols s) g (d_set (py_cols s g) n f))) ;;
    ret f.

(* DataFrame.create_<type>(name, <invalid other arguments>): t >= 5 stands for a create call whose remaining arguments
   are invalid (5: an unknown nformat -> TypeError; 6: an empty categorical key, 7: a fixed-string length 0 ->
   ValueError). base_field_contructor checks the name and creates the group, then the specific constructor fails;
   since fix F-C15d (fields._no_partial_field) the group is removed again before the exception leaves, so the call
   changes nothing. (As found the group stayed in the file, unlisted by the dataframe, and the name was unusable.) *)
Definition df_create_invalid (g:Z) (n:name) (t:Z) : M Z :=
  run s0 <-- mget ;;
  if d_mem (py_cols s0 g) n then raise E_ValueError
  else raise (if t =? 5 then E_TypeError else E_ValueError).

(* field.data.write(values) on a freshly created (empty) field *)
Definition field_write (f:Z) (dat:list Z) : M unit :=
  modify (fun s => set_fld_data s (fupd (fld_data s) f (fld_data s f ++ dat))).

(* nfield = field.create_like(ddf, name)   [ts = source.timestamp -> _ensure_valid; ddf.create_<type>(name,...)]
   if field.indexed: ... nfield.data.write(field.data[:]) *)
Definition copy_field_into (c:cfg) (f:Z) (g:Z) (n:name) : M Z :=
  exec field_ensure_valid f ;;
  run s0 <-- mget ;;
  run nf <-- df_create_field c g n (fld_type s0 f) ;;
  exec field_ensure_valid f ;;
  run s1 <-- mget ;;
  exec field_write nf (fld_data s1 f) ;;
  ret nf.

Definition cols_set (g:Z) (n:name) (f:Z) : M unit :=
  modify (fun s => set_py_cols s (fupd (py_cols s) g (d_set (py_cols s g) n f))).
Definition cols_del (g:Z) (n:name) : M unit :=
  modify (fun s => set_py_cols s (fupd (py_cols s) g (d_del (py_cols s g) n))).

(* DataFrame.add(field) *)
Definition df_add (c:cfg) (g:Z) (f:Z) : M unit :=
  run dname <-- field_name f ;;
  run nf <-- copy_field_into c f g dname ;;
  cols_set g dname nf.

(* DataFrame.__setitem__(name, field) *)
Definition df_setitem (c:cfg) (g:Z) (n:name) (f:Z) : M unit :=
  run nf <-- copy_field_into c f g n ;;
  cols_set g n nf.

(* DataFrame.__delitem__(name) *)
Definition df_delitem (g:Z) (n:name) : M unit :=
  run s0 <-- mget ;;
  if negb (d_mem (py_cols s0 g) n) then raise E_ValueError
  else exec h5_del (TGrp g) n ;; cols_del g n.

(* DataFrame.drop(name): del self._columns[name] (KeyError); del self._h5group[name] *)
Definition df_drop (g:Z) (n:name) : M unit :=
  run s0 <-- mget ;;
  if negb (d_mem (py_cols s0 g) n) then raise E_KeyError
  else exec cols_del g n ;; h5_del (TGrp g) n.

(* DataFrame.delete_field(field) *)
Definition df_delete_field (g:Z) (f:Z) : M unit :=
  run fd <-- field_dataframe f ;;
  if negb (fd =? g) then raise E_ValueError
  else run n <-- field_name f ;; df_delitem g n.

(* ---- DataFrame.rename *)
(* get_unique_name: while name in keys: name += '_' *)
Fixpoint unique_name (fuel:nat) (nm:name) (keys:list name) : res name :=
  match fuel with
  | O => OutOfFuel
  | S k => if nmem nm keys then unique_name k (nm ++ [95]) keys else Ok nm
  end.

(* for k in dict_.keys(): keys.remove(k)      (KeyError) *)
Fixpoint remove_keys (keys:list name) (ks:list name) : res (list name) :=
  match ks with
  | [] => Ok keys
  | k :: t => if nmem k keys then remove_keys (nremove k keys) t else Raise E_KeyError
  end.

(* for v in dict_.values(): if v in keys: clashes.add(v); keys.add(v) *)
Fixpoint clash_list (keys:list name) (vs:list name) (acc:list name) : list name :=
  match vs with
  | [] => acc
  | v :: t => if nmem v keys then clash_list keys t (if nmem v acc then acc else acc ++ [v])
              else clash_list (keys ++ [v]) t acc
  end.

Definition ndict := dict name.

(* first loop of rename, over self._columns.items().  `used` is the key set handed to
   get_unique_name: the original column names (code as found) or, after fix F-C15a, that set
   extended by every temporary name chosen so far. *)
Fixpoint rename_pass1 (fixa:bool) (g:Z) (dict_:ndict) (cols:alist) (used:list name)
                      (final_renames:ndict) (inter:alist) : M (ndict * alist) :=
  match cols with
  | [] => ret (final_renames, inter)
  | (k, f) :: rest =>
      match d_find dict_ k with
      | Some v =>
          run uname <-- liftR (unique_name (S (length used)) v used) ;;
          let fr := if name_eqb uname k then final_renames else d_set final_renames uname v in
          exec h5_move (TGrp g) k uname ;;
          rename_pass1 fixa g dict_ rest (if fixa then used ++ [uname] else used) fr (d_set inter uname f)
      | None => rename_pass1 fixa g dict_ rest used final_renames (d_set inter k f)
      end
  end.

(* second loop, over intermediate_columns.items() *)
Fixpoint rename_pass2 (g:Z) (final_renames:ndict) (inter:alist) (final:alist) : M alist :=
  match inter with
  | [] => ret final
  | (k, f) :: rest =>
      match d_find final_renames k with
      | Some nm => exec h5_move (TGrp g) k nm ;; rename_pass2 g final_renames rest (d_set final nm f)
      | None => rename_pass2 g final_renames rest (d_set final k f)
      end
  end.

Definition df_rename (c:cfg) (g:Z) (dict_:ndict) : M unit :=
  run s0 <-- mget ;;
  let cols := py_cols s0 g in
  run keys <-- liftR (remove_keys (d_keys cols) (d_keys dict_)) ;;
  if negb (length (clash_list keys (map snd dict_) []) =? 0)%nat then raise E_ValueError
  else
    run p <-- rename_pass1 (fix_a c) g dict_ cols (d_keys cols) [] [] ;;
    run final <-- rename_pass2 g (fst p) (snd p) [] ;;
    modify (fun s => set_py_cols s (fupd (py_cols s) g final)).

(* ---- module functions dataframe.copy / dataframe.move *)
(* copy(field, ddf, name): ddf.columns is a *copy* of _columns, so `ddf.columns[name] = dfield`
   changes nothing; create_like already registered the field *)
Definition edf_copy (c:cfg) (f:Z) (g:Z) (n:name) : M Z :=
  exec copy_field_into c f g n ;; df_getitem g n.

Definition edf_move (c:cfg) (f:Z) (g:Z) (n:name) : M Z :=
  run fd <-- field_dataframe f ;;
  if fd =? g then
    run cur <-- field_name f ;; exec df_rename c g [(cur, n)] ;; ret f
  else
    exec edf_copy c f g n ;;
    run sg <-- field_dataframe f ;;
    (* field.dataframe.drop(field.name): None has no attribute 'drop' *)
    if sg =? NONE then raise E_Attr else
    run cur <-- field_name f ;;
    exec df_drop sg cur ;;
    exec modify (fun s => set_py_valid s (fupd (py_valid s) f false)) ;;
    df_getitem g n.

(* ------------------------------------------------------------------ dataset.py : HDF5Dataset *)
Fixpoint copy_all (c:cfg) (items:alist) (g:Z) : M unit :=
  match items with
  | [] => ret tt
  | (k, v) :: t => exec copy_field_into c v g k ;; copy_all c t g
  end.

Definition dfs_set (i:Z) (n:name) (g:Z) : M unit :=
  modify (fun s => set_py_dfs s (fupd (py_dfs s) i (d_set (py_dfs s i) n g))).
Definition dfs_del (i:Z) (n:name) : M unit :=
  modify (fun s => set_py_dfs s (fupd (py_dfs s) i (d_del (py_dfs s i) n))).

(* Dataset.create_dataframe(name, dataframe=None) *)
Definition ds_create_dataframe (c:cfg) (i:Z) (n:name) (src:option Z) : M Z :=
  run g <-- h5_create (TRoot i) n ;;
  (* HDF5DataFrame(self, name, h5group): _columns filled from h5group.keys() (a new group: none) *)
  exec modify (fun s => set_py_cols (set_py_ds (set_py_name s (fupd (py_name s) g n)) (fupd (py_ds s) g i))
                                    (fupd (py_cols s) g [])) ;;
  exec (match src with
        | Some sg => run s1 <-- mget ;; copy_all c (py_cols s1 sg) g
        | None => ret tt
        end) ;;
  exec dfs_set i n g ;;
  ret g.

Definition ds_require_dataframe (c:cfg) (i:Z) (n:name) : M Z :=
  run s0 <-- mget ;;
  match d_find (py_dfs s0 i) n with
  | Some g => ret g
  | None => ds_create_dataframe c i n None
  end.

(* module function dataset.copy(dataframe, dataset, name) *)
Definition eds_copy (c:cfg) (sg:Z) (j:Z) (n:name) : M unit :=
  run s0 <-- mget ;;
  if d_mem (py_dfs s0 j) n then raise E_ValueError
  else
    run g <-- ds_create_dataframe c j n None ;;
    run s1 <-- mget ;;
    exec copy_all c (py_cols s1 sg) g ;;
    dfs_set j n g.

(* Dataset.drop(name) *)
Definition ds_drop (i:Z) (n:name) : M unit :=
  run s0 <-- mget ;;
  if negb (d_mem (py_dfs s0 i) n) then raise E_KeyError
  else exec dfs_del i n ;; h5_del (TRoot i) n.

(* module function dataset.move(dataframe, dataset, name) *)
Definition eds_move (c:cfg) (sg:Z) (j:Z) (n:name) : M unit :=
  exec eds_copy c sg j n ;;
  run s1 <-- mget ;;
  ds_drop (py_ds s1 sg) (py_name s1 sg).

(* Dataset.__delitem__(name) *)
Definition ds_delitem (i:Z) (n:name) : M unit :=
  run s0 <-- mget ;;
  if negb (d_mem (py_dfs s0 i) n) then raise E_ValueError
  else exec dfs_del i n ;; h5_del (TRoot i) n.

(* Dataset.delete_dataframe(dataframe) *)
Definition ds_delete_dataframe (i:Z) (g:Z) : M unit :=
  run s0 <-- mget ;; ds_delitem i (py_name s0 g).

(* Dataset.__setitem__(name, dataframe) *)
Definition ds_setitem (c:cfg) (j:Z) (n:name) (sg:Z) : M unit :=
  run s0 <-- mget ;;
  if py_ds s0 sg =? j then
    if fix_b c then
      (* repaired: refuse before touching anything, move the group first *)
      if d_mem (py_dfs s0 j) n then raise E_ValueError
      else
        exec h5_move_path j sg n ;;
        exec (if d_mem (py_dfs s0 j) (py_name s0 sg) then dfs_del j (py_name s0 sg) else raise E_KeyError) ;;
        exec modify (fun s => set_py_name s (fupd (py_name s) sg n)) ;;
        dfs_set j n sg
    else
      exec (if d_mem (py_dfs s0 j) (py_name s0 sg) then dfs_del j (py_name s0 sg) else raise E_KeyError) ;;
      exec modify (fun s => set_py_name s (fupd (py_name s) sg n)) ;;
      exec dfs_set j n sg ;;
      h5_move_path j sg n
  else eds_copy c sg j n.

(* ------------------------------------------------------------------ operations of a history *)
Inductive op :=
| OCreate (i:Z) (d n:name) (t:Z) (dat:list Z)   (* f = ds_i[d].create_<t>(n); f.data.write(dat) *)
| OSetItem (i:Z) (d n:name) (j:Z) (d' n':name)  (* ds_i[d][n] = ds_j[d'][n'] *)
| OAdd (i:Z) (d:name) (j:Z) (d' n':name)        (* ds_i[d].add(ds_j[d'][n']) *)
| ODelItem (i:Z) (d n:name)                     (* del ds_i[d][n] *)
| ODrop (i:Z) (d n:name)                        (* ds_i[d].drop(n) *)
| ODeleteField (i:Z) (d:name) (j:Z) (d' n':name)(* ds_i[d].delete_field(ds_j[d'][n']) *)
| ORename (i:Z) (d:name) (m:ndict)              (* ds_i[d].rename(dict) / rename(k, v) *)
| OFCopy (i:Z) (d n:name) (j:Z) (d' n':name)    (* dataframe.copy(ds_i[d][n], ds_j[d'], n') *)
| OFMove (i:Z) (d n:name) (j:Z) (d' n':name)    (* dataframe.move(ds_i[d][n], ds_j[d'], n') *)
| OCreateDF (i:Z) (d:name)                      (* ds_i.create_dataframe(d) *)
| OCreateDFFrom (i:Z) (d:name) (j:Z) (d':name)  (* ds_i.create_dataframe(d, dataframe=ds_j[d']) *)
| ORequireDF (i:Z) (d:name)                     (* ds_i.require_dataframe(d) *)
| ODSCopy (i:Z) (d:name) (j:Z) (d':name)        (* dataset.copy(ds_i[d], ds_j, d') / ds_j.copy(ds_i[d], d') *)
| ODSMove (i:Z) (d:name) (j:Z) (d':name)        (* dataset.move(ds_i[d], ds_j, d') *)
| ODSSetItem (j:Z) (d':name) (i:Z) (d:name)     (* ds_j[d'] = ds_i[d] *)
| ODSDelItem (i:Z) (d:name)                     (* del ds_i[d] *)
| ODSDrop (i:Z) (d:name)                        (* ds_i.drop(d) *)
| ODSDeleteDF (i:Z) (d:name).                   (* ds_i.delete_dataframe(ds_i[d]) *)

Definition step (c:cfg) (o:op) : M unit :=
  match o with
  | OCreate i d n t dat =>
      run g <-- ds_getitem i d ;;
      run f <-- (if 5 <=? t then df_create_invalid g n t else df_create_field c g n t) ;;
      field_write f dat
  | OSetItem i d n j d' n' => run sg <-- ds_getitem j d' ;; run f <-- df_getitem sg n' ;; run g <-- ds_getitem i d ;; df_setitem c g n f
  | OAdd i d j d' n' => run g <-- ds_getitem i d ;; run sg <-- ds_getitem j d' ;; run f <-- df_getitem sg n' ;; df_add c g f
  | ODelItem i d n => run g <-- ds_getitem i d ;; df_delitem g n
  | ODrop i d n => run g <-- ds_getitem i d ;; df_drop g n
  | ODeleteField i d j d' n' => run g <-- ds_getitem i d ;; run sg <-- ds_getitem j d' ;; run f <-- df_getitem sg n' ;; df_delete_field g f
  | ORename i d m => run g <-- ds_getitem i d ;; df_rename c g m
  | OFCopy i d n j d' n' => run sg <-- ds_getitem i d ;; run f <-- df_getitem sg n ;; run g <-- ds_getitem j d' ;; exec edf_copy c f g n' ;; ret tt
  | OFMove i d n j d' n' => run sg <-- ds_getitem i d ;; run f <-- df_getitem sg n ;; run g <-- ds_getitem j d' ;; exec edf_move c f g n' ;; ret tt
  | OCreateDF i d => exec ds_create_dataframe c i d None ;; ret tt
  | OCreateDFFrom i d j d' => run sg <-- ds_getitem j d' ;; exec ds_create_dataframe c i d (Some sg) ;; ret tt
  | ORequireDF i d => exec ds_require_dataframe c i d ;; ret tt
  | ODSCopy i d j d' => run sg <-- ds_getitem i d ;; eds_copy c sg j d'
  | ODSMove i d j d' => run sg <-- ds_getitem i d ;; eds_move c sg j d'
  | ODSSetItem j d' i d => run sg <-- ds_getitem i d ;; ds_setitem c j d' sg
  | ODSDelItem i d => ds_delitem i d
  | ODSDrop i d => ds_drop i d
  | ODSDeleteDF i d => run g <-- ds_getitem i d ;; ds_delete_dataframe i g
  end.

(* ------------------------------------------------------------------ what a client can observe *)
Record dfobs := mkDfobs {
  o_key : name;            (* key in ds.keys() *)
  o_nameattr : name;       (* df.name *)
  o_cols : list name;      (* list(df.keys()), in order *)
  o_h5 : list name         (* df.h5group.keys() *)
}.
Record dsobs := mkDsobs {
  o_dfs : list dfobs;                      (* in ds.keys() order *)
  o_file : list (name * list name)         (* h5py view of the same file: root keys and their keys *)
}.
Inductive hstat :=
| HInvalid                                           (* handle.valid is False *)
| HDead                                              (* valid, but the h5py object is no longer linked *)
| HLive (i:Z) (d n:name) (t:Z) (dat:list Z).         (* valid: file, frame, handle.name, type, data *)
Record obs := mkObs { o_ds : list dsobs; o_handles : list hstat }.

Definition observe_df (s:state) (kg:name * Z) : dfobs :=
  let g := snd kg in mkDfobs (fst kg) (py_name s g) (d_keys (py_cols s g)) (d_keys (h5_grp s g)).
Definition observe_ds (s:state) (i:Z) : dsobs :=
  mkDsobs (map (observe_df s) (py_dfs s i))
          (map (fun kg => (fst kg, d_keys (h5_grp s (snd kg)))) (h5_root s i)).
Definition observe_handle (s:state) (f:Z) : hstat :=
  if py_valid s f then
    match h5_fld_path s f with
    | Some (i, d, n) => HLive i d n (fld_type s f) (fld_data s f)
    | None => HDead
    end
  else HInvalid.
Definition observe (s:state) (held:list Z) : obs :=
  mkObs (map (observe_ds s) ds_indices) (map (observe_handle s) held).

(* the harness holds a handle on every field object it has ever seen in a catalogue:
   after each step it walks ds.items() / df.items() and registers the objects that are new *)
Fixpoint zmem (x:Z) (l:list Z) : bool := match l with [] => false | h :: t => (x =? h) || zmem x t end.
Fixpoint register (held:list Z) (fs:list Z) : list Z :=
  match fs with [] => held | f :: t => register (if zmem f held then held else held ++ [f]) t end.
Definition catalogued_fields (s:state) : list Z :=
  flat_map (fun i => flat_map (fun kg => map snd (py_cols s (snd kg))) (py_dfs s i)) ds_indices.
Definition rescan (s:state) (held:list Z) : list Z := register held (catalogued_fields s).

(* content views for the final reopen comparison: (frame, [(field, type, data)]) per dataset *)
Definition fview := list (name * list (name * Z * list Z)).
Definition view_of (s:state) (tbl:Z -> alist) (cols:Z -> alist) (i:Z) : fview :=
  map (fun kg => (fst kg, map (fun nf => (fst nf, fld_type s (snd nf), fld_data s (snd nf))) (cols (snd kg)))) (tbl i).
(* what the live objects report *)
Definition live_view (s:state) (i:Z) : fview := view_of s (py_dfs s) (py_cols s) i.
(* what a fresh Session().open_dataset(file, 'r') builds: HDF5Dataset.__init__ walks file.keys()
   (skipping 'trash'), HDF5DataFrame.__init__ walks h5group.keys() *)
Definition reopen_view (s:state) (i:Z) : fview := view_of s (h5_root s) (h5_grp s) i.
