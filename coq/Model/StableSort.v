(* Model/StableSort.v — numpy's `argsort(kind='stable')` and LSD lexsort as Gallina definitions
   (shared by C09 and C07).  Proof-free; the theory is in Proofs/StableSortProofs.v.

   A stable sort is DEFINED as insertion sort of the (key, position) pairs under the order
   "key first, position second": for pairwise distinct positions that order is total and
   antisymmetric, so the sorted arrangement is unique (StableSortProofs.sorted_perm_unique)
   and any correct stable sorting algorithm computes this function.

   Keys live in an arbitrary type K with a boolean total preorder `kle`. *)
From Coq Require Import ZArith List Bool.
Import ListNotations.
Open Scope Z_scope.

Section StableSort.
Context {K:Type}.
Variable kle : K -> K -> bool.

(* (k1,p1) <= (k2,p2)  iff  k1 < k2, or k1 ~ k2 and p1 <= p2 *)
Definition ple (x y:K*Z) : bool :=
  if kle (fst x) (fst y) then (if kle (fst y) (fst x) then snd x <=? snd y else true) else false.

Fixpoint insert (x:K*Z) (l:list (K*Z)) : list (K*Z) :=
  match l with
  | [] => [x]
  | y :: t => if ple x y then x :: y :: t else y :: insert x t
  end.

Fixpoint isort (l:list (K*Z)) : list (K*Z) :=
  match l with
  | [] => []
  | x :: t => insert x (isort t)
  end.

Fixpoint iota (start:Z) (n:nat) : list Z :=
  match n with O => [] | S n' => start :: iota (start + 1) n' end.

(* np.argsort(keys, kind='stable') *)
Definition argsort (keys:list K) : list Z :=
  map snd (isort (combine keys (iota 0 (length keys)))).

End StableSort.

(* lexicographic order on key tuples (rows of key cells), first component most significant;
   a proper prefix sorts first (only tuples of equal length are ever compared). *)
Section Lex.
Context {K:Type}.
Variable kle : K -> K -> bool.
Fixpoint lex_le (r1 r2:list K) : bool :=
  match r1, r2 with
  | [], _ => true
  | _ :: _, [] => false
  | a :: t1, b :: t2 => if kle a b then (if kle b a then lex_le t1 t2 else true) else false
  end.
End Lex.

(* byte strings / singleton numeric cells: lexicographic over Z *)
Definition cell_le : list Z -> list Z -> bool := lex_le Z.leb.
