(* Model/ToCsvHist.v — histories of HDF5DataFrame.to_csv calls on the same objects (C18).

   A history is a sequence of exports of ONE dataframe object to ONE destination path in which
   the caller passes the same Python objects again: the same `column_filter` list object (a slot
   of the `store` below) in several calls.  Between two exports the caller may edit the dataframe
   (append to / clear a field, create or delete a column): to_csv keeps nothing between calls, it
   reads `self._columns` and `field.data` afresh, so every call carries the frame as it is at call
   time (c_fr).  What a call leaves behind for the next one:

     * the destination: `open(filepath, 'w', ...)` truncates, so after a successful call the file
       holds that call's output only; every exception of the (repaired) code is raised by the
       validation that precedes `open`, so a failing call leaves the file as it was;
     * the column_filter list: `val.validate_selected_keys(column_filter, self.keys())` returns the
       caller's list object itself (`return by`), and `field_name_to_use.remove(row_filter.name)`
       then removes the filter field's name FROM THE CALLER'S LIST (copies = false, the code before
       work/SC18/fix-F-C18j.diff).  The repaired code takes a copy first (copies = true).

   The writer itself is the repaired one (V_fix of Model/ToCsv.v).  Proof-free file. *)
From Coq Require Import ZArith List Bool.
From EV Require Import Res Arr ToCsv.
Import ListNotations.
Open Scope Z_scope.

(* the list objects the caller holds *)
Definition store := list (list name).

(* column_filter argument of one call: None | a str | list object number k of the store *)
Inductive cfarg := CA_none | CA_str (n:name) | CA_ref (k:nat).

Record call := mkcall { c_fr : frame; c_rf : rowfilter; c_cf : cfarg; c_chunk : Z }.

Definition resolve (st:store) (a:cfarg) : colfilter :=
  match a with
  | CA_none => CF_none
  | CA_str n => CF_str n
  | CA_ref k => CF_list (nth k st [])
  end.

Fixpoint replace_nth {A} (k:nat) (x:A) (l:list A) : list A :=
  match l, k with
  | [], _ => []
  | _ :: t, O => x :: t
  | y :: t, S k' => y :: replace_nth k' x t
  end.

(* the caller's list after the call (code that does not copy):
     validate_chunk_size and validate_selected_keys raise before anything is touched;
     `if is_field and self.contains_field(row_filter) and row_filter.name in field_name_to_use:
          field_name_to_use.remove(row_filter.name)`                                            *)
Definition mutate (st:store) (c:call) : store :=
  match c_cf c, c_rf c with
  | CA_ref k, RF_field true n _ =>
    let l := nth k st [] in
    if (0 <? c_chunk c)
       && match l with [] => false | _ => forallb (has (c_fr c)) l end
       && mem_name n l
    then replace_nth k (remove_first n l) st
    else st
  | _, _ => st
  end.

(* one observation per call: what the call returned / raised, and the destination file afterwards
   (None: no file yet) *)
Definition obs := (res bytes * option bytes)%type.

Fixpoint run_hist (copies:bool) (st:store) (file:option bytes) (calls:list call) : list obs :=
  match calls with
  | [] => []
  | c :: t =>
    let r := to_csv (to_csv_fuel (c_fr c) (c_chunk c)) V_fix (c_fr c) (c_rf c) (resolve st (c_cf c)) (c_chunk c) in
    let st' := if copies then st else mutate st c in
    let file' := match r with Ok b => Some b | _ => file end in
    (r, file') :: run_hist copies st' file' t
  end.
