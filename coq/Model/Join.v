(* Model/Join.v — the streamed ordered-join map generators of exetera/core/operations.py
   (C03; reused by C02, C10, C12, C19), statement by statement, at the repaired tree
   (fixes F-C03a: get_next_chunk raises on an empty trimmed chunk; F-C03b: r-guard in
   generate_ordered_map_to_left_left_unique_partial).  Proof-free file.

   count_back / next_chunk / get_next_chunk / first|next_(un)trimmed_chunk   lines 153-243
   the eight *_streamed drivers                                              1272-1515, 1795-1979
   the eight *_partial kernels and the two *_remaining kernels               1355-1362, 1518-1709, 1982-2157 *)
From Coq Require Import ZArith List Bool.
From EV Require Import Res Arr.
Import ListNotations.
Open Scope Z_scope.

(* ------------------------------------------------------------------ chunk helpers *)
Fixpoint count_back_aux (fuel:nat) (a:list Z) (v:Z) : res Z :=
  match fuel with
  | O => OutOfFuel
  | S f =>
    if 0 <? v then
      do x <- get 10 a (v - 1);
      do y <- get 11 a v;
      if negb (x =? y) then Ok v else count_back_aux f a (v - 1)
    else Ok 0
  end.
Definition count_back (a:list Z) : res Z := count_back_aux (S (length a)) a (len a - 1).

Definition next_chunk (cur length_ desired:Z) : Z * Z :=
  if cur + desired <? length_ then (cur, cur + desired) else (cur, length_).

(* returns ((start, end), data) ; data is the UNtrimmed window *)
Definition get_next_chunk (start cs:Z) (field:list Z) : res ((Z * Z) * list Z) :=
  let nr := next_chunk start (len field) cs in
  let data := slice field (fst nr) (snd nr) in
  if negb (snd nr =? len field) then
    do cb <- count_back data;
    if cb =? 0 then Raise E_ValueError          (* fix F-C03a *)
    else Ok ((fst nr, fst nr + cb), data)
  else Ok (nr, data).

Definition get_untrimmed_chunk (start cs:Z) (field:list Z) : (Z * Z) * list Z :=
  let nr := next_chunk start (len field) cs in
  (nr, slice field (fst nr) (snd nr)).

Definition fetch_chunk (trim:bool) (start cs:Z) (field:list Z) : res ((Z * Z) * list Z) :=
  if trim then get_next_chunk start cs field else Ok (get_untrimmed_chunk start cs field).

(* ------------------------------------------------------------------ FSM state *)
Record fsm := mkfsm {
  fi : Z; fj : Z; fr : Z;
  fii : Z; fjj : Z; fiimax : Z; fjjmax : Z; finner : bool;
  lres : list Z; rres : list Z }.

Record kparams := mkkp {
  kleft : list Z; ki_max : Z; kright : list Z; kj_max : Z;
  kinv : Z; ki_off : Z; kj_off : Z }.

Definition upd_ijr (s:fsm) (i j r:Z) (l' r':list Z) : fsm :=
  mkfsm i j r (fii s) (fjj s) (fiimax s) (fjjmax s) (finner s) l' r'.

(* `while k_+1 < kmax and a[k_+1] == a[k_]: count += 1; k_ += 1` *)
Fixpoint run_len (fuel:nat) (site:Z) (a:list Z) (k kmax cnt:Z) : res Z :=
  match fuel with
  | O => OutOfFuel
  | S f =>
    if k + 1 <? kmax then
      do x <- get site a (k + 1);
      do y <- get site a k;
      if x =? y then run_len f site a (k + 1) kmax (cnt + 1) else Ok cnt
    else Ok cnt
  end.

(* ---- generate_ordered_map_to_left_partial (emit = true) / ..._to_inner_partial (emit = false) *)
Definition step_gen (emit:bool) (p:kparams) (s:fsm) : res (option fsm) :=
  if (fi s <? ki_max p) && (fj s <? kj_max p) && (fr s <? len (lres s)) then
    if negb (finner s) then
      do a <- get 1 (kleft p) (fi s);
      do b <- get 2 (kright p) (fj s);
      if a <? b then
        if emit then
          do l' <- set 3 (lres s) (fr s) (fi s + ki_off p);
          do r' <- set 4 (rres s) (fr s) (kinv p);
          Ok (Some (upd_ijr s (fi s + 1) (fj s) (fr s + 1) l' r'))
        else Ok (Some (upd_ijr s (fi s + 1) (fj s) (fr s) (lres s) (rres s)))
      else if b <? a then
        Ok (Some (upd_ijr s (fi s) (fj s + 1) (fr s) (lres s) (rres s)))
      else
        do ci <- run_len (S (length (kleft p))) 5 (kleft p) (fi s) (ki_max p) 1;
        do cj <- run_len (S (length (kright p))) 6 (kright p) (fj s) (kj_max p) 1;
        Ok (Some (mkfsm (fi s) (fj s) (fr s) 0 0 ci cj true (lres s) (rres s)))
    else
      do l' <- set 7 (lres s) (fr s) (ki_off p + fi s + fii s);
      do r' <- set 8 (rres s) (fr s) (kj_off p + fj s + fjj s);
      let jj1 := fjj s + 1 in
      if jj1 =? fjjmax s then
        let ii1 := fii s + 1 in
        if ii1 =? fiimax s then
          Ok (Some (mkfsm (fi s + fiimax s) (fj s + fjjmax s) (fr s + 1) 0 0 (-1) (-1) false l' r'))
        else
          Ok (Some (mkfsm (fi s) (fj s) (fr s + 1) ii1 0 (fiimax s) (fjjmax s) true l' r'))
      else
        Ok (Some (mkfsm (fi s) (fj s) (fr s + 1) (fii s) jj1 (fiimax s) (fjjmax s) true l' r'))
  else Ok None.

(* ---- ..._left_left_unique_partial (emit=true: `i < len(left) and j < j_max and r < len(l_result)`)
        ..._inner_left_unique_partial (emit=false: `i < i_max and j < j_max`) *)
Definition step_lu (emit:bool) (p:kparams) (s:fsm) : res (option fsm) :=
  let cond :=
    if emit then (fi s <? len (kleft p)) && (fj s <? kj_max p) && (fr s <? len (lres s))
    else (fi s <? ki_max p) && (fj s <? kj_max p) in
  if cond then
    do a <- get 21 (kleft p) (fi s);
    do b <- get 22 (kright p) (fj s);
    if a <? b then
      if emit then
        do l' <- set 23 (lres s) (fr s) (fi s + ki_off p);
        do r' <- set 24 (rres s) (fr s) (kinv p);
        Ok (Some (upd_ijr s (fi s + 1) (fj s) (fr s + 1) l' r'))
      else Ok (Some (upd_ijr s (fi s + 1) (fj s) (fr s) (lres s) (rres s)))
    else if b <? a then
      Ok (Some (upd_ijr s (fi s) (fj s + 1) (fr s) (lres s) (rres s)))
    else
      do l' <- set 25 (lres s) (fr s) (fi s + ki_off p);
      do r' <- set 26 (rres s) (fr s) (fj s + kj_off p);
      do adv <- (if kj_max p <=? fj s + 1 then Ok true
                 else do x <- get 27 (kright p) (fj s + 1); Ok (negb (x =? b)));
      Ok (Some (upd_ijr s (if adv then fi s + 1 else fi s) (fj s + 1) (fr s + 1) l' r'))
  else Ok None.

(* ---- ..._left_right_unique_partial (emit=true: `i < i_max and j < len(right)`, writes r_result only)
        ..._inner_right_unique_partial (emit=false: `i < i_max and j < j_max`, writes both) *)
Definition step_ru (emit:bool) (p:kparams) (s:fsm) : res (option fsm) :=
  let cond :=
    if emit then (fi s <? ki_max p) && (fj s <? len (kright p))
    else (fi s <? ki_max p) && (fj s <? kj_max p) in
  if cond then
    do a <- get 31 (kleft p) (fi s);
    do b <- get 32 (kright p) (fj s);
    if a <? b then
      if emit then
        do r' <- set 34 (rres s) (fr s) (kinv p);
        Ok (Some (upd_ijr s (fi s + 1) (fj s) (fr s + 1) (lres s) r'))
      else Ok (Some (upd_ijr s (fi s + 1) (fj s) (fr s) (lres s) (rres s)))
    else if b <? a then
      Ok (Some (upd_ijr s (fi s) (fj s + 1) (fr s) (lres s) (rres s)))
    else
      do l' <- (if emit then Ok (lres s) else set 35 (lres s) (fr s) (fi s + ki_off p));
      do r' <- set 36 (rres s) (fr s) (fj s + kj_off p);
      do adv <- (if ki_max p <=? fi s + 1 then Ok true
                 else do x <- get 37 (kleft p) (fi s + 1); Ok (negb (x =? a)));
      Ok (Some (upd_ijr s (fi s + 1) (if adv then fj s + 1 else fj s) (fr s + 1) l' r'))
  else Ok None.

(* ---- ..._left_both_unique_partial (emit=true: i<len(left), j<len(right), r<len(r_result); r_result only)
        ..._inner_both_unique_partial (emit=false: i<i_max, j<j_max; both) *)
Definition step_bu (emit:bool) (p:kparams) (s:fsm) : res (option fsm) :=
  let cond :=
    if emit then (fi s <? len (kleft p)) && (fj s <? len (kright p)) && (fr s <? len (rres s))
    else (fi s <? ki_max p) && (fj s <? kj_max p) in
  if cond then
    do a <- get 41 (kleft p) (fi s);
    do b <- get 42 (kright p) (fj s);
    if a <? b then
      if emit then
        do r' <- set 44 (rres s) (fr s) (kinv p);
        Ok (Some (upd_ijr s (fi s + 1) (fj s) (fr s + 1) (lres s) r'))
      else Ok (Some (upd_ijr s (fi s + 1) (fj s) (fr s) (lres s) (rres s)))
    else if b <? a then
      Ok (Some (upd_ijr s (fi s) (fj s + 1) (fr s) (lres s) (rres s)))
    else
      do l' <- (if emit then Ok (lres s) else set 45 (lres s) (fr s) (fi s + ki_off p));
      do r' <- set 46 (rres s) (fr s) (fj s + kj_off p);
      Ok (Some (upd_ijr s (fi s + 1) (fj s + 1) (fr s + 1) l' r'))
  else Ok None.

Inductive kind := KGen | KLU | KRU | KBU.

Definition kstep (k:kind) (emit:bool) : kparams -> fsm -> res (option fsm) :=
  match k with KGen => step_gen emit | KLU => step_lu emit | KRU => step_ru emit | KBU => step_bu emit end.

Fixpoint krun (fuel:nat) (k:kind) (emit:bool) (p:kparams) (s:fsm) : res fsm :=
  match fuel with
  | O => OutOfFuel
  | S f =>
    do o <- kstep k emit p s;
    match o with None => Ok s | Some s' => krun f k emit p s' end
  end.

(* ---- generate_ordered_map_to_left_remaining (both=true) / ..._right_unique_remaining (both=false) *)
Fixpoint remaining (fuel:nat) (both:bool) (i_max i_off inv:Z) (s:fsm) : res fsm :=
  match fuel with
  | O => OutOfFuel
  | S f =>
    if (fi s <? i_max) && (fr s <? len (if both then lres s else rres s)) then
      do l' <- (if both then set 50 (lres s) (fr s) (i_off + fi s) else Ok (lres s));
      do r' <- set 51 (rres s) (fr s) inv;
      remaining f both i_max i_off inv (upd_ijr s (fi s + 1) (fj s) (fr s + 1) l' r')
    else Ok s
  end.

(* ------------------------------------------------------------------ drivers *)
Record variant := mkvar { v_kind : kind; v_left : bool (* to_left (true) / to_inner (false) *) }.
Definition v_ltrim (v:variant) : bool := match v_kind v with KGen | KRU => true | _ => false end.
Definition v_rtrim (v:variant) : bool := match v_kind v with KGen | KLU => true | _ => false end.
(* which result fields the driver writes *)
Definition v_writes_l (v:variant) : bool :=
  negb (v_left v) || match v_kind v with KGen | KLU => true | _ => false end.

Record drv := mkdrv {
  df : fsm;
  lch : Z * Z; left_ : list Z; i_max_ : Z; i_off_ : Z;
  rch : Z * Z; right_ : list Z; j_max_ : Z; j_off_ : Z;
  outl : list Z; outr : list Z }.

Definition set_f (d:drv) (s:fsm) : drv :=
  mkdrv s (lch d) (left_ d) (i_max_ d) (i_off_ d) (rch d) (right_ d) (j_max_ d) (j_off_ d) (outl d) (outr d).
Definition set_i (s:fsm) (v:Z) : fsm :=
  mkfsm v (fj s) (fr s) (fii s) (fjj s) (fiimax s) (fjjmax s) (finner s) (lres s) (rres s).
Definition set_j (s:fsm) (v:Z) : fsm :=
  mkfsm (fi s) v (fr s) (fii s) (fjj s) (fiimax s) (fjjmax s) (finner s) (lres s) (rres s).
Definition set_r (s:fsm) (v:Z) : fsm :=
  mkfsm (fi s) (fj s) v (fii s) (fjj s) (fiimax s) (fjjmax s) (finner s) (lres s) (rres s).

(* `if r > 0: write_part(l_result_[:r]); write_part(r_result_[:r]); r = 0` *)
Definition flush (wl:bool) (d:drv) : drv :=
  let s := df d in
  if 0 <? fr s then
    mkdrv (set_r s 0) (lch d) (left_ d) (i_max_ d) (i_off_ d) (rch d) (right_ d) (j_max_ d) (j_off_ d)
          (if wl then outl d ++ slice (lres s) 0 (fr s) else outl d)
          (outr d ++ slice (rres s) 0 (fr s))
  else d.

Definition kfuel (d:drv) (cs:Z) : nat :=
  (2 * (length (left_ d) + length (right_ d) + Z.to_nat cs) + 8)%nat.

Definition main_iter (v:variant) (L R:list Z) (inv cs:Z) (d:drv) : res (option drv) :=
  if (fi (df d) + i_off_ d <? len L) && (fj (df d) + j_off_ d <? len R) then
    let p := mkkp (left_ d) (i_max_ d) (right_ d) (j_max_ d) inv (i_off_ d) (j_off_ d) in
    do s <- krun (kfuel d cs) (v_kind v) (v_left v) p (df d);
    (* update the left chunk if necessary *)
    do d1 <- (if (i_off_ d + fi s <? len L) && (snd (lch d) - fst (lch d) <=? fi s) then
                do c <- fetch_chunk (v_ltrim v) (snd (lch d)) cs L;
                let ch := fst c in
                Ok (mkdrv (set_i s 0) ch (snd c) (snd ch - fst ch) (fst ch)
                          (rch d) (right_ d) (j_max_ d) (j_off_ d) (outl d) (outr d))
              else Ok (set_f d s));
    (* update the right chunk if necessary *)
    do d2 <- (if (j_off_ d1 + fj (df d1) <? len R) && (snd (rch d1) - fst (rch d1) <=? fj (df d1)) then
                do c <- fetch_chunk (v_rtrim v) (snd (rch d1)) cs R;
                let ch := fst c in
                Ok (mkdrv (set_j (df d1) 0) (lch d1) (left_ d1) (i_max_ d1) (i_off_ d1)
                          ch (snd c) (snd ch - fst ch) (fst ch) (outl d1) (outr d1))
              else Ok d1);
    Ok (Some (flush (v_writes_l v) d2))
  else Ok None.

Fixpoint main_loop (fuel:nat) (v:variant) (L R:list Z) (inv cs:Z) (d:drv) : res drv :=
  match fuel with
  | O => OutOfFuel
  | S fu =>
    do o <- main_iter v L R inv cs d;
    match o with None => Ok d | Some d' => main_loop fu v L R inv cs d' end
  end.

(* tail loop of the to_left drivers *)
Fixpoint tail_loop (fuel:nat) (v:variant) (L:list Z) (inv cs:Z) (d:drv) : res drv :=
  match fuel with
  | O => OutOfFuel
  | S fu =>
    if fi (df d) + i_off_ d <? len L then
      do s <- remaining (S (S (Z.to_nat cs))) (v_writes_l v) (i_max_ d) (i_off_ d) inv (df d);
      let ch := next_chunk (snd (lch d)) (len L) cs in
      let d' := mkdrv (set_i s 0) ch (left_ d) (snd ch - fst ch) (fst ch)
                      (rch d) (right_ d) (j_max_ d) (j_off_ d) (outl d) (outr d) in
      tail_loop fu v L inv cs (flush (v_writes_l v) d')
    else Ok d
  end.

Definition driver_fuel (L R:list Z) : nat :=
  (2 * (length L + length R + length L * length R) + 8)%nat.

Definition streamed (v:variant) (L R:list Z) (inv cs:Z) : res (list Z * list Z) :=
  let buf := repeat 0 (Z.to_nat cs) in
  do lc <- fetch_chunk (v_ltrim v) 0 cs L;
  do rc <- fetch_chunk (v_rtrim v) 0 cs R;
  let s0 := mkfsm 0 0 0 0 0 (-1) (-1) false buf buf in
  let d0 := mkdrv s0 (fst lc) (snd lc) (snd (fst lc) - fst (fst lc)) (fst (fst lc))
                  (fst rc) (snd rc) (snd (fst rc) - fst (fst rc)) (fst (fst rc)) [] [] in
  do d1 <- main_loop (driver_fuel L R) v L R inv cs d0;
  do d2 <- (if v_left v then tail_loop (S (S (length L))) v L inv cs d1 else Ok d1);
  Ok (outl d2, outr d2).
