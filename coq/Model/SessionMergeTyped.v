(* Model/SessionMergeTyped.v — the element types of the payloads of Session.ordered_merge_left / _right (C19),
   and histories of several calls.

   Model/SessionMerge.v treats payload values as opaque integers.  The code, however, chooses a dtype for every
   buffer a payload value passes through on its way from the source to the result:

     _map_fields, no sinks          ops.map_valid(src, map):  result = np.zeros_like(map, dtype=data_field.dtype)
     _map_fields, ndarray sinks     ops.map_valid(src, map, snk): result[i] = data_field[map[i]]   (the caller's array;
                                    numba refuses to compile this call when the two dtypes differ)
     _map_fields, field sinks       snk.data.write(map_valid(src, map)): a memory-backed field that is empty keeps the
                                    array it is given (MemoryFieldArray.write_part), h5py converts to the dataset's dtype
     _streaming_map_fields          ops.ordered_map_valid_stream: result_data = np.zeros(chunksize,
                                    dtype=result_field.data.dtype);  result_data[sm] = values[...]  per (source, sink) pair

   A payload value is represented by an integer: the value itself for integer dtypes, 0/1 for bool, the IEEE bit
   pattern (as an unsigned integer) for float32/float64, the n bytes of a fixed-width string 'Sn' (NUL-padded, read as a
   big-endian number; b'' = 0 is the empty value the streamed form writes for unmatched rows).  `cast a b v` is the store of a value of dtype a into an
   array of dtype b (numba / numpy "unsafe" casting: integers wrap); conversions from or to floating point or fixed-width strings are NOT
   modelled (None) — the harness never generates them.  Because the only operation the kernels perform on a payload
   value is that store, staging a column through dtype b is the element-wise cast of the column; the typed call is
   the untyped call of SessionMerge.v on the staged columns, tagged with the dtypes the caller observes.

   `history`: several calls in sequence on the same Session.  The model of a call is a function of its arguments'
   values only, so a history is the list of the results of its calls.  Proof-free file. *)
From Coq Require Import ZArith List Bool.
From EV Require Import Res Arr Join MapStream SessionMerge.
Import ListNotations.
Open Scope Z_scope.

Inductive dtype := DBool | DInt (bits:Z) | DUInt (bits:Z) | DFloat (bits:Z) | DBytes (n:Z).

Definition dtype_eqb (a b:dtype) : bool :=
  match a, b with
  | DBool, DBool => true
  | DInt x, DInt y => x =? y
  | DUInt x, DUInt y => x =? y
  | DFloat x, DFloat y => x =? y
  | DBytes x, DBytes y => x =? y
  | _, _ => false
  end.

Definition wrap_u (n v:Z) : Z := v mod 2 ^ n.
Definition wrap_s (n v:Z) : Z := (v + 2 ^ (n - 1)) mod 2 ^ n - 2 ^ (n - 1).

Definition E_NotModelled : Z := 77.

Definition cast (a b:dtype) (v:Z) : option Z :=
  if dtype_eqb a b then Some v
  else match a, b with
       | (DBool | DInt _ | DUInt _), DInt n => Some (wrap_s n v)
       | (DBool | DInt _ | DUInt _), DUInt n => Some (wrap_u n v)
       | (DInt _ | DUInt _), DBool => Some (if v =? 0 then 0 else 1)
       | _, _ => None
       end.

Definition cast_col (a b:dtype) (l:list Z) : res (list Z) :=
  mapM (fun v => match cast a b v with Some w => Ok w | None => Raise E_NotModelled end) l.

Definition tcol : Type := dtype * list Z.

Inductive backing := BMem | BH5.      (* memory-backed fields / HDF5-backed fields *)

Definition has_sinks (fm:form) : bool := match fm with FArrSink | FFldSink => true | _ => false end.
Definition is_streamed (fm:form) (mk:mapk) : bool :=
  match fm, mk with FFldSink, MFld => true | _, _ => false end.

(* the dtype one payload is staged through, which is also the dtype of the column the caller gets *)
Definition staged_dtype (streamed:bool) (fm:form) (bk:backing) (src snk:dtype) : option dtype :=
  match fm with
  | FArr | FFld => Some src
  | FArrSink => if dtype_eqb src snk then Some snk else None      (* numba: cannot unify the two array types *)
  | FFldSink => if streamed then Some snk
                else match bk with BMem => Some src | BH5 => Some snk end
  end.

Definition out_dtypes (streamed:bool) (fm:form) (bk:backing) (srcs:list tcol) (snk_dts:list dtype)
  : res (list dtype) :=
  if has_sinks fm then
    mapM (fun p => match staged_dtype streamed fm bk (fst (fst p)) (snd p) with
                   | Some d => Ok d | None => Raise E_NotModelled end) (combine srcs snk_dts)
  else Ok (map fst srcs).

Record toml_out := mk_toml {
  toml_ret : option (list tcol);
  toml_sinks : option (list tcol);
  toml_map : option (list Z) }.

Definition tag (dts:list dtype) (o:option (list (list Z))) : option (list tcol) :=
  match o with Some cols => Some (combine dts cols) | None => None end.

(* Session.ordered_merge_left (repaired code) with typed payloads.  snk_dts: the dtypes of left_field_sinks
   ([] when there are none); sinks0: the initial content of ndarray sinks *)
Definition ordered_merge_left_t (cs:Z) (L R:list Z) (srcs:list tcol) (fm:form) (snk_dts:list dtype)
           (sinks0:list (list Z)) (mk:mapk) (lu ru:bool) (bk:backing) : res toml_out :=
  if has_sinks fm && negb (len srcs =? len snk_dts) then
    Raise E_IndexError      (* `msg.format(...)` of the length check: four placeholders, two arguments *)
  else
    do dts <- out_dtypes (is_streamed fm mk) fm bk srcs snk_dts;
    do staged <- mapM (fun p => cast_col (fst (fst p)) (snd p) (snd (fst p))) (combine srcs dts);
    do o <- ordered_merge_left Fixed cs L R staged fm sinks0 mk lu ru;
    Ok (mk_toml (tag dts (oml_ret o)) (tag dts (oml_sinks o)) (oml_map o)).

Definition ordered_merge_right_t (cs:Z) (left_on right_on:list Z) (srcs:list tcol) (fm:form)
           (snk_dts:list dtype) (sinks0:list (list Z)) (mk:mapk) (left_unique right_unique:bool) (bk:backing)
  : res toml_out :=
  ordered_merge_left_t cs right_on left_on srcs fm snk_dts sinks0 mk right_unique left_unique bk.

(* several calls one after the other on the same Session object *)
Definition history {C O} (call:C -> O) (calls:list C) : list O := map call calls.
