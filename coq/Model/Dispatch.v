(* Model/Dispatch.v — exetera/core/fields.py operator layer (C13).  Proof-free, executable.

   What is modelled (statement by statement where there are statements):
     * the operator methods of the six numeric/categorical/timestamp field classes: a TABLE
       (class, special method, FieldDataOps function, argument list).  `repo_table` below is the
       table of the tree under verification (after the repair of F-C13a); on every run the
       translator harness/translate_dispatch.py re-reads fields.py and the generated obligations
       (GenProps/C13Table.v) demand  gen_table = repo_table  etc.
     * FieldDataOps.<fn>: which wrapper (_binary_op / numeric_divmod / _unary_op) around which
       numpy / operator function (`repo_ops`);
     * Python's binary-operator protocol + numpy's deferral rule (`py_binop`): this is the part of
       CPython/numpy the property depends on; it is modelled, not verified (trusted, exercised by
       the correspondence):
         - `l <op> r` first calls type(l).__op__(l, r); a missing method or NotImplemented
           leads to type(r).__rop__(r, l) (for comparisons the mirrored comparison), which is
           skipped for arithmetic operators when type(l) is type(r); if neither answers: TypeError;
           (no field class is a subclass of another one, so the "subclass first" rule never fires);
         - ndarray.__op__(a, x) / numpy-scalar.__op__(s, x) return NotImplemented iff
           type(x).__array_ufunc__ is None; otherwise numpy coerces x to a 0-d object array and
           runs the object loop: an n-d array yields an object array whose elements are the
           results of `a[i] <op> x` (comparisons: their truth values, and a field is always
           truthy), a numpy scalar / 0-d array yields `s.item() <op> x` itself;
         - Python scalars (int, float, bool) return NotImplemented for a field operand.
     * _binary_op / _unary_op / numeric_divmod / dtype_to_str / MemoryFieldArray.write,
       MemoryFieldArray.__getitem__ (a never-written field reads as the empty array of its own
       dtype — after the repair of F-C13b) and DataFrame.__setitem__ over an abstract heap of
       fields (Section Wrappers; numpy's functions are section variables).  The extracted
       instance is symbolic (`sym`): the harness interprets the symbols with the real numpy. *)
From Coq Require Import ZArith List Bool.
From EV Require Import Res.
Import ListNotations.
Open Scope Z_scope.

(* ---- vocabulary ---------------------------------------------------------------------- *)
Inductive cls := NumericMem | CategoricalMem | TimestampMem | NumericH5 | CategoricalH5 | TimestampH5.

Inductive bop := Add | Sub | Mul | TrueDiv | FloorDiv | Mod | DivMod | And | Or | Xor
               | Lt | Le | Eq | Ne | Gt | Ge.
Inductive uop := Invert | LogicalNot.

(* special-method names: __X__, __rX__ (arithmetic only), __invert__ / logical_not *)
Inductive dunder := D_fwd (o:bop) | D_refl (o:bop) | D_un (u:uop).

(* the functions of class FieldDataOps that operator methods call *)
Inductive fdo :=
| F_numeric_add | F_numeric_sub | F_numeric_mul | F_numeric_truediv | F_numeric_floordiv | F_numeric_mod
| F_numeric_divmod | F_numeric_and | F_numeric_xor | F_numeric_or | F_invert | F_logical_not
| F_less_than | F_less_than_equal | F_equal | F_not_equal | F_greater_than | F_greater_than_equal.

(* the numpy-level function finally applied to the data arrays *)
Inductive npop :=
| Op_add | Op_sub | Op_mul | Op_truediv | Op_floordiv | Op_mod | Op_and | Op_or | Op_xor | Op_invert
| Op_lt | Op_le | Op_eq | Op_ne | Op_gt | Op_ge | Np_divmod | Np_logical_not.

Inductive wrapper := W_binary | W_divmod | W_unary.
Inductive arg := ASelf | AOther.

Definition entry : Type := (cls * dunder * fdo * list arg)%type.
Definition opdef : Type := (fdo * wrapper * npop)%type.

(* ---- decidable equalities (plain functions, no proofs here) --------------------------- *)
Definition cls_code (c:cls) : Z :=
  match c with NumericMem => 0 | CategoricalMem => 1 | TimestampMem => 2
             | NumericH5 => 3 | CategoricalH5 => 4 | TimestampH5 => 5 end.
Definition bop_code (o:bop) : Z :=
  match o with Add => 0 | Sub => 1 | Mul => 2 | TrueDiv => 3 | FloorDiv => 4 | Mod => 5 | DivMod => 6
             | And => 7 | Or => 8 | Xor => 9 | Lt => 10 | Le => 11 | Eq => 12 | Ne => 13 | Gt => 14 | Ge => 15 end.
Definition uop_code (u:uop) : Z := match u with Invert => 16 | LogicalNot => 17 end.
Definition dunder_code (d:dunder) : Z :=
  match d with D_fwd o => bop_code o | D_refl o => 100 + bop_code o | D_un u => uop_code u end.
Definition fdo_code (f:fdo) : Z :=
  match f with
  | F_numeric_add => 0 | F_numeric_sub => 1 | F_numeric_mul => 2 | F_numeric_truediv => 3
  | F_numeric_floordiv => 4 | F_numeric_mod => 5 | F_numeric_divmod => 6 | F_numeric_and => 7
  | F_numeric_xor => 8 | F_numeric_or => 9 | F_invert => 10 | F_logical_not => 11
  | F_less_than => 12 | F_less_than_equal => 13 | F_equal => 14 | F_not_equal => 15
  | F_greater_than => 16 | F_greater_than_equal => 17
  end.
Definition npop_code (f:npop) : Z :=
  match f with
  | Op_add => 0 | Op_sub => 1 | Op_mul => 2 | Op_truediv => 3 | Op_floordiv => 4 | Op_mod => 5
  | Np_divmod => 6 | Op_and => 7 | Op_or => 8 | Op_xor => 9
  | Op_lt => 10 | Op_le => 11 | Op_eq => 12 | Op_ne => 13 | Op_gt => 14 | Op_ge => 15
  | Op_invert => 16 | Np_logical_not => 17
  end.
Definition wrapper_code (w:wrapper) : Z := match w with W_binary => 0 | W_divmod => 1 | W_unary => 2 end.

Definition cls_eqb (a b:cls) : bool := cls_code a =? cls_code b.
Definition bop_eqb (a b:bop) : bool := bop_code a =? bop_code b.
Definition dunder_eqb (a b:dunder) : bool := dunder_code a =? dunder_code b.
Definition fdo_eqb (a b:fdo) : bool := fdo_code a =? fdo_code b.

Definition is_cmp (o:bop) : bool :=
  match o with Lt | Le | Eq | Ne | Gt | Ge => true | _ => false end.

(* Python data model: the reflected counterpart of a comparison is the mirrored comparison *)
Definition mirror (o:bop) : bop :=
  match o with Lt => Gt | Le => Ge | Gt => Lt | Ge => Le | o' => o' end.
Definition reflected (o:bop) : dunder :=
  if is_cmp o then D_fwd (mirror o) else D_refl o.

(* ---- table lookups: a class body is executed top to bottom, a later def would rebind the
        name; the translator rejects duplicates, so first match = the method --------------- *)
Fixpoint lookup (t:list entry) (c:cls) (d:dunder) : option (fdo * list arg) :=
  match t with
  | [] => None
  | (c', d', f, a) :: t' => if cls_eqb c c' && dunder_eqb d d' then Some (f, a) else lookup t' c d
  end.

Fixpoint lookup_op (t:list opdef) (f:fdo) : option (wrapper * npop) :=
  match t with
  | [] => None
  | (f', w, o) :: t' => if fdo_eqb f f' then Some (w, o) else lookup_op t' f
  end.

Fixpoint lookup_flag (t:list (cls * bool)) (c:cls) : bool :=
  match t with
  | [] => false                       (* attribute absent: numpy's default ufunc handling *)
  | (c', b) :: t' => if cls_eqb c c' then b else lookup_flag t' c
  end.

(* ---- operands and plans ---------------------------------------------------------------- *)
Inductive kind := KField (c:cls) | KNdarray | KNpScalar | KPyScalar.

(* which run-time object is handed to the numpy function *)
Inductive sel := SLhs | SRhs | SLhsItem | SRhsItem.     (* …Item: the numpy scalar demoted by .item() *)

Inductive plan :=
| PApply (w:wrapper) (f:npop) (args:list sel)   (* new NumericMemField(s) wrapping f(args' data) *)
| PObjArray                                     (* ndarray of dtype object holding fields *)
| PBoolTrue.                                    (* ndarray of bool, every element True *)

Record code_tables := { t_methods : list entry; t_ufunc : list (cls * bool); t_ops : list opdef }.

(* calling a method found in the table: FieldDataOps.f(session, args…) *)
Definition subst (self other:sel) (a:arg) : sel := match a with ASelf => self | AOther => other end.

Definition wrapper_arity (w:wrapper) : nat := match w with W_unary => 1%nat | _ => 2%nat end.

Definition call_method (T:code_tables) (c:cls) (d:dunder) (self other:sel) : option (res plan) :=
  match lookup (t_methods T) c d with
  | None => None                                            (* attribute not defined *)
  | Some (f, args) =>
    match lookup_op (t_ops T) f with
    | None => Some (Raise E_Other)                          (* AttributeError inside the method *)
    | Some (w, o) =>
      if Nat.eqb (length args) (wrapper_arity w)
      then Some (Ok (PApply w o (map (subst self other) args)))
      else Some (Raise E_TypeError)                         (* wrong number of arguments *)
    end
  end.

(* ndarray.__op__(a, x) / ndarray.__rop__ with x a field of class c; `scalar` = a is 0-d.
   None = NotImplemented *)
Definition numpy_side (T:code_tables) (o:bop) (c:cls) : option (res plan) :=
  if lookup_flag (t_ufunc T) c then None
  else Some (Ok (if is_cmp o then PBoolTrue else PObjArray)).

Definition same_class (l r:kind) : bool :=
  match l, r with KField a, KField b => cls_eqb a b | _, _ => false end.

Definition or_else {A} (a:option A) (b:option A) : option A := match a with Some x => Some x | None => b end.

(* `l <op> r` with Python-scalar demotion of a numpy scalar tracked in the selectors *)
Definition py_binop_sel (T:code_tables) (l:kind) (o:bop) (r:kind) (sl sr:sel) : res plan :=
  let step1 : option (res plan) :=
    match l with
    | KField c => call_method T c (D_fwd o) sl sr
    | KNdarray => match r with KField c => numpy_side T o c | _ => None end
    | _ => None
    end in
  let step2 : option (res plan) :=
    if same_class l r && negb (is_cmp o) then None
    else match r with
         | KField c => call_method T c (reflected o) sr sl
         | KNdarray => match l with KField c => numpy_side T o c | _ => None end
         | _ => None
         end in
  match or_else step1 step2 with
  | Some p => p
  | None => Raise E_TypeError
  end.

Definition py_binop (T:code_tables) (l:kind) (o:bop) (r:kind) : res plan :=
  match l, r with
  | KNpScalar, KField c =>
      (* numpy scalar on the left: defers iff the class opts out, else object loop on s.item() *)
      if lookup_flag (t_ufunc T) c then py_binop_sel T KPyScalar o r SLhs SRhs
      else py_binop_sel T KPyScalar o r SLhsItem SRhs
  | KField c, KNpScalar =>
      (* field.__op__ answers first when it exists; otherwise the numpy scalar's reflected slot *)
      match call_method T c (D_fwd o) SLhs SRhs with
      | Some p => p
      | None => if lookup_flag (t_ufunc T) c then Raise E_TypeError
                else py_binop_sel T l o KPyScalar SLhs SRhsItem
      end
  | _, _ => py_binop_sel T l o r SLhs SRhs
  end.

(* `~f` / `f.logical_not()` *)
Definition py_unop (T:code_tables) (c:cls) (u:uop) : res plan :=
  match call_method T c (D_un u) SLhs SLhs with
  | Some p => p
  | None => match u with Invert => Raise E_TypeError | LogicalNot => Raise E_Other (* AttributeError *) end
  end.

(* ---- the tables of the tree under verification (exetera/core/fields.py after fix F-C13a).
        Written out by hand-checked copy of the translator's output; GenProps/C13Table.v demands on
        every run that the freshly translated tables are equal to these. ------------------------- *)
Definition repo_table : list entry := [
  (NumericMem, D_fwd Add, F_numeric_add, [ASelf; AOther]);
  (NumericMem, D_refl Add, F_numeric_add, [AOther; ASelf]);
  (NumericMem, D_fwd Sub, F_numeric_sub, [ASelf; AOther]);
  (NumericMem, D_refl Sub, F_numeric_sub, [AOther; ASelf]);
  (NumericMem, D_fwd Mul, F_numeric_mul, [ASelf; AOther]);
  (NumericMem, D_refl Mul, F_numeric_mul, [AOther; ASelf]);
  (NumericMem, D_fwd TrueDiv, F_numeric_truediv, [ASelf; AOther]);
  (NumericMem, D_refl TrueDiv, F_numeric_truediv, [AOther; ASelf]);
  (NumericMem, D_fwd FloorDiv, F_numeric_floordiv, [ASelf; AOther]);
  (NumericMem, D_refl FloorDiv, F_numeric_floordiv, [AOther; ASelf]);
  (NumericMem, D_fwd Mod, F_numeric_mod, [ASelf; AOther]);
  (NumericMem, D_refl Mod, F_numeric_mod, [AOther; ASelf]);
  (NumericMem, D_fwd DivMod, F_numeric_divmod, [ASelf; AOther]);
  (NumericMem, D_refl DivMod, F_numeric_divmod, [AOther; ASelf]);
  (NumericMem, D_fwd And, F_numeric_and, [ASelf; AOther]);
  (NumericMem, D_refl And, F_numeric_and, [AOther; ASelf]);
  (NumericMem, D_fwd Xor, F_numeric_xor, [ASelf; AOther]);
  (NumericMem, D_refl Xor, F_numeric_xor, [AOther; ASelf]);
  (NumericMem, D_fwd Or, F_numeric_or, [ASelf; AOther]);
  (NumericMem, D_refl Or, F_numeric_or, [AOther; ASelf]);
  (NumericMem, D_fwd Lt, F_less_than, [ASelf; AOther]);
  (NumericMem, D_fwd Le, F_less_than_equal, [ASelf; AOther]);
  (NumericMem, D_fwd Eq, F_equal, [ASelf; AOther]);
  (NumericMem, D_fwd Ne, F_not_equal, [ASelf; AOther]);
  (NumericMem, D_fwd Gt, F_greater_than, [ASelf; AOther]);
  (NumericMem, D_fwd Ge, F_greater_than_equal, [ASelf; AOther]);
  (NumericMem, D_un Invert, F_invert, [ASelf]);
  (NumericMem, D_un LogicalNot, F_logical_not, [ASelf]);
  (CategoricalMem, D_fwd Lt, F_less_than, [ASelf; AOther]);
  (CategoricalMem, D_fwd Le, F_less_than_equal, [ASelf; AOther]);
  (CategoricalMem, D_fwd Eq, F_equal, [ASelf; AOther]);
  (CategoricalMem, D_fwd Ne, F_not_equal, [ASelf; AOther]);
  (CategoricalMem, D_fwd Gt, F_greater_than, [ASelf; AOther]);
  (CategoricalMem, D_fwd Ge, F_greater_than_equal, [ASelf; AOther]);
  (CategoricalMem, D_fwd Add, F_numeric_add, [ASelf; AOther]);
  (CategoricalMem, D_refl Add, F_numeric_add, [AOther; ASelf]);
  (CategoricalMem, D_fwd Sub, F_numeric_sub, [ASelf; AOther]);
  (CategoricalMem, D_refl Sub, F_numeric_sub, [AOther; ASelf]);
  (CategoricalMem, D_fwd Mul, F_numeric_mul, [ASelf; AOther]);
  (CategoricalMem, D_refl Mul, F_numeric_mul, [AOther; ASelf]);
  (CategoricalMem, D_fwd TrueDiv, F_numeric_truediv, [ASelf; AOther]);
  (CategoricalMem, D_refl TrueDiv, F_numeric_truediv, [AOther; ASelf]);
  (CategoricalMem, D_fwd FloorDiv, F_numeric_floordiv, [ASelf; AOther]);
  (CategoricalMem, D_refl FloorDiv, F_numeric_floordiv, [AOther; ASelf]);
  (TimestampMem, D_fwd Add, F_numeric_add, [ASelf; AOther]);
  (TimestampMem, D_refl Add, F_numeric_add, [AOther; ASelf]);
  (TimestampMem, D_fwd Sub, F_numeric_sub, [ASelf; AOther]);
  (TimestampMem, D_refl Sub, F_numeric_sub, [AOther; ASelf]);
  (TimestampMem, D_fwd Mul, F_numeric_mul, [ASelf; AOther]);
  (TimestampMem, D_refl Mul, F_numeric_mul, [AOther; ASelf]);
  (TimestampMem, D_fwd TrueDiv, F_numeric_truediv, [ASelf; AOther]);
  (TimestampMem, D_refl TrueDiv, F_numeric_truediv, [AOther; ASelf]);
  (TimestampMem, D_fwd FloorDiv, F_numeric_floordiv, [ASelf; AOther]);
  (TimestampMem, D_refl FloorDiv, F_numeric_floordiv, [AOther; ASelf]);
  (TimestampMem, D_fwd Mod, F_numeric_mod, [ASelf; AOther]);
  (TimestampMem, D_refl Mod, F_numeric_mod, [AOther; ASelf]);
  (TimestampMem, D_fwd DivMod, F_numeric_divmod, [ASelf; AOther]);
  (TimestampMem, D_refl DivMod, F_numeric_divmod, [AOther; ASelf]);
  (TimestampMem, D_fwd Lt, F_less_than, [ASelf; AOther]);
  (TimestampMem, D_fwd Le, F_less_than_equal, [ASelf; AOther]);
  (TimestampMem, D_fwd Eq, F_equal, [ASelf; AOther]);
  (TimestampMem, D_fwd Ne, F_not_equal, [ASelf; AOther]);
  (TimestampMem, D_fwd Gt, F_greater_than, [ASelf; AOther]);
  (TimestampMem, D_fwd Ge, F_greater_than_equal, [ASelf; AOther]);
  (NumericH5, D_fwd Add, F_numeric_add, [ASelf; AOther]);
  (NumericH5, D_refl Add, F_numeric_add, [AOther; ASelf]);
  (NumericH5, D_fwd Sub, F_numeric_sub, [ASelf; AOther]);
  (NumericH5, D_refl Sub, F_numeric_sub, [AOther; ASelf]);
  (NumericH5, D_fwd Mul, F_numeric_mul, [ASelf; AOther]);
  (NumericH5, D_refl Mul, F_numeric_mul, [AOther; ASelf]);
  (NumericH5, D_fwd TrueDiv, F_numeric_truediv, [ASelf; AOther]);
  (NumericH5, D_refl TrueDiv, F_numeric_truediv, [AOther; ASelf]);
  (NumericH5, D_fwd FloorDiv, F_numeric_floordiv, [ASelf; AOther]);
  (NumericH5, D_refl FloorDiv, F_numeric_floordiv, [AOther; ASelf]);
  (NumericH5, D_fwd Mod, F_numeric_mod, [ASelf; AOther]);
  (NumericH5, D_refl Mod, F_numeric_mod, [AOther; ASelf]);
  (NumericH5, D_fwd DivMod, F_numeric_divmod, [ASelf; AOther]);
  (NumericH5, D_refl DivMod, F_numeric_divmod, [AOther; ASelf]);
  (NumericH5, D_fwd And, F_numeric_and, [ASelf; AOther]);
  (NumericH5, D_refl And, F_numeric_and, [AOther; ASelf]);
  (NumericH5, D_fwd Xor, F_numeric_xor, [ASelf; AOther]);
  (NumericH5, D_refl Xor, F_numeric_xor, [AOther; ASelf]);
  (NumericH5, D_fwd Or, F_numeric_or, [ASelf; AOther]);
  (NumericH5, D_refl Or, F_numeric_or, [AOther; ASelf]);
  (NumericH5, D_fwd Lt, F_less_than, [ASelf; AOther]);
  (NumericH5, D_fwd Le, F_less_than_equal, [ASelf; AOther]);
  (NumericH5, D_fwd Eq, F_equal, [ASelf; AOther]);
  (NumericH5, D_fwd Ne, F_not_equal, [ASelf; AOther]);
  (NumericH5, D_fwd Gt, F_greater_than, [ASelf; AOther]);
  (NumericH5, D_fwd Ge, F_greater_than_equal, [ASelf; AOther]);
  (NumericH5, D_un Invert, F_invert, [ASelf]);
  (NumericH5, D_un LogicalNot, F_logical_not, [ASelf]);
  (CategoricalH5, D_fwd Lt, F_less_than, [ASelf; AOther]);
  (CategoricalH5, D_fwd Le, F_less_than_equal, [ASelf; AOther]);
  (CategoricalH5, D_fwd Eq, F_equal, [ASelf; AOther]);
  (CategoricalH5, D_fwd Ne, F_not_equal, [ASelf; AOther]);
  (CategoricalH5, D_fwd Gt, F_greater_than, [ASelf; AOther]);
  (CategoricalH5, D_fwd Ge, F_greater_than_equal, [ASelf; AOther]);
  (CategoricalH5, D_fwd Add, F_numeric_add, [ASelf; AOther]);
  (CategoricalH5, D_refl Add, F_numeric_add, [AOther; ASelf]);
  (CategoricalH5, D_fwd Sub, F_numeric_sub, [ASelf; AOther]);
  (CategoricalH5, D_refl Sub, F_numeric_sub, [AOther; ASelf]);
  (CategoricalH5, D_fwd Mul, F_numeric_mul, [ASelf; AOther]);
  (CategoricalH5, D_refl Mul, F_numeric_mul, [AOther; ASelf]);
  (CategoricalH5, D_fwd TrueDiv, F_numeric_truediv, [ASelf; AOther]);
  (CategoricalH5, D_refl TrueDiv, F_numeric_truediv, [AOther; ASelf]);
  (CategoricalH5, D_fwd FloorDiv, F_numeric_floordiv, [ASelf; AOther]);
  (CategoricalH5, D_refl FloorDiv, F_numeric_floordiv, [AOther; ASelf]);
  (TimestampH5, D_fwd Add, F_numeric_add, [ASelf; AOther]);
  (TimestampH5, D_refl Add, F_numeric_add, [AOther; ASelf]);
  (TimestampH5, D_fwd Sub, F_numeric_sub, [ASelf; AOther]);
  (TimestampH5, D_refl Sub, F_numeric_sub, [AOther; ASelf]);
  (TimestampH5, D_fwd Mul, F_numeric_mul, [ASelf; AOther]);
  (TimestampH5, D_refl Mul, F_numeric_mul, [AOther; ASelf]);
  (TimestampH5, D_fwd TrueDiv, F_numeric_truediv, [ASelf; AOther]);
  (TimestampH5, D_refl TrueDiv, F_numeric_truediv, [AOther; ASelf]);
  (TimestampH5, D_fwd FloorDiv, F_numeric_floordiv, [ASelf; AOther]);
  (TimestampH5, D_refl FloorDiv, F_numeric_floordiv, [AOther; ASelf]);
  (TimestampH5, D_fwd Mod, F_numeric_mod, [ASelf; AOther]);
  (TimestampH5, D_refl Mod, F_numeric_mod, [AOther; ASelf]);
  (TimestampH5, D_fwd DivMod, F_numeric_divmod, [ASelf; AOther]);
  (TimestampH5, D_refl DivMod, F_numeric_divmod, [AOther; ASelf]);
  (TimestampH5, D_fwd Lt, F_less_than, [ASelf; AOther]);
  (TimestampH5, D_fwd Le, F_less_than_equal, [ASelf; AOther]);
  (TimestampH5, D_fwd Eq, F_equal, [ASelf; AOther]);
  (TimestampH5, D_fwd Ne, F_not_equal, [ASelf; AOther]);
  (TimestampH5, D_fwd Gt, F_greater_than, [ASelf; AOther]);
  (TimestampH5, D_fwd Ge, F_greater_than_equal, [ASelf; AOther])
].

Definition repo_ufunc : list (cls * bool) := [
  (NumericMem, true);
  (CategoricalMem, true);
  (TimestampMem, true);
  (NumericH5, true);
  (CategoricalH5, true);
  (TimestampH5, true)
].

Definition repo_ops : list opdef := [
  (F_numeric_add, W_binary, Op_add);
  (F_numeric_sub, W_binary, Op_sub);
  (F_numeric_mul, W_binary, Op_mul);
  (F_numeric_truediv, W_binary, Op_truediv);
  (F_numeric_floordiv, W_binary, Op_floordiv);
  (F_numeric_mod, W_binary, Op_mod);
  (F_numeric_divmod, W_divmod, Np_divmod);
  (F_numeric_and, W_binary, Op_and);
  (F_numeric_xor, W_binary, Op_xor);
  (F_numeric_or, W_binary, Op_or);
  (F_invert, W_unary, Op_invert);
  (F_logical_not, W_unary, Np_logical_not);
  (F_less_than, W_binary, Op_lt);
  (F_less_than_equal, W_binary, Op_le);
  (F_equal, W_binary, Op_eq);
  (F_not_equal, W_binary, Op_ne);
  (F_greater_than, W_binary, Op_gt);
  (F_greater_than_equal, W_binary, Op_ge)
].


(* the class flags of the pinned commit before the repair of F-C13a: only the Categorical classes
   set __array_ufunc__ = None (kept for the `_refuted` theorem) *)
Definition orig_ufunc : list (cls * bool) := [
  (NumericMem, false);
  (CategoricalMem, true);
  (TimestampMem, false);
  (NumericH5, false);
  (CategoricalH5, true);
  (TimestampH5, false)
].

Definition repo_tables : code_tables := {| t_methods := repo_table; t_ufunc := repo_ufunc; t_ops := repo_ops |}.
Definition orig_tables : code_tables := {| t_methods := repo_table; t_ufunc := orig_ufunc; t_ops := repo_ops |}.

(* ---- the wrappers over an abstract numpy ------------------------------------------------ *)
(* python run-time values that can be operands / results *)
Inductive value (arr:Type) :=
| VField (id:nat)            (* a field object: index into the heap *)
| VNd (a:arr)                (* numpy ndarray *)
| VNpScalar (a:arr)          (* numpy scalar (np.int64(3), np.float32(2.5), np.bool_) *)
| VPyScalar (a:arr)          (* Python int / float / bool *)
| VObjArray                  (* what numpy's object loop returns for arithmetic on a non-deferring field *)
| VBoolTrue.                 (* … and for comparisons *)
Arguments VField {arr} id.
Arguments VNd {arr} a.
Arguments VNpScalar {arr} a.
Arguments VPyScalar {arr} a.
Arguments VObjArray {arr}.
Arguments VBoolTrue {arr}.

Section Wrappers.
  Variable arr : Type.        (* a numpy value (array or scalar) with its dtype *)
  Variable nformat : Type.    (* the strings 'bool', 'int8', … *)
  Variable np_bin : npop -> arr -> arr -> res arr.       (* operator.X(a, b); may raise *)
  Variable np_divmod : arr -> arr -> res (arr * arr).     (* np.divmod(a, b) *)
  Variable np_un : npop -> arr -> res arr.               (* operator.invert(a) / np.logical_not(a) *)
  Variable np_item : arr -> arr.                         (* s.item() *)
  Variable dtype_to_str : arr -> res nformat.            (* dtype_to_str(r.dtype): ValueError off the 11 dtypes *)
  Variable np_cast : nformat -> arr -> res arr.          (* what DataWriter.write(…, dtype=nformat) stores *)
  Variable np_empty : nformat -> arr.                    (* np.zeros(0, dtype=nformat) *)

  (* fo_data = None: nothing has been written yet (MemoryFieldArray._dataset is None / an HDF5 dataset
     created by the field constructor and never extended) *)
  Record fieldobj := mkfield { fo_cls : cls; fo_nformat : nformat; fo_data : option arr }.
  Definition heap := list fieldobj.

  (* field.data[:]  — MemoryFieldArray.__getitem__ (lines 383-392, after fix F-C13b):
       if self._dataset is None: return np.zeros(0, dtype=self._dtype)
       return self._dataset[item]
     and an HDF5 dataset read, which for a never-written field is the empty array of its dtype *)
  Definition field_data (fo:fieldobj) : arr :=
    match fo_data fo with Some a => a | None => np_empty (fo_nformat fo) end.

  Definition kind_of (h:heap) (v:value arr) : res kind :=
    match v with
    | VField id => match nth_error h id with Some fo => Ok (KField (fo_cls fo)) | None => Raise E_Other end
    | VNd _ => Ok KNdarray
    | VNpScalar _ => Ok KNpScalar
    | VPyScalar _ => Ok KPyScalar
    | _ => Raise E_Other
    end.

  (* `x.data[:] if isinstance(x, Field) else x` *)
  Definition data_of (h:heap) (v:value arr) : res arr :=
    match v with
    | VField id => match nth_error h id with Some fo => Ok (field_data fo) | None => Raise E_Other end
    | VNd a | VNpScalar a | VPyScalar a => Ok a
    | _ => Raise E_Other
    end.

  (* f = NumericMemField(session, dtype_to_str(r.dtype)); f.data.write(r); return f *)
  Definition new_mem_field (h:heap) (r:arr) : res (heap * value arr) :=
    do nf <- dtype_to_str r;
    Ok (h ++ [mkfield NumericMem nf (Some r)], VField (length h)).

  (* FieldDataOps._binary_op, lines 3566-3580 *)
  Definition binary_op (h:heap) (first second:value arr) (f:npop) : res (heap * list (value arr)) :=
    do a <- data_of h first;
    do b <- data_of h second;
    do r <- np_bin f a b;
    do '(h1, v) <- new_mem_field h r;
    Ok (h1, [v]).

  (* FieldDataOps._unary_op, lines 3582-3592 *)
  Definition unary_op (h:heap) (first:value arr) (f:npop) : res (heap * list (value arr)) :=
    do a <- data_of h first;
    do r <- np_un f a;
    do '(h1, v) <- new_mem_field h r;
    Ok (h1, [v]).

  (* FieldDataOps.numeric_divmod, lines 3618-3635 *)
  Definition numeric_divmod (h:heap) (first second:value arr) : res (heap * list (value arr)) :=
    do a <- data_of h first;
    do b <- data_of h second;
    do '(r1, r2) <- np_divmod a b;
    do '(h1, v1) <- new_mem_field h r1;
    do '(h2, v2) <- new_mem_field h1 r2;
    Ok (h2, [v1; v2]).

  Definition pick (h:heap) (lhs rhs:value arr) (s:sel) : res (value arr) :=
    match s with
    | SLhs => Ok lhs
    | SRhs => Ok rhs
    | SLhsItem => do a <- data_of h lhs; Ok (VPyScalar (np_item a))
    | SRhsItem => do a <- data_of h rhs; Ok (VPyScalar (np_item a))
    end.

  Definition exec_plan (h:heap) (lhs rhs:value arr) (p:plan) : res (heap * list (value arr)) :=
    match p with
    | PApply W_binary f [a; b] =>
        do x <- pick h lhs rhs a; do y <- pick h lhs rhs b; binary_op h x y f
    | PApply W_divmod _ [a; b] =>
        do x <- pick h lhs rhs a; do y <- pick h lhs rhs b; numeric_divmod h x y
    | PApply W_unary f [a] =>
        do x <- pick h lhs rhs a; unary_op h x f
    | PApply _ _ _ => Raise E_TypeError
    | PObjArray => Ok (h, [VObjArray])
    | PBoolTrue => Ok (h, [VBoolTrue])
    end.

  (* DataFrame.__setitem__(name, field), dataframe.py:290-308, for a non-indexed field:
     nfield = field.create_like(self, name); nfield.data.write(field.data[:]) *)
  Definition h5_class (c:cls) : cls :=
    match c with
    | NumericMem | NumericH5 => NumericH5
    | CategoricalMem | CategoricalH5 => CategoricalH5
    | TimestampMem | TimestampH5 => TimestampH5
    end.

  Definition df_setitem (h:heap) (v:value arr) : res (heap * value arr) :=
    match v with
    | VField id =>
        match nth_error h id with
        | Some fo =>
            do d <- np_cast (fo_nformat fo) (field_data fo);
            Ok (h ++ [mkfield (h5_class (fo_cls fo)) (fo_nformat fo) (Some d)], VField (length h))
        | None => Raise E_Other
        end
    | _ => Raise E_TypeError            (* "The field must be a Field object." *)
    end.

  Fixpoint df_store_all (h:heap) (vs:list (value arr)) : res (heap * list (value arr)) :=
    match vs with
    | [] => Ok (h, [])
    | v :: t => do '(h1, s) <- df_setitem h v; do '(h2, ss) <- df_store_all h1 t; Ok (h2, s :: ss)
    end.

  (* one observed scenario: r = lhs <op> rhs  [; df['x'] = r  (each element for divmod)] *)
  Record outcome := mkout { o_heap : heap; o_results : list (value arr); o_stored : list (value arr) }.

  Definition finish (store:bool) (hr:heap * list (value arr)) : res outcome :=
    let '(h1, rs) := hr in
    if store then do '(h2, ss) <- df_store_all h1 rs; Ok (mkout h2 rs ss)
    else Ok (mkout h1 rs []).

  Definition run_binop (T:code_tables) (h:heap) (lhs:value arr) (o:bop) (rhs:value arr) (store:bool) : res outcome :=
    do kl <- kind_of h lhs;
    do kr <- kind_of h rhs;
    do p <- py_binop T kl o kr;
    do hr <- exec_plan h lhs rhs p;
    finish store hr.

  Definition run_unop (T:code_tables) (h:heap) (x:value arr) (u:uop) (store:bool) : res outcome :=
    do k <- kind_of h x;
    match k with
    | KField c =>
        do p <- py_unop T c u;
        do hr <- exec_plan h x x p;
        finish store hr
    | _ => Raise E_Other
    end.
End Wrappers.

(* ---- symbolic numpy: the instance that is extracted.  The harness interprets the symbols with
        the real numpy on the operands' underlying arrays (harness/props/C13.py: eval_sym) ------ *)
Inductive sym :=
| SOperand (i:Z)                 (* 0 = the left operand's array / scalar, 1 = the right one *)
| SBin (f:npop) (a b:sym)        (* operator.f(a, b) *)
| SUn (f:npop) (a:sym)           (* operator.invert(a) / np.logical_not(a) *)
| SProj (i:Z) (a b:sym)          (* np.divmod(a, b)[i] *)
| SItem (a:sym)                  (* a.item() *)
| SCast (nf:sym) (a:sym)         (* a stored into an HDF5 dataset of dtype dtype_to_str(nf.dtype) *)
| SEmptyOf (i:Z)                 (* np.zeros(0, dtype = the declared dtype of field operand i) *)
| SEmptyLike (a:sym).            (* np.zeros(0, dtype = a.dtype) *)

Inductive symnf := NfGiven (code:Z) | NfOf (a:sym).   (* a given nformat string / dtype_to_str(a.dtype) *)

Definition sym_cast (nf:symnf) (a:sym) : res sym :=
  match nf with
  | NfOf x => Ok (SCast x a)
  | NfGiven _ => Ok a                     (* operand fields are never stored again *)
  end.

Definition sym_empty (nf:symnf) : sym :=
  match nf with NfGiven i => SEmptyOf i | NfOf a => SEmptyLike a end.

Definition sym_run_binop (T:code_tables) :=
  run_binop sym symnf
    (fun f a b => Ok (SBin f a b))
    (fun a b => Ok (SProj 0 a b, SProj 1 a b))
    (fun f a => Ok (SUn f a))
    (fun a => SItem a)
    (fun a => Ok (NfOf a))
    sym_cast sym_empty T.

Definition sym_run_unop (T:code_tables) :=
  run_unop sym symnf
    (fun f a b => Ok (SBin f a b))
    (fun a b => Ok (SProj 0 a b, SProj 1 a b))
    (fun f a => Ok (SUn f a))
    (fun a => SItem a)
    (fun a => Ok (NfOf a))
    sym_cast sym_empty T.
