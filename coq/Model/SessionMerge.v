(* Model/SessionMerge.v — the Session-level merge / join helpers (C19), statement by statement.

   exetera/core/operations.py (numba kernels and the deprecated streaming helpers):
     generate_ordered_map_to_left_right_unique / _both_unique          2188-2241
     ordered_inner_map_result_size                                     2275-2298
     ordered_inner_map_both_unique / _left_unique / ordered_inner_map  2324-2339, 2409-2454
     generate_ordered_map_to_left_right_unique_streamed_old            1736-1784   (deprecated; as found)
     generate_ordered_map_to_left_right_unique_partial_old             1787-1813
     ordered_map_valid_stream_old / ordered_map_valid_partial_old      346-394     (deprecated; as found)
     map_valid with a caller-supplied result array                     336-343
   exetera/core/session.py:
     join 766-813, get_index 1045-1086, merge_left/right/inner 1094-1308,
     _map_fields / _streaming_map_fields 1310-1343, ordered_merge_left/right/inner 1345-1536

   `version` (from MapStream.v):
     Orig   Session.ordered_merge_left as found: the streamable form calls the deprecated *_old
            helpers (defects F-C19a, F-C19b) and is chosen whenever a map argument is given, also
            for an ndarray map and for left_unique=True (defect F-C19c);
     Fixed  after work/C19/fix-F-C19a.diff + fix-F-C19c.diff: the streamable form (all fields,
            field map) calls the maintained streamed generators of Model/Join.v and
            ordered_map_valid_stream of Model/MapStream.v.

   Keys and numeric payloads are Z; an indexed-string payload is (offsets, bytes).  pandas.merge
   is a Section variable (see Section Pandas).  Proof-free file. *)
From Coq Require Import ZArith List Bool.
From EV Require Import Res Arr Join MapStream.
From EV Require Spans.
Import ListNotations.
Open Scope Z_scope.

Definition INVALID_INDEX : Z := INVALID_INDEX_64.     (* operations.INVALID_INDEX = 1 << 62 *)
Definition E_StopIteration : Z := E_Other.            (* next() on an exhausted chunks() generator *)

(* ------------------------------------------------------------------ left-map kernels *)
(* main loop shared by generate_ordered_map_to_left_right_unique (both=false, d_j=0),
   generate_ordered_map_to_left_both_unique (both=true, d_j=0) and
   generate_ordered_map_to_left_right_unique_partial_old (both=false, d_j = global j):
     while i < len(first) and j < len(second):
         if first[i] < second[j]:   result[i] = invalid; i += 1; unmapped += 1
         elif first[i] > second[j]: j += 1
         else: result[i] = j + d_j
               both:      i += 1; j += 1
               not both:  if i+1 >= len(first) or first[i+1] != first[i]: j += 1
                          i += 1 *)
Fixpoint lmap_main (fuel:nat) (both:bool) (d_j:Z) (first second result:list Z) (inv i j unm:Z)
  : res (list Z * Z * Z * Z) :=
  match fuel with
  | O => OutOfFuel
  | S f =>
    if (i <? len first) && (j <? len second) then
      do a <- get 301 first i;
      do b <- get 302 second j;
      if a <? b then
        do r' <- set 303 result i inv;
        lmap_main f both d_j first second r' inv (i + 1) j (unm + 1)
      else if b <? a then
        lmap_main f both d_j first second result inv i (j + 1) unm
      else
        do r' <- set 304 result i (j + d_j);
        if both then lmap_main f both d_j first second r' inv (i + 1) (j + 1) unm
        else
          do adv <- (if len first <=? i + 1 then Ok true
                     else do x <- get 305 first (i + 1); Ok (negb (x =? a)));
          lmap_main f both d_j first second r' inv (i + 1) (if adv:bool then j + 1 else j) unm
    else Ok (result, i, j, unm)
  end.

(* while i < len(first): result[i] = invalid; i += 1 *)
Fixpoint lmap_tail (fuel:nat) (first result:list Z) (inv i:Z) : res (list Z) :=
  match fuel with
  | O => OutOfFuel
  | S f =>
    if i <? len first then
      do r' <- set 307 result i inv;
      lmap_tail f first r' inv (i + 1)
    else Ok result
  end.

Definition lmap_fuel (first second:list Z) : nat := S (length first + length second).

(* returns (result, unmapped > 0) *)
Definition gen_left_map (both:bool) (first second result:list Z) (inv:Z) : res (list Z * bool) :=
  if negb (len first =? len result) then Raise E_ValueError
  else
    do '(r, i, _, u) <- lmap_main (lmap_fuel first second) both 0 first second result inv 0 0 0;
    do r' <- lmap_tail (S (length first)) first r inv i;
    Ok (r', 0 <? u).

Definition generate_ordered_map_to_left_right_unique := gen_left_map false.
Definition generate_ordered_map_to_left_both_unique := gen_left_map true.

(* ------------------------------------------------------------------ inner-map kernels *)
(* ordered_inner_map_result_size *)
Fixpoint inner_size_loop (fuel:nat) (left right:list Z) (i j sz:Z) : res Z :=
  match fuel with
  | O => OutOfFuel
  | S f =>
    if (i <? len left) && (j <? len right) then
      do a <- get 311 left i;
      do b <- get 312 right j;
      if a <? b then inner_size_loop f left right (i + 1) j sz
      else if b <? a then inner_size_loop f left right i (j + 1) sz
      else
        do ci <- run_len (S (length left)) 313 left i (len left) 1;
        do cj <- run_len (S (length right)) 314 right j (len right) 1;
        inner_size_loop f left right (i + ci) (j + cj) (sz + ci * cj)
    else Ok sz
  end.
Definition ordered_inner_map_result_size (left right:list Z) : res Z :=
  inner_size_loop (lmap_fuel left right) left right 0 0 0.

(* for jj in range(j0, j0+n): l2i[m] = ii; r2i[m] = jj; m += 1 *)
Fixpoint emit_row (n:nat) (ii j0:Z) (l2i r2i:list Z) (m:Z) : res (list Z * list Z * Z) :=
  match n with
  | O => Ok (l2i, r2i, m)
  | S n' =>
    do l' <- set 321 l2i m ii;
    do r' <- set 322 r2i m j0;
    emit_row n' ii (j0 + 1) l' r' (m + 1)
  end.
(* for ii in range(i0, i0+ni): for jj in range(j0, j0+nj): ... *)
Fixpoint emit_block (ni nj:nat) (i0 j0:Z) (l2i r2i:list Z) (m:Z) : res (list Z * list Z * Z) :=
  match ni with
  | O => Ok (l2i, r2i, m)
  | S ni' =>
    do '(l', r', m') <- emit_row nj i0 j0 l2i r2i m;
    emit_block ni' nj (i0 + 1) j0 l' r' m'
  end.

Inductive ikind := IGen | ILU | IBU.   (* ordered_inner_map / _left_unique / _both_unique *)

Fixpoint inner_map_loop (fuel:nat) (k:ikind) (left right l2i r2i:list Z) (i j m:Z)
  : res (list Z * list Z) :=
  match fuel with
  | O => OutOfFuel
  | S f =>
    if (i <? len left) && (j <? len right) then
      do a <- get 331 left i;
      do b <- get 332 right j;
      if a <? b then inner_map_loop f k left right l2i r2i (i + 1) j m
      else if b <? a then inner_map_loop f k left right l2i r2i i (j + 1) m
      else
        match k with
        | IBU =>
          do l' <- set 333 l2i m i;
          do r' <- set 334 r2i m j;
          inner_map_loop f k left right l' r' (i + 1) (j + 1) (m + 1)
        | ILU =>
          do cj <- run_len (S (length right)) 335 right j (len right) 1;
          do '(l', r', m') <- emit_row (Z.to_nat cj) i j l2i r2i m;
          inner_map_loop f k left right l' r' (i + 1) (j + cj) m'
        | IGen =>
          do ci <- run_len (S (length left)) 336 left i (len left) 1;
          do cj <- run_len (S (length right)) 337 right j (len right) 1;
          do '(l', r', m') <- emit_block (Z.to_nat ci) (Z.to_nat cj) i j l2i r2i m;
          inner_map_loop f k left right l' r' (i + ci) (j + cj) m'
        end
    else Ok (l2i, r2i)
  end.
Definition ordered_inner_map_k (k:ikind) (left right l2i r2i:list Z) : res (list Z * list Z) :=
  inner_map_loop (lmap_fuel left right) k left right l2i r2i 0 0 0.

(* ------------------------------------------------------------------ the deprecated streaming helpers *)
(* next(it) for it = iter(chunks(length, chunksize)); the iterator state is the next start *)
Definition chunks_next (length_ cs cur:Z) : res ((Z * Z) * Z) :=
  if cur <? length_ then let nx := Z.min length_ (cur + cs) in Ok ((cur, nx), nx)
  else Raise E_StopIteration.

Record sold := mksold {
  so_i : Z; so_j : Z;
  so_lrange : Z * Z; so_lit : Z; so_rrange : Z * Z; so_rit : Z;
  so_lc : list Z; so_rc : list Z;
  so_ltri : list Z; so_out : list Z; so_unm : Z }.

Definition sold_iter (left right:list Z) (inv cs:Z) (s:sold) : res (option sold) :=
  if (so_i s <? len left) && (so_j s <? len right) then
    do '(ltri, ii, jj, u) <-
       lmap_main (lmap_fuel (so_lc s) (so_rc s)) false (so_j s) (so_lc s) (so_rc s) (so_ltri s) inv 0 0 0;
    let out := if 0 <? ii then so_out s ++ np_slice ltri 0 ii else so_out s in
    let i := so_i s + ii in
    let j := so_j s + jj in
    if snd (so_lrange s) <? i then Raise E_ValueError
    else if snd (so_rrange s) <? j then Raise E_ValueError
    else
      do '(lrange, lit, lc) <-
         (if (i =? snd (so_lrange s)) && (i <? len left) then
            do '(rg, it) <- chunks_next (len left) cs (so_lit s);
            Ok (rg, it, np_slice left (fst rg) (snd rg))
          else Ok (so_lrange s, so_lit s, np_slice (so_lc s) ii (len (so_lc s))));
      do '(rrange, rit, rc) <-
         (if (j =? snd (so_rrange s)) && (j <? len right) then
            do '(rg, it) <- chunks_next (len right) cs (so_rit s);
            Ok (rg, it, np_slice right (fst rg) (snd rg))
          else Ok (so_rrange s, so_rit s, np_slice (so_rc s) jj (len (so_rc s))));
      Ok (Some (mksold i j lrange lit rrange rit lc rc ltri out (so_unm s + u)))
  else Ok None.

Fixpoint sold_loop (fuel:nat) (left right:list Z) (inv cs:Z) (s:sold) : res sold :=
  match fuel with
  | O => OutOfFuel
  | S f =>
    do o <- sold_iter left right inv cs s;
    match o with None => Ok s | Some s' => sold_loop f left right inv cs s' end
  end.

(* every iteration consumes at least one element of a chunk or switches a chunk *)
Definition sold_fuel (left right:list Z) : nat := (2 * (length left + length right) + 4)%nat.

(* generate_ordered_map_to_left_right_unique_streamed_old, left_to_right an (empty) field:
   returns (what was written to the field, unmapped > 0) *)
Definition streamed_old (left right:list Z) (inv cs:Z) : res (list Z * bool) :=
  do '(lrange, lit) <- chunks_next (len left) cs 0;
  do '(rrange, rit) <- chunks_next (len right) cs 0;
  if cs <? 0 then Raise E_ValueError        (* np.zeros(chunksize) *)
  else
    let s0 := mksold 0 0 lrange lit rrange rit
                     (np_slice left (fst lrange) (snd lrange)) (np_slice right (fst rrange) (snd rrange))
                     (repeat 0 (Z.to_nat cs)) [] 0 in
    do s <- sold_loop (sold_fuel left right) left right inv cs s0;
    Ok (so_out s, 0 <? so_unm s).

(* ordered_map_valid_partial_old:
     i = 0
     while True:
         val = map_field[i]
         if val != invalid:
             if val >= d + len(data_field): return i, val
             result[i] = data_field[val - d]
         i += 1
         if i >= len(map_field): return i, val *)
Fixpoint omv_partial_old (fuel:nat) (d:Z) (data mapf result:list Z) (inv i:Z) : res (Z * Z * list Z) :=
  match fuel with
  | O => OutOfFuel
  | S f =>
    do v <- get 341 mapf i;
    if negb (v =? inv) && (d + len data <=? v) then Ok (i, v, result)
    else
      do r' <- (if negb (v =? inv) then do x <- get 342 data (v - d); set 343 result i x else Ok result);
      if len mapf <=? i + 1 then Ok (i + 1, v, r')
      else omv_partial_old f d data mapf r' inv (i + 1)
  end.

Record mold := mkmold {
  mo_m : Z; mo_drange : Z * Z; mo_dit : Z; mo_mrange : Z * Z; mo_mit : Z;
  mo_dfc : list Z; mo_mfc : list Z; mo_rslt : list Z; mo_out : list Z }.

Definition mold_iter (data mapf:list Z) (inv cs:Z) (s:mold) : res (option mold) :=
  if mo_m s <? len mapf then
    do '(mm, dd, rs) <- omv_partial_old (S (length (mo_mfc s))) (fst (mo_drange s)) (mo_dfc s) (mo_mfc s)
                                         (mo_rslt s) inv 0;
    let out := if 0 <? mm then mo_out s ++ np_slice rs 0 mm else mo_out s in
    let rslt := if 0 <? mm then map (fun _ => 0) rs else rs in       (* rslt[:] = 0 *)
    let m := mo_m s + mm in
    do '(mrange, mit, mfc) <-
       (if (m =? snd (mo_mrange s)) && (m <? len mapf) then
          do '(rg, it) <- chunks_next (len mapf) cs (mo_mit s);
          Ok (rg, it, np_slice mapf (fst rg) (snd rg))
        else Ok (mo_mrange s, mo_mit s, np_slice (mo_mfc s) mm (len (mo_mfc s))));
    do '(drange, dit, dfc) <-
       (if (snd (mo_drange s) <=? dd) && (dd <? len data) then
          do '(rg, it) <- chunks_next (len data) cs (mo_dit s);
          Ok (rg, it, np_slice data (fst rg) (snd rg))
        else Ok (mo_drange s, mo_dit s, mo_dfc s));
    Ok (Some (mkmold m drange dit mrange mit dfc mfc rslt out))
  else Ok None.

Fixpoint mold_loop (fuel:nat) (data mapf:list Z) (inv cs:Z) (s:mold) : res mold :=
  match fuel with
  | O => OutOfFuel
  | S f =>
    do o <- mold_iter data mapf inv cs s;
    match o with None => Ok s | Some s' => mold_loop f data mapf inv cs s' end
  end.

Definition mold_fuel (data mapf:list Z) : nat := (2 * (length data + length mapf) + 4)%nat.

(* ordered_map_valid_stream_old with an (empty) result field: what is written to it *)
Definition map_stream_old (data mapf:list Z) (inv cs:Z) : res (list Z) :=
  do '(drange, dit) <- chunks_next (len data) cs 0;
  do '(mrange, mit) <- chunks_next (len mapf) cs 0;
  if cs <? 0 then Raise E_ValueError
  else
    let s0 := mkmold 0 drange dit mrange mit
                     (np_slice data (fst drange) (snd drange)) (np_slice mapf (fst mrange) (snd mrange))
                     (repeat 0 (Z.to_nat cs)) [] in
    do s <- mold_loop (mold_fuel data mapf) data mapf inv cs s0;
    Ok (mo_out s).

(* ------------------------------------------------------------------ Session._map_fields *)
(* ops.map_valid(src, map, snk, invalid): writes into the caller's array (rows whose map entry
   is the marker keep what the array held) *)
Definition map_valid_into (data mapf result:list Z) (inv:Z) : res (list Z) :=
  mv_loop (length mapf) data mapf inv 0 result.

(* how the caller passes keys / payloads / sinks *)
Inductive form := FArr | FArrSink | FFld | FFldSink.
Definition form_is_field (f:form) : bool := match f with FFld | FFldSink => true | _ => false end.
Inductive mapk := MNone | MArr | MFld.

Fixpoint mapM {A B} (f:A -> res B) (l:list A) : res (list B) :=
  match l with
  | [] => Ok []
  | x :: t => do y <- f x; do t' <- mapM f t; Ok (y :: t')
  end.

(* returns (returned tuple or None, final content of the sinks or None) *)
Definition map_fields (fm:form) (field_map:list Z) (srcs sinks0:list (list Z)) (inv:Z)
  : res (option (list (list Z)) * option (list (list Z))) :=
  match fm with
  | FArr | FFld =>                       (* field_sinks is None *)
    do l <- mapM (fun src => map_valid 0 src field_map inv) srcs;
    Ok (Some l, None)
  | FFldSink =>                          (* snk.data.write(map_valid(src, map)) on empty fields *)
    do l <- mapM (fun src => map_valid 0 src field_map inv) srcs;
    Ok (None, Some l)
  | FArrSink =>                          (* map_valid(src, map, snk) in place; zip(srcs, sinks) *)
    do l <- mapM (fun p => map_valid_into (fst p) field_map (snd p) inv) (combine srcs sinks0);
    Ok (None, Some l)
  end.

(* Session._streaming_map_fields *)
Definition streaming_map_fields (ver:version) (cs:Z) (field_map:list Z) (srcs:list (list Z)) (inv:Z)
  : res (list (list Z)) :=
  mapM (fun src => match ver with
                   | Orig => map_stream_old src field_map inv cs
                   | Fixed => ordered_map_valid_stream 0 0 (S (length field_map)) Fixed src field_map inv cs
                   end) srcs.

(* ------------------------------------------------------------------ Session.ordered_merge_left *)
Record oml_out := mk_oml {
  oml_ret : option (list (list Z));        (* returned tuple of arrays, or None *)
  oml_sinks : option (list (list Z));      (* final content of left_field_sinks, or None *)
  oml_map : option (list Z) }.             (* final content of a left_to_right_map FIELD, or None *)

Definition ordered_merge_left (ver:version) (cs:Z) (L R:list Z) (srcs:list (list Z)) (fm:form)
           (sinks0:list (list Z)) (mk:mapk) (lu ru:bool) : res oml_out :=
  match srcs with
  | [] => Raise E_IndexError                         (* all_same_basic_type: fields[0] *)
  | _ =>
    let streamable :=
      match fm, mk, ver with
      | FFldSink, MFld, _ => true
      | FFldSink, MArr, Orig => true                 (* `left_to_right_map is not None` *)
      | _, _, _ => false
      end in
    if negb ru then Raise E_ValueError               (* "Right key must not have duplicates" *)
    else if streamable then
      match ver with
      | Orig =>
        if negb lu then
          do '(m, _) <- streamed_old L R INVALID_INDEX cs;
          match mk with
          | MFld => do l <- streaming_map_fields Orig cs m srcs INVALID_INDEX;
                    Ok (mk_oml None (Some l) (Some m))
          | _ => Raise E_ValueError                  (* field_from_parameter('field_map', ndarray) *)
          end
        else
          do _ <- gen_left_map true L R (repeat 0 (length L)) INVALID_INDEX;
          Raise E_ValueError                         (* field_from_parameter('field_map', ndarray result) *)
      | Fixed =>
        do '(_, m) <- streamed (mkvar (if lu then KBU else KRU) true) L R INVALID_INDEX cs;
        do l <- streaming_map_fields Fixed cs m srcs INVALID_INDEX;
        Ok (mk_oml None (Some l) (Some m))
      end
    else
      do '(m, _) <- gen_left_map lu L R (repeat 0 (length L)) INVALID_INDEX;
      do '(ret, sinks) <- map_fields fm m srcs sinks0 INVALID_INDEX;
      Ok (mk_oml ret sinks (match mk with MFld => Some [] | _ => None end))   (* the map argument is ignored *)
  end.

(* Session.ordered_merge_right(left_on, right_on, left_field_sources, right_field_sinks, right_to_left_map,
   left_unique, right_unique) = ordered_merge_left(right_on, left_on, ..., right_unique, left_unique) *)
Definition ordered_merge_right (ver:version) (cs:Z) (left_on right_on:list Z) (srcs:list (list Z)) (fm:form)
           (sinks0:list (list Z)) (mk:mapk) (left_unique right_unique:bool) : res oml_out :=
  ordered_merge_left ver cs right_on left_on srcs fm sinks0 mk right_unique left_unique.

(* ------------------------------------------------------------------ Session.ordered_merge_inner *)
Inductive omi_ret := RNone | ROne (l:list (list Z)) | RPair (l r:list (list Z)).
Definition truthy (o:option (list (list Z))) : bool :=
  match o with Some (_ :: _) => true | _ => false end.

Definition ordered_merge_inner (L R:list Z) (lsrcs rsrcs:list (list Z)) (fm:form)
           (lsinks0 rsinks0:list (list Z)) (lu ru:bool)
  : res (omi_ret * option (list (list Z)) * option (list (list Z))) :=
  match lsrcs, rsrcs with
  | [], _ | _, [] => Raise E_IndexError
  | _, _ =>
    do n <- ordered_inner_map_result_size L R;
    let z := repeat 0 (Z.to_nat n) in
    do '(l2i, r2i) <-
       (if negb lu then
          if negb ru then ordered_inner_map_k IGen L R z z
          else do '(r2i, l2i) <- ordered_inner_map_k ILU R L z z; Ok (l2i, r2i)
        else
          if negb ru then ordered_inner_map_k ILU L R z z
          else ordered_inner_map_k IBU L R z z);
    do '(lret, lsinks) <- map_fields fm l2i lsrcs lsinks0 INVALID_INDEX;
    do '(rret, rsinks) <- map_fields fm r2i rsrcs rsinks0 INVALID_INDEX;
    let ret :=
      if truthy lret then
        if truthy rret then RPair (match lret with Some l => l | None => [] end)
                                  (match rret with Some r => r | None => [] end)
        else ROne (match lret with Some l => l | None => [] end)
      else match rret with Some r => ROne r | None => RNone end in
    Ok (ret, lsinks, rsinks)
  end.

(* ------------------------------------------------------------------ Session.get_index *)
(* the Python dict: newest binding first *)
Fixpoint dict_get (k:Z) (d:list (Z * Z)) : option Z :=
  match d with
  | [] => None
  | (k', v) :: t => if k' =? k then Some v else dict_get k t
  end.

Fixpoint gi_build (target:list Z) (i:Z) (d:list (Z * Z)) : list (Z * Z) :=
  match target with
  | [] => d
  | v :: t => gi_build t (i + 1) ((v, i) :: d)
  end.

Fixpoint gi_loop (fk:list Z) (d:list (Z * Z)) (cur:Z) : list Z :=
  match fk with
  | [] => []
  | k :: t =>
    let index := match dict_get k d with Some x => x | None => cur end in
    if INVALID_INDEX <=? index then index :: gi_loop t ((k, index) :: d) (cur + 1)
    else index :: gi_loop t d cur
  end.

Definition get_index (target fk:list Z) : list Z := gi_loop fk (gi_build target 0 []) INVALID_INDEX.

(* ------------------------------------------------------------------ Session.join *)
Fixpoint mask_select {A} (l:list A) (m:list bool) : list A :=
  match l, m with
  | x :: l', b :: m' => if b:bool then x :: mask_select l' m' else mask_select l' m'
  | _, _ => []
  end.

(* dest[idx] = vals  (integer-array assignment: negative indices wrap once, later assignments win) *)
Fixpoint fancy_assign (dest:list Z) (idx vals:list Z) : res (list Z) :=
  match idx, vals with
  | k :: idx', v :: vals' =>
    let k' := if k <? 0 then k + len dest else k in
    if (k' <? 0) || (len dest <=? k') then Raise E_IndexError
    else fancy_assign (upd dest k' v) idx' vals'
  | _, _ => Ok dest
  end.

Definition session_join (n:Z) (fk vals:list Z) : res (list Z) :=
  let spans := Spans.get_spans_for_field Spans.Z_neqb fk in
  let starts := removelast spans in                                  (* fkey_index_spans[:-1] *)
  do uniq <- mapM (fun k => np_get fk k) starts;                      (* raw_fkey_indices[...] *)
  let flt := map (fun u => u <? INVALID_INDEX) uniq in
  let safe_idx := mask_select uniq flt in
  if negb (len vals =? len flt) then Raise E_IndexError              (* boolean index of the wrong length *)
  else
    let safe_vals := mask_select vals flt in
    fancy_assign (repeat 0 (Z.to_nat n)) safe_idx safe_vals.

(* ------------------------------------------------------------------ merge_left / merge_right / merge_inner *)
Inductive payload := PNum (data:list Z) | PIdx (idx vals:list Z).

Definition NAN_INT64 : Z := -9223372036854775808.    (* float NaN cast to int64 (never read: filter false) *)

Definition map_payload (p:payload) (m:list Z) (flt:list bool) : res payload :=
  match p with
  | PNum d => do r <- safe_map_values 0 Fixed d m flt None; Ok (PNum r)
  | PIdx i v => do '(ri, rv) <- safe_map_indexed_values i v m flt []; Ok (PIdx ri rv)
  end.

Section Pandas.
(* pd.merge(left=l_df, right=r_df, left_on, right_on, how='left'): rows (l_index, r_index or NaN) *)
Variable pd_merge_left : list Z -> list Z -> list (Z * option Z).
(* how='inner': rows (l_index, r_index) *)
Variable pd_merge_inner : list Z -> list Z -> list (Z * Z).

Definition opt_map_of (col:list (option Z)) : list Z * list bool :=
  (map (fun o => match o with Some j => j | None => NAN_INT64 end) col,
   map (fun o => match o with Some _ => true | None => false end) col).

(* merge_left(left_on, right_on, right_fields, right_writers): the mapped right payloads
   (returned, or written to the writers) *)
Definition merge_left (L R:list Z) (right_fields:list payload) : res (list payload) :=
  let '(m, flt) := opt_map_of (map snd (pd_merge_left L R)) in
  mapM (fun p => map_payload p m flt) right_fields.

(* merge_right: pd.merge(left=r_df, right=l_df, how='left') *)
Definition merge_right (L R:list Z) (left_fields:list payload) : res (list payload) :=
  let '(m, flt) := opt_map_of (map snd (pd_merge_left R L)) in
  mapM (fun p => map_payload p m flt) left_fields.

Definition merge_inner (L R:list Z) (left_fields right_fields:list payload)
  : res (list payload * list payload) :=
  let df := pd_merge_inner L R in
  let lm := map fst df in
  let rm := map snd df in
  let flt := map (fun _ => true) df in
  do l <- mapM (fun p => map_payload p lm flt) left_fields;
  do r <- mapM (fun p => map_payload p rm flt) right_fields;
  Ok (l, r).

End Pandas.
