(* Model/ToCsv.v — exetera/core/dataframe.py  HDF5DataFrame.to_csv / to_pandas  (C18).

   Two variants are modelled, statement by statement:
     V_orig   the code of /repo before the repairs of work/C18/fix-F-C18*.diff
              (stdlib csv.writer with lineterminator='\n', chunk_data[0] on an empty column list,
               col_to_convert[0] on an empty frame);
     V_fix    the repaired code (own _csv_cell/_csv_line, guarded chunk_data / col_to_convert).
   The theorems of Props/C18.v are about V_fix; V_orig is kept executable so that the
   refutation theorems and the correspondence run against an unrepaired tree can replay the
   defects (F-C18a, F-C18b, F-C18c, F-C18d, F-C18g).

   Cells.  field.data[a:b] of an indexed string field is a list of str (here: its UTF-8 bytes);
   of a numeric field `.tolist()` gives Python ints / floats / bools, which the writer turns
   into text with str():  ints are rendered here in Gallina (render_int, Decimal), floats and
   bools arrive as the literal str() produces (CLit; CPython's float repr is not modelled, it
   is trusted to contain no comma, double quote, CR, LF and no leading blank: `lit_ok`).
   Proof-free file. *)
From Coq Require Import ZArith List Bool Decimal DecimalZ.
From EV Require Import Res Arr.
Import ListNotations.
Open Scope Z_scope.

Definition bytes := list Z.

Inductive cell : Type :=
| CStr (s:bytes)      (* indexed string entry *)
| CInt (z:Z)          (* value of an integer-typed numeric field *)
| CLit (s:bytes).     (* str(float) / str(bool) as produced by CPython *)

(* ---- str(int): decimal literal ------------------------------------------------------- *)
Fixpoint uint_bytes (u:uint) : bytes :=
  match u with
  | Nil => []
  | D0 u => 48 :: uint_bytes u | D1 u => 49 :: uint_bytes u | D2 u => 50 :: uint_bytes u
  | D3 u => 51 :: uint_bytes u | D4 u => 52 :: uint_bytes u | D5 u => 53 :: uint_bytes u
  | D6 u => 54 :: uint_bytes u | D7 u => 55 :: uint_bytes u | D8 u => 56 :: uint_bytes u
  | D9 u => 57 :: uint_bytes u
  end.

Definition render_int (z:Z) : bytes :=
  match Z.to_int z with
  | Pos u => uint_bytes u
  | Neg u => 45 :: uint_bytes u
  end.

Definition cell_text (c:cell) : bytes :=
  match c with CStr s => s | CInt z => render_int z | CLit s => s end.

(* ---- byte classes ---------------------------------------------------------------------- *)
Definition COMMA : Z := 44.
Definition QUOTE : Z := 34.
Definition LF : Z := 10.
Definition CR : Z := 13.
Definition BLANK : Z := 32.

Fixpoint mem (c:Z) (l:bytes) : bool :=
  match l with [] => false | x :: t => (c =? x) || mem c t end.

Fixpoint any (p:Z -> bool) (l:bytes) : bool :=
  match l with [] => false | x :: t => p x || any p t end.

(* text.replace(DQ, DQ DQ)   [DQ = the double-quote character] *)
Fixpoint dquote (s:bytes) : bytes :=
  match s with
  | [] => []
  | c :: t => if c =? QUOTE then QUOTE :: QUOTE :: dquote t else c :: dquote t
  end.

(* ','.join(cells) *)
Fixpoint join (cells:list bytes) : bytes :=
  match cells with
  | [] => []
  | [c] => c
  | c :: t => c ++ COMMA :: join t
  end.

(* ---- stdlib csv.writer (CPython 3.12 Modules/_csv.c), dialect of the call site:
        delimiter=',', quotechar=DQ, doublequote=True, escapechar=None, QUOTE_MINIMAL,
        lineterminator = lt.
        join_append_data: a character equal to the delimiter, the quotechar or *any character
        of the lineterminator string* makes the field quoted; the quotechar is doubled. ------ *)
Definition writer_special (lt:bytes) (c:Z) : bool :=
  (c =? COMMA) || (c =? QUOTE) || mem c lt.

Definition writer_field (lt:bytes) (s:bytes) : bytes :=
  if any (writer_special lt) s then QUOTE :: dquote s ++ [QUOTE] else s.

(* csv_writerow: fields joined by the delimiter; a record consisting of one empty field is
   written as DQ DQ (rec_len = 0 rule); then the line terminator *)
Definition writer_row (lt:bytes) (cells:list bytes) : bytes :=
  let body := join (map (writer_field lt) cells) in
  (match cells, body with
   | _ :: _, [] => [QUOTE; QUOTE]
   | _, _ => body
   end) ++ lt.

(* ---- repaired code:  _csv_cell / _csv_line of dataframe.py ----------------------------- *)
(* if text[:1] == ' ' or any(ch in text for ch in [comma, DQ, CR, LF]): DQ + text.replace(DQ, DQ DQ) + DQ *)
Definition fix_special (c:Z) : bool :=
  (c =? COMMA) || (c =? QUOTE) || (c =? CR) || (c =? LF).

Definition starts_blank (s:bytes) : bool :=
  match s with c :: _ => c =? BLANK | [] => false end.

Definition fix_cell (s:bytes) : bytes :=
  if starts_blank s || any fix_special s then QUOTE :: dquote s ++ [QUOTE] else s.

(* line = ','.join(...); if len(row) == 1 and line == '': line = DQ DQ; return line + LF *)
Definition fix_line (cells:list bytes) : bytes :=
  let line := join (map fix_cell cells) in
  (match cells, line with
   | [_], [] => [QUOTE; QUOTE]
   | _, _ => line
   end) ++ [LF].

Inductive variant := V_orig | V_fix.

Definition write_row (v:variant) (row:list cell) : bytes :=
  match v with
  | V_orig => writer_row [LF] (map cell_text row)
  | V_fix => fix_line (map cell_text row)
  end.

(* ---- the frame ------------------------------------------------------------------------- *)
Definition name := bytes.
Definition field := (name * list cell)%type.
Definition frame := list field.

Fixpoint beq_bytes (a b:bytes) : bool :=
  match a, b with
  | [], [] => true
  | x :: a', y :: b' => (x =? y) && beq_bytes a' b'
  | _, _ => false
  end.

Fixpoint lookup (fr:frame) (n:name) : option (list cell) :=
  match fr with
  | [] => None
  | (k, d) :: t => if beq_bytes k n then Some d else lookup t n
  end.

Definition has (fr:frame) (n:name) : bool :=
  match lookup fr n with Some _ => true | None => false end.

Definition keys (fr:frame) : list name := map fst fr.

(* column_filter argument: None | a str | a list of str *)
Inductive colfilter := CF_none | CF_str (n:name) | CF_list (l:list name).

(* validation.validate_selected_keys(by, all) *)
Definition validate_selected_keys (fr:frame) (by_:colfilter) : res (list name) :=
  match by_ with
  | CF_none => Ok (keys fr)              (* not reached through this function; convenience *)
  | CF_str n => if has fr n then Ok [n] else Raise E_ValueError
  | CF_list l =>
    match l with
    | [] => Raise E_ValueError
    | _ => if forallb (has fr) l then Ok l else Raise E_ValueError
    end
  end.

(* row_filter argument: None | ndarray of bool | a bool NumericField (whether it is one of this
   frame's own column objects, its name, its data) *)
Inductive rowfilter := RF_none | RF_arr (b:list bool) | RF_field (own:bool) (n:name) (b:list bool).

(* list.remove(x): removes the first occurrence *)
Fixpoint remove_first (n:name) (l:list name) : list name :=
  match l with
  | [] => []
  | x :: t => if beq_bytes x n then t else x :: remove_first n t
  end.

Fixpoint mem_name (n:name) (l:list name) : bool :=
  match l with [] => false | x :: t => beq_bytes x n || mem_name n t end.

(* ---- zip( *chunk_data ) -------------------------------------------------------------------- *)
Fixpoint zip_cons {A} (c:list A) (rows:list (list A)) : list (list A) :=
  match c, rows with
  | x :: c', r :: rows' => (x :: r) :: zip_cons c' rows'
  | _, _ => []
  end.

Fixpoint zipcols {A} (cols:list (list A)) : list (list A) :=
  match cols with
  | [] => []
  | c :: rest =>
    match rest with
    | [] => map (fun x => [x]) c
    | _ => zip_cons c (zipcols rest)
    end
  end.

(* filter_array is None or (i + start_row < len(filter_array) and filter_array[i + start_row] == True) *)
Definition selected (flt:option (list bool)) (idx:Z) : bool :=
  match flt with
  | None => true
  | Some f =>
    if idx <? len f then
      match get 0 f idx with Ok b => b | _ => false end
    else false
  end.

(* for i, row in enumerate(zip( *chunk_data )): if ...: writer.writerow(row) *)
Fixpoint emit_rows (v:variant) (flt:option (list bool)) (start:Z) (i:Z) (rows:list (list cell)) : bytes :=
  match rows with
  | [] => []
  | r :: t =>
    (if selected flt (i + start) then write_row v r else []) ++ emit_rows v flt start (i + 1) t
  end.

(* while True: ... ; `out` is the text written to the file so far *)
Fixpoint csv_loop (fuel:nat) (v:variant) (cols:list (list cell)) (flt:option (list bool))
         (chunk start:Z) (out:bytes) : res bytes :=
  match fuel with
  | O => OutOfFuel
  | S f =>
    let chunk_data := map (fun c => slice c start (start + chunk)) cols in
    let out' := out ++ emit_rows v flt start 0 (zipcols chunk_data) in
    match chunk_data with
    | [] =>
      match v with
      | V_orig => Raise E_IndexError           (* chunk_data[0] on an empty list *)
      | V_fix => Ok out'                        (* if len(chunk_data) == 0 or ...: break *)
      end
    | c0 :: _ =>
      if len c0 <? chunk then Ok out'
      else csv_loop f v cols flt chunk (start + chunk) out'
    end
  end.

Fixpoint map_opt {A B} (f:A -> option B) (l:list A) : option (list B) :=
  match l with
  | [] => Some []
  | x :: t => match f x, map_opt f t with Some y, Some t' => Some (y :: t') | _, _ => None end
  end.

Definition to_csv (fuel:nat) (v:variant) (fr:frame) (rf:rowfilter) (cf:colfilter) (chunk:Z) : res bytes :=
  (* val.validate_chunk_size *)
  if chunk <=? 0 then Raise E_ValueError else
  (* field_name_to_use *)
  do names0 <- match cf with CF_none => Ok (keys fr) | _ => validate_selected_keys fr cf end;
  (* row filter; a Field filter that is one of the columns is removed from the columns *)
  let '(flt, names) :=
    match rf with
    | RF_none => (None, names0)
    | RF_arr b => (Some b, names0)
    | RF_field own n b =>
      (* before the repair (F-C18g): `row_filter.name in field_name_to_use`, by name only;
         after: `self.contains_field(row_filter) and ...` *)
      let rm := match v with V_orig => true | V_fix => own end in
      (Some b, if rm && mem_name n names0 then remove_first n names0 else names0)
    end in
  (* fields_to_use = [self._columns[f] for f in field_name_to_use] *)
  match map_opt (lookup fr) names with
  | None => Raise E_KeyError
  | Some cols =>
    let header := write_row v (map CStr names) in
    csv_loop fuel v cols flt chunk 0 header
  end.

(* fuel that suffices: one iteration per started chunk of the first column, plus one *)
Definition to_csv_fuel (fr:frame) (chunk:Z) : nat :=
  S (Z.to_nat (Z.of_nat (fold_right (fun f m => Nat.max (length (snd f)) m) O fr) / (Z.max 1 chunk))).

(* ---- to_pandas --------------------------------------------------------------------------- *)
Fixpoint mask {A} (l:list A) (m:list bool) : list A :=
  match l, m with
  | x :: t, b :: mt => if b then x :: mask t mt else mask t mt
  | _, _ => []
  end.

Fixpoint all_len (fr:frame) (n:Z) (names:list name) : res unit :=
  match names with
  | [] => Ok tt
  | k :: t =>
    match lookup fr k with
    | None => Raise E_KeyError
    | Some d => if len d =? n then all_len fr n t else Raise E_ValueError
    end
  end.

Fixpoint pandas_cols (fr:frame) (rf:option (list bool)) (names:list name) : res (list (name * list cell)) :=
  match names with
  | [] => Ok []
  | k :: t =>
    match lookup fr k with
    | None => Raise E_KeyError
    | Some d =>
      (* field_arr[row_filter]: a boolean mask must have the length of the array; numpy also
         accepts a mask of length 0 on any array (nothing is selected) *)
      do col <- match rf with
                | None => Ok d
                | Some m => if (len m =? len d) || (len m =? 0) then Ok (mask d m) else Raise E_IndexError
                end;
      do rest <- pandas_cols fr rf t;
      Ok ((k, col) :: rest)
    end
  end.

(* pd.DataFrame(temp): temp is a dict, a repeated name keeps its first position *)
Fixpoint dedup_names (seen:list name) (l:list (name * list cell)) : list (name * list cell) :=
  match l with
  | [] => []
  | (k, d) :: t => if mem_name k seen then dedup_names seen t else (k, d) :: dedup_names (k :: seen) t
  end.

Definition to_pandas (v:variant) (fr:frame) (rf:option (list bool)) (cf:colfilter) : res (list (name * list cell)) :=
  let names := match cf with CF_none => keys fr | CF_str n => [n] | CF_list l => l end in
  do _ <- match cf with
          | CF_str _ => Ok tt
          | _ =>
            match names with
            | [] => match v with V_orig => Raise E_IndexError | V_fix => Ok tt end
            | k0 :: _ =>
              match lookup fr k0 with
              | None => Raise E_KeyError
              | Some d0 => all_len fr (len d0) names
              end
            end
          end;
  do cols <- pandas_cols fr rf names;
  Ok (dedup_names [] cols).
