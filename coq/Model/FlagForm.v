(* Model/FlagForm.v — the TYPE FORM of the scalar hints of Session.ordered_merge_left / _right / _inner.
   A caller hands `left_unique` / `right_unique` over as whatever his script computed: the Python singletons True /
   False, a numpy boolean (np.True_ / np.False_, the result of np.all(keys[1:] != keys[:-1])), a Python or numpy
   integer, a 0-d boolean array.  The Session methods dispatch on the hint with a comparison; this file models the two
   comparisons found in the code base:
     `x == False`  (ordered_merge_left as found; ordered_merge_inner as repaired by fix-F-C19g): by VALUE
     `x is False`  (ordered_merge_inner as found; the pycodestyle-E712 "cleanup" of the former): by IDENTITY
   and the entry points taking hints in their type form.  Proof-free, executable. *)
From Coq Require Import ZArith List Bool.
From EV Require Import Res Arr Join MapStream SessionMerge SessionMergeTyped.
Import ListNotations.
Open Scope Z_scope.

Inductive pyflag : Type :=
| PyBool (b:bool)       (* True / False *)
| NpBool (b:bool)       (* np.True_ / np.False_ : numpy.bool_, e.g. np.all(...) *)
| PyInt (z:Z)           (* a Python int *)
| NpInt (z:Z)           (* a numpy integer scalar (np.int64, np.uint8 ...) *)
| NpArr0 (b:bool).      (* a 0-d boolean ndarray *)

(* bool(x == False): bool and int compare by value in Python and numpy alike (False == 0) *)
Definition py_eq_False (f:pyflag) : bool :=
  match f with
  | PyBool b | NpBool b | NpArr0 b => negb b
  | PyInt z | NpInt z => z =? 0
  end.

(* x is False: only the singleton *)
Definition py_is_False (f:pyflag) : bool :=
  match f with PyBool false => true | _ => false end.

(* the hint as the dispatch sees it: "this side is unique" *)
Definition hint_by_value (f:pyflag) : bool := negb (py_eq_False f).
Definition hint_by_identity (f:pyflag) : bool := negb (py_is_False f).

(* f is a form of the truth value b (what a truthful caller passes for b) *)
Definition flag_denotes (f:pyflag) (b:bool) : Prop :=
  match f with
  | PyBool c | NpBool c | NpArr0 c => c = b
  | PyInt z | NpInt z => z = (if b then 1 else 0)
  end.

(* wire: 0..9 Python bool (0 = False), 10 + v numpy bool, 20 + z Python int, 30 + z numpy int, 40 + v 0-d array *)
Definition flag_of_wire (z:Z) : pyflag :=
  if z <? 10 then PyBool (negb (z =? 0))
  else if z <? 20 then NpBool (negb (z =? 10))
  else if z <? 30 then PyInt (z - 20)
  else if z <? 40 then NpInt (z - 30)
  else NpArr0 (negb (z =? 40)).

(* ------------------------------------------------------------------ the entry points with hints in their type form *)
(* Session.ordered_merge_left:  `if left_unique == False: if right_unique == False: raise ...` *)
Definition ordered_merge_left_pf (ver:version) (cs:Z) (L R:list Z) (srcs:list (list Z)) (fm:form)
           (sinks0:list (list Z)) (mk:mapk) (fl fr:pyflag) : res oml_out :=
  ordered_merge_left ver cs L R srcs fm sinks0 mk (hint_by_value fl) (hint_by_value fr).

Definition ordered_merge_left_t_pf (cs:Z) (L R:list Z) (srcs:list tcol) (fm:form) (snk_dts:list dtype)
           (sinks0:list (list Z)) (mk:mapk) (fl fr:pyflag) (bk:backing) : res toml_out :=
  ordered_merge_left_t cs L R srcs fm snk_dts sinks0 mk (hint_by_value fl) (hint_by_value fr) bk.

(* Session.ordered_merge_inner, as repaired (fix-F-C19g): `== False`;  as found: `is False` *)
Definition ordered_merge_inner_pf (L R:list Z) (lsrcs rsrcs:list (list Z)) (fm:form)
           (lsinks0 rsinks0:list (list Z)) (fl fr:pyflag) :=
  ordered_merge_inner L R lsrcs rsrcs fm lsinks0 rsinks0 (hint_by_value fl) (hint_by_value fr).

Definition ordered_merge_inner_pf_found (L R:list Z) (lsrcs rsrcs:list (list Z)) (fm:form)
           (lsinks0 rsinks0:list (list Z)) (fl fr:pyflag) :=
  ordered_merge_inner L R lsrcs rsrcs fm lsinks0 rsinks0 (hint_by_identity fl) (hint_by_identity fr).

(* ------------------------------------------------------------------ key columns of two integer dtypes *)
(* A key column is a list of mathematical integers stored in a dtype; the kernels compare the VALUES (numba promotes the
   two operands of ==, <).  `cast_keys a b R` = R.astype(b) of a column of dtype a (the "single dtype" shortcut): values
   outside b wrap. *)
Definition cast_keys (a b:dtype) (R:list Z) : list Z :=
  map (fun v => match cast a b v with Some w => w | None => v end) R.
