(* Model/Transform.v — schema-typed conversion on import (C06).
   exetera/core/operations.py: get_byte_map, categorical_transform, leaky_categorical_transform,
     numeric_bool_transform, transform_int, transform_float, transform_to_values, fixed_string_transform
   exetera/io/field_importers.py: CategoricalImporter, LeakyCategoricalImporter, NumericImporter,
     FixedStringImporter, DateTimeImporter, DateImporter, parse_timestamp_bytes
   as repaired by work/C06/fix-F-C06{a,c,d,e}.diff.  Proof-free, executable.

   One column of one parsed CSV chunk is what an importer's import_part receives:
     column_inds[col_idx]   (row offsets, relative to the column's region; may be longer than rows+1)
     column_vals            (the whole value buffer)
     column_offsets[col_idx], column_offsets[col_idx+1]-column_offsets[col_idx]
     written_row_count                                                                       *)
From Coq Require Import ZArith List Bool.
From EV Require Import Res Arr.
Import ListNotations.
Open Scope Z_scope.

Record chunk : Type := mkChunk {
  c_inds : list Z;
  c_vals : list Z;
  c_off : Z;
  c_count : Z;
  c_rows : Z }.

(* how the reader lays cells out (used by the wire entry and by the specifications):
   `off` foreign bytes before the column's region, `slack` unused bytes after the cells,
   `tail` stale index entries after the rows+1 valid ones *)
Definition mk_chunk (off slack tail:Z) (cells:list (list Z)) : chunk :=
  mkChunk (psums (map len cells) ++ repeat 7 (Z.to_nat tail))
          (repeat 1 (Z.to_nat off) ++ concat cells ++ repeat 2 (Z.to_nat slack))
          off (sumZ (map len cells) + slack) (len cells).

Definition zeros (n:Z) : list Z := repeat 0 (Z.to_nat n).

Fixpoint map_res {A B} (f:A -> res B) (l:list A) : res (list B) :=
  match l with
  | [] => Ok (@nil B)
  | x :: t => do y <- f x; do t' <- map_res f t; Ok (y :: t')
  end.

(* ------------------------------------------------------------------ get_byte_map *)
Fixpoint bytes_ltb (a b:list Z) : bool :=
  match a, b with
  | [], [] => false
  | [], _ :: _ => true
  | _ :: _, [] => false
  | x :: a', y :: b' => if x <? y then true else if y <? x then false else bytes_ltb a' b'
  end.

(* sorted(string_map.items(), key=item[0]) : stable insertion sort on the key bytes
   (UTF-8 byte order = code point order) *)
Fixpoint insert_key (kv:list Z * Z) (l:list (list Z * Z)) : list (list Z * Z) :=
  match l with
  | [] => [kv]
  | h :: t => if bytes_ltb (fst kv) (fst h) then kv :: h :: t else h :: insert_key kv t
  end.
Definition sort_keys (l:list (list Z * Z)) : list (list Z * Z) := fold_right insert_key [] l.

(* assigning a Python int to an element of a fixed-width numpy array (numpy >= 2): OverflowError *)
Definition store_int (lo hi v:Z) : res Z :=
  if (lo <=? v) && (v <=? hi) then Ok v else Raise E_Overflow.

Definition I64MAX : Z := 9223372036854775807.
Definition I64MIN : Z := -9223372036854775808.

(* byte_map_value[i] = v  (uint8 table) *)
Definition bm_values (s:list (list Z * Z)) : res (list Z) :=
  map_res (fun kv => store_int 0 255 (snd kv)) s.

(* byte_map_key_indices[i+1] = idx_pointer  (int64 table after fix F-C06a; `imax` = 255 is the
   unrepaired uint8 table, kept as a parameter for the refutation theorem) *)
Fixpoint bm_indices (imax:Z) (ptr:Z) (s:list (list Z * Z)) : res (list Z) :=
  match s with
  | [] => Ok []
  | kv :: t =>
    let ptr' := ptr + len (fst kv) in
    do v <- store_int 0 imax ptr';
    do r <- bm_indices imax ptr' t;
    Ok (v :: r)
  end.

Definition get_byte_map_gen (imax:Z) (cats:list (list Z * Z)) : res (list Z * list Z * list Z) :=
  let s := sort_keys cats in
  do vals <- bm_values s;
  do idx <- bm_indices imax 0 s;
  Ok (concat (map fst s), 0 :: idx, vals).

Definition get_byte_map := get_byte_map_gen I64MAX.

(* ------------------------------------------------------------------ categorical_transform *)
(* for j in range(key_len): entry_start = cat_index[i];
       if column_vals[col_offset+key_start+j] != cat_keys[entry_start+j]: index = -1; break *)
Fixpoint cmp_loop (n:nat) (j:Z) (vals keys cidx:list Z) (vbase i:Z) : res bool :=
  match n with
  | O => Ok true
  | S n' =>
    do es <- get 13 cidx i;
    do a <- get 11 vals (vbase + j);
    do b <- get 12 keys (es + j);
    if a =? b then cmp_loop n' (j + 1) vals keys cidx vbase i else Ok false
  end.

(* for i in range(len(cat_index)-1): ... if index != -1: chunk[row_idx] = cat_values[index] *)
Fixpoint keys_loop (n:nat) (i:Z) (vals keys cidx cvals:list Z) (vbase klen row:Z) (chunk:list Z)
  : res (list Z) :=
  match n with
  | O => Ok chunk
  | S n' =>
    do e1 <- get 15 cidx (i + 1);
    do e0 <- get 16 cidx i;
    if negb (klen =? e1 - e0) then keys_loop n' (i + 1) vals keys cidx cvals vbase klen row chunk
    else
      do m <- cmp_loop (Z.to_nat klen) 0 vals keys cidx vbase i;
      if m then
        do v <- get 17 cvals i;
        do chunk' <- set 14 chunk row v;
        keys_loop n' (i + 1) vals keys cidx cvals vbase klen row chunk'
      else keys_loop n' (i + 1) vals keys cidx cvals vbase klen row chunk
  end.

(* for row_idx in range(len(column_inds[i_c])-1): if row_idx >= chunk.shape[0]: break *)
Fixpoint cat_rows (n:nat) (row:Z) (c:chunk) (keys cidx cvals:list Z) (chunk:list Z) : res (list Z) :=
  match n with
  | O => Ok chunk
  | S n' =>
    if row >=? len chunk then Ok chunk
    else
      do ks <- get 18 (c_inds c) row;
      do ke <- get 19 (c_inds c) (row + 1);
      do chunk' <- keys_loop (Z.to_nat (len cidx - 1)) 0 (c_vals c) keys cidx cvals
                             (c_off c + ks) (ke - ks) row chunk;
      cat_rows n' (row + 1) c keys cidx cvals chunk'
  end.

Definition categorical_transform (c:chunk) (bm:list Z * list Z * list Z) (chunk:list Z) : res (list Z) :=
  let '(keys, cidx, cvals) := bm in
  cat_rows (Z.to_nat (len (c_inds c) - 1)) 0 c keys cidx cvals chunk.

(* CategoricalImporter.import_part: chunk = zeros(rows, uint8); transform; data.write_part(chunk) *)
Definition cat_import_part (bm:list Z * list Z * list Z) (data:list Z) (c:chunk) : res (list Z) :=
  do ch <- categorical_transform c bm (zeros (c_rows c));
  Ok (data ++ ch).

Fixpoint fold_res {S A} (f:S -> A -> res S) (s:S) (l:list A) : res S :=
  match l with
  | [] => Ok s
  | x :: t => do s' <- f s x; fold_res f s' t
  end.

(* df.create_categorical(name, 'int8', categories): the key values are stored as int8 *)
Definition create_categorical (cats:list (list Z * Z)) : res unit :=
  do _ <- map_res (fun kv => store_int (-128) 127 (snd kv)) cats; Ok tt.

Definition cat_import (cats:list (list Z * Z)) (chunks:list chunk) : res (list Z) :=
  do _ <- create_categorical cats;
  do bm <- get_byte_map cats;
  fold_res (cat_import_part bm) [] chunks.

(* ------------------------------------------------------------------ leaky_categorical_transform *)
(* cat_values (uint8) stored into the int8 chunk *)
Definition wrap_i8 (v:Z) : Z := if v >=? 128 then v - 256 else v.

Record lk : Type := mkLk { lk_chunk : list Z; lk_fi : list Z; lk_fv : list Z }.

Fixpoint lk_keys_loop (n:nat) (i:Z) (vals keys cidx cvals:list Z) (vbase klen row:Z) (found:bool) (s:lk)
  : res (bool * lk) :=
  match n with
  | O => Ok (found, s)
  | S n' =>
    do e1 <- get 25 cidx (i + 1);
    do e0 <- get 26 cidx i;
    if negb (klen =? e1 - e0) then lk_keys_loop n' (i + 1) vals keys cidx cvals vbase klen row found s
    else
      do m <- cmp_loop (Z.to_nat klen) 0 vals keys cidx vbase i;
      if m then
        do v <- get 27 cvals i;
        do ch' <- set 24 (lk_chunk s) row (wrap_i8 v);
        do f0 <- get 28 (lk_fi s) row;
        do fi' <- set 29 (lk_fi s) (row + 1) f0;
        lk_keys_loop n' (i + 1) vals keys cidx cvals vbase klen row true (mkLk ch' fi' (lk_fv s))
      else lk_keys_loop n' (i + 1) vals keys cidx cvals vbase klen row found s
  end.

(* freetext_values[a : a+n] = column_vals[b : b+n] *)
Fixpoint copy_loop (n:nat) (k:Z) (src dst:list Z) (sb db:Z) : res (list Z) :=
  match n with
  | O => Ok dst
  | S n' =>
    do x <- get 31 src (sb + k);
    do dst' <- set 32 dst (db + k) x;
    copy_loop n' (k + 1) src dst' sb db
  end.

Fixpoint lk_rows (n:nat) (row:Z) (c:chunk) (keys cidx cvals:list Z) (s:lk) : res lk :=
  match n with
  | O => Ok s
  | S n' =>
    if row >=? len (lk_chunk s) then Ok s
    else
      do ks <- get 33 (c_inds c) row;
      do ke <- get 34 (c_inds c) (row + 1);
      let klen := ke - ks in
      do '(found, s1) <- lk_keys_loop (Z.to_nat (len cidx - 1)) 0 (c_vals c) keys cidx cvals
                                       (c_off c + ks) klen row false s;
      if found then lk_rows n' (row + 1) c keys cidx cvals s1
      else
        do ch' <- set 35 (lk_chunk s1) row (-1);
        do f0 <- get 36 (lk_fi s1) row;
        do fi' <- set 37 (lk_fi s1) (row + 1) (f0 + klen);
        do fv' <- copy_loop (Z.to_nat klen) 0 (c_vals c) (lk_fv s1) (c_off c + ks) f0;
        lk_rows n' (row + 1) c keys cidx cvals (mkLk ch' fi' fv')
  end.

Definition leaky_categorical_transform (c:chunk) (bm:list Z * list Z * list Z) (s:lk) : res lk :=
  let '(keys, cidx, cvals) := bm in
  lk_rows (Z.to_nat (len (c_inds c) - 1)) 0 c keys cidx cvals s.

(* LeakyCategoricalImporter: field data, freetext indices (starts [0]), freetext values, accumulated *)
Record lkst : Type := mkLkst { ls_data : list Z; ls_idx : list Z; ls_vals : list Z; ls_acc : Z }.
Definition lkst0 : lkst := mkLkst [] [0] [] 0.

Definition leaky_import_part (bm:list Z * list Z * list Z) (st:lkst) (c:chunk) : res lkst :=
  let rows := c_rows c in
  do s <- leaky_categorical_transform c bm (mkLk (zeros rows) (zeros (rows + 1)) (zeros (c_count c)));
  do last <- get 38 (lk_fi s) rows;
  let idx := map (fun x => x + ls_acc st) (lk_fi s) in
  Ok (mkLkst (ls_data st ++ lk_chunk s)
             (ls_idx st ++ tl idx)
             (ls_vals st ++ slice (lk_fv s) 0 last)
             (ls_acc st + last)).

Definition leaky_import (cats:list (list Z * Z)) (chunks:list chunk) : res lkst :=
  do bm <- get_byte_map cats;
  do _ <- create_categorical cats;
  fold_res (leaky_import_part bm) lkst0 chunks.

(* ------------------------------------------------------------------ numeric_bool_transform *)
Definition MODE_STRICT : Z := 0.
Definition MODE_ALLOW_EMPTY : Z := 1.
Definition MODE_RELAXED : Z := 2.     (* any other number: not a valid mode string *)

Definition inl (x:Z) (l:list Z) : bool := existsb (Z.eqb x) l.

(* while byte_start_idx < length and column_vals[base + byte_start_idx] == 32 *)
Fixpoint skip_lead (fuel:nat) (bs length base:Z) (vals:list Z) : res Z :=
  match fuel with
  | O => OutOfFuel
  | S f =>
    if bs <? length then
      do b <- get 41 vals (base + bs);
      if b =? 32 then skip_lead f (bs + 1) length base vals else Ok bs
    else Ok bs
  end.

(* while byte_end_idx >= 0 and column_vals[base + byte_end_idx] == 32 *)
Fixpoint skip_trail (fuel:nat) (be base:Z) (vals:list Z) : res Z :=
  match fuel with
  | O => OutOfFuel
  | S f =>
    if be >=? 0 then
      do b <- get 42 vals (base + be);
      if b =? 32 then skip_trail f (be - 1) base vals else Ok be
    else Ok be
  end.

(* the literal tables; val is the trimmed slice. returns Some 1 / Some 0 / None (not valid) *)
Definition bool_value (val:list Z) (alen:Z) : res (option Z) :=
  if alen =? 1 then
    do v0 <- get 43 val 0;
    if inl v0 [49; 89; 121; 84; 116] then Ok (Some 1)
    else if inl v0 [48; 78; 110; 70; 102] then Ok (Some 0)
    else Ok None
  else if alen =? 2 then
    do v0 <- get 44 val 0; do v1 <- get 44 val 1;
    if inl v0 [79; 111] && inl v1 [78; 110] then Ok (Some 1)
    else if inl v0 [78; 110] && inl v1 [79; 111] then Ok (Some 0)
    else Ok None
  else if alen =? 3 then
    do v0 <- get 45 val 0; do v1 <- get 45 val 1; do v2 <- get 45 val 2;
    if inl v0 [89; 121] && inl v1 [69; 101] && inl v2 [83; 115] then Ok (Some 1)
    else if inl v0 [79; 111] && inl v1 [70; 102] && inl v2 [70; 102] then Ok (Some 0)
    else Ok None
  else if alen =? 4 then
    do v0 <- get 46 val 0; do v1 <- get 46 val 1; do v2 <- get 46 val 2; do v3 <- get 46 val 3;
    if inl v0 [84; 116] && inl v1 [82; 114] && inl v2 [85; 117] && inl v3 [69; 101] then Ok (Some 1)
    else Ok None
  else if alen =? 5 then
    do v0 <- get 47 val 0; do v1 <- get 47 val 1; do v2 <- get 47 val 2; do v3 <- get 47 val 3;
    do v4 <- get 47 val 4;
    if inl v0 [70; 102] && inl v1 [65; 97] && inl v2 [76; 108] && inl v3 [83; 115] && inl v4 [69; 101]
    then Ok (Some 0) else Ok None
  else Ok None.

(* one row: (empty, valid_input, value) *)
Definition bool_row (c:chunk) (row:Z) : res (bool * bool * Z) :=
  do rs <- get 48 (c_inds c) row;
  do re <- get 49 (c_inds c) (row + 1);
  let length := re - rs in
  let base := c_off c + rs in
  let fuel := S (Z.to_nat length) in
  do bs <- skip_lead fuel 0 length base (c_vals c);
  do be <- skip_trail fuel (length - 1) base (c_vals c);
  let alen := be - bs + 1 in
  if alen <=? 0 then Ok (true, false, -1)
  else
    let val := slice (c_vals c) (base + bs) (base + bs + alen) in
    do ov <- bool_value val alen;
    match ov with
    | Some v => Ok (false, true, v)
    | None => Ok (false, false, -1)
    end.

(* storing a number into the bool `elements` array *)
Definition to_bool (v:Z) : Z := if v =? 0 then 0 else 1.

(* returns (exception_message, elements, validity) *)
Fixpoint bool_rows (n:nat) (row:Z) (c:chunk) (inv mode:Z) (el va:list Z) : res (Z * list Z * list Z) :=
  match n with
  | O => Ok (0, el, va)
  | S n' =>
    do '(empty, valid, value) <- bool_row c row;
    do el' <- set 51 el row (to_bool (if valid then value else inv));
    do va' <- set 52 va row (if valid then 1 else 0);
    if valid then bool_rows n' (row + 1) c inv mode el' va'
    else if mode =? MODE_STRICT then Ok (if empty then 1 else 2, el', va')
    else if (mode =? MODE_ALLOW_EMPTY) && negb empty then Ok (2, el', va')
    else bool_rows n' (row + 1) c inv mode el' va'
  end.

Definition numeric_bool_transform (c:chunk) (inv mode:Z) (el va:list Z) : res (Z * list Z * list Z) :=
  bool_rows (Z.to_nat (c_rows c)) 0 c inv mode el va.

(* raiseNumericException raises a bare Exception; 101 / 102 = message 1 / 2 *)
Definition E_NumEmpty : Z := 101.
Definition E_NumParse : Z := 102.

(* field data, flag data *)
Definition bool_import_part (inv mode:Z) (st:list Z * list Z) (c:chunk) : res (list Z * list Z) :=
  do '(msg, el, va) <- numeric_bool_transform c inv mode (zeros (c_rows c)) (repeat 1 (Z.to_nat (c_rows c)));
  if msg =? 0 then Ok (fst st ++ el, snd st ++ va)
  else if msg =? 1 then Raise E_NumEmpty else Raise E_NumParse.

Definition bool_import (inv mode:Z) (chunks:list chunk) : res (list Z * list Z) :=
  fold_res (bool_import_part inv mode) ([], []) chunks.

(* ------------------------------------------------------------------ fixed_string_transform *)
(* for c in range(start_idx, end_idx): memory[a] = column_vals[c]; a += 1 *)
Fixpoint fs_copy (n:nat) (cpos a:Z) (vals mem:list Z) : res (list Z) :=
  match n with
  | O => Ok mem
  | S n' =>
    do x <- get 61 vals cpos;
    do mem' <- set 62 mem a x;
    fs_copy n' (cpos + 1) (a + 1) vals mem'
  end.

Fixpoint fs_rows (n:nat) (i:Z) (c:chunk) (strlen:Z) (mem:list Z) : res (list Z) :=
  match n with
  | O => Ok mem
  | S n' =>
    do s0 <- get 63 (c_inds c) i;
    do s1 <- get 64 (c_inds c) (i + 1);
    let start := s0 + c_off c in
    let stop := Z.min (s1 + c_off c) (start + strlen) in
    do mem' <- fs_copy (Z.to_nat (stop - start)) start (i * strlen) (c_vals c) mem;
    fs_rows n' (i + 1) c strlen mem'
  end.

Definition fixed_string_transform (c:chunk) (rows strlen:Z) (mem:list Z) : res (list Z) :=
  fs_rows (Z.to_nat rows) 0 c strlen mem.

(* FixedStringImporter: values = zeros(rows, 'S<strlen>'); the field stores the raw padded bytes *)
Definition fixed_import_part (strlen:Z) (data:list Z) (c:chunk) : res (list Z) :=
  do mem <- fixed_string_transform c (c_rows c) strlen (zeros (c_rows c * strlen));
  Ok (data ++ mem).

Definition fixed_import (strlen:Z) (chunks:list chunk) : res (list Z) :=
  fold_res (fixed_import_part strlen) [] chunks.

(* ------------------------------------------------------------------ Python int(bytes) *)
Definition is_ws (b:Z) : bool := (b =? 32) || ((9 <=? b) && (b <=? 13)).
Definition is_digit (b:Z) : bool := (48 <=? b) && (b <=? 57).

Fixpoint lstrip (l:list Z) : list Z :=
  match l with
  | b :: t => if is_ws b then lstrip t else l
  | [] => []
  end.
Definition rstrip (l:list Z) : list Z := rev (lstrip (rev l)).
Definition strip (l:list Z) : list Z := rstrip (lstrip l).   (* bytes.strip() *)

(* digits with single underscores between digits; returns the value and the unread rest.
   `prev_us`: the previous character was an underscore (a digit must follow) *)
Fixpoint digits_loop (l:list Z) (acc:Z) (prev_us:bool) : option (Z * list Z) :=
  match l with
  | b :: t =>
    if is_digit b then digits_loop t (acc * 10 + (b - 48)) false
    else if b =? 95 then (if prev_us then None else digits_loop t acc true)
    else if prev_us then None else Some (acc, l)
  | [] => if prev_us then None else Some (acc, [])
  end.

(* int(b) for a bytes object, base 10, without CPython's limit on the number of digits; None = ValueError *)
Definition py_int_nolimit (l:list Z) : option Z :=
  let l1 := lstrip l in
  let '(neg, l2) := match l1 with
                    | 43 :: t => (false, t)
                    | 45 :: t => (true, t)
                    | _ => (false, l1)
                    end in
  match l2 with
  | b :: _ =>
    if is_digit b then
      match digits_loop l2 0 false with
      | Some (v, rest) => match lstrip rest with [] => Some (if neg then - v else v) | _ => None end
      | None => None
      end
    else None
  | [] => None
  end.

(* int(b), CPython >= 3.11 (also reached through numpy's cast of an 'S' element to an integer dtype):
   a numeral with more than sys.get_int_max_str_digits() = 4300 digit characters (leading zeros count,
   underscores, sign and blanks do not) is refused with ValueError.  In an accepted numeral every digit
   character of the text belongs to the digit run, so the digits are counted over the whole text. *)
Definition INT_MAX_STR_DIGITS : Z := 4300.
Definition count_digits (l:list Z) : Z := len (filter is_digit l).
Definition py_int (l:list Z) : option Z :=
  match py_int_nolimit l with
  | Some v => if INT_MAX_STR_DIGITS <? count_digits l then None else Some v
  | None => None
  end.

(* ------------------------------------------------------------------ transform_int / transform_float *)
(* numpy 'S<w>' element read back: trailing NULs dropped *)
Fixpoint lstrip_nul (l:list Z) : list Z :=
  match l with
  | b :: t => if b =? 0 then lstrip_nul t else l
  | [] => []
  end.
Definition strip_nul (l:list Z) : list Z := rev (lstrip_nul (rev l)).

(* np.char comparison with b'': trailing whitespace and NULs are ignored *)
Definition np_is_blank (l:list Z) : bool := forallb (fun b => is_ws b || (b =? 0)) l.

Fixpoint maximum0 (l:list Z) : Z :=       (* widths.max(initial=0), fix F-C06d *)
  match l with [] => 0 | x :: t => Z.max x (maximum0 t) end.

Fixpoint map2sub (a b:list Z) : list Z :=
  match a, b with x :: a', y :: b' => (x - y) :: map2sub a' b' | _, _ => [] end.

Fixpoint split_rows (n:nat) (w:Z) (mem:list Z) : list (list Z) :=
  match n with
  | O => []
  | S n' => firstn (Z.to_nat w) mem :: split_rows n' w (skipn (Z.to_nat w) mem)
  end.

(* elements = np.zeros(rows, 'S<width>') filled by fixed_string_transform ('S0' is made 'S1') *)
Definition num_elements (c:chunk) : res (list (list Z)) :=
  let rows := c_rows c in
  let widths := map2sub (slice (c_inds c) 1 (rows + 1)) (slice (c_inds c) 0 rows) in
  if negb (len (slice (c_inds c) 1 (rows + 1)) =? len (slice (c_inds c) 0 rows)) then Raise E_ValueError
  else
    let width := maximum0 widths in
    let isz := Z.max 1 width in
    do mem <- fixed_string_transform c rows width (zeros (rows * isz));
    Ok (map strip_nul (split_rows (Z.to_nat rows) isz mem)).

Section Num.
  (* text -> number: Python int() (py_int above) or float(); None = ValueError.
     rng: the storable range of the destination dtype (None: floating point, nothing overflows) *)
  Variable parse : list Z -> option Z.
  Variable rng : option (Z * Z).

  Definition store (v:Z) : res Z :=
    match rng with Some (lo, hi) => store_int lo hi v | None => Ok v end.

  (* one element of elements.astype(dtype): numpy parses with Python's parser, then stores *)
  Definition np_cast (e:list Z) : res Z :=
    match parse e with Some v => store v | None => Raise E_ValueError end.

  (* returns (results, valids) for one chunk; valids = None in strict mode *)
  Definition transform_num (mode:Z) (inv_text:list Z) (inv_val:Z) (c:chunk)
    : res (list Z * option (list Z)) :=
    do els <- num_elements c;
    if mode =? MODE_STRICT then
      do r <- map_res np_cast els; Ok (r, None)
    else if mode =? MODE_ALLOW_EMPTY then
      let valids := map (fun e => negb (np_is_blank e)) els in
      do r <- map_res (fun e => if np_is_blank e then np_cast inv_text else np_cast e) els;
      Ok (r, Some (map (fun b:bool => if b then 1 else 0) valids))
    else if mode =? MODE_RELAXED then
      do r <- map_res (fun e =>
                 match (match parse e with Some v => store v | None => Raise E_ValueError end) with
                 | Ok v => Ok (v, 1)
                 | _ => do v <- store inv_val; Ok (v, 0)      (* bare except: *)
                 end) els;
      Ok (map fst r, Some (map snd r))
    else Raise E_ValueError.

  (* NumericImporter.import_part (non-bool): the flag field exists iff the mode is not strict *)
  Definition num_import_part (mode:Z) (inv_text:list Z) (inv_val:Z) (st:list Z * list Z) (c:chunk)
    : res (list Z * list Z) :=
    do '(r, v) <- transform_num mode inv_text inv_val c;
    Ok (fst st ++ r, snd st ++ match v with Some v => v | None => [] end).

  Definition num_import (mode:Z) (inv_text:list Z) (inv_val:Z) (chunks:list chunk) : res (list Z * list Z) :=
    fold_res (num_import_part mode inv_text inv_val) ([], []) chunks.
End Num.

(* ------------------------------------------------------------------ dates *)
(* transform_to_values: column_vals[col_offset+inds[row] : col_offset+inds[row+1]] (numba slices clamp) *)
Fixpoint values_rows (n:nat) (row:Z) (c:chunk) : res (list (list Z)) :=
  match n with
  | O => Ok []
  | S n' =>
    do s0 <- get 71 (c_inds c) row;
    do s1 <- get 72 (c_inds c) (row + 1);
    do t <- values_rows n' (row + 1) c;
    Ok (slice (c_vals c) (c_off c + s0) (c_off c + s1) :: t)
  end.
Definition transform_to_values (c:chunk) : res (list (list Z)) := values_rows (Z.to_nat (c_rows c)) 0 c.

Definition is_leap (y:Z) : bool := ((y mod 4 =? 0) && negb (y mod 100 =? 0)) || (y mod 400 =? 0).
Definition days_in_month (y m:Z) : Z :=
  if m =? 2 then (if is_leap y then 29 else 28)
  else if inl m [4; 6; 9; 11] then 30 else 31.

(* days from 1970-01-01 (proleptic Gregorian), as date.toordinal() differences *)
Definition days_before_year (y:Z) : Z := let y1 := y - 1 in y1 * 365 + y1 / 4 - y1 / 100 + y1 / 400.
Fixpoint days_before_month_n (y:Z) (m:nat) : Z :=
  match m with
  | O => 0
  | S m' => days_before_month_n y m' + days_in_month y (Z.of_nat m)
  end.
Definition ordinal (y m d:Z) : Z := days_before_year y + days_before_month_n y (Z.to_nat (m - 1)) + d.
Definition EPOCH_ORD : Z := 719163.   (* date(1970,1,1).toordinal() *)

(* datetime(y, m, d, H, M, S, us, tzinfo=utc).timestamp() in microseconds; ValueError when a field
   is out of range *)
Definition datetime_us (y m d hh mm ss us:Z) : res Z :=
  if negb ((1 <=? y) && (y <=? 9999)) then Raise E_ValueError
  else if negb ((1 <=? m) && (m <=? 12)) then Raise E_ValueError
  else if negb ((1 <=? d) && (d <=? days_in_month y m)) then Raise E_ValueError
  else if negb ((0 <=? hh) && (hh <=? 23)) then Raise E_ValueError
  else if negb ((0 <=? mm) && (mm <=? 59)) then Raise E_ValueError
  else if negb ((0 <=? ss) && (ss <=? 59)) then Raise E_ValueError
  else if negb ((0 <=? us) && (us <=? 999999)) then Raise E_ValueError
  else Ok ((((ordinal y m d - EPOCH_ORD) * 86400) + hh * 3600 + mm * 60 + ss) * 1000000 + us).

(* Python slice value[a:b] on bytes, 0 <= a *)
Definition pslice (l:list Z) (a b:Z) : list Z := slice l a b.

Definition int_at (l:list Z) (a b:Z) : res Z :=
  match py_int (pslice l a b) with Some v => Ok v | None => Raise E_ValueError end.

Definition last3 (l:list Z) : list Z := skipn (length l - 3) l.
Definition UTC : list Z := [85; 84; 67].
Definition list_eqb (a b:list Z) : bool := (len a =? len b) && forallb (fun p => fst p =? snd p) (combine a b).

Definition parse_timestamp_bytes (v:list Z) : res Z :=
  let n := len v in
  let ymdhms (k:Z -> Z -> Z -> Z -> Z -> Z -> res Z) : res Z :=
    do y <- int_at v 0 4; do m <- int_at v 5 7; do d <- int_at v 8 10;
    do hh <- int_at v 11 13; do mm <- int_at v 14 16; do ss <- int_at v 17 19;
    k y m d hh mm ss in
  if list_eqb (last3 v) UTC then
    if n =? 27 then ymdhms (fun y m d hh mm ss => do f <- int_at v 20 23; datetime_us y m d hh mm ss (f * 1000))
    else if n =? 26 then ymdhms (fun y m d hh mm ss => do f <- int_at v 20 22; datetime_us y m d hh mm ss (f * 10000))
    else if n =? 25 then ymdhms (fun y m d hh mm ss => do f <- int_at v 20 22; datetime_us y m d hh mm ss (f * 100000))
    else ymdhms (fun y m d hh mm ss => datetime_us y m d hh mm ss 0)
  else
    if n =? 32 then ymdhms (fun y m d hh mm ss => do f <- int_at v 20 26; datetime_us y m d hh mm ss f)
    else if n =? 25 then ymdhms (fun y m d hh mm ss => datetime_us y m d hh mm ss 0)
    else if n =? 19 then ymdhms (fun y m d hh mm ss => datetime_us y m d hh mm ss 0)
    else Raise E_ValueError.

(* S10 cell: first 10 bytes, zero padded *)
Definition pad_to (n:Z) (l:list Z) : list Z :=
  let f := firstn (Z.to_nat n) l in f ++ zeros (n - len f).

(* DateTimeImporter.write_part on the stripped values: (timestamps in us, days, flags) *)
Definition datetime_row (v0:list Z) : res (Z * list Z * Z) :=
  let v := strip v0 in
  match v with
  | [] => Ok (0, zeros 10, 0)
  | _ => do t <- parse_timestamp_bytes v; Ok (t, pad_to 10 v, 1)
  end.

(* value.decode(): strict UTF-8 (no overlong forms, no surrogates, at most U+10FFFF); the result is the list
   of code points; None = UnicodeDecodeError (a ValueError) *)
Definition is_cont (b:Z) : bool := (128 <=? b) && (b <=? 191).
Fixpoint decode_utf8 (l:list Z) : option (list Z) :=
  match l with
  | [] => Some []
  | b0 :: t0 =>
    if (0 <=? b0) && (b0 <? 128) then option_map (cons b0) (decode_utf8 t0)
    else if (194 <=? b0) && (b0 <=? 223) then
      match t0 with
      | b1 :: t1 =>
        if is_cont b1 then option_map (cons ((b0 - 192) * 64 + (b1 - 128))) (decode_utf8 t1) else None
      | [] => None
      end
    else if (224 <=? b0) && (b0 <=? 239) then
      match t0 with
      | b1 :: b2 :: t2 =>
        if is_cont b1 && is_cont b2 && (if b0 =? 224 then 160 <=? b1 else true) && (if b0 =? 237 then b1 <=? 159 else true)
        then option_map (cons ((b0 - 224) * 4096 + (b1 - 128) * 64 + (b2 - 128))) (decode_utf8 t2) else None
      | _ => None
      end
    else if (240 <=? b0) && (b0 <=? 244) then
      match t0 with
      | b1 :: b2 :: b3 :: t3 =>
        if is_cont b1 && is_cont b2 && is_cont b3 && (if b0 =? 240 then 144 <=? b1 else true) && (if b0 =? 244 then b1 <=? 143 else true)
        then option_map (cons ((b0 - 240) * 262144 + (b1 - 128) * 4096 + (b2 - 128) * 64 + (b3 - 128))) (decode_utf8 t3)
        else None
      | _ => None
      end
    else None
  end.

(* `\d` of a str pattern and int() on a str: the decimal digits of Unicode (category Nd; Unicode 15.0 of
   CPython 3.12: 68 runs of ten code points, value = offset in the run); the zeros of the runs: *)
Definition ND_ZEROS : list Z :=
  [48; 1632; 1776; 1984; 2406; 2534; 2662; 2790; 2918; 3046; 3174; 3302; 3430; 3558; 3664; 3792; 3872; 4160; 4240;
   6112; 6160; 6470; 6608; 6784; 6800; 6992; 7088; 7232; 7248; 42528; 43216; 43264; 43472; 43504; 43600; 44016;
   65296; 66720; 68912; 69734; 69872; 69942; 70096; 70384; 70736; 70864; 71248; 71360; 71472; 71904; 72016; 72784;
   73040; 73120; 73552; 92768; 92864; 93008; 120782; 120792; 120802; 120812; 120822; 123200; 123632; 124144;
   125264; 130032].
Definition nd_zero (c:Z) : option Z := find (fun z => (z <=? c) && (c <? z + 10)) ND_ZEROS.
Definition is_digit_u (c:Z) : bool := match nd_zero c with Some _ => true | None => false end.
Definition dval_u (c:Z) : Z := match nd_zero c with Some z => c - z | None => 0 end.

(* datetime.strptime(value.decode(), '%Y-%m-%d'), on the code points of the text: re.match of
   (?P<Y>\d\d\d\d)-(?P<m>1[0-2]|0[1-9]|[1-9])-(?P<d>3[0-1]|[1-2]\d|0[1-9]|[1-9]| [1-9])   (CPython 3.12 _strptime)
   then "unconverted data remains" unless the match ends the text; int() of the groups *)
Definition dval (b:Z) : Z := b - 48.
(* (?P<m>1[0-2]|0[1-9]|[1-9])-  : value and the rest of the text *)
Definition sp_month (r:list Z) : option (Z * list Z) :=
  match r with
  | a :: b :: 45 :: r' =>
    if ((a =? 49) && (48 <=? b) && (b <=? 50)) || ((a =? 48) && (49 <=? b) && (b <=? 57))
    then Some (dval a * 10 + dval b, r') else None
  | a :: 45 :: r' => if (49 <=? a) && (a <=? 57) then Some (dval a, r') else None
  | _ => None
  end.

(* (?P<d>3[0-1]|[1-2]\d|0[1-9]|[1-9]| [1-9])  : value and the unconverted rest *)
Definition sp_day (r':list Z) : option (Z * list Z) :=
  match r' with
  | a :: t =>
    match t with
    | b :: t' =>
      if (a =? 51) && ((b =? 48) || (b =? 49)) then Some (30 + dval b, t')
      else if ((a =? 49) || (a =? 50)) && is_digit_u b then Some (dval a * 10 + dval_u b, t')
      else if (a =? 48) && (49 <=? b) && (b <=? 57) then Some (dval b, t')
      else if (49 <=? a) && (a <=? 57) then Some (dval a, t)
      else if (a =? 32) && (49 <=? b) && (b <=? 57) then Some (dval b, t')
      else None
    | [] => if (49 <=? a) && (a <=? 57) then Some (dval a, []) else None
    end
  | [] => None
  end.

Definition strptime_cps (v:list Z) : res (Z * Z * Z) :=
  match v with
  | y0 :: y1 :: y2 :: y3 :: 45 :: r =>
    if is_digit_u y0 && is_digit_u y1 && is_digit_u y2 && is_digit_u y3 then
      let y := ((dval_u y0 * 10 + dval_u y1) * 10 + dval_u y2) * 10 + dval_u y3 in
      match sp_month r with
      | Some (m, r') =>
        match sp_day r' with
        | Some (d, []) => Ok (y, m, d)
        | _ => Raise E_ValueError
        end
      | None => Raise E_ValueError
      end
    else Raise E_ValueError
  | _ => Raise E_ValueError
  end.

Definition strptime_ymd (v:list Z) : res (Z * Z * Z) :=
  match decode_utf8 v with
  | Some cps => strptime_cps cps
  | None => Raise E_ValueError
  end.

Definition date_row (v0:list Z) : res (Z * list Z * Z) :=
  let v := strip v0 in
  match v with
  | [] => Ok (0, zeros 10, 0)
  | _ => do '(y, m, d) <- strptime_ymd v;
         do t <- datetime_us y m d 0 0 0 0;
         Ok (t, pad_to 10 v, 1)
  end.

(* state: (timestamps, days (flattened, 10 bytes each), flags) *)
Definition dt_import_part (rowf:list Z -> res (Z * list Z * Z)) (st:list Z * list Z * list Z) (c:chunk)
  : res (list Z * list Z * list Z) :=
  do vs <- transform_to_values c;
  do rs <- map_res (fun v => rowf (strip v)) vs;
  let '(ts, days, flags) := st in
  Ok (ts ++ map (fun r => fst (fst r)) rs,
      days ++ concat (map (fun r => snd (fst r)) rs),
      flags ++ map snd rs).

Definition datetime_import (chunks:list chunk) := fold_res (dt_import_part datetime_row) ([], [], []) chunks.
Definition date_import (chunks:list chunk) := fold_res (dt_import_part date_row) ([], [], []) chunks.
