(* Model/Merge.v — exetera/core/dataframe.py: merge / _unordered_merge / _ordered_merge (C02),
   statement by statement, composed with the models of the streamed join-map generators
   (Model/Join.v, C03) and of the map-application streams (Model/MapStream.v, C04).

     merge              dataframe.py:1333-1470   validation (validation.py:127-191), hint defaults,
                                                 ordered-vs-unordered choice
     _unordered_merge   dataframe.py:1473-1557   pandas merge on (key..., row index), safe_map_* with filters,
                                                 valid_l / valid_r
     _ordered_merge     dataframe.py:1560-       sentinel selection, which streamed generator with which
                                                 argument order, renaming _a_map/_b_map, which sentinel goes
                                                 to which ordered_map_valid*_stream call, chunked_copy when a
                                                 map is absent, destination names
     chunked_copy       operations.py:639-653

   Two versions of the _ordered_merge call-site table are kept side by side (`mver`):
     MOrig   dataframe.py as found (defects F-C02a..e);
     MFixed  after work/C02/fix-F-C02a..e.diff.
   operations.py is the repaired one in both (Join.v = repaired tree, MapStream.v version Fixed =
   after the C04 fixes and work/E7/fix-F-C02f.diff: the map streams accept maps in any order, which is
   what the right-hand map of a many-to-many merge needs).

   A column is either fixed-width (numeric, bool, categorical codes, timestamp: one-element lists
   [v]; fixed strings: byte lists) or an indexed string column (offsets, bytes).  Names are byte
   lists.  pandas.merge is a Section variable (never axiomatised; the extraction entry instantiates
   it with the relational join of Spec/MergeSpec.v, and results of the unordered path are compared
   up to row order).  Proof-free file. *)
From Coq Require Import ZArith List Bool.
From EV Require Import Res Arr Join MapStream.
Import ListNotations.
Open Scope Z_scope.

Inductive mver : Type := MOrig | MFixed.

Inductive column : Type :=
| CFix (zfill empty : list Z) (data : list (list Z))
| CIdx (idx vals : list Z).

Definition field : Type := (list Z * column)%type.
Definition frame : Type := list field.

(* len(field.data) *)
Definition col_len (c:column) : Z :=
  match c with
  | CFix _ _ d => len d
  | CIdx idx _ => Z.max 0 (len idx - 1)
  end.

Fixpoint name_eqb (a b:list Z) : bool :=
  match a, b with
  | [], [] => true
  | x :: a', y :: b' => (x =? y) && name_eqb a' b'
  | _, _ => false
  end.

Definition name_in (n:list Z) (names:list (list Z)) : bool := existsb (name_eqb n) names.
Definition frame_names (f:frame) : list (list Z) := map fst f.

(* "_left_map" "_right_map" "valid" *)
Definition N_left_map : list Z := [95;108;101;102;116;95;109;97;112].
Definition N_right_map : list Z := [95;114;105;103;104;116;95;109;97;112].
Definition N_valid : list Z := [118;97;108;105;100].

Definition INT64_INDEX_LENGTH : Z := 2147483647.   (* utils.py:28 *)

(* a numeric destination column holding a join map *)
Definition map_column (m:list Z) : column := CFix [0] [0] (map (fun k => [k]) m).
Definition bool_column (b:list bool) : column := CFix [0] [0] (map (fun x:bool => [if x then 1 else 0]) b).

(* dest.create_*(name): h5py refuses an existing name *)
Definition dest_add (dest:frame) (n:list Z) (c:column) : res frame :=
  if name_in n (frame_names dest) then Raise E_ValueError else Ok (dest ++ [(n, c)]).

(* ---- validation.py:170-191: all key columns and all mapped columns of a side have one length *)
Definition all_same_len (ls:list Z) : bool :=
  match ls with [] => true | x :: t => forallb (Z.eqb x) t end.

(* ---- operations.py:639-653 element_chunked_copy / chunked_copy ------------------------------ *)
Fixpoint element_copy_loop {A} (fuel:nat) (src:list A) (cs i:Z) (ch:Z * Z) (out:list A) : res (list A) :=
  match fuel with
  | O => OutOfFuel
  | S f =>
    if i <? len src then
      let out' := out ++ np_slice src (fst ch) (snd ch) in
      let i' := i + (snd ch - fst ch) in
      element_copy_loop f src cs i' (MapStream.next_chunk i' (len src) cs) out'
    else Ok out
  end.

Definition element_chunked_copy {A} (src:list A) (cs:Z) : res (list A) :=
  element_copy_loop (S (length src)) src cs 0 (MapStream.next_chunk 0 (len src) cs) [].

Definition chunked_copy (c:column) (cs:Z) : res column :=
  match c with
  | CFix z e d => do d' <- element_chunked_copy d cs; Ok (CFix z e d')
  | CIdx idx vals => do i' <- element_chunked_copy idx cs; do v' <- element_chunked_copy vals cs; Ok (CIdx i' v')
  end.

(* ---- one column through one join map (the two ordered_map_valid*_stream calls) -------------- *)
Definition stream_fuel (c:column) (m:list Z) : nat :=
  match c with
  | CFix _ _ _ => S (length m)
  | CIdx idx _ => (2 * length m + length idx + 2)%nat
  end.

Definition map_column_stream (c:column) (m:list Z) (inv cs vf:Z) : res column :=
  match c with
  | CFix z e d =>
    do d' <- ordered_map_valid_stream z e (stream_fuel c m) Fixed d m inv cs; Ok (CFix z e d')
  | CIdx idx vals =>
    do '(i', v') <- ordered_map_valid_indexed_stream (stream_fuel c m) Fixed idx vals m inv cs vf;
    Ok (CIdx i' v')
  end.

(* ---- _ordered_merge ------------------------------------------------------------------------- *)
Definition kind_of_unique (a_unique b_unique:bool) : kind :=
  if a_unique then (if b_unique then KBU else KLU) else (if b_unique then KRU else KGen).

(* the sentinel: dataframe.py:1581-1588 *)
Definition merge_invalid (lu ru:bool) (llen rlen:Z) : Z :=
  if lu || ru then
    (if (llen <? INT64_INDEX_LENGTH) && (rlen <? INT64_INDEX_LENGTH) then INVALID_INDEX_32 else INVALID_INDEX_64)
  else INVALID_INDEX_64.

(* the generator call table; returns (_left_map, _right_map), None = field not created *)
Definition ordered_maps (ver:mver) (how:Z) (lu ru:bool) (lk rk:list Z) (inv cs:Z)
  : res (option (list Z) * option (list Z)) :=
  if (how =? 0) || (how =? 1) then
    let '(a_on, b_on, a_u, b_u) := if how =? 0 then (lk, rk, lu, ru) else (rk, lk, ru, lu) in
    let v := mkvar (kind_of_unique a_u b_u) true in
    do '(ol, orr) <- streamed v a_on b_on inv cs;
    let a_map := if v_writes_l v then Some ol else None in
    let b_map := Some orr in
    if how =? 1 then Ok (b_map, a_map) else Ok (a_map, b_map)
  else
    (* how = inner: MOrig omits the `invalid` argument of the three unique variants (TypeError, F-C02a)
       and dispatches a left-unique hint to the right-unique generator and vice versa (F-C02b) *)
    match ver with
    | MOrig =>
      if lu || ru then Raise E_TypeError
      else do '(ol, orr) <- streamed (mkvar KGen false) lk rk inv cs; Ok (Some ol, Some orr)
    | MFixed =>
      do '(ol, orr) <- streamed (mkvar (kind_of_unique lu ru) false) lk rk inv cs; Ok (Some ol, Some orr)
    end.

(* destination name of a mapped column: MOrig tests `k in dest`, MFixed tests the other side's
   field list (F-C02e) *)
Definition dest_name (ver:mver) (dest:frame) (k:list Z) (other:list (list Z)) (suffix:list Z) : list Z :=
  let clash := match ver with MOrig => name_in k (frame_names dest) | MFixed => name_in k other end in
  if clash then k ++ suffix else k.

Definition map_side (ver:mver) (dest:frame) (cols:frame) (other:list (list Z)) (suffix:list Z)
           (m:option (list Z)) (inv cs vf ccs:Z) : res frame :=
  fold_res (fun (d:frame) (f:field) =>
              let n := dest_name ver d (fst f) other suffix in
              do c <- match m with
                      | None => chunked_copy (snd f) ccs
                      | Some mm => map_column_stream (snd f) mm inv cs vf
                      end;
              dest_add d n c) cols dest.

Definition ordered_merge (ver:mver) (how:Z) (lu ru:bool) (lk rk:list Z) (lcols rcols:frame)
           (lsuf rsuf:list Z) (llen rlen cs mcs vf ccs:Z) : res frame :=
  let inv := merge_invalid lu ru llen rlen in
  do '(lm, rm) <- ordered_maps ver how lu ru lk rk inv cs;
  (* the map fields are created before the mapped columns; order of creation is not observable
     (the harness sorts by name) *)
  do d0 <- (match lm with Some m => dest_add [] N_left_map (map_column m) | None => Ok [] end);
  do d1 <- (match rm with Some m => dest_add d0 N_right_map (map_column m) | None => Ok d0 end);
  (* right_map = dest['_right_map']: MOrig raises when it is absent (F-C02d) *)
  do _ <- (match ver, rm with MOrig, None => Raise E_ValueError | _, _ => Ok tt end);
  (* MOrig applies the left map with the default invalid=-1 (F-C02c) *)
  let linv := match ver with MOrig => -1 | MFixed => inv end in
  do d2 <- map_side ver d1 lcols (frame_names rcols) lsuf lm linv mcs vf ccs;
  map_side ver d2 rcols (frame_names lcols) rsuf rm inv mcs vf ccs.

(* ---- _unordered_merge ----------------------------------------------------------------------- *)
Section Unordered.
(* pd.merge(l_df, r_df, left_on=keys, right_on=keys, how=how) restricted to the two row-index
   columns l_i / r_i: a list of (left row | NaN, right row | NaN) *)
Variable pd_merge : Z -> list (list Z) -> list (list Z) -> list (option Z * option Z).

(* rows of a list of key columns (all of the same length n) *)
Definition key_rows (cols:list (list Z)) (n:Z) : list (list Z) :=
  map (fun i => map (fun c => nthZ c (Z.of_nat i)) cols) (seq 0 (Z.to_nat n)).

Definition opt_idx (o:option Z) : Z := match o with Some k => k | None => 0 end.   (* NaN cast: never read *)
Definition opt_valid (o:option Z) : bool := match o with Some _ => true | None => false end.

Definition safe_map_column (c:column) (m:list Z) (flt:list bool) : res column :=
  match c with
  | CFix z e d => do d' <- safe_map_values e Fixed d m flt None; Ok (CFix z e d')
  | CIdx idx vals => do '(i', v') <- safe_map_indexed_values idx vals m flt []; Ok (CIdx i' v')
  end.

Definition unordered_side (dest:frame) (cols:frame) (other:list (list Z)) (suffix:list Z)
           (m:list Z) (flt:list bool) : res frame :=
  do d1 <- fold_res (fun (d:frame) (f:field) =>
                       let n := if name_in (fst f) other then fst f ++ suffix else fst f in
                       do c <- safe_map_column (snd f) m flt;
                       dest_add d n c) cols dest;
  if forallb (fun b:bool => b) flt then Ok d1
  else dest_add d1 (N_valid ++ suffix) (bool_column flt).

Definition unordered_merge (how:Z) (lkeys rkeys:list (list Z)) (lcols rcols:frame)
           (lsuf rsuf:list Z) (llen rlen:Z) : res frame :=
  let pairs := pd_merge how (key_rows lkeys llen) (key_rows rkeys rlen) in
  let l_map := map (fun p => opt_idx (fst p)) pairs in
  let l_flt := map (fun p => opt_valid (fst p)) pairs in
  let r_map := map (fun p => opt_idx (snd p)) pairs in
  let r_flt := map (fun p => opt_valid (snd p)) pairs in
  do d1 <- unordered_side [] lcols (frame_names rcols) lsuf l_map l_flt;
  unordered_side d1 rcols (frame_names lcols) rsuf r_map r_flt.

(* ---- merge ---------------------------------------------------------------------------------- *)
Record margs : Type := mk_margs {
  a_ver : mver;
  a_how : Z;                              (* 0 left, 1 right, 2 inner, 3 outer *)
  a_lo : bool; a_lu : bool; a_ro : bool; a_ru : bool;     (* hints, None already read as False *)
  a_lkeys : list (list Z); a_rkeys : list (list Z);
  a_lcols : frame; a_rcols : frame;       (* the fields to map, in order *)
  a_lsuf : list Z; a_rsuf : list Z;
  a_cs : Z;                               (* chunksize of the streamed generators (call sites: 1<<20) *)
  a_mcs : Z; a_vf : Z;                    (* chunksize / value_factor of ordered_map_valid*_stream (1<<20, 8) *)
  a_ccs : Z }.                            (* merge(chunk_size=...), used by chunked_copy *)

Definition is_ordered (a:margs) : bool :=
  a_lo a && a_ro a && (len (a_lkeys a) =? 1) && (len (a_rkeys a) =? 1) &&
  ((a_how a =? 0) || (a_how a =? 1) || (a_how a =? 2)).

Definition merge (a:margs) : res (bool * frame) :=
  if negb ((0 <=? a_how a) && (a_how a <=? 3)) then Raise E_ValueError
  else if negb (len (a_lkeys a) =? len (a_rkeys a)) then Raise E_ValueError
  else
    match a_lkeys a, a_rkeys a with
    | lk0 :: _, rk0 :: _ =>
      if negb (all_same_len (map len (a_lkeys a))) then Raise E_ValueError
      else if negb (all_same_len (map len (a_rkeys a))) then Raise E_ValueError
      else if negb (all_same_len (len lk0 :: map (fun f => col_len (snd f)) (a_lcols a))) then Raise E_ValueError
      else if negb (all_same_len (len rk0 :: map (fun f => col_len (snd f)) (a_rcols a))) then Raise E_ValueError
      else
        let llen := len lk0 in
        let rlen := len rk0 in
        if is_ordered a then
          do d <- ordered_merge (a_ver a) (a_how a) (a_lu a) (a_ru a) lk0 rk0 (a_lcols a) (a_rcols a)
                                (a_lsuf a) (a_rsuf a) llen rlen (a_cs a) (a_mcs a) (a_vf a) (a_ccs a);
          Ok (true, d)
        else
          do d <- unordered_merge (a_how a) (a_lkeys a) (a_rkeys a) (a_lcols a) (a_rcols a)
                                  (a_lsuf a) (a_rsuf a) llen rlen;
          Ok (false, d)
    | _, _ => Raise E_ValueError
    end.

End Unordered.
