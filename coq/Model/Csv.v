(* Model/Csv.v — the CSV import path (C05):
     exetera/core/csv_reader_speedup.py   fast_csv_reader (njit kernel, byte-level FSM)
                                           read_file_using_fast_csv_reader (window / regrowth driver)
     exetera/io/field_importers.py         IndexedStringImporter.import_part / write_part
     exetera/io/parsers.py                 read_csv_with_schema_dict: column_offsets, include/exclude, index_map
   This is the code WITH the repairs work/C05/fix-F-C05{a,c,d,e,b}.diff applied (each repaired line is marked).
   Statement by statement; proof-free.  Bytes are Z in 0..255.  The constants the driver
   passes (escape, separator, newline, whitespace) are fixed here as the driver fixes them. *)
From Coq Require Import ZArith List Bool.
From EV Require Import Res Arr.
Import ListNotations.
Open Scope Z_scope.

Definition ESC : Z := 34.
Definition SEP : Z := 44.
Definition NL : Z := 10.
Definition WS : Z := 32.
Definition CR : Z := 13.      (* carriage_return_value, local constant of the kernel (fix F-C05b) *)

(* ---- numpy arrays ----------------------------------------------------------------- *)
Definition zeros (n:Z) : list Z := repeat 0 (Z.to_nat n).

(* column_inds: int64[count_columns, w]; kept as (w, rows) so that shape[1] is defined like numpy's *)
Definition arr2 : Type := (Z * list (list Z))%type.
Definition zeros2 (r w:Z) : arr2 := (w, repeat (zeros w) (Z.to_nat r)).
Definition get2 (site:Z) (a:arr2) (i j:Z) : res Z :=
  do row <- get site (snd a) i; get site row j.
(* a read whose second index may be -1 (row_index = -1 while the header line is scanned):
   numpy and numba both wrap a negative index once *)
Definition get2w (site:Z) (a:arr2) (i j:Z) : res Z :=
  do row <- get site (snd a) i; get site row (if j <? 0 then j + fst a else j).
Definition set2 (site:Z) (a:arr2) (i j v:Z) : res arr2 :=
  do row <- get site (snd a) i;
  do row' <- set site row j v;
  do d <- set site (snd a) i row';
  Ok (fst a, d).

(* ---- fast_csv_reader: csv_reader_speedup.py:154-292 -------------------------------- *)
Record st : Type := mkSt {
  s_index : Z;        (* index *)
  s_eol : Z;          (* index_for_end_line *)
  s_col : Z;          (* col_index *)
  s_row : Z;          (* row_index *)
  s_vfc : Z;          (* val_full_col_idx *)
  s_esc : bool;       (* escaped *)
  s_cand : bool;      (* escaped_literal_candidate *)
  s_count : Z;        (* cur_cell_char_count *)
  s_cstart : Z;       (* cur_cell_start *)
  s_icstart : Z;      (* index_for_cur_cell_start *)
  s_ifull : bool;     (* is_column_inds_full *)
  s_vfull : bool;     (* is_column_vals_full *)
  s_coff : Z;         (* col_offset *)
  s_cvc : Z;          (* col_val_count *)
  s_inds : arr2;      (* column_inds (mutated in place) *)
  s_vals : list Z     (* column_vals (mutated in place) *)
}.

(* what one byte does to the scanner flags: lines 207-255.
   result: (write_char, end_cell, end_line, escaped', candidate', index_for_end_line') *)
Definition classify (src:list Z) (index c:Z) (esc cand:bool) (icstart eol:Z)
  : res (bool * bool * bool * bool * bool * Z) :=
  if c =? SEP then
    if negb esc then Ok (false, true, false, esc, cand, eol)
    else Ok (true, false, false, esc, cand, eol)
  else if c =? NL then
    if negb esc then Ok (false, true, true, esc, cand, index)
    else Ok (true, false, false, esc, cand, eol)
  else if c =? ESC then
    if negb esc then
      if negb (index =? icstart) then Raise E_Other      (* 'double quote should start at the beginning of the cell' *)
      else Ok (false, false, false, true, cand, eol)
    else if cand then Ok (true, false, false, esc, false, eol)
    else if index + 1 <? len src then
      do x <- get 2 src (index + 1);
      if x =? ESC then Ok (false, false, false, esc, true, eol)
      else if (x =? SEP) || (x =? NL) || (x =? CR) then Ok (false, false, false, false, cand, eol)   (* CR: fix F-C05b *)
      else Raise E_Other                                  (* 'invalid double quote' *)
    else if index + 1 =? len src then Ok (false, false, false, esc, cand, eol)   (* retry in next chunk *)
    else Raise E_Other
  else if (c =? CR) && negb esc && (index + 1 <? len src) then           (* fix F-C05b: the CR of a CRLF line break *)
    do x <- get 12 src (index + 1);
    if x =? NL then Ok (false, false, false, esc, cand, eol)
    else Ok (true, false, false, esc, cand, eol)
  else Ok (true, false, false, esc, cand, eol).

(* lines 283-284: while index + 1 < len(source) and source[index + 1] == whitespace_value: index += 1 *)
Fixpoint skip_ws (n:nat) (src:list Z) (index:Z) : res Z :=
  if index + 1 <? len src then
    do x <- get 8 src (index + 1);
    if x =? WS then match n with O => OutOfFuel | S n' => skip_ws n' src (index + 1) end
    else Ok index
  else Ok index.

(* one iteration of the `while True` body, lines 207-287 (without the exit test) *)
Definition fsm_step (src offs:list Z) (maxrow:Z) (s:st) : res st :=
  let index := s_index s in
  do c <- get 1 src index;
  do '(w, ec, el, esc', cand', eol') <-
     classify src index c (s_esc s) (s_cand s) (s_icstart s) (s_eol s);
  (* lines 257-263 *)
  do '(vals', count', vfull', vfc') <-
     (if w && (0 <=? s_row s) then
        do v' <- set 3 (s_vals s) (s_coff s + s_cstart s + s_count s) c;
        let count' := s_count s + 1 in
        if s_cstart s + count' >=? s_cvc s then Ok (v', count', true, s_col s)
        else Ok (v', count', s_vfull s, s_vfc s)
      else Ok (s_vals s, s_count s, s_vfull s, s_vfc s));
  (* lines 265-285 *)
  if ec then
    do inds1 <- (if 0 <=? s_row s then set2 4 (s_inds s) (s_col s) (s_row s + 1) (s_cstart s + count')
                 else Ok (s_inds s));
    do '(row', col', coff', cvc', ifull') <-
       (if el then
          let row' := s_row s + 1 in
          do o0 <- get 5 offs 0;
          do o1 <- get 5 offs 1;
          Ok (row', 0, o0, o1 - o0, if row' =? maxrow then true else s_ifull s)
        else
          let col' := s_col s + 1 in
          do o0 <- get 6 offs col';
          do o1 <- get 6 offs (col' + 1);
          Ok (s_row s, col', o0, o1 - o0, s_ifull s));
    do cs <- get2w 7 inds1 col' row';
    do idx' <- skip_ws (length src) src index;
    Ok (mkSt (idx' + 1) eol' col' row' vfc' esc' cand' 0 cs (idx' + 1) ifull' vfull' coff' cvc' inds1 vals')
  else
    Ok (mkSt (index + 1) eol' (s_col s) (s_row s) vfc' esc' cand' count' (s_cstart s) (s_icstart s)
             (s_ifull s) vfull' (s_coff s) (s_cvc s) (s_inds s) vals').

(* what the call returns (line 289-292), plus the buffers it mutated and — for the feature
   histogram only — the two scanner flags at the moment of return *)
Record fout : Type := mkFout {
  f_next : Z; f_rows : Z; f_ifull : bool; f_vfull : bool; f_vfc : Z;
  f_inds : arr2; f_vals : list Z; f_esc : bool; f_cand : bool }.

Fixpoint fsm_loop (fuel:nat) (src offs:list Z) (maxrow:Z) (s:st) : res fout :=
  match fuel with
  | O => OutOfFuel
  | S f =>
    do s' <- fsm_step src offs maxrow s;
    if (s_index s' =? len src) || s_ifull s' || s_vfull s' then
      Ok (mkFout (s_eol s' + 1) (s_row s') (s_ifull s') (s_vfull s') (s_vfc s') (s_inds s') (s_vals s')
                 (s_esc s') (s_cand s'))
    else fsm_loop f src offs maxrow s'
  end.

(* fix F-C05d: while index < len(source) and source[index] == whitespace_value: index += 1 *)
Fixpoint skip_ws0 (n:nat) (src:list Z) (index:Z) : res Z :=
  if index <? len src then
    do x <- get 11 src index;
    if x =? WS then match n with O => OutOfFuel | S n' => skip_ws0 n' src (index + 1) end
    else Ok index
  else Ok index.

(* the prologue of the kernel.  index_for_end_line = start_index - 1 (fix F-C05a),
   index_for_cur_cell_start = index after the entry blank skip (fixes F-C05c, F-C05d) *)
Definition fsm_init (src:list Z) (start_index:Z) (inds:arr2) (vals offs:list Z) (hasHeader:bool) : res st :=
  let row := if hasHeader then -1 else 0 in
  do cs <- (if 0 <=? row then get2 9 inds 0 row else Ok 0);
  do index <- skip_ws0 (length src) src start_index;
  do cvc <- get 10 offs 1;
  Ok (mkSt index (start_index - 1) 0 row (-1) false false 0 cs index false false 0 cvc inds vals).

Definition fast_csv_reader (fuel:nat) (src:list Z) (start_index:Z) (inds:arr2) (vals offs:list Z)
           (hasHeader:bool) : res fout :=
  do s0 <- fsm_init src start_index inds vals offs hasHeader;
  if s_index s0 =? len src then       (* fix F-C05d: nothing but blanks left in the window *)
    Ok (mkFout start_index (s_row s0) false false (-1) inds vals false false)
  else fsm_loop fuel src offs (fst inds - 1) s0.

(* every iteration advances index by at least one *)
Definition fsm_fuel (src:list Z) (start_index:Z) : nat := S (Z.to_nat (len src - start_index)).

(* ---- IndexedStringImporter: field_importers.py:285-319 ------------------------------ *)
Record imp : Type := mkImp { i_acc : Z; i_indices : list Z; i_values : list Z }.
Definition imp_new : imp := mkImp 0 [0] [].          (* __init__: indices.write_part([0]) *)

(* numpy integer indexing a[k] in plain Python: a negative k wraps once *)
Definition np_index (site:Z) (a:list Z) (k:Z) : res Z :=
  if k <? 0 then get site a (k + len a) else get site a k.

Definition import_part (inds:arr2) (vals offs:list Z) (col_idx wrc:Z) (m:imp) : res imp :=
  do rowv <- get 20 (snd inds) col_idx;
  let index := map (fun x => x + i_acc m) (firstn (Z.to_nat (wrc + 1)) rowv) in   (* [:wrc+1], wrc >= -1 *)
  do last <- np_index 21 rowv wrc;
  do coff <- get 22 offs col_idx;
  let values := slice vals coff (coff + last) in
  Ok (mkImp (i_acc m + last) (i_indices m ++ tl index) (i_values m ++ values)).

Fixpoint import_all (inds:arr2) (vals offs:list Z) (index_map:list Z) (wrc:Z) (ms:list imp)
  : res (list imp) :=
  match index_map, ms with
  | i_c :: it, m :: mt =>
      do m' <- import_part inds vals offs i_c wrc m;
      do mt' <- import_all inds vals offs it wrc mt;
      Ok (m' :: mt')
  | _, _ => Ok []
  end.

(* ---- read_file_using_fast_csv_reader: csv_reader_speedup.py:48-151 ------------------- *)
Record dst : Type := mkDst {
  d_chunk : Z;          (* chunk_index *)
  d_hdr : bool;         (* hasHeader *)
  d_acc : Z;            (* accumulated_written_rows *)
  d_inds : arr2; d_vals : list Z; d_offs : list Z;
  d_ifull : bool; d_vfull : bool;
  d_content : list Z; d_start : Z;
  d_imps : list imp;
  d_trace : list (list Z)   (* one entry per kernel call, newest first; not read by the code: features only *)
}.

Definition b2z (b:bool) : Z := if b then 1 else 0.

(* one iteration of `while chunk_index < total_byte_size` (stop_after_rows = None) *)
Definition drv_step (file:list Z) (ncols cbs:Z) (index_map:list Z) (d:dst) : res (dst + dst) :=
  let total := len file in
  (* lines 102-112 *)
  let fresh := negb (d_ifull d) && negb (d_vfull d) in
  let content0 := if fresh then slice file (d_chunk d) (d_chunk d + cbs) else d_content d in
  let start := if fresh then 0 else d_start d in
  if fresh && (len content0 =? 0) then Ok (inr d)
  else
  let content :=
    if fresh && (d_chunk d + len content0 =? total) && negb (last content0 NL =? NL)
    then content0 ++ [NL] else content0 in
  (* line 114 *)
  do r <- fast_csv_reader (fsm_fuel content start) content start (d_inds d) (d_vals d) (d_offs d) (d_hdr d);
  (* fix F-C05a: no record completed, nothing to regrow, nothing consumed *)
  if negb (f_ifull r) && negb (f_vfull r) && (f_next r <=? 0) then Raise E_ValueError else
  (* lines 117-119 *)
  do imps' <- import_all (f_inds r) (f_vals r) (d_offs d) index_map (f_rows r) (d_imps d);
  (* lines 122-124 *)
  let inds' := if f_ifull r then zeros2 ncols ((fst (f_inds r) - 1) * 2 + 1) else f_inds r in
  (* lines 127-132 *)
  do '(offs', vals') <-
     (if f_vfull r && negb (f_vfc r =? -1) then
        do a <- get 30 (d_offs d) (f_vfc r + 1);
        do b <- get 30 (d_offs d) (f_vfc r);
        let delta := (a - b) * (2 - 1) in
        let n := Z.to_nat (f_vfc r + 1) in
        let offs' := firstn n (d_offs d) ++ map (fun x => x + delta) (skipn n (d_offs d)) in
        Ok (offs', zeros (last offs' 0))
      else Ok (d_offs d, f_vals r));
  (* lines 135-141 *)
  let full := (f_ifull r || f_vfull r) && (f_next r <? len content) in     (* fix F-C05e *)
  let tr := [d_chunk d; start; len content; f_next r; f_rows r; b2z (f_ifull r); b2z (f_vfull r);
             b2z (f_esc r); b2z (f_cand r)] in
  Ok (inl (mkDst (if full then d_chunk d else d_chunk d + f_next r) false (d_acc d + f_rows r)
                 inds' vals' offs' (full && f_ifull r) (full && f_vfull r) content (if full then f_next r else start)
                 imps' (tr :: d_trace d))).

Fixpoint drv_loop (fuel:nat) (file:list Z) (ncols cbs:Z) (index_map:list Z) (d:dst) : res dst :=
  match fuel with
  | O => OutOfFuel
  | S f =>
    if d_chunk d <? len file then
      do r <- drv_step file ncols cbs index_map d;
      match r with
      | inl d' => drv_loop f file ncols cbs index_map d'
      | inr d' => Ok d'
      end
    else Ok d
  end.

(* lines 69-95.  ncols = len(csv.DictReader(f).fieldnames): supplied by the caller (the header
   sniffing of Python's csv module is not modelled) *)
Definition read_file (fuel:nat) (file:list Z) (chunk_row_size ncols:Z) (offs index_map:list Z)
  : res dst :=
  let crs2 := chunk_row_size * 2 in
  let cbs := crs2 * ncols in
  drv_loop fuel file ncols cbs index_map
    (mkDst 0 true 0 (zeros2 ncols (crs2 + 1)) (zeros (last offs 0)) offs false false [] 0
           (map (fun _ => imp_new) index_map) []).

(* ---- read_csv_with_schema_dict: parsers.py:71-160 ------------------------------------ *)
Fixpoint list_eqb (a b:list Z) : bool :=
  match a, b with
  | [], [] => true
  | x :: a', y :: b' => (x =? y) && list_eqb a' b'
  | _, _ => false
  end.
Definition mem_name (k:list Z) (l:list (list Z)) : bool := existsb (list_eqb k) l.

(* list.index *)
Fixpoint index_of (k:list Z) (l:list (list Z)) : res Z :=
  match l with
  | [] => Raise E_ValueError
  | x :: t => if list_eqb x k then Ok 0 else do i <- index_of k t; Ok (i + 1)
  end.

Fixpoint map_res {A B} (f:A -> res B) (l:list A) : res (list B) :=
  match l with
  | [] => Ok (@nil B)
  | x :: t => do y <- f x; do t' <- map_res f t; Ok (y :: t')
  end.

Definition fields_to_use (names:list (list Z)) (include exclude:option (list (list Z))) : list (list Z) :=
  let f1 := match include with Some inc => filter (fun k => mem_name k inc) names | None => names end in
  match exclude with Some exc => filter (fun k => negb (mem_name k exc)) f1 | None => f1 end.

(* column_offsets[i+1] = column_offsets[i] + field_size * chunk_row_size *)
Fixpoint col_offsets_from (acc:Z) (sizes:list Z) (crs:Z) : list Z :=
  match sizes with
  | [] => [acc]
  | fs :: t => acc :: col_offsets_from (acc + fs * crs) t crs
  end.

Definition read_csv (fuel:nat) (file:list Z) (names:list (list Z)) (sizes:list Z)
           (include exclude:option (list (list Z))) (chunk_row_size:Z) : res dst :=
  let ftu := fields_to_use names include exclude in
  do index_map <- map_res (fun k => index_of k names) ftu;
  read_file fuel file chunk_row_size (len names) (col_offsets_from 0 sizes chunk_row_size) index_map.
