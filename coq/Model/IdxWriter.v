(* Model/IdxWriter.v — field storage of exetera/core/fields.py + data_writer.py (C01).
   Proof-free, executable.  Modelled statement by statement (line numbers of the pinned tree):

     MemoryFieldArray.write_part            fields.py:411-435   (REPAIRED form, fix-F-C01a;
                                                                 the original form is kept as
                                                                 mem_write_part_orig)
     DataWriter.write/_write_additional     data_writer.py:45-85 (the dataset always exists:
                                                                 the field constructors create it)
     WriteableFieldArray.write_part/clear   fields.py:308-346
     WriteableIndexedFieldArray             fields.py:553-700   (__init__, write_part, write,
                                                                 complete, clear, __getitem__)
     ReadOnlyIndexedFieldArray.__getitem__  fields.py:490-518   (REPAIRED form, fix-F-C01d)
     categorical_field_constructor          fields.py:2034-2044 (key_values dtype: REPAIRED
                                                                 form fix-F-C01c = nformat;
                                                                 original = int8)

   A dataset is a list; numpy slicing / slice assignment are defined here (np_slice,
   np_assign) with numpy's bound normalisation, so that `new[-len(part):] = part` with an
   empty part means what numpy makes it mean.  Bytes are Z in 0..255, strings are byte
   lists (str.encode()/bytes.decode() stay in the harness). *)
From Coq Require Import ZArith List Bool.
From EV Require Import Res Arr.
Import ListNotations.
Open Scope Z_scope.

(* ---- numpy slicing -------------------------------------------------------------- *)
Definition np_norm (n a:Z) : Z := if a <? 0 then Z.max 0 (a + n) else Z.min a n.

Section Poly.
Context {A:Type}.
Variable zero : A.      (* what np.zeros / a resized HDF5 dataset is filled with *)

(* l[a:b] *)
Definition np_slice (l:list A) (a b:Z) : list A :=
  slice l (np_norm (len l) a) (np_norm (len l) b).

(* l[a:b] = v   (same length, or numpy broadcast of a length-1 source; else ValueError) *)
Definition np_assign (l:list A) (a b:Z) (v:list A) : res (list A) :=
  let n := len l in
  let a' := np_norm n a in
  let b' := Z.max a' (np_norm n b) in
  if len v =? b' - a' then Ok (firstn (Z.to_nat a') l ++ v ++ skipn (Z.to_nat b') l)
  else match v with
       | [x] => Ok (firstn (Z.to_nat a') l ++ repeat x (Z.to_nat (b' - a')) ++ skipn (Z.to_nat b') l)
       | _ => Raise E_ValueError
       end.

(* l[k] in plain Python/numpy: a negative k wraps once *)
Definition np_index (site:Z) (l:list A) (k:Z) : res A :=
  if k <? 0 then get site l (k + len l) else get site l k.

(* ---- MemoryFieldArray ----------------------------------------------------------- *)
(* _dataset is None | an array *)
Definition mem_write_part (d:option (list A)) (part:list A) : res (option (list A)) :=
  match d with
  | None => Ok (Some part)                                   (* part.copy() *)
  | Some ds =>
    let new := repeat zero (Z.to_nat (len ds + len part)) in (* np.zeros(len(ds)+len(part)) *)
    do n1 <- np_assign new 0 (len ds) ds;                    (* new[:len(ds)] = ds *)
    do n2 <- np_assign n1 (len ds) (len n1) part;            (* new[len(ds):] = part   (fix-F-C01a) *)
    Ok (Some n2)
  end.

(* the pinned tree: new[-len(part):] = part *)
Definition mem_write_part_orig (d:option (list A)) (part:list A) : res (option (list A)) :=
  match d with
  | None => Ok (Some part)
  | Some ds =>
    let new := repeat zero (Z.to_nat (len ds + len part)) in
    do n1 <- np_assign new 0 (len ds) ds;
    do n2 <- np_assign n1 (- len part) (len n1) part;
    Ok (Some n2)
  end.

(* ---- HDF5 dataset through DataWriter.write -------------------------------------- *)
Definition h5_write_part (d:list A) (part:list A) : res (list A) :=
  let count := len part in
  if count =? 0 then Ok d                                    (* _write_additional: count == 0 *)
  else
    let gv := d ++ repeat zero (Z.to_nat count) in           (* gv.resize((gv.size + count,)) *)
    np_assign gv (- count) (len gv) part.                    (* gv[-count:] = field *)

(* ---- a field array of either kind ----------------------------------------------- *)
Inductive store : Type :=
| Mem (d:option (list A))
| H5 (d:list A).

Definition st_write_part (s:store) (part:list A) : res store :=
  match s with
  | Mem d => do d' <- mem_write_part d part; Ok (Mem d')
  | H5 d => do d' <- h5_write_part d part; Ok (H5 d')
  end.

(* the pinned tree (only differs for Mem) *)
Definition st_write_part_orig (s:store) (part:list A) : res store :=
  match s with
  | Mem d => do d' <- mem_write_part_orig d part; Ok (Mem d')
  | H5 d => do d' <- h5_write_part d part; Ok (H5 d')
  end.

(* what [:] reads (MemoryFieldArray.__getitem__ returns np.zeros(0) when _dataset is None) *)
Definition st_data (s:store) : list A :=
  match s with Mem None => [] | Mem (Some d) => d | H5 d => d end.
Definition st_len (s:store) : Z := len (st_data s).

Definition st_clear (s:store) : store :=
  match s with Mem _ => Mem None | H5 _ => H5 [] end.

(* write_part of each part in turn, then complete() (a no-op on the data) *)
Fixpoint st_write_parts (s:store) (parts:list (list A)) : res store :=
  match parts with
  | [] => Ok s
  | p :: t => do s' <- st_write_part s p; st_write_parts s' t
  end.

Fixpoint st_write_parts_orig (s:store) (parts:list (list A)) : res store :=
  match parts with
  | [] => Ok s
  | p :: t => do s' <- st_write_part_orig s p; st_write_parts_orig s' t
  end.

End Poly.
Arguments store A : clear implicits.

(* ---- WriteableIndexedFieldArray -------------------------------------------------- *)
Record iw : Type := mkIW {
  iw_cs : Z;                 (* _chunksize *)
  iw_ind : store Z;          (* _indices *)
  iw_val : store Z;          (* _values *)
  iw_rawv : list Z;          (* _raw_values   np.zeros(chunksize, uint8) *)
  iw_rawi : list Z;          (* _raw_indices  np.zeros(chunksize, int64) *)
  iw_acc : Z;                (* _accumulated *)
  iw_ii : Z;                 (* _index_index *)
  iw_vi : Z                  (* _value_index *)
}.

(* __init__ : 566-570 *)
Definition iw_init (cs:Z) (ind vals:store Z) : res iw :=
  do acc <- (if 0 <? st_len ind then np_index 1 (st_data ind) (-1) else Ok 0);
  Ok (mkIW cs ind vals (repeat 0 (Z.to_nat cs)) (repeat 0 (Z.to_nat cs)) acc 0 0).

(* for v in evalue: 654-660 *)
Fixpoint iw_bytes (w:iw) (bs:list Z) : res iw :=
  match bs with
  | [] => Ok w
  | v :: t =>
    do rv <- set 2 (iw_rawv w) (iw_vi w) v;                 (* _raw_values[_value_index] = v *)
    let vi := iw_vi w + 1 in
    do w1 <-
      (if vi =? iw_cs w then
         do vs <- st_write_part 0 (iw_val w) (slice rv 0 vi);  (* _values.write_part(_raw_values[:vi]) *)
         Ok (mkIW (iw_cs w) (iw_ind w) vs rv (iw_rawi w) (iw_acc w) (iw_ii w) 0)
       else Ok (mkIW (iw_cs w) (iw_ind w) (iw_val w) rv (iw_rawi w) (iw_acc w) (iw_ii w) vi));
    iw_bytes (mkIW (iw_cs w1) (iw_ind w1) (iw_val w1) (iw_rawv w1) (iw_rawi w1)
                   (iw_acc w1 + 1) (iw_ii w1) (iw_vi w1)) t
  end.

(* the first-index sentinel: if len(self._indices) == 0: self._indices.write_part(np.array([0])) *)
Definition iw_sentinel (ind:store Z) : res (store Z) :=
  if st_len ind =? 0 then st_write_part 0 ind [0] else Ok ind.

(* one string of the part: 653-667 *)
Definition iw_string (w:iw) (s:list Z) : res iw :=
  do w1 <- iw_bytes w s;
  do ri <- set 3 (iw_rawi w1) (iw_ii w1) (iw_acc w1);       (* _raw_indices[_index_index] = _accumulated *)
  let ii := iw_ii w1 + 1 in
  if ii =? iw_cs w1 then
    do i1 <- iw_sentinel (iw_ind w1);
    do i2 <- st_write_part 0 i1 (slice ri 0 ii);
    Ok (mkIW (iw_cs w1) i2 (iw_val w1) (iw_rawv w1) ri (iw_acc w1) 0 (iw_vi w1))
  else Ok (mkIW (iw_cs w1) (iw_ind w1) (iw_val w1) (iw_rawv w1) ri (iw_acc w1) ii (iw_vi w1)).

(* write_part: 652 *)
Fixpoint iw_write_part (w:iw) (part:list (list Z)) : res iw :=
  match part with
  | [] => Ok w
  | s :: t => do w1 <- iw_string w s; iw_write_part w1 t
  end.

(* complete: 693-700  (store.write = write_part + flush/complete, which do not touch data) *)
Definition iw_complete (w:iw) : res iw :=
  do w1 <-
    (if negb (iw_vi w =? 0) then
       do vs <- st_write_part 0 (iw_val w) (slice (iw_rawv w) 0 (iw_vi w));
       Ok (mkIW (iw_cs w) (iw_ind w) vs (iw_rawv w) (iw_rawi w) (iw_acc w) (iw_ii w) 0)
     else Ok w);
  if negb (iw_ii w1 =? 0) then
    do i1 <- iw_sentinel (iw_ind w1);
    do i2 <- st_write_part 0 i1 (slice (iw_rawi w1) 0 (iw_ii w1));
    Ok (mkIW (iw_cs w1) i2 (iw_val w1) (iw_rawv w1) (iw_rawi w1) (iw_acc w1) 0 (iw_vi w1))
  else Ok w1.

(* clear: 635-638 — the staging fill levels are NOT reset *)
Definition iw_clear (w:iw) : iw :=
  mkIW (iw_cs w) (st_clear (iw_ind w)) (st_clear (iw_val w)) (iw_rawv w) (iw_rawi w) 0 (iw_ii w) (iw_vi w).

Inductive iwop : Type :=
| OpPart (part:list (list Z))      (* data.write_part(part) *)
| OpComplete                       (* data.complete() *)
| OpWrite (part:list (list Z))     (* data.write(part) *)
| OpClear                          (* data.clear() *)
| OpReopen.                        (* a new wrapper on the same datasets: a new field object's .data,
                                      e.g. after the dataset was closed and reopened 'r+' *)

Definition iw_op (w:iw) (o:iwop) : res iw :=
  match o with
  | OpPart p => iw_write_part w p
  | OpComplete => iw_complete w
  | OpWrite p => do w1 <- iw_write_part w p; iw_complete w1
  | OpClear => Ok (iw_clear w)
  | OpReopen => iw_init (iw_cs w) (iw_ind w) (iw_val w)
  end.

Fixpoint iw_run (w:iw) (ops:list iwop) : res iw :=
  match ops with
  | [] => Ok w
  | o :: t => do w1 <- iw_op w o; iw_run w1 t
  end.

Definition fresh (h5:bool) : store Z := if h5 then H5 [] else Mem None.

(* a fresh field of the given backing, the history, what the datasets then hold *)
Definition iw_history (h5:bool) (cs:Z) (ops:list iwop) : res (list Z * list Z) :=
  do w0 <- iw_init cs (fresh h5) (fresh h5);
  do w <- iw_run w0 ops;
  Ok (st_data (iw_ind w), st_data (iw_val w)).

(* ---- reads: __getitem__ ---------------------------------------------------------- *)
Fixpoint map_res {A B} (f:A -> res B) (l:list A) : res (list B) :=
  match l with
  | [] => Ok (@nil B)
  | x :: t => do y <- f x; do t' <- map_res f t; Ok (y :: t')
  end.

Definition rangeZ (n:Z) : list Z := map Z.of_nat (seq 0 (Z.to_nat n)).

(* an entry the loop never filled stays None: encoded as the impossible byte string [-1] *)
Definition NONE_ENTRY : list Z := [-1].

(* data[start:stop]: ro = ReadOnlyIndexedFieldArray (490-510), else Writeable (597-615).
   guard = the `if len(index) == 0: return []` test: always present in the Writeable class,
   present in the ReadOnly class only after fix-F-C01d. *)
Definition iw_getslice_gen (guard ro:bool) (ind vals:list Z) (start stop:Z) : res (list (list Z)) :=
  let index := np_slice ind start (stop + 1) in
  if guard && (len index =? 0) then Ok []
  else
    do i0 <- np_index 10 index 0;
    do il <- np_index 11 index (-1);
    let bytestr := np_slice vals i0 il in
    let nres := len index - 1 in
    do startindex <- np_index 12 ind start;
    let rmax := if ro then nres else Z.min nres (stop - start) in
    do rs <- map_res (fun ir =>
                do a <- get 13 index ir;
                do b <- get 14 index (ir + 1);
                Ok (np_slice bytestr (a - startindex) (b - startindex))) (rangeZ rmax);
    Ok (rs ++ repeat NONE_ENTRY (Z.to_nat (nres - Z.max 0 rmax))).

(* the repaired tree *)
Definition iw_getslice (ro:bool) := iw_getslice_gen true ro.
(* the pinned tree *)
Definition iw_getslice_orig (ro:bool) := iw_getslice_gen (negb ro) ro.

(* data[item] (both classes: 511-518 / 616-623) *)
Definition iw_getint (ind vals:list Z) (item:Z) : res (list Z) :=
  if item >=? len ind - 1 then Raise E_ValueError
  else match np_slice ind item (item + 2) with
       | [s; e] => if s =? e then Ok [] else Ok (np_slice vals s e)
       | _ => Raise E_ValueError          (* start, stop = ... : cannot unpack *)
       end.

Definition iw_length (ind:list Z) : Z := Z.max (len ind - 1) 0.

(* ---- plain fields (numeric, timestamp, fixed string, categorical codes) ----------- *)
(* dtype codes are opaque here; MemoryFieldArray adopts the dtype of the FIRST part
   (part.copy()), later parts are cast into it; an HDF5 dataset keeps the field's dtype.
   Values are assumed representable in both dtypes (the harness generates only such). *)
Definition mem_dtype (field_dt:Z) (part_dts:list Z) : Z :=
  match part_dts with [] => field_dt | d :: _ => d end.
Definition stored_dtype (h5:bool) (field_dt:Z) (part_dts:list Z) : Z :=
  if h5 then field_dt else mem_dtype field_dt part_dts.

(* categorical_field_constructor: key_values written with dtype lo..hi
   (pinned tree: int8 whatever nformat is; repaired: nformat).  numpy >= 2 raises
   OverflowError for a Python int outside the dtype. *)
Definition key_store (lo hi:Z) (key_values:list Z) : res (list Z) :=
  if forallb (fun v => (lo <=? v) && (v <=? hi)) key_values then Ok key_values
  else Raise E_Overflow.
