(* Model/Journal.v — exetera/core/journal.py (journal_table) and the journalling kernels of
   exetera/core/operations.py:2442-2609 (C17).  Proof-free, executable.

   Arrays are lists; every access inside a modelled numba kernel goes through get/set.
   Keys, numeric payloads, offsets and bytes are Z; to_keep is a list bool.
   An indexed-string column is (offsets, bytes) exactly as stored by ExeTera.

   External / out-of-anchor components, defined here in Gallina (never axiomatised):
     np.argsort(kind='stable')            argsort            (stable insertion sort of positions)
     Session.dataset_sort_index           dataset_sort_index (the acc_index loop, statement by statement)
     numpy fancy indexing a[idx]          take               (idx is always a permutation of range(len a) here)
     Session.apply_index on a field       take / apply_index_str (re-encoding of the permuted strings)
   They are exercised by the correspondence run against the real journal_table. *)
From Coq Require Import ZArith List Bool.
From EV Require Import Res Arr.
Import ListNotations.
Open Scope Z_scope.

(* ---- generic loop combinators ------------------------------------------------------- *)
(* for i in range(start, start+n): st = body i st *)
Fixpoint for_range {St:Type} (n:nat) (i:Z) (body:Z -> St -> res St) (st:St) : res St :=
  match n with
  | O => Ok st
  | S n' => do st' <- body i st; for_range n' (i + 1) body st'
  end.

(* ---- ordered_generate_journalling_indices: operations.py:2442-2512 ------------------ *)
(* while i+1 < len(old) and old[i+1] == old[i]: i += 1 *)
Fixpoint skip_run (fuel:nat) (old:list Z) (i:Z) : res Z :=
  match fuel with
  | O => OutOfFuel
  | S f =>
    if i + 1 <? len old then
      do a <- get 1 old (i + 1);
      do b <- get 2 old i;
      if a =? b then skip_run f old (i + 1) else Ok i
    else Ok i
  end.

(* Both passes of the kernel walk the two key arrays with the same text; they differ in what
   is done per emitted joint row (pass 1: total += 1; pass 2: two array writes, joint += 1).
   `emit st oi nj` is that per-row action (oi / nj = the values stored in old_inds / new_inds). *)
Section Walk.
Context {St:Type}.
Variable emit : St -> Z -> Z -> res St.

(* while i < len(old) and j < len(new): ... *)
Fixpoint walk_main (fuel fuel0:nat) (old new:list Z) (i j:Z) (st:St) : res (Z * Z * St) :=
  match fuel with
  | O => OutOfFuel
  | S f =>
    if (i <? len old) && (j <? len new) then
      do oi <- get 3 old i;
      do nj <- get 4 new j;
      if oi <? nj then
        do i' <- skip_run fuel0 old i;
        do st' <- emit st i' (-1);
        walk_main f fuel0 old new (i' + 1) j st'
      else if oi >? nj then
        do st' <- emit st (-1) j;
        walk_main f fuel0 old new i (j + 1) st'
      else
        do i' <- skip_run fuel0 old i;
        do st' <- emit st i' j;
        walk_main f fuel0 old new (i' + 1) (j + 1) st'
    else Ok (i, j, st)
  end.

(* while i < len(old): ... *)
Fixpoint walk_old (fuel fuel0:nat) (old:list Z) (i:Z) (st:St) : res St :=
  match fuel with
  | O => OutOfFuel
  | S f =>
    if i <? len old then
      do i' <- skip_run fuel0 old i;
      do st' <- emit st i' (-1);
      walk_old f fuel0 old (i' + 1) st'
    else Ok st
  end.

(* while j < len(new): ... *)
Fixpoint walk_new (fuel:nat) (new:list Z) (j:Z) (st:St) : res St :=
  match fuel with
  | O => OutOfFuel
  | S f =>
    if j <? len new then
      do st' <- emit st (-1) j;
      walk_new f new (j + 1) st'
    else Ok st
  end.

Definition walk (fuel:nat) (old new:list Z) (st:St) : res St :=
  do '(i, j, st1) <- walk_main fuel fuel old new 0 0 st;
  do st2 <- walk_old fuel fuel old i st1;
  walk_new fuel new j st2.
End Walk.

Definition emit_count (total:Z) (_ _:Z) : res Z := Ok (total + 1).

Definition emit_write (st:list Z * list Z * Z) (oi nj:Z) : res (list Z * list Z * Z) :=
  let '(old_inds, new_inds, joint) := st in
  do old_inds' <- set 5 old_inds joint oi;
  do new_inds' <- set 6 new_inds joint nj;
  Ok (old_inds', new_inds', joint + 1).

Definition gen_indices (fuel:nat) (old new:list Z) : res (list Z * list Z) :=
  do total <- walk emit_count fuel old new 0;
  let old_inds := repeat (-1) (Z.to_nat total) in
  let new_inds := repeat (-1) (Z.to_nat total) in
  do '(oi, ni, _) <- walk emit_write fuel old new (old_inds, new_inds, 0);
  Ok (oi, ni).

Definition indices_fuel (old new:list Z) : nat := S (length old + length new).

(* ---- compare_rows_for_journalling: operations.py:2515-2525 --------------------------- *)
Definition compare_rows (old_map new_map old_field new_field:list Z) (to_keep:list bool)
  : res (list bool) :=
  for_range (length old_map) 0 (fun i tk =>
    do k <- get 10 tk i;
    if negb k then
      do om <- get 11 old_map i;
      if om =? -1 then set 12 tk i true
      else
        do nm <- get 13 new_map i;
        if nm =? -1 then set 14 tk i false
        else
          do a <- get 15 old_field om;
          do b <- get 16 new_field nm;
          set 17 tk i (negb (a =? b))
    else Ok tk) to_keep.

(* ---- compare_indexed_rows_for_journalling: operations.py:2528-2547 ------------------- *)
Fixpoint list_eqb (a b:list Z) : bool :=
  match a, b with
  | [], [] => true
  | x :: a', y :: b' => (x =? y) && list_eqb a' b'
  | _, _ => false
  end.

(* a[-1] in a numba kernel / numpy *)
Definition get_last (site:Z) (l:list Z) : res Z := get site l (len l - 1).

Definition compare_indexed_rows (old_map new_map old_indices old_values new_indices new_values:list Z)
  (to_keep:list bool) : res (list bool) :=
  if negb (len old_map =? len new_map) then Raise E_Other
  else
  do ol <- get_last 20 old_indices;
  if negb (ol =? len old_values) then Raise E_Other
  else
  do nl <- get_last 21 new_indices;
  if negb (nl =? len new_values) then Raise E_Other
  else
  for_range (length old_map) 0 (fun i tk =>
    do k <- get 22 tk i;
    if negb k then
      do om <- get 23 old_map i;
      if om =? -1 then set 24 tk i true
      else
        do nm <- get 25 new_map i;
        if nm =? -1 then set 26 tk i false
        else
          do oa <- get 27 old_indices om;
          do ob <- get 28 old_indices (om + 1);
          do na <- get 29 new_indices nm;
          do nb <- get 30 new_indices (nm + 1);
          set 31 tk i (negb (list_eqb (slice old_values oa ob) (slice new_values na nb)))
    else Ok tk) to_keep.

(* ---- merge_journalled_entries: operations.py:2550-2562 ------------------------------- *)
(* while cur_old <= old_map[i]: dest[cur_dest] = old_src[cur_old]; cur_old += 1; cur_dest += 1 *)
Fixpoint copy_old (fuel:nat) (lim:Z) (old_src:list Z) (st:Z * Z * list Z) : res (Z * Z * list Z) :=
  match fuel with
  | O => OutOfFuel
  | S f =>
    let '(cur_old, cur_dest, dest) := st in
    if cur_old <=? lim then
      do v <- get 41 old_src cur_old;
      do dest' <- set 42 dest cur_dest v;
      copy_old f lim old_src (cur_old + 1, cur_dest + 1, dest')
    else Ok st
  end.

Definition merge_entries (fuel:nat) (old_map new_map:list Z) (to_keep:list bool)
  (old_src new_src dest:list Z) : res (list Z) :=
  do '(_, _, dest') <-
    for_range (length old_map) 0 (fun i st =>
      do lim <- get 40 old_map i;
      do '(cur_old, cur_dest, dest1) <- copy_old fuel lim old_src st;
      do k <- get 43 to_keep i;
      if k then
        do nm <- get 44 new_map i;
        do v <- get 45 new_src nm;
        do dest2 <- set 46 dest1 cur_dest v;
        Ok (cur_old, cur_dest + 1, dest2)
      else Ok (cur_old, cur_dest, dest1)) (0, 0, dest);
  Ok dest'.

(* ---- merge_indexed_journalled_entries_count: operations.py:2565-2577 ----------------- *)
Fixpoint count_old (fuel:nat) (lim:Z) (old_src_inds:list Z) (st:Z * Z) : res (Z * Z) :=
  match fuel with
  | O => OutOfFuel
  | S f =>
    let '(cur_old, acc_val) := st in
    if cur_old <=? lim then
      do b <- get 51 old_src_inds (cur_old + 1);
      do a <- get 52 old_src_inds cur_old;
      count_old f lim old_src_inds (cur_old + 1, acc_val + (b - a))
    else Ok st
  end.

Definition merge_indexed_count (fuel:nat) (old_map new_map:list Z) (to_keep:list bool)
  (old_src_inds new_src_inds:list Z) : res Z :=
  do '(_, acc) <-
    for_range (length old_map) 0 (fun i st =>
      do lim <- get 50 old_map i;
      do '(cur_old, acc_val) <- count_old fuel lim old_src_inds st;
      do k <- get 53 to_keep i;
      if k then
        do nm <- get 54 new_map i;
        do b <- get 55 new_src_inds (nm + 1);
        do a <- get 56 new_src_inds nm;
        Ok (cur_old, acc_val + (b - a))
      else Ok (cur_old, acc_val)) (0, 0);
  Ok acc.

(* ---- merge_indexed_journalled_entries: operations.py:2580-2609 ----------------------- *)
(* dest[p:p+(b-a)] = src[a:b]; both slices must be inside their arrays (numpy would clamp the
   source and then fail to broadcast; compiled code would write out of bounds) *)
Definition blit (site:Z) (dest:list Z) (p:Z) (src:list Z) (a b:Z) : res (list Z) :=
  if (0 <=? a) && (a <=? b) && (b <=? len src) && (0 <=? p) && (p + (b - a) <=? len dest) then
    Ok (firstn (Z.to_nat p) dest ++ slice src a b ++ skipn (Z.to_nat (p + (b - a))) dest)
  else OOB site.

Definition mi_state : Type := (Z * Z * Z * list Z * list Z)%type.  (* cur_old, cur_dest, ind_acc, dest_inds, dest_vals *)

Fixpoint copy_old_indexed (fuel:nat) (lim:Z) (old_src_inds old_src_vals:list Z) (st:mi_state) : res mi_state :=
  match fuel with
  | O => OutOfFuel
  | S f =>
    let '(cur_old, cur_dest, ind_acc, dest_inds, dest_vals) := st in
    if cur_old <=? lim then
      do b <- get 61 old_src_inds (cur_old + 1);
      do a <- get 62 old_src_inds cur_old;
      let ind_delta := b - a in
      let ind_acc' := ind_acc + ind_delta in
      do dest_inds' <- set 63 dest_inds cur_dest ind_acc';
      do dest_vals' <- (if 0 <? ind_delta
                        then blit 64 dest_vals (ind_acc' - ind_delta) old_src_vals a b
                        else Ok dest_vals);
      copy_old_indexed f lim old_src_inds old_src_vals (cur_old + 1, cur_dest + 1, ind_acc', dest_inds', dest_vals')
    else Ok st
  end.

Definition merge_indexed (fuel:nat) (old_map new_map:list Z) (to_keep:list bool)
  (old_src_inds old_src_vals new_src_inds new_src_vals dest_inds dest_vals:list Z)
  : res (list Z * list Z) :=
  do dest_inds0 <- set 59 dest_inds 0 0;
  do '(_, _, _, di, dv) <-
    for_range (length old_map) 0 (fun i (st:mi_state) =>
      do lim <- get 60 old_map i;
      do '(cur_old, cur_dest, ind_acc, di1, dv1) <- copy_old_indexed fuel lim old_src_inds old_src_vals st;
      do k <- get 65 to_keep i;
      if k then
        do nm <- get 66 new_map i;
        do b <- get 67 new_src_inds (nm + 1);
        do a <- get 68 new_src_inds nm;
        let ind_delta := b - a in
        let ind_acc' := ind_acc + ind_delta in
        do di2 <- set 69 di1 cur_dest ind_acc';
        do dv2 <- (if 0 <? ind_delta
                   then blit 70 dv1 (ind_acc' - ind_delta) new_src_vals a b
                   else Ok dv1);
        Ok (cur_old, cur_dest + 1, ind_acc', di2, dv2)
      else Ok (cur_old, cur_dest, ind_acc, di1, dv1)) (0, 1, 0, dest_inds0, dest_vals);
  Ok (di, dv).

(* ---- numpy / Session helpers used by journal_table ----------------------------------- *)
Fixpoint iota_from (s:Z) (n:nat) : list Z :=
  match n with O => [] | S n' => s :: iota_from (s + 1) n' end.
Definition iota (n:nat) : list Z := iota_from 0 n.

(* a[idx] for an index array idx (a permutation of range(len a) at every call site) *)
Definition take (a idx:list Z) : list Z := map (nthZ a) idx.

(* np.argsort(keys, kind='stable'): positions, ascending by key, ties by position *)
Fixpoint ins_pos (keys:list Z) (x:Z) (l:list Z) : list Z :=
  match l with
  | [] => [x]
  | y :: t => if nthZ keys x <=? nthZ keys y then x :: l else y :: ins_pos keys x t
  end.
Definition argsort (keys:list Z) : list Z := fold_right (ins_pos keys) [] (iota (length keys)).

(* Session.dataset_sort_index(sort_indices) with index=None: session.py:239-269 *)
Definition sort_step (acc r:list Z) : list Z := take acc (argsort (take r acc)).
Definition dataset_sort_index (cols:list (list Z)) : list Z :=
  match rev cols with
  | [] => []
  | r0 :: rs => fold_left sort_step rs (sort_step (iota (length r0)) r0)
  end.

(* indexed-string storage *)
Definition cell (offs vals:list Z) (i:Z) : list Z := slice vals (nthZ offs i) (nthZ offs (i + 1)).
Definition encode (strs:list (list Z)) : list Z * list Z := (psums (map len strs), concat strs).
(* Session.apply_index(idx, indexed field) -> (indices, values) *)
Definition apply_index_str (idx offs vals:list Z) : list Z * list Z :=
  encode (map (cell offs vals) idx).

(* ---- journal_table: journal.py:38-130 ------------------------------------------------ *)
Inductive col : Type :=
| NumCol (d:list Z)
| StrCol (offs vals:list Z).

Definition count_true (l:list bool) : Z := len (filter (fun b => b) l).

(* first loop over the common fields: accumulate to_keep *)
Fixpoint compare_fields (osi nsi old_map new_map:list Z) (fields:list (col * col)) (to_keep:list bool)
  : res (list bool) :=
  match fields with
  | [] => Ok to_keep
  | (NumCol od, NumCol nd) :: t =>
    do tk <- compare_rows old_map new_map (take od osi) (take nd nsi) to_keep;
    compare_fields osi nsi old_map new_map t tk
  | (StrCol oo ov, StrCol no nv) :: t =>
    let '(oi_, ov_) := apply_index_str osi oo ov in
    let '(ni_, nv_) := apply_index_str nsi no nv in
    do tk <- compare_indexed_rows old_map new_map oi_ ov_ ni_ nv_ to_keep;
    compare_fields osi nsi old_map new_map t tk
  | _ :: _ => Raise E_TypeError      (* old and new field of different kinds: outside the modelled domain *)
  end.

(* second loop: one destination column per field *)
Fixpoint merge_fields (fuel:nat) (osi nsi old_map new_map:list Z) (to_keep:list bool) (merged_length:Z)
  (fields:list (col * col)) : res (list col) :=
  match fields with
  | [] => Ok []
  | (NumCol od, NumCol nd) :: t =>
    let dest := repeat 0 (Z.to_nat merged_length) in
    do d <- merge_entries fuel old_map new_map to_keep (take od osi) (take nd nsi) dest;
    do r <- merge_fields fuel osi nsi old_map new_map to_keep merged_length t;
    Ok (NumCol d :: r)
  | (StrCol oo ov, StrCol no nv) :: t =>
    let '(oi_, ov_) := apply_index_str osi oo ov in
    let '(ni_, nv_) := apply_index_str nsi no nv in
    let dest_i := repeat 0 (Z.to_nat (merged_length + 1)) in
    do val_count <- merge_indexed_count fuel old_map new_map to_keep oi_ ni_;
    let dest_v := repeat 0 (Z.to_nat val_count) in
    do '(di, dv) <- merge_indexed fuel old_map new_map to_keep oi_ ov_ ni_ nv_ dest_i dest_v;
    do r <- merge_fields fuel osi nsi old_map new_map to_keep merged_length t;
    Ok (StrCol di dv :: r)
  | _ :: _ => Raise E_TypeError
  end.

(* okeys / ovf: the primary key and j_valid_from of the old table; nkeys: primary key of the
   snapshot; fields: the common payload fields in schema order (old column, new column). *)
(* everything after the two sort indices have been computed *)
Definition journal_core (fuel:nat) (old_sorted_index new_sorted_index okeys nkeys:list Z)
  (fields:list (col * col)) : res (list col) :=
  let old_ids_ := take okeys old_sorted_index in
  let new_ids_ := take nkeys new_sorted_index in
  do '(old_map, new_map) <- gen_indices fuel old_ids_ new_ids_;
  let to_keep0 := repeat false (length old_map) in
  do to_keep <- compare_fields old_sorted_index new_sorted_index old_map new_map fields to_keep0;
  let merged_length := len okeys + count_true to_keep in
  merge_fields fuel old_sorted_index new_sorted_index old_map new_map to_keep merged_length fields.

Definition journal_table (fuel:nat) (okeys ovf nkeys:list Z) (fields:list (col * col)) : res (list col) :=
  let old_sorted_index := dataset_sort_index [okeys; ovf] in
  let new_sorted_index := dataset_sort_index [nkeys] in
  journal_core fuel old_sorted_index new_sorted_index okeys nkeys fields.

Definition journal_fuel (okeys nkeys:list Z) : nat := S (length okeys + length nkeys).
