(* Model/Dates.v — exetera/processing/date_time_helpers.py (C20).
   Times are integer ticks (`tps` ticks per second; the harness uses tps = 1 and 4, i.e.
   timestamps that are exact binary64 values, for which floor((t-m)/86400.0) is the
   integer floor division — see DESIGN §5.C20).  Proof-free file. *)
From Coq Require Import ZArith List Bool.
From EV Require Import Res Arr.
Import ListNotations.
Open Scope Z_scope.

(* ---- get_periods: lines 10-63 ------------------------------------------------ *)
(* dates = [start]; cur = start + td; while cur <= end (delta>0) / cur >= end (delta<0) *)
Fixpoint periods_loop (fuel:nat) (up:bool) (cur e td:Z) (acc:list Z) : res (list Z) :=
  match fuel with
  | O => OutOfFuel
  | S f =>
    if (if up then cur <=? e else cur >=? e)
    then periods_loop f up (cur + td) e td (cur :: acc)
    else Ok (rev acc)
  end.

(* unit = ticks in one period unit (day or week), delta = the integer multiplier *)
Definition get_periods (fuel:nat) (s e unit delta:Z) : res (list Z) :=
  if delta =? 0 then Raise E_ValueError
  else if (delta <? 0) && (s <? e) then Raise E_ValueError
  else if (0 <? delta) && (e <? s) then Raise E_ValueError
  else periods_loop fuel (0 <? delta) (s + unit * delta) e (unit * delta) [s].

Definition periods_fuel (s e unit delta:Z) : nat :=
  Z.to_nat (Z.abs (e - s) / Z.abs (unit * delta) + 2).

(* ---- get_days: lines 65-115 --------------------------------------------------- *)
Fixpoint minimum (l:list Z) : option Z :=
  match l with
  | [] => None
  | x :: t => match minimum t with None => Some x | Some m => Some (Z.min x m) end
  end.

Fixpoint mask {A} (l:list A) (m:list bool) : list A :=
  match l, m with
  | x :: t, b :: mt => if b then x :: mask t mt else mask t mt
  | _, _ => []
  end.

Definition day_of (dlen:Z) (origin t:Z) : Z := (t - origin) / dlen.

(* filter: None or a list of flags (int8 / bool, non-zero = selected; after the fix of
   F-C20a the int8 form is converted with astype(bool) first).  A filter whose length
   differs from the field's makes numpy raise (IndexError / ValueError): Raise. *)
Definition get_days (dlen:Z) (ts:list Z) (flt:option (list bool)) (s e:option Z)
  : res (list Z * option (list bool)) :=
  match flt, s, e with
  | None, None, None =>
    match minimum ts with
    | None => Raise E_ValueError
    | Some m => Ok (map (day_of dlen m) ts, None)
    end
  | _, _, _ =>
    do in0 <- match flt with
              | None => Ok (map (fun _ => true) ts)
              | Some f => if len f =? len ts then Ok f else Raise E_IndexError
              end;
    do '(origin, in1) <-
       match s with
       | Some sd => Ok (sd, map (fun p => (fst p) && (sd <=? snd p)) (combine in0 ts))
       | None =>
         match minimum (match flt with None => ts | Some f => mask ts f end) with
         | None => Raise E_ValueError
         | Some m => Ok (m, in0)
         end
       end;
    let in2 := match e with
               | Some ed => map (fun p => (fst p) && (snd p <? ed)) (combine in1 ts)
               | None => in1
               end in
    Ok (map (day_of dlen origin) ts, Some in2)
  end.

(* ---- generate_period_offset_map: lines 118-141 -------------------------------- *)
(* numpy slice-bound normalisation for an array of length n *)
Definition norm_bound (n a:Z) : Z :=
  if a <? 0 then Z.max 0 (a + n) else Z.min a n.

(* arr[a:b] = v *)
Definition slice_assign (arr:list Z) (a b v:Z) : list Z :=
  let n := len arr in
  let a' := norm_bound n a in
  let b' := norm_bound n b in
  if a' <? b' then
    firstn (Z.to_nat a') arr ++ repeat v (Z.to_nat (b' - a')) ++ skipn (Z.to_nat b') arr
  else arr.

Fixpoint fill_periods (deltas:list Z) (i:Z) (arr:list Z) : list Z :=
  match deltas with
  | d0 :: ((d1 :: _) as t) => fill_periods t (i + 1) (slice_assign arr d0 d1 i)
  | _ => arr
  end.

(* ticks -> whole days as timedelta.days does (floor) *)
Definition period_deltas (dlen:Z) (periods:list Z) : list Z :=
  match periods with
  | [] => []
  | p0 :: _ => map (fun p => (p - p0) / dlen) periods
  end.

Definition generate_period_offset_map (dlen:Z) (periods:list Z) : res (list Z) :=
  match periods with
  | [] => Raise E_IndexError         (* periods[0] on an empty list *)
  | _ =>
    let ds := period_deltas dlen periods in
    let total := last ds 0 in
    if total <? 0 then Raise E_ValueError   (* np.zeros(negative) *)
    else Ok (fill_periods ds 0 (repeat 0 (Z.to_nat total)))
  end.

(* ---- get_period_offsets: lines 144-186 ---------------------------------------- *)
(* numpy integer indexing arr[k]: negative k wraps once, else IndexError *)
Definition np_index (site:Z) (arr:list Z) (k:Z) : res Z :=
  if k <? 0 then get site arr (k + len arr) else get site arr k.

Fixpoint map_res {A B} (f:A -> res B) (l:list A) : res (list B) :=
  match l with
  | [] => Ok (@nil B)
  | x :: t => do y <- f x; do t' <- map_res f t; Ok (y :: t')
  end.

Definition get_period_offsets (pbd days:list Z) (in_range:option (list bool)) : res (list Z) :=
  match in_range with
  | None => map_res (np_index 1 pbd) days
  | Some fl =>
    if negb (len fl =? len days) then Raise E_ValueError
    else
      let idx := map (fun p:bool*Z => if fst p then snd p else 0) (combine fl days) in
      do per <- map_res (np_index 2 pbd) idx;
      Ok (map (fun p:bool*Z => if fst p then snd p else -1) (combine fl per))
  end.
