(* Model/Dates.v — exetera/processing/date_time_helpers.py (C20).
   Times are integer ticks (`tps` ticks per second; the harness uses tps = 1 and 4, i.e.
   timestamps that are exact binary64 values, for which floor((t-m)/86400.0) is the
   integer floor division — see DESIGN §5.C20).  Proof-free file. *)
From Coq Require Import ZArith List Bool.
From EV Require Import Res Arr.
Import ListNotations.
Open Scope Z_scope.

(* ---- get_periods: lines 10-63 ------------------------------------------------ *)
(* dates = [start]; cur = start + td; while cur <= end (delta>0) / cur >= end (delta<0) *)
Fixpoint periods_loop (fuel:nat) (up:bool) (cur e td:Z) (acc:list Z) : res (list Z) :=
  match fuel with
  | O => OutOfFuel
  | S f =>
    if (if up then cur <=? e else cur >=? e)
    then periods_loop f up (cur + td) e td (cur :: acc)
    else Ok (rev acc)
  end.

(* unit = ticks in one period unit (day or week), delta = the integer multiplier *)
Definition get_periods (fuel:nat) (s e unit delta:Z) : res (list Z) :=
  if delta =? 0 then Raise E_ValueError
  else if (delta <? 0) && (s <? e) then Raise E_ValueError
  else if (0 <? delta) && (e <? s) then Raise E_ValueError
  else periods_loop fuel (0 <? delta) (s + unit * delta) e (unit * delta) [s].

Definition periods_fuel (s e unit delta:Z) : nat :=
  Z.to_nat (Z.abs (e - s) / Z.abs (unit * delta) + 2).

(* ---- get_days: lines 65-115 --------------------------------------------------- *)
Fixpoint minimum (l:list Z) : option Z :=
  match l with
  | [] => None
  | x :: t => match minimum t with None => Some x | Some m => Some (Z.min x m) end
  end.

Fixpoint mask {A} (l:list A) (m:list bool) : list A :=
  match l, m with
  | x :: t, b :: mt => if b then x :: mask t mt else mask t mt
  | _, _ => []
  end.

Definition day_of (dlen:Z) (origin t:Z) : Z := (t - origin) / dlen.

(* numpy broadcasting of a binary elementwise operation over two 1-d arrays: equal lengths
   zip; a length-1 operand is stretched to the other's length (also to length 0); anything
   else is "operands could not be broadcast together" (ValueError). *)
Definition bcast {A B C} (f:A -> B -> C) (la:list A) (lb:list B) : res (list C) :=
  if len la =? len lb then Ok (map (fun p => f (fst p) (snd p)) (combine la lb))
  else match la, lb with
       | [a], _ => Ok (map (f a) lb)
       | _, [b] => Ok (map (fun a => f a b) la)
       | _, _ => Raise E_ValueError
       end.

(* filter: None or a list of flags (int8 / bool, non-zero = selected; after the fix of
   F-C20a the int8 form is converted with astype(bool) first).
   A filter whose length differs from the field's is outside the property, but it is modelled
   as the code behaves: `in_range & (date_field >= start)` broadcasts (length-1 operand) or
   raises ValueError; `date_field[date_filter]` raises IndexError, except that numpy accepts
   an EMPTY boolean mask on an array of any length and selects nothing (found by the
   correspondence run). *)
Definition get_days (dlen:Z) (ts:list Z) (flt:option (list bool)) (s e:option Z)
  : res (list Z * option (list bool)) :=
  match flt, s, e with
  | None, None, None =>
    match minimum ts with
    | None => Raise E_ValueError
    | Some m => Ok (map (day_of dlen m) ts, None)
    end
  | _, _, _ =>
    let in0 := match flt with
               | None => map (fun _ => true) ts
               | Some f => f
               end in
    do '(origin, in1) <-
       match s with
       | Some sd =>
         do r <- bcast andb in0 (map (fun t => sd <=? t) ts);
         Ok (sd, r)
       | None =>
         do sel <- match flt with
                   | None => Ok ts
                   | Some f => if (len f =? len ts) || (len f =? 0) then Ok (mask ts f)
                               else Raise E_IndexError
                   end;
         match minimum sel with
         | None => Raise E_ValueError
         | Some m => Ok (m, in0)
         end
       end;
    do in2 <- match e with
              | Some ed => bcast andb in1 (map (fun t => t <? ed) ts)
              | None => Ok in1
              end;
    Ok (map (day_of dlen origin) ts, Some in2)
  end.

(* ---- generate_period_offset_map: lines 118-141 -------------------------------- *)
(* numpy slice-bound normalisation for an array of length n *)
Definition norm_bound (n a:Z) : Z :=
  if a <? 0 then Z.max 0 (a + n) else Z.min a n.

(* arr[a:b] = v *)
Definition slice_assign (arr:list Z) (a b v:Z) : list Z :=
  let n := len arr in
  let a' := norm_bound n a in
  let b' := norm_bound n b in
  if a' <? b' then
    firstn (Z.to_nat a') arr ++ repeat v (Z.to_nat (b' - a')) ++ skipn (Z.to_nat b') arr
  else arr.

Fixpoint fill_periods (deltas:list Z) (i:Z) (arr:list Z) : list Z :=
  match deltas with
  | d0 :: ((d1 :: _) as t) => fill_periods t (i + 1) (slice_assign arr d0 d1 i)
  | _ => arr
  end.

(* ticks -> whole days as timedelta.days does (floor) *)
Definition period_deltas (dlen:Z) (periods:list Z) : list Z :=
  match periods with
  | [] => []
  | p0 :: _ => map (fun p => (p - p0) / dlen) periods
  end.

Definition generate_period_offset_map (dlen:Z) (periods:list Z) : res (list Z) :=
  match periods with
  | [] => Raise E_IndexError         (* periods[0] on an empty list *)
  | _ =>
    let ds := period_deltas dlen periods in
    let total := last ds 0 in
    if total <? 0 then Raise E_ValueError   (* np.zeros(negative) *)
    else Ok (fill_periods ds 0 (repeat 0 (Z.to_nat total)))
  end.

(* ---- get_period_offsets: lines 144-186 ---------------------------------------- *)
(* numpy integer indexing arr[k]: negative k wraps once, else IndexError *)
Definition np_index (site:Z) (arr:list Z) (k:Z) : res Z :=
  if k <? 0 then get site arr (k + len arr) else get site arr k.

Fixpoint map_res {A B} (f:A -> res B) (l:list A) : res (list B) :=
  match l with
  | [] => Ok (@nil B)
  | x :: t => do y <- f x; do t' <- map_res f t; Ok (y :: t')
  end.

(* periods = np.full(len(days), -1); periods[in_range] = values  (boolean-mask assignment) *)
Fixpoint scatter (days:list Z) (fl:list bool) (vals:list Z) : list Z :=
  match days with
  | [] => []
  | _ :: dt =>
    match fl with
    | true :: ft =>
      match vals with
      | v :: vt => v :: scatter dt ft vt
      | [] => -1 :: scatter dt ft []
      end
    | false :: ft => -1 :: scatter dt ft vals
    | [] => -1 :: scatter dt [] vals
    end
  end.

(* after the fix of F-C20c only the in-range days index the map:
     in_range = np.asarray(in_range, dtype=bool)
     periods = np.full(len(days), -1, dtype=periods_by_day.dtype)
     periods[in_range] = periods_by_day[days[in_range]]
   `days[in_range]` with a boolean mask of another length raises IndexError, except that numpy
   accepts an empty mask (selects nothing). *)
Definition get_period_offsets (pbd days:list Z) (in_range:option (list bool)) : res (list Z) :=
  match in_range with
  | None => map_res (np_index 1 pbd) days
  | Some fl =>
    if (len fl =? len days) || (len fl =? 0) then
      do vals <- map_res (np_index 2 pbd) (mask days fl);
      Ok (scatter days fl vals)
    else Raise E_IndexError
  end.

(* ---- the code BEFORE the fixes, kept only to state the `_refuted` theorems ---- *)
(* F-C20c: get_period_offsets indexed the map for every entry (0 where the flag is off):
     periods = np.where(in_range, days, 0); periods = periods_by_day[periods];
     periods = np.where(in_range, periods, -1) *)
Definition get_period_offsets_prefix (pbd days:list Z) (fl:list bool) : res (list Z) :=
  do idx <- bcast (fun (b:bool) (d:Z) => if b then d else 0) fl days;
  do per <- map_res (np_index 2 pbd) idx;
  bcast (fun (b:bool) (p:Z) => if b then p else -1) fl per.

(* F-C20a: an int8 filter was used as an integer index array: min(date_field[[0,0,1,1]]) *)
Definition get_days_origin_int8_prefix (ts:list Z) (f:list bool) : res Z :=
  do sel <- map_res (fun b:bool => np_index 3 ts (if b then 1 else 0)) f;
  match minimum sel with
  | None => Raise E_ValueError
  | Some m => Ok m
  end.
