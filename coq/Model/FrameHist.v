(* Model/FrameHist.v — C09: HISTORIES that cross entry-point levels on one dataframe object.  Proof-free, executable.

   The real code keeps no state between two calls: DataFrame.sort_values / apply_filter / apply_index and
   Session.sort_on read `field.data[:]` of the columns at the time of the call, and a Field object holds nothing
   but its HDF5 datasets.  A history is therefore a fold over the CURRENT world of frames: every dataframe- or
   session-level call is the call of Model/FilterIndex.v (run_step) ALONE on the frames as they are at that moment,
   and the rows may be changed BELOW the dataframe between two such calls:

     FCall s                      df.apply_filter / apply_index / sort_values (in place or into ddf),
                                  Session.sort_on(df, df | other, keys)                          (FilterIndex.step)
     FWrite src name body         df[name].data[:] = new   |   df[name].data.clear(); df[name].data.write(new)
                                  (same Field object: the stored content is replaced, metadata and write flag stay)
     FFieldIndex src name idx     df[name].apply_index(idx, in_place=True)                       (one column)
     FFieldFilter src name dt flt df[name].apply_filter(flt, in_place=True)                      (one column)
     FSessIndex src name idx      session.apply_index(idx, df[name], dest=df[name])              (one column; source
                                  and destination are the same Field: FieldDataOps reads source.data[:][idx] completely
                                  before `target.data[:] = dest` / clear()+write(dest))

   Any memo kept on the dataframe, on a field or on the session between two calls (a "sorted by" flag, a cached
   permutation, a cached key array) makes the real code differ from this fold. *)
From Coq Require Import ZArith List Bool.
From EV Require Import Res Arr StableSort FilterIndex.
Import ListNotations.
Open Scope Z_scope.

Inductive fev : Type :=
| FCall (s:step)
| FWrite (src name:Z) (b:body)
| FFieldIndex (src name:Z) (idx:list Z)
| FFieldFilter (src name:Z) (dt:Z) (flt:list Z)
| FSessIndex (src name:Z) (idx:list Z).

(* self._columns[name] = op(self._columns[name]): the Field object stays at its place in the ordered dict;
   df[name] of a missing name: ValueError ("There is no field named ...") *)
Fixpoint fh_update (name:Z) (op:field -> res field) (cols:frame) : res frame :=
  match cols with
  | [] => Raise E_ValueError
  | (m, f) :: t =>
    if m =? name then do f' <- op f; Ok ((m, f') :: t)
    else do t' <- fh_update name op t; Ok ((m, f) :: t')
  end.

Definition fh_on_field (w:world) (src name:Z) (op:field -> res field) : res world :=
  do cols <- wget w src;
  do c' <- fh_update name op cols;
  wset w src c'.

Definition run_fev (w:world) (e:fev) : res world :=
  match e with
  | FCall s => run_step w s
  | FWrite src name b =>
    fh_on_field w src name (fun f => if fwr f then Ok (with_body f b) else Raise E_ValueError)
  | FFieldIndex src name idx =>
    fh_on_field w src name (fun f => do r <- field_apply_index f idx None true; Ok (r_src r))
  | FFieldFilter src name dt flt =>
    fh_on_field w src name (fun f => do r <- field_apply_filter f dt flt None true; Ok (r_src r))
  | FSessIndex src name idx =>
    fh_on_field w src name (fun f => do r <- field_apply_index f idx (Some f) false;
                                     match r_tgt r with Some t => Ok t | None => Raise E_Other end)
  end.

Fixpoint run_fhist (w:world) (evs:list fev) : res world :=
  match evs with
  | [] => Ok w
  | e :: t => do w' <- run_fev w e; run_fhist w' t
  end.
