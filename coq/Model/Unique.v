(* Model/Unique.v — C14: isin / unique.
     exetera/core/operations.py  unique_for_indexed_string, get_indexed_string_unique,
                                 isin_for_indexed_string_field, isin_indexed_string_speedup, compare_arrays
     exetera/core/fields.py      FieldDataOps.apply_isin / apply_unique (dispatch to numpy for non-indexed)
   An indexed string column is (indices, values): values = UTF-8 bytes, indices = row offsets
   (an empty field has indices = []).  Python `str`s are lists of code points.
   External components defined here in Gallina: numpy sort/argsort of a list of `str` (numpy `U`
   dtype: code-point order, trailing NULs not significant; stable insertion sort), CPython's
   strict UTF-8 codec, np.unique / np.isin (for the non-indexed dispatch).
   Proof-free file. *)
From Coq Require Import ZArith List Bool.
From EV Require Import Res Arr UniqueSpec.
Import ListNotations.
Open Scope Z_scope.

(* ---- generic helpers ------------------------------------------------------------ *)
Fixpoint map_res {A B} (f:A -> res B) (l:list A) : res (list B) :=
  match l with
  | [] => Ok (@nil B)
  | x :: t => do y <- f x; do t' <- map_res f t; Ok (y :: t')
  end.

Section Sort.
Context {A:Type} (le:A -> A -> bool).
Fixpoint insert (x:A) (l:list A) : list A :=
  match l with
  | [] => [x]
  | y :: t => if le x y then x :: l else y :: insert x t
  end.
(* stable: an element goes in front of the equal elements that followed it *)
Fixpoint isort (l:list A) : list A :=
  match l with [] => [] | x :: t => insert x (isort t) end.
End Sort.

Fixpoint iota (start:Z) (n:nat) : list Z :=
  match n with O => [] | S n' => start :: iota (start + 1) n' end.

Definition argsort {A} (le:A -> A -> bool) (l:list A) : list Z :=
  map snd (isort (fun p q : A * Z => le (fst p) (fst q)) (combine l (iota 0 (length l)))).

(* numpy slice-bound normalisation for a[lo:hi] on an array of length n *)
Definition norm_bound (n a:Z) : Z := if a <? 0 then Z.max 0 (a + n) else Z.min a n.
Definition np_slice {A} (l:list A) (a b:Z) : list A :=
  slice l (norm_bound (len l) a) (norm_bound (len l) b).

(* ---- UTF-8 (CPython strict codec) ------------------------------------------------ *)
Definition scalarb (c:Z) : bool :=
  ((0 <=? c) && (c <? 55296)) || ((57344 <=? c) && (c <? 1114112)).

Definition utf8_enc1 (c:Z) : list Z :=
  if c <? 128 then [c]
  else if c <? 2048 then [192 + c / 64; 128 + c mod 64]
  else if c <? 65536 then [224 + c / 4096; 128 + (c / 64) mod 64; 128 + c mod 64]
  else [240 + c / 262144; 128 + (c / 4096) mod 64; 128 + (c / 64) mod 64; 128 + c mod 64].

Definition utf8_encode (s:list Z) : list Z := concat (map utf8_enc1 s).

Definition contb (b:Z) : bool := (128 <=? b) && (b <? 192).

Fixpoint utf8_decode (l:list Z) : option (list Z) :=
  match l with
  | [] => Some []
  | b0 :: r0 =>
    if (0 <=? b0) && (b0 <? 128) then option_map (cons b0) (utf8_decode r0)
    else if (194 <=? b0) && (b0 <? 224) then
      match r0 with
      | b1 :: r1 =>
        if contb b1 then option_map (cons ((b0 - 192) * 64 + (b1 - 128))) (utf8_decode r1) else None
      | _ => None
      end
    else if (224 <=? b0) && (b0 <? 240) then
      match r0 with
      | b1 :: b2 :: r2 =>
        let c := (b0 - 224) * 4096 + (b1 - 128) * 64 + (b2 - 128) in
        if contb b1 && contb b2 && (2048 <=? c) && scalarb c
        then option_map (cons c) (utf8_decode r2) else None
      | _ => None
      end
    else if (240 <=? b0) && (b0 <? 245) then
      match r0 with
      | b1 :: b2 :: b3 :: r3 =>
        let c := (b0 - 240) * 262144 + (b1 - 128) * 4096 + (b2 - 128) * 64 + (b3 - 128) in
        if contb b1 && contb b2 && contb b3 && (65536 <=? c) && (c <? 1114112)
        then option_map (cons c) (utf8_decode r3) else None
      | _ => None
      end
    else None
  end.

(* x.tobytes().decode() for every x; UnicodeDecodeError is a ValueError *)
Definition decode_all (l:list (list Z)) : res (list (list Z)) :=
  map_res (fun b => match utf8_decode b with Some s => Ok s | None => Raise E_ValueError end) l.

(* ---- numpy arrays of str ("U" dtype) --------------------------------------------- *)
(* converting a list of str to a numpy array pads with NULs, reading back strips trailing NULs *)
Fixpoint drop_zeros (l:list Z) : list Z :=
  match l with
  | [] => []
  | x :: t => if x =? 0 then drop_zeros t else l
  end.
Definition strip_nul (s:list Z) : list Z := rev (drop_zeros (rev s)).

Definition np_sort_str (l:list (list Z)) : list (list Z) := isort lexle (map strip_nul l).
Definition np_argsort_str (l:list (list Z)) : list Z := argsort lexle (map strip_nul l).

(* ---- compare_arrays -------------------------------------------------------------- *)
Fixpoint compare_loop (n:nat) (a b:list Z) (i:Z) : res (option Z) :=
  match n with
  | O => Ok None
  | S n' =>
    do x <- get 1 a i;
    do y <- get 2 b i;
    if x <? y then Ok (Some (-1))
    else if y <? x then Ok (Some 1)
    else compare_loop n' a b (i + 1)
  end.

Definition compare_arrays (a b:list Z) : res Z :=
  do r <- compare_loop (Z.to_nat (Z.min (len a) (len b))) a b 0;
  match r with
  | Some c => Ok c
  | None => if len a <? len b then Ok (-1) else if len b <? len a then Ok 1 else Ok 0
  end.

(* ---- isin_indexed_string_speedup -------------------------------------------------- *)
Fixpoint bsearch (fuel:nat) (v:list Z) (tests:list (list Z)) (start end_:Z) : res bool :=
  match fuel with
  | O => OutOfFuel
  | S f =>
    if start <=? end_ then
      let mid := (start + end_) / 2 in
      do t <- get 3 tests mid;
      do c <- compare_arrays v t;
      if c =? 0 then Ok true
      else if c =? 1 then bsearch f v tests (mid + 1) end_
      else bsearch f v tests start (mid - 1)
    else Ok false
  end.

Fixpoint isin_rows (fuel:nat) (n:nat) (i:Z) (tests:list (list Z)) (indices values:list Z)
  : res (list bool) :=
  match n with
  | O => Ok []
  | S n' =>
    do a <- get 4 indices i;
    do b <- get 5 indices (i + 1);
    let v := np_slice values a b in
    do r <- bsearch fuel v tests 0 (len tests - 1);
    do rest <- isin_rows fuel n' (i + 1) tests indices values;
    Ok (r :: rest)
  end.

Definition isin_indexed_string_speedup (fuel:nat) (tests:list (list Z)) (indices values:list Z)
  : res (list bool) :=
  isin_rows fuel (Z.to_nat (len indices - 1)) 0 tests indices values.

Definition isin_fuel (tests:list (list Z)) : nat := S (length tests).

(* isin_for_indexed_string_field: test_elements is None, or a list of str / None *)
Definition isin_for_indexed_string_field (fuel:nat) (tests:option (list (option (list Z))))
           (indices values:list Z) : res (list bool) :=
  match tests with
  | None => Raise E_TypeError
  | Some ts =>
    let ts1 := somes ts in
    if len ts1 =? 0 then Ok (repeat false (Z.to_nat (len indices - 1)))
    else
      let sorted := np_sort_str ts1 in
      (* x.encode(): lone surrogates make CPython raise UnicodeEncodeError (a ValueError) *)
      if forallb (forallb scalarb) sorted
      then isin_indexed_string_speedup fuel (map utf8_encode sorted) indices values
      else Raise E_ValueError
  end.

(* ---- get_indexed_string_unique ---------------------------------------------------- *)
Record ustate := mkU {
  u_lens : list Z;            (* lengths_seen *)
  u_res : list (list Z);      (* unique_result *)
  u_idx : list Z;             (* unique_index   (stays [] when not requested) *)
  u_inv : list Z;             (* unique_inverse *)
  u_cnt : list Z              (* unique_counts  *)
}.

Fixpoint list_eqb (a b:list Z) : bool :=
  match a, b with
  | [], [] => true
  | x :: a', y :: b' => (x =? y) && list_eqb a' b'
  | _, _ => false
  end.

(* for j, unique_v in enumerate(unique_result): if np.array_equal(v, unique_v): ... break *)
Fixpoint find_equal (v:list Z) (us:list (list Z)) (j:Z) : option Z :=
  match us with
  | [] => None
  | u :: t => if list_eqb v u then Some j else find_equal v t (j + 1)
  end.

Definition add_new (wi wv wc:bool) (i:Z) (v:list Z) (lens:list Z) (s:ustate) : ustate :=
  let r := u_res s ++ [v] in
  mkU lens r
      (if wi then u_idx s ++ [i] else u_idx s)
      (if wv then u_inv s ++ [len r - 1] else u_inv s)
      (if wc then u_cnt s ++ [1] else u_cnt s).

Definition uniq_step (wi wv wc:bool) (indices values:list Z) (s:ustate) (i:Z) : res ustate :=
  do b <- get 6 indices (i + 1);
  do a <- get 7 indices i;
  let length := b - a in
  let v := np_slice values a b in
  if negb (existsb (Z.eqb length) (u_lens s))
  then Ok (add_new wi wv wc i v (length :: u_lens s) s)
  else
    match find_equal v (u_res s) 0 with
    | Some j =>
      do cnt <- (if wc then (do old <- get 8 (u_cnt s) j; set 9 (u_cnt s) j (old + 1)) else Ok (u_cnt s));
      Ok (mkU (u_lens s) (u_res s) (u_idx s) (if wv then u_inv s ++ [j] else u_inv s) cnt)
    | None => Ok (add_new wi wv wc i v (u_lens s) s)
    end.

Fixpoint uniq_loop (wi wv wc:bool) (indices values:list Z) (n:nat) (i:Z) (s:ustate) : res ustate :=
  match n with
  | O => Ok s
  | S n' => do s' <- uniq_step wi wv wc indices values s i;
            uniq_loop wi wv wc indices values n' (i + 1) s'
  end.

Definition get_indexed_string_unique (wi wv wc:bool) (indices values:list Z) : res ustate :=
  uniq_loop wi wv wc indices values (Z.to_nat (len indices - 1)) 0 (mkU [-1] [] [] [] []).

(* ---- unique_for_indexed_string ---------------------------------------------------- *)
(* sort_ranks = np.empty(m); sort_ranks[indices_sort] = np.arange(m)   (the repair of F-C14a) *)
Fixpoint scatter (isort:list Z) (k:Z) (ranks:list Z) : res (list Z) :=
  match isort with
  | [] => Ok ranks
  | p :: t => do r' <- set 10 ranks p k; scatter t (k + 1) r'
  end.

Definition sresult : Type := uresult (A:=list Z).

(* fixed = false: the code as found (inverse composed with indices_sort itself);
   fixed = true : the repaired code (inverse composed with the inverse permutation). *)
Definition unique_for_indexed_string (fixed:bool) (indices values:list Z) (ri rv rc:bool) : res sresult :=
  do s <- get_indexed_string_unique ri rv rc indices values;
  do strs <- decode_all (u_res s);
  let sorted := np_sort_str strs in
  if negb (ri || rv || rc) then Ok (sorted, None, None, None)
  else
    let isort := np_argsort_str strs in
    do idx <- (if ri then (do r <- map_res (get 11 (u_idx s)) isort; Ok (Some r)) else Ok None);
    do inv <- (if rv then
                 (do table <- (if fixed then scatter isort 0 (repeat 0 (length isort)) else Ok isort);
                  do r <- map_res (get 12 table) (u_inv s); Ok (Some r))
               else Ok None);
    do cnt <- (if rc then (do r <- map_res (get 13 (u_cnt s)) isort; Ok (Some r)) else Ok None);
    Ok (sorted, idx, inv, cnt).

(* what the caller sees as bytes (the harness re-encodes the returned str values) *)
Definition encode_result (r:sresult) : sresult :=
  match r with (u, i, v, c) => (map utf8_encode u, i, v, c) end.

(* ---- the non-indexed dispatch of FieldDataOps.apply_isin / apply_unique ------------- *)
(* `np.isin(source.data[:], test_elements)` / `np.unique(src.data[:], ...)`.  numpy is external:
   its behaviour is DEFINED here as the specification functions of Spec/UniqueSpec.v over the
   carrier order (Z.compare for numeric / categorical / timestamp ticks, lexcmp for fixed
   strings); that numpy really behaves so is established by the correspondence run only. *)
Definition apply_unique_plain {A} (cmp:A -> A -> comparison) (data:list A) (ri rv rc:bool) :=
  spec_unique cmp data ri rv rc.
Definition apply_isin_plain {A} (cmp:A -> A -> comparison) (data:list A) (tests:list (option A)) :=
  spec_isin cmp data tests.

(* ---- FieldDataOps._exact_integer_tests (repair of F-C14c) ------------------------------ *)
(* Integer columns (numeric int*/uint*, categorical): when every test value is None or an integer,
   the None entries are dropped, the integers that the column's dtype [lo, hi] cannot hold are
   dropped, and the rest is handed to np.isin as an array of the column's own dtype (so numpy
   never types the test values as float64 / object and never merges int64 with uint64).
   np.isin on two arrays of ONE integer dtype is defined as membership, as above. *)
Definition in_dtype (lo hi x:Z) : bool := (lo <=? x) && (x <=? hi).
Definition exact_integer_tests (lo hi:Z) (tests:list (option Z)) : list (option Z) :=
  map Some (filter (in_dtype lo hi) (somes tests)).
Definition apply_isin_int (lo hi:Z) (data:list Z) (tests:list (option Z)) : list bool :=
  apply_isin_plain Z.compare data (exact_integer_tests lo hi tests).

(* what an implicit dtype coercion `c` of column and test values would compute (int64 -> float64
   because a None entry became NaN, int64 <-> uint64 reinterpretation, narrowing ...) *)
Definition isin_coerced (c:Z -> Z) (data:list Z) (tests:list (option Z)) : list bool :=
  spec_isin Z.compare (map c data) (map (option_map c) tests).
(* binary64 rounding of an integer of magnitude < 2^54 (round half to even; spacing 2 above 2^53) *)
Definition f64_round (z:Z) : Z :=
  if Z.abs z <=? 2 ^ 53 then z
  else let q := z / 2 in
       if Z.even z then z else if Z.even q then 2 * q else 2 * (q + 1).
(* two's complement reinterpretation at width w (int64 <-> uint64, narrowing to int32 ...) *)
Definition wrap_signed (w:Z) (z:Z) : Z := (z + 2 ^ (w - 1)) mod 2 ^ w - 2 ^ (w - 1).
