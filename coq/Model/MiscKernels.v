(* Model/MiscKernels.v — the kernels of exetera/core/operations.py (and the loop helpers of utils.py) that no
   other property's model covers (DESIGN §5.C10 "not modelled"), statement by statement, at the repaired tree
   (fixes F-C10a: ordered_get_last_as_filter on an empty array; F-C10b: data_iterator window index).
   Where a repair changed the code the model keeps a switch `fixed` (false = the code as found).
   Proof-free file; every array access of a kernel goes through get/set (OOB site numbers 100-199).

   compiled (@exetera_njit):
     chunks                                      operations.py:85-92      generator, sites -
     ordered_left_map_result_size                operations.py:2244-2272  sites 110-115
     ordered_outer_map_result_size_both_unique   operations.py:2301-2321  sites 120-121
     ordered_inner_map_left_unique_partial       operations.py:2381-2406  sites 130-135
     ordered_get_last_as_filter                  operations.py:2457-2464  sites 140-143
     streaming_sort_partial                      operations.py:2667-2691  sites 150-163
   interpreted drivers / loop helpers:
     ordered_inner_map_left_unique_streamed      operations.py:2342-2378  (driver of ..._left_unique_partial)
     data_iterator                               operations.py:656-663    site 170
     foreign_key_is_in_primary_key / _filter_non_orphaned_foreign_keys     operations.py:96-124   site 180
     filter_duplicate_fields / _filter_duplicate_fields                    operations.py:127-146  sites 185-187
     count_flag_empty / count_flag_not_set / count_flag_set                utils.py:70-91         (no indexing) *)
From Coq Require Import ZArith List Bool.
From EV Require Import Res Arr.
Import ListNotations.
Open Scope Z_scope.

Definition E_StopIteration : Z := E_Other.   (* next() on an exhausted generator *)

(* ------------------------------------------------------------------ chunks *)
(* def chunks(length, chunksize): cur = 0
     while cur < length: next_ = min(length, cur + chunksize); yield cur, next_; cur = next_
   the generator consumed to the end: the list of yielded pairs *)
Fixpoint chunks_loop (fuel:nat) (length_ cs cur:Z) : res (list (Z * Z)) :=
  match fuel with
  | O => OutOfFuel
  | S f =>
    if cur <? length_ then
      let next_ := Z.min length_ (cur + cs) in
      do rest <- chunks_loop f length_ cs next_;
      Ok ((cur, next_) :: rest)
    else Ok []
  end.
Definition chunks_fuel (length_:Z) : nat := S (Z.to_nat length_).
Definition chunks (fuel:nat) (length_ cs:Z) : res (list (Z * Z)) := chunks_loop fuel length_ cs 0.

(* next(it) for it = iter(chunks(length, cs)): the iterator state is the next start *)
Definition chunks_next (length_ cs cur:Z) : res ((Z * Z) * Z) :=
  if cur <? length_ then let next_ := Z.min length_ (cur + cs) in Ok ((cur, next_), next_)
  else Raise E_StopIteration.

(* ------------------------------------------------------------------ ordered_left_map_result_size *)
(* cnt = 1
   while k + 1 < len(a) and a[k + 1] == a[k]: cnt += 1; k += 1          returns (cnt, k) *)
Fixpoint run_count (fuel:nat) (s1 s2:Z) (a:list Z) (k cnt:Z) : res (Z * Z) :=
  match fuel with
  | O => OutOfFuel
  | S f =>
    if k + 1 <? len a then
      do x <- get s1 a (k + 1);
      do y <- get s2 a k;
      if x =? y then run_count f s1 s2 a (k + 1) (cnt + 1) else Ok (cnt, k)
    else Ok (cnt, k)
  end.

(* The `return result_size` of line 2267 is indented INSIDE the while loop: the body runs at most once.
   The model keeps that (a `while` whose body ends in `return` is an `if`). *)
Definition ordered_left_map_result_size (left right:list Z) : res Z :=
  let i := 0 in let j := 0 in let result_size := 0 in
  if (i <? len left) && (j <? len right) then
    do a <- get 110 left i;
    do b <- get 111 right j;
    if a <? b then Ok (result_size + 1)
    else if b <? a then Ok result_size
    else
      do '(ci, i1) <- run_count (S (length left)) 112 113 left i 1;
      do '(cj, j1) <- run_count (S (length right)) 114 115 right j 1;
      Ok (result_size + ci * cj)
  else
    if i <? len left then Ok (result_size + len left - i) else Ok result_size.

(* ------------------------------------------------------------------ ordered_outer_map_result_size_both_unique *)
Fixpoint outer_main (fuel:nat) (left right:list Z) (i j sz:Z) : res (Z * Z * Z) :=
  match fuel with
  | O => OutOfFuel
  | S f =>
    if (i <? len left) && (j <? len right) then
      do a <- get 120 left i;
      do b <- get 121 right j;
      if a <? b then outer_main f left right (i + 1) j (sz + 1)
      else if b <? a then outer_main f left right i (j + 1) (sz + 1)
      else outer_main f left right (i + 1) (j + 1) (sz + 1)
    else Ok (i, j, sz)
  end.

(* while i < n: i += 1; result_size += 1 *)
Fixpoint count_up (fuel:nat) (n i sz:Z) : res Z :=
  match fuel with
  | O => OutOfFuel
  | S f => if i <? n then count_up f n (i + 1) (sz + 1) else Ok sz
  end.

Definition outer_fuel (left right:list Z) : nat := S (length left + length right).
Definition ordered_outer_map_result_size_both_unique (fuel:nat) (left right:list Z) : res Z :=
  do '(i, j, sz) <- outer_main fuel left right 0 0 0;
  do sz1 <- count_up fuel (len left) i sz;
  count_up fuel (len right) j sz1.

(* ------------------------------------------------------------------ ordered_inner_map_left_unique_partial *)
(* while i < len(left) and j < len(right) and m < len(left_to_inner): ...   returns (i, j, m) and the buffers *)
Fixpoint ilu_loop (fuel:nat) (d_i d_j:Z) (left right lti rti:list Z) (i j m:Z)
  : res (Z * Z * Z * list Z * list Z) :=
  match fuel with
  | O => OutOfFuel
  | S f =>
    if (i <? len left) && (j <? len right) && (m <? len lti) then
      do a <- get 130 left i;
      do b <- get 131 right j;
      if a <? b then ilu_loop f d_i d_j left right lti rti (i + 1) j m
      else if b <? a then ilu_loop f d_i d_j left right lti rti i (j + 1) m
      else
        do lti' <- set 132 lti m (i + d_i);
        do rti' <- set 133 rti m (j + d_j);
        (* if j+1 >= len(right) or right[j+1] != right[j]: i += 1 *)
        do adv <- (if len right <=? j + 1 then Ok true
                   else do b1 <- get 134 right (j + 1); do b0 <- get 135 right j; Ok (negb (b1 =? b0)));
        ilu_loop f d_i d_j left right lti' rti' (if adv then i + 1 else i) (j + 1) (m + 1)
    else Ok (i, j, m, lti, rti)
  end.
Definition ilu_fuel (left right:list Z) : nat := S (length left + length right).
Definition ordered_inner_map_left_unique_partial (fuel:nat) (d_i d_j:Z) (left right lti rti:list Z) :=
  ilu_loop fuel d_i d_j left right lti rti 0 0 0.

(* ------------------------------------------------------------------ ordered_inner_map_left_unique_streamed *)
(* The `chunksize` argument is ignored: chunk size and buffer size are the literal 4 (`bs` below; the model is
   parametric so that the theorems cover every size >= 1).  left_to_inner / right_to_inner are fields that
   are written by appending (`.data.write`): the model returns what was appended. *)
Record ilus : Type := mkilus {
  u_i : Z; u_j : Z;
  u_lr : Z * Z; u_rr : Z * Z;        (* lc_range, rc_range *)
  u_lnext : Z; u_rnext : Z;          (* state of lc_it, rc_it *)
  u_lc : list Z; u_rc : list Z;
  u_lti : list Z; u_rti : list Z;    (* the two np.zeros(4) scratch buffers (allocated once, reused) *)
  u_outl : list Z; u_outr : list Z }.

Definition ilus_iter (bs:Z) (L R:list Z) (s:ilus) : res (option ilus) :=
  if (u_i s <? len L) && (u_j s <? len R) then
    do '(ii, jj, m, lti, rti) <-
       ordered_inner_map_left_unique_partial (ilu_fuel (u_lc s) (u_rc s)) (u_i s) (u_j s)
                                             (u_lc s) (u_rc s) (u_lti s) (u_rti s);
    let outl := if 0 <? m then u_outl s ++ slice lti 0 m else u_outl s in
    let outr := if 0 <? m then u_outr s ++ slice rti 0 m else u_outr s in
    let i := u_i s + ii in
    let j := u_j s + jj in
    if snd (u_lr s) <? i then Raise E_ValueError
    else if snd (u_rr s) <? j then Raise E_ValueError
    else
      do '(lr, lnext, lc) <-
         (if (i =? snd (u_lr s)) && (i <? len L) then
            do '(rg, nx) <- chunks_next (len L) bs (u_lnext s); Ok (rg, nx, slice L (fst rg) (snd rg))
          else Ok (u_lr s, u_lnext s, skipn (Z.to_nat ii) (u_lc s)));
      do '(rr, rnext, rc) <-
         (if (j =? snd (u_rr s)) && (j <? len R) then
            do '(rg, nx) <- chunks_next (len R) bs (u_rnext s); Ok (rg, nx, slice R (fst rg) (snd rg))
          else Ok (u_rr s, u_rnext s, skipn (Z.to_nat jj) (u_rc s)));
      Ok (Some (mkilus i j lr rr lnext rnext lc rc lti rti outl outr))
  else Ok None.

Fixpoint ilus_loop (fuel:nat) (bs:Z) (L R:list Z) (s:ilus) : res ilus :=
  match fuel with
  | O => OutOfFuel
  | S f =>
    do o <- ilus_iter bs L R s;
    match o with Some s' => ilus_loop f bs L R s' | None => Ok s end
  end.

Definition ilus_fuel (L R:list Z) : nat := S (length L + length R).

Definition zeros (n:Z) : list Z := repeat 0 (Z.to_nat n).

Definition ordered_inner_map_left_unique_streamed_bs (fuel:nat) (bs:Z) (L R:list Z) : res (list Z * list Z) :=
  do '(lr, lnext) <- chunks_next (len L) bs 0;
  do '(rr, rnext) <- chunks_next (len R) bs 0;
  let lc := slice L (fst lr) (snd lr) in
  let rc := slice R (fst rr) (snd rr) in
  do s <- ilus_loop fuel bs L R (mkilus 0 0 lr rr lnext rnext lc rc (zeros bs) (zeros bs) [] []);
  Ok (u_outl s, u_outr s).
Definition ordered_inner_map_left_unique_streamed (fuel:nat) (L R:list Z) :=
  ordered_inner_map_left_unique_streamed_bs fuel 4 L R.

(* ------------------------------------------------------------------ ordered_get_last_as_filter *)
(* result = np.zeros(len(field), bool)
   for i in range(len(field)-1): result[i] = field[i] != field[i+1]
   result[-1] = True              (F-C10a: on an empty field this is result[-1] of a zero-length buffer;
                                   repaired code: `if len(field) > 0:` in front)
   A constant negative index wraps once (numba and numpy alike): result[len-1], checked. *)
Fixpoint ogl_loop (n:nat) (field result:list Z) (i:Z) : res (list Z) :=
  match n with
  | O => Ok result
  | S n' =>
    do a <- get 140 field i;
    do b <- get 141 field (i + 1);
    do r' <- set 142 result i (if a =? b then 0 else 1);
    ogl_loop n' field r' (i + 1)
  end.
Definition ordered_get_last_as_filter (fixed:bool) (field:list Z) : res (list Z) :=
  let result := zeros (len field) in
  do r <- ogl_loop (Z.to_nat (len field - 1)) field result 0;
  if fixed && negb (0 <? len field) then Ok r
  else set 143 r (len r - 1) 1.

(* ------------------------------------------------------------------ streaming_sort_partial *)
(* for i in range(1, len(in_chunk_indices)):      None = the early `return dest_index` *)
Fixpoint ssp_scan (n:nat) (idx lens:list Z) (svals:list (list Z)) (i minv mini:Z) : res (option (Z * Z)) :=
  match n with
  | O => Ok (Some (minv, mini))
  | S n' =>
    do ix <- get 153 idx i;
    do ln <- get 154 lens i;
    if ix =? ln then Ok None
    else
      do ch <- get 155 svals i;
      do cur <- get 156 ch ix;
      if cur <? minv then ssp_scan n' idx lens svals (i + 1) cur i
      else ssp_scan n' idx lens svals (i + 1) minv mini
  end.

(* returns (dest_index, in_chunk_indices, dest_value_chunk, dest_index_chunk) *)
Fixpoint ssp_loop (fuel:nat) (maxp:Z) (lens:list Z) (svals sidx:list (list Z))
                  (idx dv di:list Z) (dest_index:Z) : res (Z * list Z * list Z * list Z) :=
  match fuel with
  | O => OutOfFuel
  | S f =>
    if dest_index <? maxp then
      do ix0 <- get 150 idx 0;
      do ln0 <- get 151 lens 0;
      if ix0 =? ln0 then Ok (dest_index, idx, dv, di)
      else
        do ch0 <- get 152 svals 0;
        do minv0 <- get 163 ch0 ix0;
        do o <- ssp_scan (Z.to_nat (len idx - 1)) idx lens svals 1 minv0 0;
        match o with
        | None => Ok (dest_index, idx, dv, di)
        | Some (minv, mini) =>
          do ich <- get 157 sidx mini;
          do ixm <- get 158 idx mini;
          do min_index <- get 159 ich ixm;
          do di' <- set 160 di dest_index min_index;
          do dv' <- set 161 dv dest_index minv;
          do idx' <- set 162 idx mini (ixm + 1);
          ssp_loop f maxp lens svals sidx idx' dv' di' (dest_index + 1)
        end
    else Ok (dest_index, idx, dv, di)
  end.
Definition ssp_fuel (lens:list Z) : nat := S (Z.to_nat (sumZ lens)).
Definition streaming_sort_partial (fuel:nat) (idx lens:list Z) (svals sidx:list (list Z)) (dv di:list Z) :=
  ssp_loop fuel (sumZ lens) lens svals sidx idx dv di 0.

(* ------------------------------------------------------------------ data_iterator (interpreted) *)
(* chunks_ = chunks(len(data), chunksize)
   for c in chunks_: start = c[0]; data = field.data[start:start + chunksize*2]
       for v in range(c[0], c[1]): yield data[v]       (F-C10b; repaired: data[v - start])
   the generator consumed to the end; numpy indexing: v >= 0 here, v >= len raises IndexError *)
Fixpoint di_inner (n:nat) (fixed:bool) (window:list Z) (start v:Z) : res (list Z) :=
  match n with
  | O => Ok []
  | S n' =>
    do x <- get 170 window (if fixed then v - start else v);
    do rest <- di_inner n' fixed window start (v + 1);
    Ok (x :: rest)
  end.
Fixpoint di_outer (fixed:bool) (D:list Z) (cs:Z) (cks:list (Z * Z)) : res (list Z) :=
  match cks with
  | [] => Ok []
  | c :: t =>
    let start := fst c in
    let window := slice D start (start + cs * 2) in
    do ys <- di_inner (Z.to_nat (snd c - fst c)) fixed window start (fst c);
    do rest <- di_outer fixed D cs t;
    Ok (ys ++ rest)
  end.
Definition data_iterator (fixed:bool) (fuel:nat) (D:list Z) (cs:Z) : res (list Z) :=
  do cks <- chunks fuel (len D) cs;
  di_outer fixed D cs cks.

(* ------------------------------------------------------------------ foreign_key_is_in_primary_key *)
(* pkids = dict over primary_key; for i, f in enumerate(foreign_key): results[i] = pkids.get(f, False) *)
Definition memZ (x:Z) (l:list Z) : bool := existsb (Z.eqb x) l.
Fixpoint fk_loop (pk fk results:list Z) (i:Z) : res (list Z) :=
  match fk with
  | [] => Ok results
  | f :: t =>
    do r' <- set 180 results i (if memZ f pk then 1 else 0);
    fk_loop pk t r' (i + 1)
  end.
Definition foreign_key_is_in_primary_key (pk fk:list Z) : res (list Z) :=
  fk_loop pk fk (zeros (len fk)) 0.

(* ------------------------------------------------------------------ filter_duplicate_fields *)
(* filter_ = np.ones(len(field)); for i in range(len(field)): f = field[i]
     if f in seen_ids: filter[i] = False  else: seen_ids[f] = 1; filter[i] = True *)
Fixpoint fdf_loop (n:nat) (field flt seen:list Z) (i:Z) : res (list Z) :=
  match n with
  | O => Ok flt
  | S n' =>
    do f <- get 185 field i;
    if memZ f seen then do fl <- set 186 flt i 0; fdf_loop n' field fl seen (i + 1)
    else do fl <- set 187 flt i 1; fdf_loop n' field fl (f :: seen) (i + 1)
  end.
Definition filter_duplicate_fields (field:list Z) : res (list Z) :=
  fdf_loop (length field) field (repeat 1 (length field)) [] 0.

(* ------------------------------------------------------------------ utils.count_flag_* (no indexing) *)
Definition count_flag_empty (flags:list Z) : Z :=
  fold_left (fun count f => if f =? 0 then count + 1 else count) flags 0.
Definition count_flag_not_set (flags:list Z) (flag:Z) : Z :=
  fold_left (fun count f => if Z.land f flag =? 0 then count + 1 else count) flags 0.
Definition count_flag_set (flags:list Z) (flag:Z) : Z :=
  fold_left (fun count f => if negb (Z.land f flag =? 0) then count + 1 else count) flags 0.
