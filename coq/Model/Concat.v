(* Model/Concat.v — C16: exetera/core/operations.py `_apply_spans_concat_2` (lines 1084-1187)
   and exetera/core/session.py `Session.apply_spans_concat` (lines 589-632).

   Proof-free, executable.  Every array access of the numba kernel goes through get/set.
   Two drivers are modelled:
     session_concat      the driver as repaired by work/C16/fix-F-C16a.diff + fix-F-C16b.diff
                         (running total forwarded as dest_start_v; index buffer src_chunksize+1)
     session_concat_v0   the driver as found (forwards the previous batch's local value count;
                         index buffer of src_chunksize slots) — kept for the *_refuted theorems.
   Site numbers of OOB: 1 spans, 2 src_index (span bounds), 3 src_index (entry bounds),
   4 src_values, 5 dest_values, 6 dest_index. *)
From Coq Require Import ZArith List Bool.
From EV Require Import Res Arr.
Import ListNotations.
Open Scope Z_scope.

(* for e in range(sp_cur, sp_next): if src_index[e+1] - src_index[e] > 0: non_empties += 1 *)
Fixpoint count_nonempty (n:nat) (e:Z) (si:list Z) (acc:Z) : res Z :=
  match n with
  | O => Ok acc
  | S n' =>
    do e_start <- get 3 si e;
    do e_end <- get 3 si (e + 1);
    count_nonempty n' (e + 1) si (if e_end - e_start >? 0 then acc + 1 else acc)
  end.

(* for i_c in range(a, b): if src_values[i_c] == separator: comma = True
                           elif src_values[i_c] == delimiter: quotes = True *)
Fixpoint scan_flags (n:nat) (i:Z) (sv:list Z) (sep del:Z) (comma quotes:bool) : res (bool * bool) :=
  match n with
  | O => Ok (comma, quotes)
  | S n' =>
    do c <- get 4 sv i;
    if c =? sep then scan_flags n' (i + 1) sv sep del true quotes
    else if c =? del then scan_flags n' (i + 1) sv sep del comma true
    else scan_flags n' (i + 1) sv sep del comma quotes
  end.

(* for i_c in range(a, b):
       if src_values[i_c] == delimiter: dest_values[d_index_v + delta] = delimiter; delta += 1
       dest_values[d_index_v + delta] = src_values[i_c]; delta += 1 *)
Fixpoint copy_escaped (n:nat) (i:Z) (sv dv:list Z) (del base delta:Z) : res (list Z * Z) :=
  match n with
  | O => Ok (dv, delta)
  | S n' =>
    do c <- get 4 sv i;
    do '(dv1, delta1) <-
       (if c =? del then do dv' <- set 5 dv (base + delta) del; Ok (dv', delta + 1)
        else Ok (dv, delta));
    do dv2 <- set 5 dv1 (base + delta1) c;
    copy_escaped n' (i + 1) sv dv2 del base (delta1 + 1)
  end.

(* if comma or quotes: dest_values[d_index_v + delta] = delimiter; delta += 1 *)
Definition put_delim (b:bool) (dv:list Z) (del base delta:Z) : res (list Z * Z) :=
  if b then do dv' <- set 5 dv (base + delta) del; Ok (dv', delta + 1) else Ok (dv, delta).

(* the block   [opening delimiter] copy-with-doubling [closing delimiter]   that appears
   textually twice in the kernel (single-entry and multi-entry branch) *)
Definition emit_range (a b:Z) (sv dv:list Z) (del:Z) (cq:bool) (base delta:Z) : res (list Z * Z) :=
  do '(dv1, d1) <- put_delim cq dv del base delta;
  do '(dv2, d2) <- copy_escaped (Z.to_nat (b - a)) a sv dv1 del base d1;
  put_delim cq dv2 del base d2.

(* the multi-entry loop: for e in range(sp_cur, sp_next) *)
Fixpoint multi_loop (n:nat) (e sp_cur:Z) (si sv dv:list Z) (sep del base delta:Z) (prev_empty:bool)
  : res (list Z * Z) :=
  match n with
  | O => Ok (dv, delta)
  | S n' =>
    do src_start <- get 3 si e;
    do src_end <- get 3 si (e + 1);
    let cur_empty := src_end =? src_start in
    do '(comma, quotes) <- scan_flags (Z.to_nat (src_end - src_start)) src_start sv sep del false false;
    do '(dv1, d1) <-
       (if negb prev_empty && negb cur_empty then
          if e >? sp_cur then do dv' <- set 5 dv (base + delta) sep; Ok (dv', delta + 1)
          else Ok (dv, delta)
        else Ok (dv, delta));
    let prev_empty' := if negb cur_empty then cur_empty else prev_empty in
    do '(dv2, d2) <- emit_range src_start src_end sv dv1 del (comma || quotes) base d1;
    multi_loop n' (e + 1) sp_cur si sv dv2 sep del base d2 prev_empty'
  end.

(* body of `for s in range(sp_start, sp_end)` up to and including `d_index_i += 1` *)
Definition one_span (s:Z) (spans si sv di dv:list Z) (sep del dest_start_v d_index_i d_index_v:Z)
  : res (list Z * list Z * Z * Z) :=
  do sp_cur <- get 1 spans s;
  do sp_next <- get 1 spans (s + 1);
  do cur_src_i <- get 2 si sp_cur;
  do next_src_i <- get 2 si sp_next;
  do non_empties <-
     (if sp_next - sp_cur =? 1 then Ok (if next_src_i - cur_src_i >? 0 then 1 else 0)
      else if sp_next - sp_cur >? 1 then count_nonempty (Z.to_nat (sp_next - sp_cur)) sp_cur si 0
      else Ok 0);
  do '(dv', delta) <-
     (if non_empties =? 1 then
        do '(comma, quotes) <- scan_flags (Z.to_nat (next_src_i - cur_src_i)) cur_src_i sv sep del false false;
        emit_range cur_src_i next_src_i sv dv del (comma || quotes) d_index_v 0
      else if non_empties >? 1 then
        multi_loop (Z.to_nat (sp_next - sp_cur)) sp_cur sp_cur si sv dv sep del d_index_v 0 true
      else Ok (dv, 0));
  let d_index_v' := d_index_v + delta in
  do di' <- set 6 di d_index_i (d_index_v' + dest_start_v);
  Ok (di', dv', d_index_i + 1, d_index_v').

(* the span loop with its break; returns (s+1, d_index_i, d_index_v, dest_index, dest_values).
   n = sp_end - s spans remain.  Python leaves `s` unbound when the range is empty: the
   driver never calls the kernel in that state; the model raises. *)
Fixpoint span_loop (n:nat) (s:Z) (spans si sv di dv:list Z) (max_index_i max_value_i sep del dest_start_v dii div:Z)
  : res (Z * Z * Z * list Z * list Z) :=
  match n with
  | O => Raise E_Other
  | S n' =>
    do '(di', dv', dii', div') <- one_span s spans si sv di dv sep del dest_start_v dii div;
    if (dii' >=? max_index_i) || (div' >=? max_value_i) then Ok (s + 1, dii', div', di', dv')
    else match n' with
         | O => Ok (s + 1, dii', div', di', dv')
         | S _ => span_loop n' (s + 1) spans si sv di' dv' max_index_i max_value_i sep del dest_start_v dii' div'
         end
  end.

Definition apply_spans_concat_2 (spans si sv di dv:list Z) (max_index_i max_value_i sep del sp_start dest_start_v:Z)
  : res (Z * Z * Z * list Z * list Z) :=
  let dii := if sp_start =? 0 then 1 else 0 in
  let sp_end := len spans - 1 in
  span_loop (Z.to_nat (sp_end - sp_start)) sp_start spans si sv di dv
            max_index_i max_value_i sep del dest_start_v dii 0.

Definition SEP : Z := 44.   (* comma *)
Definition DELIM : Z := 34. (* double quote *)

(* np.zeros(n): ValueError for negative n *)
Definition np_zeros (n:Z) : res (list Z) :=
  if n <? 0 then Raise E_ValueError else Ok (repeat 0 (Z.to_nat n)).

(* Session.apply_spans_concat, the while loop.  `fixed` selects which value is forwarded as
   dest_start_v: the running total (repaired driver) or the previous batch's index_v (as found).
   dest.indices / dest.values are append-only lists (write_part = append). *)
Fixpoint session_loop (fixed:bool) (fuel:nat) (spans si sv di dv:list Z) (max_index_i max_value_i:Z)
  (s index_v total_v:Z) (out_i out_v:list Z) : res (list Z * list Z) :=
  match fuel with
  | O => OutOfFuel
  | S f =>
    if s <? len spans - 1 then
      do '(s', index_i, index_v', di', dv') <-
         apply_spans_concat_2 spans si sv di dv max_index_i max_value_i SEP DELIM s
                              (if fixed then total_v else index_v);
      let total_v' := total_v + index_v' in
      let '(out_i', out_v') :=
          if (index_i >? 0) || (index_v' >? 0)
          then (out_i ++ slice di' 0 index_i, out_v ++ slice dv' 0 index_v')
          else (out_i, out_v) in
      session_loop fixed f spans si sv di' dv' max_index_i max_value_i s' index_v' total_v' out_i' out_v'
    else Ok (out_i, out_v)
  end.

Definition session_concat_gen (fixed:bool) (fuel:nat) (spans si sv:list Z) (src_chunksize dest_chunksize mult:Z)
  : res (list Z * list Z) :=
  do di <- np_zeros (if fixed then src_chunksize + 1 else src_chunksize);
  do dv <- np_zeros (dest_chunksize * mult);
  let max_index_i := src_chunksize in
  let max_value_i := dest_chunksize * mult / 2 in
  session_loop fixed fuel spans si sv di dv max_index_i max_value_i 0 0 0 [] [].

Definition session_concat := session_concat_gen true.
Definition session_concat_v0 := session_concat_gen false.

Definition session_fuel (spans:list Z) : nat := S (length spans).

(* dest.data[:] — WriteableIndexedFieldArray.__getitem__(slice(None)) on the stored arrays
   (fields.py 593-611): index = indices[0:len]; bytestr = values[index[0]:index[-1]];
   results[ir] = bytestr[index[ir]-index[0] : index[ir+1]-index[0]] *)
Fixpoint adjacent (l:list Z) : list (Z * Z) :=
  match l with
  | a :: ((b :: _) as t) => (a, b) :: adjacent t
  | _ => []
  end.

Definition read_all (indices values:list Z) : list (list Z) :=
  match indices with
  | [] => []
  | i0 :: _ =>
    let bytestr := slice values i0 (last indices 0) in
    map (fun p => slice bytestr (fst p - i0) (snd p - i0)) (adjacent indices)
  end.

(* the (index, values) arrays of an indexed string field holding `strs` (C01's storage
   format; an empty field has an empty index array) *)
Definition field_index (strs:list (list Z)) : list Z :=
  match strs with [] => [] | _ => psums (map (@len Z) strs) end.
Definition field_values (strs:list (list Z)) : list Z := concat strs.
