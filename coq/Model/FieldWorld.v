(* Model/FieldWorld.v — C01, histories over SEVERAL objects (strengthening round 2).
   Proof-free, executable.

   Part 1  a world of several fields.  Every field object of fields.py owns its state:
           WriteableIndexedFieldArray.__init__ (fields.py:566-575) allocates the two staging
           buffers and the three counters PER WRAPPER, MemoryFieldArray / the HDF5 datasets
           are per field.  A history addresses fields by number; an operation on field i
           reads and writes the state of field i only.  (This is what the code does; that the
           observable result is then independent of the interleaving is a THEOREM about this
           model — Proofs/FieldWorldProofs.v — and a correspondence obligation on the real
           classes, which could share state through class attributes, module globals, the
           session or the HDF5 file.)

   Part 2  arrays as objects with identity.  numpy arrays are mutable objects; a caller may keep,
           refill and edit the array it passed to write_part, pass the same array to two fields,
           pass a view of a field's own storage.  The heap is a list of arrays, a reference is an
           index.  MemoryFieldArray.write_part (fields.py:414-435):
               _dataset is None:  move_mem is True and same dtype -> self._dataset = part  (ALIAS)
                                  else                            -> self._dataset = part.copy()
               else:              new = np.zeros(..); new[:n] = ds; new[n:] = part; _dataset = new
           MemoryFieldArray.__setitem__ (393-404), WriteableFieldArray.write_part/__setitem__
           (HDF5: the dataset is a file object; `gv[-count:] = field` copies the values in).
           Values are opaque (A); the harness sends canonical byte lists. *)
From Coq Require Import ZArith List Bool.
From EV Require Import Res Arr IdxWriter.
Import ListNotations.
Open Scope Z_scope.

(* ================================================================ Part 1 ========== *)
Inductive fld : Type :=
| FIdx (w:iw)                       (* an indexed-string field's .data wrapper + its two datasets *)
| FPlain (s:store (list Z)).        (* numeric / timestamp / fixed / categorical codes: one dataset *)

(* an operation of a history on one field; MRead = data[:] / len(data): no state is touched *)
Inductive mop : Type :=
| MOp (o:iwop)
| MRead.

Definition plain_op (s:store (list Z)) (o:iwop) : res (store (list Z)) :=
  match o with
  | OpPart p => st_write_part [] s p
  | OpWrite p => st_write_part [] s p        (* write = write_part + complete *)
  | OpComplete => Ok s                       (* MemoryFieldArray.complete: pass; HDF5: flush *)
  | OpClear => Ok (st_clear s)
  | OpReopen => Ok s                         (* a new wrapper on the same dataset *)
  end.

Definition fld_op (f:fld) (m:mop) : res fld :=
  match m with
  | MRead => Ok f
  | MOp o =>
    match f with
    | FIdx w => do w' <- iw_op w o; Ok (FIdx w')
    | FPlain s => do s' <- plain_op s o; Ok (FPlain s')
    end
  end.

Fixpoint fld_run (f:fld) (ops:list mop) : res fld :=
  match ops with
  | [] => Ok f
  | o :: t => do f' <- fld_op f o; fld_run f' t
  end.

(* one step of an interleaved history: field number i receives operation m *)
Definition world_step (fs:list fld) (i:Z) (m:mop) : res (list fld) :=
  do f <- get 30 fs i;
  do f' <- fld_op f m;
  set 31 fs i f'.

Fixpoint world_run (fs:list fld) (h:list (Z * mop)) : res (list fld) :=
  match h with
  | [] => Ok fs
  | (i, m) :: t => do fs' <- world_step fs i m; world_run fs' t
  end.

(* how a field of the world is created: indexed (backing, chunksize) or plain (backing) *)
Inductive fspec : Type :=
| SIdx (h5:bool) (cs:Z)
| SPlain (h5:bool).

Definition fld_fresh (s:fspec) : res fld :=
  match s with
  | SIdx h5 cs => do w <- iw_init cs (fresh h5) (fresh h5); Ok (FIdx w)
  | SPlain h5 => Ok (FPlain (if h5 then H5 [] else Mem None))
  end.

(* what a field holds: (offsets, bytes) / ([], elements flattened is NOT done: see fld_plain) *)
Definition fld_idx_data (f:fld) : list Z * list Z :=
  match f with
  | FIdx w => (st_data (iw_ind w), st_data (iw_val w))
  | FPlain _ => ([], [])
  end.
Definition fld_plain_data (f:fld) : list (list Z) :=
  match f with
  | FIdx _ => []
  | FPlain s => st_data s
  end.

Definition world_history (specs:list fspec) (h:list (Z * mop)) : res (list fld) :=
  do fs <- map_res fld_fresh specs;
  world_run fs h.

(* the operations of history h that address field i, in order *)
Definition proj (i:Z) (h:list (Z * mop)) : list mop :=
  map snd (filter (fun im => fst im =? i) h).

(* ================================================================ Part 2 ========== *)
Section Heap.
Context {A:Type}.
Variable zero : A.

Definition heap : Type := list (list A).

(* a new array object *)
Definition alloc (h:heap) (l:list A) : heap * Z := (h ++ [l], len h).

(* field storage: _dataset of a MemoryFieldArray is None or a reference to an ndarray object;
   an HDF5 dataset lives in the file, nothing else can hold it *)
Inductive hstore : Type :=
| HMem (d:option Z)
| HH5 (d:list A).

Record aworld : Type := mkAW {
  aw_heap : heap;
  aw_callers : list Z;        (* the caller's arrays a_0, a_1, ... (references) *)
  aw_fields : list hstore
}.

(* the argument expression of a write *)
Inductive arg : Type :=
| ACaller (k:Z)               (* a_k            the array object itself *)
| ACallerSlice (k a b:Z)      (* a_k[a:b]       a view *)
| AField (g a b:Z).           (* field_g.data[a:b]   memory field: a view of its storage; HDF5: a fresh array *)

Inductive aop : Type :=
| CNew (vals:list A)                  (* a_n = np.array(vals) *)
| CFill (k:Z) (vals:list A)           (* a_k[:] = vals *)
| CSet (k i:Z) (v:A)                  (* a_k[i] = v *)
| FPart (f:Z) (x:arg)                 (* field_f.data.write_part(x)   (write = the same + complete) *)
| FPartMove (f k:Z) (same:bool)       (* field_f.data.write_part(a_k, move_mem=True); same = dtypes equal *)
| FComplete (f:Z)
| FSetItem (f i:Z) (v:A)              (* field_f.data[i] = v *)
| FClear (f:Z).

Definition field_data (h:heap) (s:hstore) : res (list A) :=
  match s with
  | HMem None => Ok []                        (* __getitem__: np.zeros(0) *)
  | HMem (Some r) => get 41 h r
  | HH5 d => Ok d
  end.

(* the values the argument expression denotes when the call is made *)
Definition resolve (w:aworld) (x:arg) : res (list A) :=
  match x with
  | ACaller k => do r <- get 42 (aw_callers w) k; get 43 (aw_heap w) r
  | ACallerSlice k a b => do r <- get 42 (aw_callers w) k; do l <- get 43 (aw_heap w) r; Ok (np_slice l a b)
  | AField g a b => do s <- get 44 (aw_fields w) g; do l <- field_data (aw_heap w) s; Ok (np_slice l a b)
  end.

(* MemoryFieldArray.write_part; alias = Some r when move_mem is True and the dtypes agree *)
Definition hmem_write_part (h:heap) (d:option Z) (part:list A) (alias:option Z) : res (heap * option Z) :=
  match d with
  | None =>
    match alias with
    | Some r => Ok (h, Some r)                                   (* self._dataset = part *)
    | None => let '(h', r) := alloc h part in Ok (h', Some r)    (* self._dataset = part.copy() *)
    end
  | Some r =>
    do ds <- get 40 h r;
    let new := repeat zero (Z.to_nat (len ds + len part)) in
    do n1 <- np_assign new 0 (len ds) ds;
    do n2 <- np_assign n1 (len ds) (len n1) part;
    let '(h', r') := alloc h n2 in Ok (h', Some r')
  end.

Definition hst_write_part (h:heap) (s:hstore) (part:list A) (alias:option Z) : res (heap * hstore) :=
  match s with
  | HMem d => do '(h', d') <- hmem_write_part h d part alias; Ok (h', HMem d')
  | HH5 d =>
    match alias with
    | Some _ => Raise E_TypeError           (* WriteableFieldArray.write_part has no move_mem parameter *)
    | None => do d' <- h5_write_part zero d part; Ok (h, HH5 d')
    end
  end.

(* data[i] = v with an integer i (a negative i wraps once) *)
Definition arr_setitem (l:list A) (i:Z) (v:A) : res (list A) :=
  if i <? 0 then set 45 l (i + len l) v else set 45 l i v.

Definition hst_setitem (h:heap) (s:hstore) (i:Z) (v:A) : res (heap * hstore) :=
  match s with
  | HMem None =>                              (* self._dataset = np.zeros(0, ...); then the store *)
    let '(h', r) := alloc h [] in
    do l' <- arr_setitem [] i v;
    do h'' <- set 46 h' r l';
    Ok (h'', HMem (Some r))
  | HMem (Some r) =>
    do l <- get 47 h r;
    do l' <- arr_setitem l i v;
    do h' <- set 46 h r l';
    Ok (h', s)
  | HH5 d => do d' <- arr_setitem d i v; Ok (h, HH5 d')
  end.

Definition hst_clear (s:hstore) : hstore :=
  match s with HMem _ => HMem None | HH5 _ => HH5 [] end.

Definition aw_op (w:aworld) (o:aop) : res aworld :=
  let h := aw_heap w in
  match o with
  | CNew vals =>
    let '(h', r) := alloc h vals in
    Ok (mkAW h' (aw_callers w ++ [r]) (aw_fields w))
  | CFill k vals =>
    do r <- get 42 (aw_callers w) k;
    do l <- get 43 h r;
    do l' <- np_assign l 0 (len l) vals;
    do h' <- set 46 h r l';
    Ok (mkAW h' (aw_callers w) (aw_fields w))
  | CSet k i v =>
    do r <- get 42 (aw_callers w) k;
    do l <- get 43 h r;
    do l' <- arr_setitem l i v;
    do h' <- set 46 h r l';
    Ok (mkAW h' (aw_callers w) (aw_fields w))
  | FPart f x =>
    do s <- get 44 (aw_fields w) f;
    do part <- resolve w x;
    do '(h', s') <- hst_write_part h s part None;
    do fs' <- set 48 (aw_fields w) f s';
    Ok (mkAW h' (aw_callers w) fs')
  | FPartMove f k same =>
    do s <- get 44 (aw_fields w) f;
    do r <- get 42 (aw_callers w) k;
    do part <- get 43 h r;
    do '(h', s') <- hst_write_part h s part (if same then Some r else None);
    do fs' <- set 48 (aw_fields w) f s';
    Ok (mkAW h' (aw_callers w) fs')
  | FComplete f =>
    do _ <- get 44 (aw_fields w) f; Ok w
  | FSetItem f i v =>
    do s <- get 44 (aw_fields w) f;
    do '(h', s') <- hst_setitem h s i v;
    do fs' <- set 48 (aw_fields w) f s';
    Ok (mkAW h' (aw_callers w) fs')
  | FClear f =>
    do s <- get 44 (aw_fields w) f;
    do fs' <- set 48 (aw_fields w) f (hst_clear s);
    Ok (mkAW h (aw_callers w) fs')
  end.

Fixpoint aw_run (w:aworld) (ops:list aop) : res aworld :=
  match ops with
  | [] => Ok w
  | o :: t => do w' <- aw_op w o; aw_run w' t
  end.

Definition aw_fresh (backings:list bool) : aworld :=
  mkAW [] [] (map (fun h5:bool => if h5 then HH5 [] else HMem None) backings).

(* what can be observed: the contents of every caller array and of every field *)
Definition aw_observe (w:aworld) : res (list (list A) * list (list A)) :=
  do cs <- map_res (fun r => get 43 (aw_heap w) r) (aw_callers w);
  do fs <- map_res (field_data (aw_heap w)) (aw_fields w);
  Ok (cs, fs).

Definition aw_history (backings:list bool) (ops:list aop) : res (list (list A) * list (list A)) :=
  do w <- aw_run (aw_fresh backings) ops;
  aw_observe w.

End Heap.
Arguments hstore A : clear implicits.
Arguments aworld A : clear implicits.
Arguments aop A : clear implicits.
