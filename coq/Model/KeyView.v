(* Model/KeyView.v — the value through which a key column is COMPARED (C02, strengthening SC02).

   merge never compares keys itself: `_ordered_merge` hands the two key fields to the numba kernels of
   operations.py (left[i] < right[j], left[i] == right[j] on arrays of the two columns' own dtypes) and
   `_unordered_merge` hands the two key arrays to pandas.merge.  When the two columns have the same dtype
   the comparison is exact.  When they differ, the comparison is made on a *converted* value:

     numba   (a, b) both signed or both unsigned integers      -> the wider integer type: exact
             uint64 with a signed integer, or any float         -> binary64, inside each cross-column comparison
                                                                   only (comparisons within a column stay exact)
     pandas  integer with integer, a common integer dtype       -> exact (since fix F-C02h: dataframe.py widens
                                                                   the pair itself)
             int64 with uint64                                  -> exact when both columns are sorted and one is
                                                                   unique, binary64 otherwise (pandas 3.0)
             integer with float                                 -> both COLUMNS cast to float64: round_sig 53 on
                                                                   both sides = `view_keys` with flag 1
             float32 with float64, fixed strings of any widths  -> exact

   The pandas integer/float conversion is a per-column map, modelled here.  numba's per-comparison conversion is not
   a per-column map (it would have to send two different keys of one column to one value and keep them apart) and
   pandas' int64/uint64 route is internal to pandas; the model compares exactly there and the harness delimits the region where binary64 collapses two keys of
   opposite sides (known finding F-C02i, harness/props/C02.py float_collapse).

   A key column is a list of Z in an exact, order-preserving encoding of its values (integers as
   themselves; floats and integers compared with floats scaled by 2^60; byte strings big-endian, padded).
   `round_sig p` is round-to-nearest-even to p significant bits, which is what a conversion of an integer
   (or of a scaled dyadic) to a binary float with a p-bit significand does, exponent range aside (the
   generators stay inside it).  It commutes with scaling by powers of two, so it can be applied to the
   encoded value.

   `view_keys` applies the conversion of each key pair; `kv` = 1 selects round_sig 53, anything else the
   identity.  Narrowing conversions a change of the code might introduce (astype to the other column's
   dtype) are `wrap_signed` / `wrap_unsigned` / `round_sig 24` / `trunc_bytes`; they appear only in the
   theorems that say why such a conversion breaks the join (Props/C02.v: narrowing_key_cast_refuted ...).
   Proof-free file. *)
From Coq Require Import ZArith List Bool.
Import ListNotations.
Open Scope Z_scope.

(* round to nearest, ties to even, keeping p significant bits (p >= 1); odd function *)
Definition round_sig (p:Z) (z:Z) : Z :=
  let a := Z.abs z in
  if a <? 2 ^ p then z
  else
    let e := Z.log2 a + 1 - p in                (* number of bits dropped, >= 1 *)
    let q := a / 2 ^ e in
    let r := a mod 2 ^ e in
    let half := 2 ^ (e - 1) in
    let q' := if r <? half then q
              else if half <? r then q + 1
              else if Z.even q then q else q + 1 in
    Z.sgn z * (q' * 2 ^ e).

Definition key_view (kv:Z) (z:Z) : Z := if kv =? 1 then round_sig 53 z else z.

Fixpoint view_keys (kvs:list Z) (cols:list (list Z)) : list (list Z) :=
  match cols with
  | [] => []
  | c :: t =>
    match kvs with
    | kv :: kvs' => map (key_view kv) c :: view_keys kvs' t
    | [] => c :: t
    end
  end.

(* conversions of numpy's astype between key dtypes *)
Definition wrap_unsigned (bits:Z) (z:Z) : Z := z mod 2 ^ bits.
Definition wrap_signed (bits:Z) (z:Z) : Z := (z + 2 ^ (bits - 1)) mod 2 ^ bits - 2 ^ (bits - 1).
(* a byte string of width w (big-endian in `total` bytes) cut to its first n bytes *)
Definition trunc_bytes (total n:Z) (z:Z) : Z := z / 2 ^ (8 * (total - n)) * 2 ^ (8 * (total - n)).
