(* Model/SessionWorld.v — C19: histories of calls on ONE Session whose arguments are HDF5-backed columns.

   A Session holds datasets, a dataset holds dataframes, a dataframe holds named columns.  A Field object handed to
   get_index / join / merge_* / ordered_merge_* is a HANDLE: the h5py group at  <dataset>/<dataframe>/<column name>;
   `val.raw_array_from_parameter` / `field.data[:]` read the column the handle points to AT THE TIME OF THE CALL.
   `Field.name` is only the last component of that path.  The Session keeps nothing else between two calls
   (Session.__init__: chunksize, timestamp, datasets).

   path  = (frame, name):  frame identifies dataset + dataframe, name the column inside it.
   world = the columns written so far, newest first; a column overwritten in place (`f.data[:] = a`,
           `f.data.clear(); f.data.write(a)`) or deleted and created again under the same name is a newer entry of the
           same path.
   A step is either a write to a path, or a call whose description has holes (argument positions) that are filled
   with the present content of the columns the handles point to. *)
From Coq Require Import ZArith List Bool.
Import ListNotations.
Open Scope Z_scope.

Definition path := (Z * Z)%type.
Definition frame_of (p:path) : Z := fst p.
Definition name_of (p:path) : Z := snd p.
Definition path_eqb (p q:path) : bool := (fst p =? fst q) && (snd p =? snd q).

Definition world := list (path * list Z).

Fixpoint lookup (w:world) (p:path) : option (list Z) :=
  match w with
  | [] => None
  | (q, c) :: t => if path_eqb q p then Some c else lookup t p
  end.

Definition write (w:world) (p:path) (c:list Z) : world := (p, c) :: w.

Section Steps.
Variables C O : Type.
Variable fill : C -> nat -> list Z -> C.      (* put a column into argument position i of a call description *)
Variable call : C -> O.                       (* the (stateless) model of one Session call *)

Inductive step :=
| SWrite (p:path) (c:list Z)
| SCall (c:C) (refs:list (nat * path)).

(* read every handle; None: a handle that points to no column (the real call raises) *)
Fixpoint resolve (w:world) (c:C) (refs:list (nat * path)) : option C :=
  match refs with
  | [] => Some c
  | (i, p) :: t => match lookup w p with
                   | Some col => resolve w (fill c i col) t
                   | None => None
                   end
  end.

Fixpoint world_history (w:world) (steps:list step) : list (option O) :=
  match steps with
  | [] => []
  | SWrite p c :: t => world_history (write w p c) t
  | SCall c refs :: t => option_map call (resolve w c refs) :: world_history w t
  end.

(* the world after the writes of a prefix of steps *)
Fixpoint writes (w:world) (steps:list step) : world :=
  match steps with
  | [] => w
  | SWrite p c :: t => writes (write w p c) t
  | SCall _ _ :: t => writes w t
  end.

Fixpoint ncalls (steps:list step) : nat :=
  match steps with
  | [] => 0%nat
  | SWrite _ _ :: t => ncalls t
  | SCall _ _ :: t => S (ncalls t)
  end.

(* the last column written to path p by a list of steps *)
Fixpoint last_write (steps:list step) (p:path) : option (list Z) :=
  match steps with
  | [] => None
  | SWrite q c :: t => match last_write t p with Some c' => Some c' | None => if path_eqb q p then Some c else None end
  | SCall _ _ :: t => last_write t p
  end.
End Steps.
Arguments SWrite {C}.
Arguments SCall {C}.
