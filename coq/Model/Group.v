(* Model/Group.v — C07: DataFrame.groupby / HDF5DataFrameGroupBy.* / drop_duplicates and the
   Session.aggregate_* / Session.distinct entry points.  Proof-free, executable.

   exetera/core/dataframe.py   DataFrame.groupby (after work/C07/fix-F-C07d.diff + fix-F-C07b.diff),
                               drop_duplicates, HDF5DataFrameGroupBy._write_groupby_keys / count /
                               distinct / max / min / first / last
   exetera/core/validation.py  validate_groupby_target
   exetera/core/fields.py      FieldDataOps.apply_spans_first/last/min/max, _apply_spans_src,
                               _apply_spans_indexed_src, _apply_spans_indexed_no_src
   exetera/core/session.py     Session._aggregate_impl, aggregate_count/first/last/min/max, distinct

   Reused, not re-modelled: every span kernel and check_if_sorted_for_multi_fields (Model/Spans.v, C08),
   Session.dataset_sort_index, Field.apply_index, create_like and the storage model (Model/FilterIndex.v,
   C09), numpy's stable argsort (Model/StableSort.v).

   Storage conventions are those of Model/FilterIndex.v: a plain field holds integers (an order-
   preserving injection of its dtype chosen by the harness: ints as is, bool 0/1, half-integral floats
   as 2x, fixed strings as the big-endian number of their NUL-padded bytes); an indexed string field
   holds the datasets `index` and `values`.  A KEY cell is what `field.data[:]` yields per row seen as a
   byte string / one-element list (`field_cells`).  The 2-d array `_stack_key_columns` hands to the two
   kernels is modelled as the list of the key columns' cells compared with `bytes_ltb` / `bytes_neqb`:
   stacking columns of ONE dtype is the identity, and columns of different dtypes are replaced by the
   ranks of their values (fix F-C07b), which preserves exactly the order and the equality of the cells.
   That numpy step (np.asarray / np.unique(return_inverse)) is not modelled further (DESIGN §5.C07 L).

   Destination column names (integers on the wire): key column n -> 8n, n_min -> 8n+1, n_max -> 8n+2,
   n_first -> 8n+3, n_last -> 8n+4, 'count' -> 5. *)
From Coq Require Import ZArith List Bool.
From EV Require Import Res Arr StableSort Spans FilterIndex.
Import ListNotations.
Open Scope Z_scope.

Notation cell := (list Z) (only parsing).

(* ------------------------------------------------------------------ names *)
Inductive agg : Type := AMin | AMax | AFirst | ALast.
Definition key_name (n:Z) : Z := 8 * n.
Definition agg_name (a:agg) (n:Z) : Z :=
  8 * n + match a with AMin => 1 | AMax => 2 | AFirst => 3 | ALast => 4 end.
Definition COUNT_NAME : Z := 5.
(* ddf.create_numeric(name='count', nformat='int64'): [class 3 = numeric; dtype code 7 = int64; strlen 0] *)
Definition count_meta : list Z := [3; 7; 0].

(* ------------------------------------------------------------------ DataFrame.groupby *)
(* np.asarray(columns): "inhomogeneous shape" ValueError when the columns differ in length *)
Definition stack_key_columns (cols:list (list cell)) : res (list (list cell)) :=
  match cols with
  | [] => Ok []
  | c0 :: t => if forallb (fun c => len c =? len c0) t then Ok cols else Raise E_ValueError
  end.

(* the HDF5DataFrameGroupBy object: (by, sorted_index, spans); `columns` is the source frame itself *)
Record gb : Type := mkGb { g_by : list Z; g_sorted_index : option (list Z); g_spans : list Z }.

Definition df_groupby (cols:frame) (by_:list Z) (hint_keys_is_sorted:bool) : res gb :=
  do by' <- validate_selected_keys by_ cols;
  do readers <- readers_of by' cols;
  let by_fields_data := map field_cells readers in
  do is_sorted <- (if negb hint_keys_is_sorted
                   then do st <- stack_key_columns by_fields_data;
                        check_if_sorted_for_multi_fields bytes_ltb st
                   else Ok true);
  if negb is_sorted then
    do sorted_index <- sorted_index_of readers;
    do sorted_data <- FilterIndex.map_res (fun data => np_take data sorted_index) by_fields_data;
    do st <- stack_key_columns sorted_data;
    do spans <- get_spans_for_multi_fields bytes_neqb st;
    Ok (mkGb by' (Some sorted_index) spans)
  else
    do st <- stack_key_columns by_fields_data;
    do spans <- get_spans_for_multi_fields bytes_neqb st;
    Ok (mkGb by' None spans).

(* ------------------------------------------------------------------ fields.py: apply_spans_* *)
(* tail of FieldDataOps._apply_spans_src: always clear() + write() *)
Definition deliver_spans (source:field) (results:list Z) (target:option field) (in_place:bool) : res fres :=
  if in_place then
    if negb (fwr source) then Raise E_ValueError
    else
      let s' := with_body source (BDat (ds_write (ds_clear []) results)) in
      Ok (mkFres s' None s')
  else
    match target with
    | None =>
      let m := with_body (create_like source) (BDat (ds_write [] results)) in
      Ok (mkFres source None m)
    | Some t =>
      match fbody t with
      | BDat td => let t' := with_body t (BDat (ds_write (ds_clear td) results)) in
                   Ok (mkFres source (Some t') t')
      | BIdx _ _ => Raise E_Other
      end
    end.

(* FieldDataOps.apply_spans_first / last / min / max *)
Definition field_apply_spans (a:agg) (source:field) (spans:list Z) (target:option field) (in_place:bool)
  : res fres :=
  if adj_any_eq spans then Raise E_ValueError                 (* np.any(spans_[:-1] == spans_[1:]) *)
  else if in_place && is_some target then Raise E_ValueError
  else
    match fbody source with
    | BIdx i v =>
      (* step 1: row indices through the index predicate; step 2: apply_index on the source *)
      do results <- match a with
                    | AMin => apply_spans_index_of_min_indexed spans i v
                    | AMax => apply_spans_index_of_max_indexed spans i v
                    | AFirst => apply_spans_index_of_first spans
                    | ALast => apply_spans_index_of_last spans
                    end;
      field_apply_index source results target in_place
    | BDat d =>
      do results <- match a with
                    | AMin => apply_spans_min Z.ltb 0 spans d
                    | AMax => apply_spans_max Z.ltb 0 spans d
                    | AFirst => apply_spans_first 0 spans d
                    | ALast => apply_spans_last 0 spans d
                    end;
      deliver_spans source results target in_place
    end.

(* ------------------------------------------------------------------ HDF5DataFrameGroupBy *)
Definition the_target (r:fres) : res field :=
  match r_tgt r with Some t => Ok t | None => Raise E_Other end.

(* _write_groupby_keys: for field in by_fields: newfld = field.create_like(ddf, field.name); ... *)
Fixpoint write_groupby_keys (cols:frame) (g:gb) (keys:list Z) (ddf:frame) : res frame :=
  match keys with
  | [] => Ok ddf
  | k :: t =>
    match lookup k cols with
    | None => Raise E_KeyError
    | Some f =>
      if has_name (key_name k) ddf then Raise E_ValueError      (* create_like: the name exists *)
      else
        let newfld := create_like f in
        let spans_1 := removelast (g_spans g) in                 (* self._spans[:-1] *)
        do nf <- match g_sorted_index g with
                 | Some si =>
                   do r1 <- field_apply_index f si (Some newfld) false;
                   do nf1 <- the_target r1;
                   do r2 <- field_apply_index nf1 spans_1 None true;
                   Ok (r_src r2)
                 | None =>
                   do r <- field_apply_index f spans_1 (Some newfld) false;
                   the_target r
                 end;
        write_groupby_keys cols g t (ddf ++ [(key_name k, nf)])
    end
  end.

Definition maybe_write_keys (cols:frame) (g:gb) (ddf:frame) (write_keys:bool) : res frame :=
  if write_keys then write_groupby_keys cols g (g_by g) ddf else Ok ddf.

(* count *)
Definition gb_count (cols:frame) (g:gb) (ddf:frame) (write_keys:bool) : res frame :=
  do ddf1 <- maybe_write_keys cols g ddf write_keys;
  do _ <- np_zeros 0 (len (g_spans g) - 1);
  do counts <- apply_spans_count (g_spans g);
  if has_name COUNT_NAME ddf1 then Raise E_ValueError
  else Ok (ddf1 ++ [(COUNT_NAME, mkField count_meta true (BDat (ds_write [] counts)))]).

(* distinct *)
Definition gb_distinct (cols:frame) (g:gb) (ddf:frame) (write_keys:bool) : res frame :=
  maybe_write_keys cols g ddf write_keys.

(* validation.py:258-277 (target given as a list of names) *)
Definition validate_groupby_target (targets by_:list Z) (cols:frame) : res (list Z) :=
  match targets with
  | [] => Raise E_ValueError
  | _ =>
    if negb (all_in targets cols) then Raise E_ValueError
    else if existsb (fun t => existsb (Z.eqb t) by_) targets then Raise E_ValueError
    else Ok targets
  end.

(* for field in target_fields: newfld = field.create_like(ddf, field.name + '_max'); ... *)
Fixpoint agg_targets (a:agg) (cols:frame) (g:gb) (targets:list Z) (ddf:frame) : res frame :=
  match targets with
  | [] => Ok ddf
  | t :: rest =>
    match lookup t cols with
    | None => Raise E_KeyError
    | Some f =>
      if has_name (agg_name a t) ddf then Raise E_ValueError
      else
        let newfld := create_like f in
        do nf <- match g_sorted_index g with
                 | Some si =>
                   do r1 <- field_apply_index f si (Some newfld) false;
                   do nf1 <- the_target r1;
                   do r2 <- field_apply_spans a nf1 (g_spans g) None true;
                   Ok (r_src r2)
                 | None =>
                   do r <- field_apply_spans a f (g_spans g) (Some newfld) false;
                   the_target r
                 end;
        agg_targets a cols g rest (ddf ++ [(agg_name a t, nf)])
    end
  end.

(* max / min / first / last *)
Definition gb_agg (a:agg) (cols:frame) (g:gb) (targets:list Z) (ddf:frame) (write_keys:bool) : res frame :=
  do targets' <- validate_groupby_target targets (g_by g) cols;
  do ddf1 <- maybe_write_keys cols g ddf write_keys;
  (* target_fields = tuple(self._columns[k] for k in targets): every name is looked up first *)
  do _ <- readers_of targets' cols;
  agg_targets a cols g targets' ddf1.

(* one call on the group-by object *)
Inductive gstep : Type :=
| GCount (write_keys:bool)
| GDistinct (write_keys:bool)
| GAgg (a:agg) (targets:list Z) (write_keys:bool).

Definition run_gstep (cols:frame) (g:gb) (ddf:frame) (s:gstep) : res frame :=
  match s with
  | GCount wk => gb_count cols g ddf wk
  | GDistinct wk => gb_distinct cols g ddf wk
  | GAgg a ts wk => gb_agg a cols g ts ddf wk
  end.

Fixpoint run_gsteps (cols:frame) (g:gb) (ddf:frame) (ss:list gstep) : res frame :=
  match ss with
  | [] => Ok ddf
  | s :: t => do ddf' <- run_gstep cols g ddf s; run_gsteps cols g ddf' t
  end.

(* g = df.groupby(by, hint); g.step1(ddf); g.step2(ddf); ... *)
Definition df_groupby_steps (cols:frame) (by_:list Z) (hint:bool) (ddf:frame) (ss:list gstep) : res frame :=
  do g <- df_groupby cols by_ hint;
  run_gsteps cols g ddf ss.

(* DataFrame.drop_duplicates(by, ddf, hint) = self.groupby(by, hint).distinct(ddf) *)
Definition df_drop_duplicates (cols:frame) (by_:list Z) (ddf:frame) (hint:bool) : res frame :=
  do g <- df_groupby cols by_ hint;
  gb_distinct cols g ddf true.

(* ------------------------------------------------------------------ Session.aggregate_* *)
Definition write_dest (dest:option (list Z)) (results:list Z) : option (list Z) :=
  match dest with Some d => Some (ds_write d results) | None => None end.

(* _aggregate_impl with predicate = self.apply_spans_count (-> _apply_spans_no_src) *)
Definition session_aggregate_count (index:column) (dest:option (list Z)) : res (list Z * option (list Z)) :=
  do spans <- field_get_spans index;
  do results <- apply_spans_count spans;
  Ok (results, write_dest dest results).

(* aggregate_first/last/min/max -> aggregate_custom -> _aggregate_impl -> _apply_spans_src *)
Definition session_aggregate (a:agg) (index:column) (target:list Z) (dest:option (list Z))
  : res (list Z * option (list Z)) :=
  do spans <- field_get_spans index;
  do results <- session_apply_spans_src
                  (match a with
                   | AMin => apply_spans_min Z.ltb 0
                   | AMax => apply_spans_max Z.ltb 0
                   | AFirst => apply_spans_first 0
                   | ALast => apply_spans_last 0
                   end) spans target;
  Ok (results, write_dest dest results).

(* ------------------------------------------------------------------ Session.distinct *)
(* np.unique(a) for a 1-d array (also of a structured dtype: rows compared field by field):
   sort, then keep the first of every run of equal elements *)
Fixpoint drop_adjacent_dups {A} (eqb:A -> A -> bool) (l:list A) : list A :=
  match l with
  | x :: ((y :: _) as t) => if eqb x y then drop_adjacent_dups eqb t else x :: drop_adjacent_dups eqb t
  | _ => l
  end.
Definition row_eqb (r1 r2:list cell) : bool := lex_le cell_le r1 r2 && lex_le cell_le r2 r1.
Definition np_unique_rows (rows:list (list cell)) : list (list cell) :=
  let q := argsort (lex_le cell_le) rows in
  drop_adjacent_dups row_eqb (map (fun p => nthd [] rows p) q).

(* fields = list of equally long arrays (np.empty_like(fields[0], dtype=...) then unified[i] = f:
   a length mismatch is a broadcasting ValueError); result: one array per field *)
Definition session_distinct (fields:list (list cell)) : res (list (list cell)) :=
  match fields with
  | [] => Raise E_IndexError
  | f0 :: _ =>
    if negb (forallb (fun c => len c =? len f0) fields) then Raise E_ValueError
    else
      let rows := map (fun i => map (fun c => nthd [] c i) fields) (iota 0 (length f0)) in
      let u := np_unique_rows rows in
      Ok (map (fun j => map (fun r => nthd [] r j) u) (iota 0 (length fields)))
  end.
