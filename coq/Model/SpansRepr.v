(* Model/SpansRepr.v — keys as they are STORED versus keys as they COMPARE (C08, several-arrays entry points).
   Proof-free, executable.

   The span kernels compare elements with the dtype's `!=` / `<`, i.e. by VALUE.  Two stored representations may hold
   the same value:
     * IEEE-754 binary floats: +0.0 (all bits clear) and -0.0 (only the sign bit set) are equal;
     * 'S<w>' elements: numpy stores b'a' and b'a\0' as the same w bytes (trailing NULs are padding), and arrays of
       widths w1 < w2 stacked by np.asarray are re-padded to w2;
     * bool / int8 / int32 / int64 columns stacked by np.asarray are widened to the widest dtype, value kept.
   The models of Model/Spans.v work on the value (`Z`, NUL-padded byte lists).  This file defines the decoding
   representation -> value that the wire entry applies, so that the correspondence run feeds the REAL code the stored
   representation (bit patterns) and the model the value:

     float_key w bits     the order embedding of a non-NaN binary<w> bit pattern (unsigned integer in [0, 2^w)) into Z:
                          sign-magnitude decoding; both zeros go to 0, every other pattern keeps its own key, and the
                          order of the keys is the order of the floats (IEEE 754: the non-NaN patterns of one sign are
                          ordered like their unsigned integers) — so `Z_neqb` / `Z.ltb` on keys are `!=` / `<` on floats
     pad_fixed w r        the w stored bytes of an 'S<w>' element written from the byte string r (len r <= w)

   and the model of the key stacking of DataFrame.groupby (dataframe.py `_stack_key_columns`, 1016-1026, + 781):
     unique_inverse       np.unique(c, return_inverse=True)[1]: the rank of each element among the distinct values
     groupby_spans        `_get_spans_for_multi_fields(_stack_key_columns(by_fields_data))` *)
From Coq Require Import ZArith List Bool.
From EV Require Import Res Arr Spans.
Import ListNotations.
Open Scope Z_scope.

(* ---- binary<w> bit pattern -> order-embedded key (NaN patterns are outside the property) ---------------- *)
Definition float_key (w bits:Z) : Z :=
  let s := 2 ^ (w - 1) in
  if bits <? s then bits else s - bits.

(* a NaN pattern of binary<w> with m mantissa bits: exponent all ones, mantissa non-zero (excluded by the generators;
   the wire entry answers BADCASE for it) *)
Definition float_is_nan (w m bits:Z) : bool :=
  let mag := bits mod 2 ^ (w - 1) in
  2 ^ (w - 1) - 2 ^ m <? mag.
Definition mant_bits (w:Z) : Z := if w =? 32 then 23 else if w =? 16 then 10 else 52.

(* ---- 'S<w>' element written from a byte string ----------------------------------------------------------- *)
Definition pad_fixed (w:Z) (r:list Z) : list Z := r ++ repeat 0 (Z.to_nat (w - len r)).

(* ---- np.unique(c, return_inverse=True)[1] ------------------------------------------------------------- *)
Section Unique.
Context {A:Type}.
Variable neqb : A -> A -> bool.
Variable ltb : A -> A -> bool.
(* the distinct values, first occurrences kept *)
Fixpoint dedup (l:list A) : list A :=
  match l with
  | [] => []
  | x :: t => x :: filter (fun y => neqb x y) (dedup t)
  end.
(* position of x in the sorted distinct values = number of distinct values below x *)
Definition rank_in (c:list A) (x:A) : Z := len (filter (fun y => ltb y x) (dedup c)).
Definition unique_inverse (c:list A) : list Z := map (rank_in c) c.
End Unique.

(* ---- DataFrame.groupby: spans of the stacked key columns --------------------------------------------- *)
(* a key column is a list of rows, a row being its stored value as a byte list (numeric value z: [z]);
   mixed = the key columns do not all have the same dtype: each is replaced by the ranks of its values *)
Definition groupby_spans (mixed:bool) (cols:list (list (list Z))) : res (list Z) :=
  if mixed then get_spans_for_multi_fields Z_neqb (map (unique_inverse bytes_neqb bytes_ltb) cols)
  else get_spans_for_multi_fields bytes_neqb cols.
