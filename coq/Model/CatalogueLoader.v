(* Model/CatalogueLoader.v — what HDF5Dataset.__init__ loads when a file is opened again (dataset.py):

       for group in self._file.keys():
           if group not in ('trash',):            # membership in a 1-tuple: equality with the whole name
               ... self._dataframes[group] = HDF5DataFrame(self, group, h5group=self._file[group])

   One top-level group name is reserved; every other name - its substrings, prefixes, suffixes, superstrings and case
   variants included - is loaded.  Executable, no proofs. *)
From Coq Require Import ZArith List Bool.
From EV Require Import Res Catalogue.
Import ListNotations.
Open Scope Z_scope.

Definition reserved_group : name := [116; 114; 97; 115; 104].          (* 'trash' *)
Definition loader_keeps (g:name) : bool := negb (name_eqb g reserved_group).
(* the dataframes a fresh open_dataset catalogues: the root link table without the reserved group *)
Definition loaded_root (s:state) (i:Z) : alist := filter (fun kg => loader_keeps (fst kg)) (h5_root s i).
Definition loaded_view (s:state) (i:Z) : fview := view_of s (loaded_root s) (h5_grp s) i.
(* type and data found under frame d / field n by the reopened dataset *)
Definition loaded_lookup (s:state) (i:Z) (d n:name) : option (Z * list Z) :=
  match d_find (loaded_root s i) d with
  | Some g => match d_find (h5_grp s g) n with Some f => Some (fld_type s f, fld_data s f) | None => None end
  | None => None
  end.
