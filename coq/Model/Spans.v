(* Model/Spans.v — span computation and span reductions of exetera/core/operations.py
   (C08; reused by C07).  Proof-free, executable.

   Modelled statement by statement (line numbers of /repo exetera/core/operations.py, after the
   fixes work/C08/fix-F-C08a.diff, fix-F-C08c.diff, fix-F-C08d.diff, fix-F-C07a.diff):
     get_spans_for_field                       701-714   numpy level
     _get_spans_for_2_fields_by_spans          717-731   njit
     _get_spans_for_2_fields(+_njit)           734-753   njit
     _get_spans_for_multi_fields(+_njit)       756-781   njit
     check_if_sorted_for_multi_fields          784-811   njit
     _get_spans_for_index_string_field         814-833   njit
     apply_spans_index_of_min/max(+_indexed)   836-929   njit
     apply_spans_index_of_first/last           932-943   njit
     apply_spans_index_of_*_filter             946-1003  njit
     apply_spans_count/first/last/max/min      1006-1059 njit
   and the Python entry points  Session.get_spans (session.py 358-417), Session._apply_spans_src /
   _apply_spans_no_src (419-466), FieldDataOps.apply_spans_first/last/min/max guards (fields.py 3933-4035).

   Element types are abstract: a column is `list A` with the two primitive comparisons the code uses,
   `neqb` (!=) and `ltb` (<); `a > b` is `ltb b a`.  Instances: Z (all numeric dtypes, bool as 0/1,
   NaN-free floats through any order embedding) and `list Z` (fixed-width byte strings, the w bytes
   of the 'S<w>' element, NUL padded, compared as unsigned bytes left to right).
   Python lists built by `append` are accumulated in reverse and reversed at the end. *)
From Coq Require Import ZArith List Bool.
From EV Require Import Res Arr.
Import ListNotations.
Open Scope Z_scope.

(* ---- control: `for i in range(a, a+n)` with a state ------------------------------ *)
Fixpoint for_range {St:Type} (n:nat) (i:Z) (body:Z -> St -> res St) (s:St) : res St :=
  match n with
  | O => Ok s
  | S n' => do s' <- body i s; for_range n' (i + 1) body s'
  end.
(* number of iterations of range(a, b) *)
Definition range_len (a b:Z) : nat := Z.to_nat (b - a).

(* ---- numpy-level helpers ----------------------------------------------------------- *)
(* slice bound normalisation of numpy/numba basic slicing for an array of length n *)
Definition norm_bound (n a:Z) : Z := if a <? 0 then Z.max 0 (a + n) else Z.min a n.
(* arr[a:b] (never raises; clamps) *)
Definition np_slice {A} (l:list A) (a b:Z) : list A :=
  let n := len l in slice l (norm_bound n a) (norm_bound n b).
(* arr[k] for an integer k coming from an index array (fancy indexing) / scalar numpy index:
   negative k wraps once, otherwise IndexError *)
Definition np_getitem {A} (site:Z) (l:list A) (k:Z) : res A :=
  if k <? 0 then get site l (k + len l) else get site l k.
Fixpoint map_res {A B} (f:A -> res B) (l:list A) : res (list B) :=
  match l with
  | [] => Ok []
  | x :: t => do y <- f x; do t' <- map_res f t; Ok (y :: t')
  end.
(* np.nonzero(flags)[0] *)
Fixpoint nonzero_from (i:Z) (l:list bool) : list Z :=
  match l with
  | [] => []
  | b :: t => if b then i :: nonzero_from (i + 1) t else nonzero_from (i + 1) t
  end.
Definition nonzero (l:list bool) : list Z := nonzero_from 0 l.
(* np.zeros(n, dtype): negative n raises ValueError *)
Definition np_zeros {A} (zero:A) (n:Z) : res (list A) :=
  if n <? 0 then Raise E_ValueError else Ok (repeat zero (Z.to_nat n)).

(* byte strings *)
Fixpoint bytes_eqb (a b:list Z) : bool :=
  match a, b with
  | [], [] => true
  | x :: a', y :: b' => (x =? y) && bytes_eqb a' b'
  | _, _ => false
  end.
Definition bytes_neqb (a b:list Z) : bool := negb (bytes_eqb a b).
(* lexicographic < on byte lists (fixed strings have equal lengths; a proper prefix is smaller) *)
Fixpoint bytes_ltb (a b:list Z) : bool :=
  match a, b with
  | _, [] => false
  | [], _ :: _ => true
  | x :: a', y :: b' => if x <? y then true else if y <? x then false else bytes_ltb a' b'
  end.
Definition Z_neqb (a b:Z) : bool := negb (a =? b).

Section Generic.
Context {A:Type}.
Variable neqb : A -> A -> bool.     (* x != y *)
Variable ltb : A -> A -> bool.      (* x < y ;  x > y is ltb y x *)
Variable zero : A.                  (* the element np.zeros(…, dtype) is filled with *)

(* ---- get_spans_for_field (numpy level; after fix F-C08a: `!=` for every dtype) ------- *)
(* fn(ndarray[:-1], ndarray[1:]) *)
Fixpoint adj_neq (l:list A) : list bool :=
  match l with
  | x :: ((y :: _) as t) => neqb x y :: adj_neq t
  | _ => []
  end.
(* results[1:-1] = d   for len d = max 0 (len results - 2) *)
Definition assign_inner (results d:list bool) : list bool :=
  firstn 1 results ++ d ++ skipn (1 + length d) results.
Definition get_spans_for_field (a:list A) : list Z :=
  let results := repeat false (Z.to_nat (len a + 1)) in
  let results := assign_inner results (adj_neq a) in
  let results := upd results 0 true in                      (* results[0] = True *)
  let results := upd results (len results - 1) true in      (* results[-1] = True *)
  nonzero results.

(* ---- _get_spans_for_2_fields_njit ------------------------------------------------------ *)
Section Two.
Context {B:Type}.
Variable neqbB : B -> B -> bool.

Definition spans2_body (a0:list A) (a1:list B) (i:Z) (st:Z * list Z) : res (Z * list Z) :=
  let '(count, spans) := st in
  do x <- get 11 a0 i;
  do xp <- get 12 a0 (i - 1);
  do ne <- (if neqb x xp then Ok true                       (* `or` short-circuits *)
            else do y <- get 13 a1 i; do yp <- get 14 a1 (i - 1); Ok (neqbB y yp));
  if ne then do spans' <- set 15 spans (count + 1) i; Ok (count + 1, spans')
  else Ok (count, spans).

Definition get_spans_for_2_fields_njit (a0:list A) (a1:list B) (spans:list Z) : res (list Z) :=
  do spans <- set 10 spans 0 0;
  do '(count, spans) <- for_range (range_len 1 (len a0)) 1 (spans2_body a0 a1) (0, spans);
  do '(count, spans) <-
     (if 0 <? len a0 then do spans' <- set 16 spans (count + 1) (len a0); Ok (count + 1, spans')
      else Ok (count, spans));
  Ok (np_slice spans 0 (count + 1)).

Definition get_spans_for_2_fields (a0:list A) (a1:list B) : res (list Z) :=
  get_spans_for_2_fields_njit a0 a1 (repeat 0 (Z.to_nat (len a0 + 1))).
End Two.

(* ---- _get_spans_for_multi_fields_njit -------------------------------------------------- *)
(* for f_d in fields_data: if f_d[i] != f_d[i-1]: not_equal = True; break *)
Fixpoint multi_not_equal (fields:list (list A)) (i:Z) : res bool :=
  match fields with
  | [] => Ok false
  | f :: t => do x <- get 22 f i; do xp <- get 23 f (i - 1);
              if neqb x xp then Ok true else multi_not_equal t i
  end.
Definition multi_body (fields:list (list A)) (i:Z) (st:Z * list Z) : res (Z * list Z) :=
  let '(count, spans) := st in
  do ne <- multi_not_equal fields i;
  if ne then do spans' <- set 24 spans (count + 1) i; Ok (count + 1, spans')
  else Ok (count, spans).
Definition get_spans_for_multi_fields_njit (fields:list (list A)) (spans:list Z) : res (list Z) :=
  do f0 <- get 20 fields 0;
  let length := len f0 in
  do spans <- set 21 spans 0 0;
  do '(count, spans) <- for_range (range_len 1 length) 1 (multi_body fields) (0, spans);
  do '(count, spans) <-
     (if 0 <? length then do spans' <- set 25 spans (count + 1) length; Ok (count + 1, spans')
      else Ok (count, spans));
  Ok (np_slice spans 0 (count + 1)).
Definition get_spans_for_multi_fields (fields:list (list A)) : res (list Z) :=
  do f0 <- get 26 fields 0;
  get_spans_for_multi_fields_njit fields (repeat 0 (Z.to_nat (len f0 + 1))).

(* ---- check_if_sorted_for_multi_fields -------------------------------------------------- *)
(* fields_data[:, i] *)
Definition column_at (fields:list (list A)) (i:Z) : res (list A) := map_res (fun f => get 71 f i) fields.
(* for j in range(field_count): … ; true = keep going with the next row, false = `return False` *)
Fixpoint sorted_row (pre cur:list A) : bool :=
  match pre, cur with
  | p :: pt, c :: ct => if ltb c p then false else if ltb p c then true else sorted_row pt ct
  | _, _ => true
  end.
Definition sorted_body (fields:list (list A)) (i:Z) (st:bool * list A) : res (bool * list A) :=
  let '(ok, pre) := st in
  if ok then do cur <- column_at fields i; Ok (sorted_row pre cur, cur)
  else Ok st.                                              (* already returned False *)
Definition check_if_sorted_for_multi_fields (fields:list (list A)) : res bool :=
  do f0 <- get 70 fields 0;
  let total_row := len f0 in
  if total_row =? 0 then Ok true
  else do pre <- column_at fields 0;
       do st <- for_range (range_len 1 total_row) 1 (sorted_body fields) (true, pre);
       Ok (fst st).

(* ---- apply_spans_* on plain arrays ------------------------------------------------------- *)
(* ndarray.argmin()/argmax(): first position of the minimum / maximum; ValueError when empty *)
Fixpoint argmin_from (l:list A) (i:Z) (best:A) (besti:Z) : Z :=
  match l with
  | [] => besti
  | x :: t => if ltb x best then argmin_from t (i + 1) x i else argmin_from t (i + 1) best besti
  end.
Definition argmin (l:list A) : res Z :=
  match l with [] => Raise E_ValueError | x :: t => Ok (argmin_from t 1 x 0) end.
Fixpoint argmax_from (l:list A) (i:Z) (best:A) (besti:Z) : Z :=
  match l with
  | [] => besti
  | x :: t => if ltb best x then argmax_from t (i + 1) x i else argmax_from t (i + 1) best besti
  end.
Definition argmax (l:list A) : res Z :=
  match l with [] => Raise E_ValueError | x :: t => Ok (argmax_from t 1 x 0) end.

Definition index_of_body (arg:list A -> res Z) (spans:list Z) (src:list A) (i:Z) (dest:list Z) : res (list Z) :=
  do cur <- get 41 spans i;
  do next <- get 42 spans (i + 1);
  if next - cur =? 1 then set 43 dest i cur
  else do k <- arg (np_slice src cur next); set 44 dest i (cur + k).
Definition apply_spans_index_of (arg:list A -> res Z) (spans:list Z) (src:list A) : res (list Z) :=
  do dest <- np_zeros 0 (len spans - 1);
  for_range (range_len 0 (len spans - 1)) 0 (index_of_body arg spans src) dest.
Definition apply_spans_index_of_min := apply_spans_index_of argmin.
Definition apply_spans_index_of_max := apply_spans_index_of argmax.

(* the *_filter variants take dest_array and filter_array from the caller *)
Definition index_of_filter_body (arg:list A -> res Z) (spans:list Z) (src:list A) (i:Z)
  (st:list Z * list bool) : res (list Z * list bool) :=
  let '(dest, flt) := st in
  do cur <- get 45 spans i;
  do next <- get 46 spans (i + 1);
  if next - cur =? 0 then do flt' <- set 47 flt i false; Ok (dest, flt')
  else if next - cur =? 1 then
    do flt' <- set 48 flt i true; do dest' <- set 49 dest i cur; Ok (dest', flt')
  else
    do flt' <- set 50 flt i true;
    do k <- arg (np_slice src cur next);
    do dest' <- set 51 dest i (cur + k); Ok (dest', flt').
Definition apply_spans_index_of_filter (arg:list A -> res Z) (spans:list Z) (src:list A)
  (dest:list Z) (flt:list bool) : res (list Z * list bool) :=
  for_range (range_len 0 (len spans - 1)) 0 (index_of_filter_body arg spans src) (dest, flt).
Definition apply_spans_index_of_min_filter := apply_spans_index_of_filter argmin.
Definition apply_spans_index_of_max_filter := apply_spans_index_of_filter argmax.

(* apply_spans_first: dest[:] = src[spans[:-1]] ; apply_spans_last: src[spans[1:]-1] *)
Definition apply_spans_first (spans:list Z) (src:list A) : res (list A) :=
  do _ <- np_zeros zero (len spans - 1);
  map_res (np_getitem 61 src) (removelast spans).
Definition apply_spans_last (spans:list Z) (src:list A) : res (list A) :=
  do _ <- np_zeros zero (len spans - 1);
  map_res (np_getitem 62 src) (map (fun x => x - 1) (tl spans)).

(* apply_spans_max / apply_spans_min *)
Definition extreme_inner (better:A -> A -> bool) (src:list A) (idx:Z) (cur_val:A) : res A :=
  do x <- get 65 src idx;
  if better x cur_val then (do x' <- get 66 src idx; Ok x') else Ok cur_val.
Definition extreme_body (better:A -> A -> bool) (spans:list Z) (src:list A) (i:Z) (dest:list A) : res (list A) :=
  do cur <- get 63 spans i;
  do next <- get 64 spans (i + 1);
  if next - cur =? 1 then do x <- get 67 src cur; set 68 dest i x
  else
    do v0 <- get 69 src cur;
    do v <- for_range (range_len (cur + 1) next) (cur + 1) (extreme_inner better src) v0;
    set 68 dest i v.
Definition apply_spans_extreme (better:A -> A -> bool) (spans:list Z) (src:list A) : res (list A) :=
  do dest <- np_zeros zero (len spans - 1);
  for_range (range_len 0 (len spans - 1)) 0 (extreme_body better spans src) dest.
Definition apply_spans_max := apply_spans_extreme (fun x m => ltb m x).   (* src[idx] > max_val *)
Definition apply_spans_min := apply_spans_extreme (fun x m => ltb x m).   (* src[idx] < min_val *)

End Generic.

(* ---- _get_spans_for_2_fields_by_spans ------------------------------------------------------ *)
(* while span1[j] < span0[i]: spans.append(span1[j]); j += 1 *)
Fixpoint by_spans_while (fuel:nat) (span1:list Z) (s0i j:Z) (acc:list Z) : res (Z * list Z) :=
  match fuel with
  | O => OutOfFuel
  | S f =>
    do v <- get 1 span1 j;
    if v <? s0i then do v' <- get 2 span1 j; by_spans_while f span1 s0i (j + 1) (v' :: acc)
    else Ok (j, acc)
  end.
Definition by_spans_body (fuel:nat) (span0 span1:list Z) (i:Z) (st:Z * list Z) : res (Z * list Z) :=
  let '(j, acc) := st in
  do s0i <- get 3 span0 i;
  do '(j, acc) <-
     (if j <? len span1 then
        do '(j, acc) <- by_spans_while fuel span1 s0i j acc;
        do v <- get 4 span1 j;
        if v =? s0i then Ok (j + 1, acc) else Ok (j, acc)
      else Ok (j, acc));
  Ok (j, s0i :: acc).
Definition get_spans_for_2_fields_by_spans_fuel (fuel:nat) (span0 span1:list Z) : res (list Z) :=
  do '(j, acc) <- for_range (range_len 0 (len span0)) 0 (by_spans_body fuel span0 span1) (0, []);
  Ok (if j <? len span1 then rev acc ++ np_slice span1 j (len span1) else rev acc).
(* the inner while advances j by one per iteration and stops (OOB) at len span1 *)
Definition by_spans_fuel (span1:list Z) : nat := S (length span1).
Definition get_spans_for_2_fields_by_spans (span0 span1:list Z) : res (list Z) :=
  get_spans_for_2_fields_by_spans_fuel (by_spans_fuel span1) span0 span1.

(* ---- _get_spans_for_index_string_field (after fix F-C08d) ------------------------------------ *)
Definition idxstr_body (indices values:list Z) (i:Z) (acc:list Z) : res (list Z) :=
  do last <- get 31 indices (i - 1);
  do current <- get 32 indices i;
  do next <- get 33 indices (i + 1);
  if negb (next - current =? current - last) then Ok (i :: acc)         (* compare size first *)
  else if negb (bytes_eqb (np_slice values last current) (np_slice values current next))
       then Ok (i :: acc) else Ok acc.
Definition get_spans_for_index_string_field (indices values:list Z) : res (list Z) :=
  do acc <- for_range (range_len 1 (len indices - 1)) 1 (idxstr_body indices values) [0];
  Ok (rev (if 1 <? len indices then (len indices - 1) :: acc else acc)).

(* ---- apply_spans_index_of_min_indexed / max_indexed (min: after fix F-C07a) ------------------ *)
(* for k in range(shortlen): Lt = first branch taken, Gt = elif branch taken, Eq = loop ran out *)
Fixpoint indexed_cmp (n:nat) (k:Z) (values:list Z) (curstart minstart:Z) : res comparison :=
  match n with
  | O => Ok Eq
  | S n' =>
    do a <- get 81 values (curstart + k);
    do b <- get 82 values (minstart + k);
    if a <? b then Ok Lt
    else do a' <- get 83 values (curstart + k);
         do b' <- get 84 values (minstart + k);
         if b' <? a' then Ok Gt else indexed_cmp n' (k + 1) values curstart minstart
  end.
(* state: minind, minstart, minlen  (minend is assigned but never read) *)
Definition min_indexed_inner (indices values:list Z) (j:Z) (st:Z * Z * Z) : res (Z * Z * Z) :=
  let '(minind, minstart, minlen) := st in
  do curstart <- get 85 indices j;
  do curend <- get 86 indices (j + 1);
  let curlen := curend - curstart in
  let shortlen := Z.min curlen minlen in
  do c <- indexed_cmp (Z.to_nat shortlen) 0 values curstart minstart;
  match c with
  | Lt => Ok (j, curstart, curlen)
  | Gt => Ok st
  | Eq => if curlen <? minlen then Ok (j, curstart, curlen) else Ok st
  end.
Definition max_indexed_inner (indices values:list Z) (j:Z) (st:Z * Z * Z) : res (Z * Z * Z) :=
  let '(minind, minstart, minlen) := st in
  do curstart <- get 85 indices j;
  do curend <- get 86 indices (j + 1);
  let curlen := curend - curstart in
  let shortlen := Z.min curlen minlen in
  (* the roles of < and > are exchanged: compare (min, cur) instead of (cur, min) *)
  do c <- indexed_cmp (Z.to_nat shortlen) 0 values minstart curstart;
  match c with
  | Lt => Ok (j, curstart, curlen)
  | Gt => Ok st
  | Eq => if minlen <? curlen then Ok (j, curstart, curlen) else Ok st
  end.
Definition indexed_body (inner:list Z -> list Z -> Z -> Z * Z * Z -> res (Z * Z * Z))
  (spans indices values:list Z) (i:Z) (dest:list Z) : res (list Z) :=
  do cur <- get 87 spans i;
  do next <- get 88 spans (i + 1);
  if next - cur =? 1 then set 89 dest i cur
  else
    do minstart <- get 90 indices cur;
    do minend <- get 91 indices (cur + 1);
    do '(minind, _, _) <- for_range (range_len (cur + 1) next) (cur + 1) (inner indices values)
                            (cur, minstart, minend - minstart);
    set 92 dest i minind.
Definition apply_spans_index_of_indexed inner (spans indices values:list Z) : res (list Z) :=
  do dest <- np_zeros 0 (len spans - 1);
  for_range (range_len 0 (len spans - 1)) 0 (indexed_body inner spans indices values) dest.
Definition apply_spans_index_of_min_indexed := apply_spans_index_of_indexed min_indexed_inner.
Definition apply_spans_index_of_max_indexed := apply_spans_index_of_indexed max_indexed_inner.

(* ---- span-only kernels ------------------------------------------------------------------------ *)
(* dest[:] = spans[:-1]  /  dest[:] = spans[1:] - 1 *)
Definition apply_spans_index_of_first (spans:list Z) : res (list Z) :=
  do _ <- np_zeros 0 (len spans - 1); Ok (removelast spans).
Definition apply_spans_index_of_last (spans:list Z) : res (list Z) :=
  do _ <- np_zeros 0 (len spans - 1); Ok (map (fun x => x - 1) (tl spans)).
Definition count_body (spans:list Z) (i:Z) (dest:list Z) : res (list Z) :=
  do n <- get 93 spans (i + 1);
  do c <- get 94 spans i;
  set 95 dest i (n - c).
Definition apply_spans_count (spans:list Z) : res (list Z) :=
  do dest <- np_zeros 0 (len spans - 1);
  for_range (range_len 0 (len spans - 1)) 0 (count_body spans) dest.

Definition first_filter_body (spans:list Z) (i:Z) (st:list Z * list bool) : res (list Z * list bool) :=
  let '(dest, flt) := st in
  do cur <- get 96 spans i;
  do next <- get 97 spans (i + 1);
  if next - cur =? 0 then do flt' <- set 98 flt i false; Ok (dest, flt')
  else do flt' <- set 99 flt i true; do v <- get 100 spans i; do dest' <- set 101 dest i v; Ok (dest', flt').
Definition apply_spans_index_of_first_filter (spans dest:list Z) (flt:list bool) : res (list Z * list bool) :=
  for_range (range_len 0 (len spans - 1)) 0 (first_filter_body spans) (dest, flt).
Definition last_filter_body (spans:list Z) (i:Z) (st:list Z * list bool) : res (list Z * list bool) :=
  let '(dest, flt) := st in
  do cur <- get 102 spans i;
  do next <- get 103 spans (i + 1);
  if next - cur =? 0 then do flt' <- set 104 flt i false; Ok (dest, flt')
  else do flt' <- set 105 flt i true; do v <- get 106 spans (i + 1); do dest' <- set 107 dest i (v - 1); Ok (dest', flt').
Definition apply_spans_index_of_last_filter (spans dest:list Z) (flt:list bool) : res (list Z * list bool) :=
  for_range (range_len 0 (len spans - 1)) 0 (last_filter_body spans) (dest, flt).

(* ---- Python entry points ------------------------------------------------------------------------ *)
(* a column as the entry points see it *)
Inductive column : Type :=
| ColNum (l:list Z)                    (* numeric / categorical / timestamp field or ndarray *)
| ColFixed (l:list (list Z))           (* fixed string field / 'S' ndarray: the w bytes of each element *)
| ColIndexed (indices values:list Z).  (* indexed string field *)

(* Field.get_spans() / ops.get_spans_for_field(ndarray) *)
Definition field_get_spans (c:column) : res (list Z) :=
  match c with
  | ColNum l => Ok (get_spans_for_field Z_neqb l)
  | ColFixed l => Ok (get_spans_for_field bytes_neqb l)
  | ColIndexed i v => get_spans_for_index_string_field i v
  end.
(* Session.get_spans(fields=(f0, f1)) with Field arguments *)
Definition session_get_spans_fields (c0 c1:column) : res (list Z) :=
  do s0 <- field_get_spans c0;
  do s1 <- field_get_spans c1;
  get_spans_for_2_fields_by_spans s0 s1.
(* Session.get_spans(fields=(a0, a1)) with ndarray arguments (ColIndexed cannot be an ndarray) *)
Definition session_get_spans_arrays (c0 c1:column) : res (list Z) :=
  match c0, c1 with
  | ColNum a, ColNum b => get_spans_for_2_fields Z_neqb Z_neqb a b
  | ColNum a, ColFixed b => get_spans_for_2_fields Z_neqb bytes_neqb a b
  | ColFixed a, ColNum b => get_spans_for_2_fields bytes_neqb Z_neqb a b
  | ColFixed a, ColFixed b => get_spans_for_2_fields bytes_neqb bytes_neqb a b
  | _, _ => Raise E_TypeError
  end.
(* Session._apply_spans_src: `if len(target) != spans[-1]: raise ValueError` then the kernel *)
Definition session_apply_spans_src {A R} (kernel:list Z -> list A -> res R) (spans:list Z) (target:list A) : res R :=
  do l <- np_getitem 110 spans (-1);
  if negb (len target =? l) then Raise E_ValueError else kernel spans target.
(* FieldDataOps.apply_spans_first/last/min/max: `if np.any(spans_[:-1] == spans_[1:]): raise ValueError` *)
Fixpoint adj_any_eq (l:list Z) : bool :=
  match l with
  | x :: ((y :: _) as t) => (x =? y) || adj_any_eq t
  | _ => false
  end.
Definition field_apply_spans {R} (kernel:list Z -> res R) (spans:list Z) : res R :=
  if adj_any_eq spans then Raise E_ValueError else kernel spans.
