(* Model/MergeChain.v — histories of DataFrame.merge calls on the same objects (C02, strengthening VC02).

     merge_into    merge(left, right, dest, ...) when `dest` already holds fields: every create_* / rename of the
                   call refuses a name that exists (h5py), the fields already present stay.  The names the call
                   creates are the names of its result plus, on the streamed path with how in (left, right), the
                   transient names '_b_map' (always) and '_a_map' (when the a-side map is written) under which the
                   join maps are created before they are renamed.
                   This is the code AFTER work/VC02/fix-F-C02k.diff (the map fields are remembered in local
                   variables; the code as found looks them up by name in `dest` and takes a field that was
                   already there for a join map).
     merge_chain   two merges: the destination of the first (ALL its fields: the joined columns, '_left_map' /
                   '_right_map' of the streamed path, 'valid_l' / 'valid_r' of the pandas path) is the left or the
                   right frame of the second; the key of the second merge is one of its numeric fields.

   Names are data here: a payload column may be called like any field merge creates itself.  Proof-free. *)
From Coq Require Import ZArith List Bool.
From EV Require Import Res Arr Val Join MapStream Merge.
Import ListNotations.
Open Scope Z_scope.

Definition N_a_map : list Z := [95;97;95;109;97;112].
Definition N_b_map : list Z := [95;98;95;109;97;112].

(* dest[name] *)
Fixpoint frame_get (f:frame) (n:list Z) : option column :=
  match f with
  | [] => None
  | (m, c) :: t => if name_eqb n m then Some c else frame_get t n
  end.

(* field.data[:] of a numeric field as key values *)
Definition key_of_column (c:column) : option (list Z) :=
  match c with
  | CFix _ _ d => all_some (map (fun r => match r with [v] => Some v | _ => None end) d)
  | CIdx _ _ => None
  end.

(* left_fields=None: frame.keys(); otherwise the names given, in the order given *)
Definition select_fields (f:frame) (sel:option (list (list Z))) : option frame :=
  match sel with
  | None => Some f
  | Some ns => all_some (map (fun n => match frame_get f n with Some c => Some (n, c) | None => None end) ns)
  end.

Section Chain.
Variable pd_merge : Z -> list (list Z) -> list (list Z) -> list (option Z * option Z).

(* names created on the way and renamed afterwards (dataframe.py _ordered_merge, how in (left, right)) *)
Definition transient_names (a:margs) (ordered:bool) : list (list Z) :=
  if ordered && negb (a_how a =? 2) then
    (* '_a_map' is created unless the b side is hinted unique (b = right for how=left, left for how=right) *)
    N_b_map :: (if (if a_how a =? 0 then a_ru a else a_lu a) then [] else [N_a_map])
  else [].

Definition merge_into (dest0:frame) (a:margs) : res (bool * frame) :=
  do '(o, d) <- merge pd_merge a;
  if existsb (fun n => name_in n (frame_names dest0)) (frame_names d ++ transient_names a o)
  then Raise E_ValueError
  else Ok (o, dest0 ++ d).

Record step2 : Type := mk_step2 {
  s_left : bool;                       (* the first destination is the LEFT frame of the second merge *)
  s_how : Z;
  s_lo : bool; s_lu : bool; s_ro : bool; s_ru : bool;
  s_key : list Z;                      (* name of the key field in the first destination *)
  s_sel : option (list (list Z));      (* left_fields / right_fields for the first destination *)
  s_okeys : list Z;                    (* the other frame: key column, fields to map *)
  s_ocols : frame }.

Definition chain_args (a1:margs) (d1:frame) (s:step2) : option margs :=
  match frame_get d1 (s_key s) with
  | None => None
  | Some kc =>
    match key_of_column kc, select_fields d1 (s_sel s) with
    | Some k, Some cols =>
      Some (if s_left s
            then mk_margs (a_ver a1) (s_how s) (s_lo s) (s_lu s) (s_ro s) (s_ru s) [k] [s_okeys s] cols (s_ocols s)
                          (a_lsuf a1) (a_rsuf a1) (a_cs a1) (a_mcs a1) (a_vf a1) (a_ccs a1)
            else mk_margs (a_ver a1) (s_how s) (s_lo s) (s_lu s) (s_ro s) (s_ru s) [s_okeys s] [k] (s_ocols s) cols
                          (a_lsuf a1) (a_rsuf a1) (a_cs a1) (a_mcs a1) (a_vf a1) (a_ccs a1))
    | _, _ => None
    end
  end.

Definition merge_chain (dest0:frame) (a1:margs) (s:step2) : res (bool * frame) :=
  do '(_, d1) <- merge_into dest0 a1;
  match chain_args a1 d1 s with
  | None => Raise E_KeyError
  | Some a2 => merge pd_merge a2
  end.

End Chain.
