(* Model/MapStream.v — exetera/core/operations.py, "apply a join map to a column" (C04; reused by C02/C12).

   Modelled, statement by statement:
     next_chunk / first_untrimmed_chunk / next_untrimmed_chunk          operations.py:173-244
     get_valid_value_extents                                            operations.py:246-262
     safe_map_indexed_values / safe_map_values / map_valid              operations.py:280-335
     next_map_subchunk / get_map_subchunks_based_on_index_lengths       operations.py:387-412
     ordered_map_valid_stream / ordered_map_valid_partial               operations.py:415-477
     calculate_chunk_decomposition                                      operations.py:480-487
     ordered_map_valid_indexed_stream / ordered_map_valid_indexed_partial   operations.py:490-615

   Three versions are kept side by side (`version`):
     Orig    the code as found at the pinned commit (defects F-C04a, F-C04b, F-C04c, F-C04d, F-C12b, F-C02f);
     Fixed0  the code after work/C04/fix-F-C04a.diff, fix-F-C04b.diff, fix-F-C04d.diff, fix-F-C12b.diff
             (still F-C02f: correct only for maps whose valid entries are non-decreasing);
     Fixed   the code after work/E7/fix-F-C02f.diff as well: get_valid_value_extents returns the
             min/max of the valid entries, next_map_subchunk splits on the span max-min,
             ordered_map_valid_indexed_partial asks for another value sub-chunk when the entry lies
             BELOW the current one too, and the indexed driver seeks the value sub-chunk that holds
             the entry instead of stepping to the next one.
   Orig and Fixed0 share the numba kernels except safe_map_values (one line, F-C04d); the three
   kernels changed by fix-F-C02f have a second definition (suffix 2) selected by `Fixed`.

   Element type: the non-indexed functions are polymorphic in the element type A (Z for
   numeric/bool columns, list Z = bytes for fixed strings).  `empty` is the element numpy's
   np.zeros produces (0 / False / b''), which is also the `empty_value` the driver selects;
   `zfill` is what ndarray.fill(0) stores (0 / False / b'0' — they differ for 'S' dtypes).

   Loops: driver `while` loops take the caller's fuel; simple scans inside kernels whose
   trip count is bounded by an array length carry a local fuel computed from that length.
   Proof-free file. *)
From Coq Require Import ZArith List Bool.
From EV Require Import Res Arr.
Import ListNotations.
Open Scope Z_scope.

Inductive version : Type := Orig | Fixed0 | Fixed.

(* the kernels of fix-F-C02f *)
Definition span_kernels (ver:version) : bool := match ver with Fixed => true | _ => false end.

Definition INVALID_INDEX_32 : Z := 2147483647.
Definition INVALID_INDEX_64 : Z := 4611686018427387904.

(* ---- next_chunk: operations.py:173-189 ---------------------------------------- *)
Definition next_chunk (cur length_ desired:Z) : Z * Z :=
  if cur + desired <? length_ then (cur, cur + desired) else (cur, length_).

(* numpy basic slicing / integer indexing done by plain Python code (not inside a kernel) *)
Definition np_norm (n a:Z) : Z := if a <? 0 then Z.max 0 (a + n) else Z.min a n.

Section Elem.
Context {A:Type}.

Definition np_slice (l:list A) (a b:Z) : list A :=
  slice l (np_norm (len l) a) (np_norm (len l) b).

(* arr[k] in Python code: a negative k wraps once, otherwise IndexError *)
Definition np_get (l:list A) (k:Z) : res A :=
  let k' := if k <? 0 then k + len l else k in
  if k' <? 0 then Raise E_IndexError
  else match nth_error l (Z.to_nat k') with Some v => Ok v | None => Raise E_IndexError end.

(* arr[a:b] = v (scalar broadcast) *)
Definition np_slice_fill (l:list A) (a b:Z) (v:A) : list A :=
  let a' := np_norm (len l) a in
  let b' := np_norm (len l) b in
  if a' <? b' then firstn (Z.to_nat a') l ++ repeat v (Z.to_nat (b' - a')) ++ skipn (Z.to_nat b') l
  else l.

(* Python list indexing lst[k], k >= 0 at every call site *)
Definition list_get (l:list A) (k:Z) : res A := np_get l k.

End Elem.

Fixpoint fold_res {St T:Type} (f:St -> T -> res St) (l:list T) (s:St) : res St :=
  match l with
  | [] => Ok s
  | x :: t => do s' <- f s x; fold_res f t s'
  end.

(* ---- first_untrimmed_chunk / next_untrimmed_chunk: operations.py:232-244 --------
   returns (chunk, data, max_index, chunk[0]); the fifth component is the constant 0 *)
Definition untrimmed_chunk (field:list Z) (start cs:Z) : (Z * Z) * list Z * Z * Z :=
  let ch := next_chunk start (len field) cs in
  (ch, np_slice field (fst ch) (snd ch), snd ch - fst ch, fst ch).

(* ---- get_valid_value_extents (kernel): operations.py:246-262 -------------------- *)
(* for i in range(i, i+n): if chunk[i] != invalid: first = chunk[i]; break
   returns (first, value of i after the loop) *)
Fixpoint gve_first (n:nat) (chunk:list Z) (i inv:Z) : res (Z * Z) :=
  match n with
  | O => Ok (inv, i - 1)
  | S n' =>
    do v <- get 111 chunk i;
    if negb (v =? inv) then Ok (v, i) else gve_first n' chunk (i + 1) inv
  end.

(* j = end-1; while j >= i: if chunk[j] != invalid: last = chunk[j]; break; j -= 1 *)
Fixpoint gve_last (fuel:nat) (chunk:list Z) (j i inv:Z) : res Z :=
  match fuel with
  | O => OutOfFuel
  | S f =>
    if j >=? i then
      do v <- get 112 chunk j;
      if negb (v =? inv) then Ok v else gve_last f chunk (j - 1) i inv
    else Ok inv
  end.

Definition get_valid_value_extents (chunk:list Z) (start end_ inv:Z) : res (Z * Z) :=
  if end_ <=? start then Raise E_Other      (* `i` unbound; no call site passes an empty range *)
  else
    do '(first, i) <- gve_first (Z.to_nat (end_ - start)) chunk start inv;
    do last <- gve_last (S (Z.to_nat (end_ - start))) chunk (end_ - 1) i inv;
    Ok (first, last).

(* after fix-F-C02f:
     first = invalid; last = invalid
     for i in range(start, end):
         if chunk[i] != invalid:
             if first == invalid: first = chunk[i]; last = chunk[i]
             else: first = min(first, chunk[i]); last = max(last, chunk[i]) *)
Fixpoint gve2_loop (n:nat) (chunk:list Z) (i inv first last:Z) : res (Z * Z) :=
  match n with
  | O => Ok (first, last)
  | S n' =>
    do v <- get 113 chunk i;
    if negb (v =? inv) then
      if first =? inv then gve2_loop n' chunk (i + 1) inv v v
      else gve2_loop n' chunk (i + 1) inv (Z.min first v) (Z.max last v)
    else gve2_loop n' chunk (i + 1) inv first last
  end.

Definition get_valid_value_extents2 (chunk:list Z) (start end_ inv:Z) : res (Z * Z) :=
  gve2_loop (Z.to_nat (end_ - start)) chunk start inv inv inv.

Definition get_valid_value_extents_v (ver:version) (chunk:list Z) (start end_ inv:Z) : res (Z * Z) :=
  if span_kernels ver then get_valid_value_extents2 chunk start end_ inv
  else get_valid_value_extents chunk start end_ inv.

(* ---- next_map_subchunk (kernel): operations.py:387-400 -------------------------- *)
Fixpoint nms_skip (fuel:nat) (map_:list Z) (sm inv:Z) : res Z :=
  match fuel with
  | O => OutOfFuel
  | S f =>
    if sm <? len map_ then
      do v <- get 101 map_ sm;
      if v =? inv then nms_skip f map_ (sm + 1) inv else Ok sm
    else Ok sm
  end.

Fixpoint nms_span (fuel:nat) (map_:list Z) (sm start cs:Z) : res Z :=
  match fuel with
  | O => OutOfFuel
  | S f =>
    if sm <? len map_ then
      do v <- get 103 map_ sm;
      if v - start <? cs then nms_span f map_ (sm + 1) start cs else Ok sm
    else Ok sm
  end.

Definition next_map_subchunk (map_:list Z) (sm inv cs:Z) : res Z :=
  do sm1 <- nms_skip (S (length map_)) map_ sm inv;
  do start <- (if sm1 <? len map_ then get 102 map_ sm1 else Ok (-1));
  nms_span (S (length map_)) map_ sm1 start cs.

(* after fix-F-C02f: one loop; the first valid entry opens the span [lo, hi], a later valid entry
   that would stretch it to chunksize or more ends the sub-chunk, invalid entries never do *)
Fixpoint nms2_loop (fuel:nat) (map_:list Z) (sm inv cs:Z) (found:bool) (lo hi:Z) : res Z :=
  match fuel with
  | O => OutOfFuel
  | S f =>
    if sm <? len map_ then
      do v <- get 104 map_ sm;
      if negb (v =? inv) then
        if negb found then nms2_loop f map_ (sm + 1) inv cs true v v
        else if Z.max hi v - Z.min lo v >=? cs then Ok sm
             else nms2_loop f map_ (sm + 1) inv cs true (Z.min lo v) (Z.max hi v)
      else nms2_loop f map_ (sm + 1) inv cs found lo hi
    else Ok sm
  end.

Definition next_map_subchunk2 (map_:list Z) (sm inv cs:Z) : res Z :=
  nms2_loop (S (length map_)) map_ sm inv cs false inv inv.

Definition next_map_subchunk_v (ver:version) (map_:list Z) (sm inv cs:Z) : res Z :=
  if span_kernels ver then next_map_subchunk2 map_ sm inv cs else next_map_subchunk map_ sm inv cs.

(* ---- get_map_subchunks_based_on_index_lengths: operations.py:403-410 ------------
   Orig ignores its `invalid` argument and passes the literal -1 (F-C04a). *)
Fixpoint subchunks_loop (fuel:nat) (ver:version) (map_:list Z) (inv cs sm:Z) : res (list (Z * Z)) :=
  match fuel with
  | O => OutOfFuel
  | S f =>
    if sm <? len map_ then
      do next_sm <- next_map_subchunk_v ver map_ sm (match ver with Orig => -1 | _ => inv end) cs;
      do rest <- subchunks_loop f ver map_ inv cs next_sm;
      Ok ((sm, next_sm) :: rest)
    else Ok []
  end.

Definition get_map_subchunks (fuel:nat) (ver:version) (map_:list Z) (inv cs:Z) : res (list (Z * Z)) :=
  subchunks_loop fuel ver map_ inv cs 0.

Section Fixed_width.
Context {A:Type}.
Variable zfill : A.     (* ndarray.fill(0) *)
Variable empty : A.     (* np.zeros element = empty_value chosen by the driver *)

(* ---- safe_map_values (kernel): operations.py:316-325 ---------------------------- *)
Fixpoint smv_loop (n:nat) (data:list A) (map_:list Z) (flt:list bool) (i:Z) (ev:A) (result:list A)
  : res (list A) :=
  match n with
  | O => Ok result
  | S n' =>
    do fl <- get 201 flt i;
    do r' <- (if fl:bool then do k <- get 202 map_ i; do x <- get 203 data k; set 204 result i x
              else set 205 result i ev);
    smv_loop n' data map_ flt (i + 1) ev r'
  end.

(* empty_val = result[0] (Orig: out of bounds when the map is empty, F-C04d);
               np.zeros(1, dtype)[0] (Fixed) *)
Definition safe_map_values (ver:version) (data:list A) (map_:list Z) (flt:list bool) (empty_value:option A)
  : res (list A) :=
  let result := map (fun _ => empty) map_ in
  do ev <- match empty_value with
           | None => match ver with Orig => get 200 result 0 | _ => Ok empty end
           | Some e => Ok e
           end;
  smv_loop (length map_) data map_ flt 0 ev result.

(* ---- map_valid (kernel): operations.py:328-335 (result=None) --------------------- *)
Fixpoint mv_loop (n:nat) (data:list A) (map_:list Z) (inv i:Z) (result:list A) : res (list A) :=
  match n with
  | O => Ok result
  | S n' =>
    do k <- get 211 map_ i;
    do r' <- (if negb (k =? inv) then do x <- get 212 data k; set 213 result i x else Ok result);
    mv_loop n' data map_ inv (i + 1) r'
  end.

Definition map_valid (data:list A) (map_:list Z) (inv:Z) : res (list A) :=
  mv_loop (length map_) data map_ inv 0 (map (fun _ => empty) map_).

(* ---- ordered_map_valid_partial (kernel): operations.py:458-477 ------------------- *)
Fixpoint omv_partial_loop (fuel:nat) (values:list A) (map_values:list Z) (sm sm_end d_start:Z)
         (result:list A) (inv:Z) (invalid_value:A) : res (Z * list A) :=
  match fuel with
  | O => OutOfFuel
  | S f =>
    if sm <? sm_end then
      do mv <- get 121 map_values sm;
      do r' <- (if mv =? inv then set 122 result sm invalid_value
                else do x <- get 123 values (mv - d_start); set 124 result sm x);
      omv_partial_loop f values map_values (sm + 1) sm_end d_start r' inv invalid_value
    else Ok (sm, result)
  end.

Definition ordered_map_valid_partial (values:list A) (map_values:list Z) (sm_start sm_end d_start:Z)
           (result:list A) (inv:Z) (invalid_value:A) : res (Z * list A) :=
  omv_partial_loop (S (Z.to_nat (sm_end - sm_start))) values map_values sm_start sm_end d_start
                   result inv invalid_value.

(* ---- ordered_map_valid_stream: operations.py:415-455 ---------------------------- *)
(* body of `for sm_start, sm_end in sub_map_chunks` *)
Definition stream_subchunk (ver:version) (data:list A) (map_:list Z) (inv:Z)
           (result_data:list A) (sc:Z * Z) : res (list A) :=
  let sm_start := fst sc in
  let sm_end := snd sc in
  do '(first, last) <- get_valid_value_extents_v ver map_ sm_start sm_end inv;
  if first =? inv then
    match ver with
    | Orig => Ok (map (fun _ => zfill) result_data)                    (* result_data.fill(0) *)
    | _ => Ok (np_slice_fill result_data sm_start sm_end empty)         (* result_data[sm_start:sm_end] = empty_value *)
    end
  else
    let values := np_slice data first (last + 1) in
    do '(_, r) <- ordered_map_valid_partial values map_ sm_start sm_end first result_data inv empty;
    Ok r.

Fixpoint stream_loop (fuel kfuel:nat) (ver:version) (data:list A) (mapf:list Z) (inv cs:Z)
         (ch:Z * Z) (map_:list Z) (m_max m_off:Z) (result_data out:list A) : res (list A) :=
  match fuel with
  | O => OutOfFuel
  | S f =>
    if 0 + m_off <? len mapf then
      do subs <- get_map_subchunks kfuel ver map_ inv cs;
      do rd <- fold_res (stream_subchunk ver data map_ inv) subs result_data;
      let out' := out ++ np_slice rd 0 m_max in                         (* result_field.data.write(result_data[:m_max]) *)
      let '(ch', map', m_max', m_off') := untrimmed_chunk mapf (snd ch) cs in
      stream_loop f kfuel ver data mapf inv cs ch' map' m_max' m_off' rd out'
    else Ok out
  end.

Definition ordered_map_valid_stream (fuel:nat) (ver:version) (data:list A) (mapf:list Z) (inv cs:Z)
  : res (list A) :=
  if cs <? 0 then Raise E_ValueError      (* np.zeros(negative) *)
  else
    let result_data := repeat empty (Z.to_nat cs) in
    let '(ch, map_, m_max, m_off) := untrimmed_chunk mapf 0 cs in
    stream_loop fuel fuel ver data mapf inv cs ch map_ m_max m_off result_data [].

End Fixed_width.

(* ---- safe_map_indexed_values (kernel): operations.py:280-313 --------------------- *)
Fixpoint smiv_len_loop (n:nat) (d_idx:list Z) (map_:list Z) (flt:list bool) (i evl acc:Z) : res Z :=
  match n with
  | O => Ok acc
  | S n' =>
    do fl <- get 221 flt i;
    do d <- (if fl:bool then
               do k <- get 222 map_ i; do b <- get 223 d_idx (k + 1); do a <- get 224 d_idx k; Ok (b - a)
             else Ok evl);
    smiv_len_loop n' d_idx map_ flt (i + 1) evl (acc + d)
  end.

(* dst[dst0:dst0+n] = src[src0:src0+n], element by element *)
Fixpoint copy_range (n:nat) (siteg sites:Z) (src:list Z) (s:Z) (dst:list Z) (d:Z) : res (list Z) :=
  match n with
  | O => Ok dst
  | S n' =>
    do x <- get siteg src s;
    do dst' <- set sites dst d x;
    copy_range n' siteg sites src (s + 1) dst' (d + 1)
  end.

Fixpoint smiv_loop (n:nat) (d_idx d_val:list Z) (map_:list Z) (flt:list bool) (ev:list Z)
         (i offset:Z) (i_res v_res:list Z) : res (list Z * list Z) :=
  match n with
  | O => Ok (i_res, v_res)
  | S n' =>
    do fl <- get 231 flt i;
    if fl:bool then
      do k <- get 232 map_ i;
      do sst <- get 233 d_idx k;
      do sse <- get 234 d_idx (k + 1);
      let delta := sse - sst in
      do i_res' <- set 235 i_res (i + 1) (offset + delta);
      do v_res' <- copy_range (Z.to_nat delta) 236 237 d_val sst v_res offset;
      smiv_loop n' d_idx d_val map_ flt ev (i + 1) (offset + delta) i_res' v_res'
    else
      let dse := offset + len ev in
      do i_res' <- set 238 i_res (i + 1) dse;
      do v_res' <- copy_range (length ev) 239 240 ev 0 v_res offset;
      smiv_loop n' d_idx d_val map_ flt ev (i + 1) dse i_res' v_res'
  end.

Definition safe_map_indexed_values (d_idx d_val:list Z) (map_:list Z) (flt:list bool) (ev:list Z)
  : res (list Z * list Z) :=
  do value_length <- smiv_len_loop (length map_) d_idx map_ flt 0 (len ev) 0;
  if value_length <? 0 then Raise E_ValueError      (* np.zeros(negative) *)
  else
    let i_res := repeat 0 (S (length map_)) in
    let v_res := repeat 0 (Z.to_nat value_length) in
    smiv_loop (length map_) d_idx d_val map_ flt ev 0 0 i_res v_res.

(* ---- calculate_chunk_decomposition: operations.py:480-487 ------------------------ *)
Fixpoint calc_decomp (fuel:nat) (s_start s_end:Z) (indices:list Z) (vcs:Z) : res (list (Z * Z)) :=
  match fuel with
  | O => OutOfFuel
  | S f =>
    do ie <- np_get indices s_end;
    do is_ <- np_get indices s_start;
    if (ie - is_ >? vcs) && (s_end - s_start >? 1) then
      let s_mid := s_start + (s_end - s_start) / 2 in
      do a <- calc_decomp f s_start s_mid indices vcs;
      do b <- calc_decomp f s_mid s_end indices vcs;
      Ok (a ++ b)
    else Ok [(s_start, s_end)]
  end.

Definition calculate_chunk_decomposition (s_start s_end:Z) (indices:list Z) (vcs:Z) : res (list (Z * Z)) :=
  calc_decomp (S (Z.to_nat (s_end - s_start))) s_start s_end indices vcs.

(* ---- ordered_map_valid_indexed_partial (kernel): operations.py:571-615 ----------- *)
Record ipst : Type := mk_ipst {
  p_sm : Z; p_ri : Z; p_rv : Z; p_acc : Z; p_need : bool; p_ridx : list Z; p_rval : list Z }.

(* for v in range(v_start, v_end): result_values[rv] = values[v]; rv += 1 *)
Fixpoint copy_bytes (n:nat) (values:list Z) (v:Z) (rval:list Z) (rv:Z) : res (list Z * Z) :=
  match n with
  | O => Ok (rval, rv)
  | S n' =>
    do x <- get 141 values v;
    do rval' <- set 142 rval rv x;
    copy_bytes n' values (v + 1) rval' (rv + 1)
  end.

(* chk_lo = true after fix-F-C02f: `if i < i_start or i >= i_max` instead of `if i >= i_max` *)
Fixpoint oi_partial_loop (fuel:nat) (chk_lo:bool) (sm_values:list Z) (sm_end:Z) (indices:list Z) (i_start i_max:Z)
         (values:list Z) (mv_start inv v_offset:Z) (s:ipst) : res ipst :=
  match fuel with
  | O => OutOfFuel
  | S f =>
    if p_sm s <? sm_end then
      do mv <- get 131 sm_values (p_sm s);
      if mv =? inv then
        do ridx <- set 132 (p_ridx s) (p_ri s) (p_acc s);
        oi_partial_loop f chk_lo sm_values sm_end indices i_start i_max values mv_start inv v_offset
          (mk_ipst (p_sm s + 1) (p_ri s + 1) (p_rv s) (p_acc s) (p_need s) ridx (p_rval s))
      else
        let i := mv - mv_start in
        if (chk_lo && (i <? i_start)) || (i >=? i_max) then
          Ok (mk_ipst (p_sm s) (p_ri s) (p_rv s) (p_acc s) true (p_ridx s) (p_rval s))
        else
          do a <- get 133 indices i;
          do b <- get 134 indices (i + 1);
          let v_start := a - v_offset in
          let v_end := b - v_offset in
          if p_rv s + v_end - v_start >? len (p_rval s) then Ok s
          else
            do '(rval, rv) <- copy_bytes (Z.to_nat (v_end - v_start)) values v_start (p_rval s) (p_rv s);
            let acc := p_acc s + (v_end - v_start) in
            do ridx <- set 135 (p_ridx s) (p_ri s) acc;
            oi_partial_loop f chk_lo sm_values sm_end indices i_start i_max values mv_start inv v_offset
              (mk_ipst (p_sm s + 1) (p_ri s + 1) rv acc (p_need s) ridx rval)
    else Ok s
  end.

Definition ordered_map_valid_indexed_partial (chk_lo:bool) (sm_values:list Z) (sm_start sm_end:Z) (indices:list Z)
           (i_start i_max:Z) (values:list Z) (mv_start:Z) (ridx rval:list Z) (inv sm ri rv acc:Z)
  : res ipst :=
  do v_offset <- get 130 indices i_start;
  oi_partial_loop (S (Z.to_nat (sm_end - sm))) chk_lo sm_values sm_end indices i_start i_max values mv_start inv v_offset
                  (mk_ipst sm ri rv acc false ridx rval).

(* ---- ordered_map_valid_indexed_stream: operations.py:490-568 --------------------- *)
Record ist : Type := mk_ist {
  s_ri : Z; s_rv : Z; s_acc : Z; s_ridx : list Z; s_rval : list Z; s_out_i : list Z; s_out_v : list Z }.

(* values_ = data_field.values[indices_[sc[0]]:indices_[sc[1]]] *)
Definition fetch_values (d_val indices_:list Z) (sc:Z * Z) : res (list Z) :=
  do a <- np_get indices_ (fst sc);
  do b <- np_get indices_ (snd sc);
  Ok (np_slice d_val a b).

(* after fix-F-C02f:  i = map_[sm] - i_limits[0]
                       while i >= sub_chunks[s][1]: s += 1
                       while i < sub_chunks[s][0]: s -= 1 *)
Fixpoint seek_up (fuel:nat) (subs:list (Z * Z)) (i s:Z) : res Z :=
  match fuel with
  | O => OutOfFuel
  | S f => do sc <- list_get subs s; if i >=? snd sc then seek_up f subs i (s + 1) else Ok s
  end.

Fixpoint seek_down (fuel:nat) (subs:list (Z * Z)) (i s:Z) : res Z :=
  match fuel with
  | O => OutOfFuel
  | S f => do sc <- list_get subs s; if i <? fst sc then seek_down f subs i (s - 1) else Ok s
  end.

Definition seek_subchunk (subs:list (Z * Z)) (map_:list Z) (sm first s:Z) : res Z :=
  do mv <- np_get map_ sm;
  let i := mv - first in
  do s1 <- seek_up (S (length subs)) subs i s;
  seek_down (S (S (2 * length subs))) subs i s1.

(* while sm < sm_end: … *)
Fixpoint isub_loop (fuel:nat) (ver:version) (map_:list Z) (sm_start sm_end:Z) (indices_:list Z)
         (subs:list (Z * Z)) (d_val:list Z) (first inv:Z)
         (s:Z) (sc:Z * Z) (values_:list Z) (sm:Z) (st:ist) : res ist :=
  match fuel with
  | O => OutOfFuel
  | S f =>
    if sm <? sm_end then
      do p <- ordered_map_valid_indexed_partial (span_kernels ver) map_ sm_start sm_end indices_ (fst sc) (snd sc) values_
                first (s_ridx st) (s_rval st) inv sm (s_ri st) (s_rv st) (s_acc st);
      (* Fixed (fix-F-C12b): no entry consumed and no new sub-chunk requested = the entry does
         not fit the value buffer: raise instead of spinning *)
      if (match ver with Orig => false | _ => (p_sm p =? sm) && negb (p_need p) end)
      then Raise E_ValueError
      else
        do '(s', sc', values') <-
           (if p_need p then
              do s1 <- (if span_kernels ver then seek_subchunk subs map_ (p_sm p) first s else Ok (s + 1));
              do sc1 <- list_get subs s1;
              do v1 <- fetch_values d_val indices_ sc1;
              Ok (s1, sc1, v1)
            else Ok (s, sc, values_));
        let '(ri1, out_i1) :=
            if p_ri p >? 0 then (0, s_out_i st ++ np_slice (p_ridx p) 0 (p_ri p)) else (p_ri p, s_out_i st) in
        let '(rv1, out_v1) :=
            if p_rv p >? 0 then (0, s_out_v st ++ np_slice (p_rval p) 0 (p_rv p)) else (p_rv p, s_out_v st) in
        isub_loop f ver map_ sm_start sm_end indices_ subs d_val first inv s' sc' values' (p_sm p)
                  (mk_ist ri1 rv1 (p_acc p) (p_ridx p) (p_rval p) out_i1 out_v1)
    else Ok st
  end.

(* body of `for sm_start, sm_end in sub_map_chunks` *)
Definition istream_subchunk (kfuel:nat) (ver:version) (d_idx d_val:list Z) (map_:list Z) (inv cs vf:Z)
           (st:ist) (smc:Z * Z) : res ist :=
  let sm_start := fst smc in
  let sm_end := snd smc in
  do '(first, last) <- get_valid_value_extents_v ver map_ sm_start sm_end inv;
  if first =? (match ver with Orig => -1 | _ => inv end) then
    (* result_indices.fill(ri_accum); result_field.indices.write(result_indices[:sm_end - sm_start]) *)
    let ridx := map (fun _ => s_acc st) (s_ridx st) in
    Ok (mk_ist (s_ri st) (s_rv st) (s_acc st) ridx (s_rval st)
               (s_out_i st ++ np_slice ridx 0 (sm_end - sm_start)) (s_out_v st))
  else
    let indices_ := np_slice d_idx first (last + 2) in
    do subs <- calculate_chunk_decomposition 0 (last - first + 1) indices_ (cs * vf);
    do sc <- list_get subs 0;
    do values_ <- fetch_values d_val indices_ sc;
    isub_loop kfuel ver map_ sm_start sm_end indices_ subs d_val first inv 0 sc values_ sm_start st.

Fixpoint istream_loop (fuel kfuel:nat) (ver:version) (d_idx d_val:list Z) (mapf:list Z) (inv cs vf:Z)
         (ch:Z * Z) (map_:list Z) (m_off:Z) (st:ist) : res ist :=
  match fuel with
  | O => OutOfFuel
  | S f =>
    if 0 + m_off <? len mapf then
      do subs <- get_map_subchunks kfuel ver map_ inv cs;
      do st1 <- fold_res (istream_subchunk kfuel ver d_idx d_val map_ inv cs vf) subs st;
      (* if m_off + m < len(map_field): always true here *)
      let '(ch', map', _, m_off') := untrimmed_chunk mapf (snd ch) cs in
      istream_loop f kfuel ver d_idx d_val mapf inv cs vf ch' map' m_off'
                   (mk_ist 0 0 (s_acc st1) (s_ridx st1) (s_rval st1) (s_out_i st1) (s_out_v st1))
    else Ok st
  end.

Definition ordered_map_valid_indexed_stream (fuel:nat) (ver:version) (d_idx d_val:list Z) (mapf:list Z)
           (inv cs vf:Z) : res (list Z * list Z) :=
  if (cs <? 0) || (cs * vf <? 0) then Raise E_ValueError      (* np.zeros(negative) *)
  else
    let result_indices := repeat 0 (Z.to_nat cs) in
    let result_values := repeat 0 (Z.to_nat (cs * vf)) in
    let out_i := np_slice result_indices 0 1 in                 (* result_field.indices.write(result_indices[:1]) *)
    let '(ch, map_, _, m_off) := untrimmed_chunk mapf 0 cs in
    do st <- istream_loop fuel fuel ver d_idx d_val mapf inv cs vf ch map_ m_off
                          (mk_ist 0 0 0 result_indices result_values out_i []);
    Ok (s_out_i st, s_out_v st).
