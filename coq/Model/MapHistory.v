(* Model/MapHistory.v — histories of mapping calls on shared fields (C04, strengthening round).
   The caller holds one map field, one numeric source field and one indexed-string source field and
   makes a sequence of calls; each call gets a fresh destination.  A step reads the CURRENT content
   of the shared fields from the state.  None of the modelled functions stores into its map or source
   arguments — the only stores of operations.py:ordered_map_valid_stream / _indexed_stream / the
   helpers go to buffers the function allocates itself (result_data, result_indices, result_values,
   np.zeros_like results) and to the destination field — so a step hands the shared fields on
   unchanged.  The differential run observes the real fields after the history (memory-backed fields
   hand out views of their array, HDF5-backed fields copies), which is what ties this to /repo.
   Executable, proof-free. *)
From Coq Require Import ZArith List Bool.
From EV Require Import Res Arr MapStream MapStreamSpec MapHistorySpec.
Import ListNotations.
Open Scope Z_scope.

Definition push_out (s:hstate) (o:hout) : hstate :=
  mk_hstate (h_map s) (h_num s) (h_idx s) (h_val s) (h_out s ++ [o]).

Definition hist_step (fuel:nat) (ver:version) (inv:Z) (s:hstate) (st:hstep) : res hstate :=
  match st with
  | HStream cs =>
    do r <- ordered_map_valid_stream 0 0 fuel ver (h_num s) (h_map s) inv cs;
    Ok (push_out s (ONum r))
  | HIStream cs vf =>
    do r <- ordered_map_valid_indexed_stream fuel ver (h_idx s) (h_val s) (h_map s) inv cs vf;
    Ok (push_out s (OIdx (fst r) (snd r)))
  | HMapValid =>
    do r <- map_valid 0 (h_num s) (h_map s) inv;
    Ok (push_out s (ONum r))
  | HSafe =>
    do r <- safe_map_values 0 ver (h_num s) (h_map s) (filter_of inv (h_map s)) None;
    Ok (push_out s (ONum r))
  | HISafe =>
    do r <- safe_map_indexed_values (h_idx s) (h_val s) (h_map s) (filter_of inv (h_map s)) [];
    Ok (push_out s (OIdx (fst r) (snd r)))
  | HSelf cs =>
    do r <- ordered_map_valid_stream 0 0 fuel ver (h_map s) (h_map s) inv cs;
    Ok (push_out s (ONum r))
  end.

Definition run_history (fuel:nat) (ver:version) (inv:Z) (m num idx val:list Z) (steps:list hstep)
  : res hstate :=
  fold_res (hist_step fuel ver inv) steps (mk_hstate m num idx val []).
