(* Model/SpansRle.v — span lists of a column that is stored run-length encoded (C08, large inputs).
   Proof-free, executable.

   The correspondence run of C08 plants run boundaries around large block lengths (rows K-1, K, K+1, 2K
   for K up to 2^23).  Such a column cannot be sent to the extracted model row by row; the harness
   sends its run-length encoding `[(v0, n0); (v1, n1); …]` (value, number of rows; adjacent runs may
   carry the same value, run lengths <= 0 denote no rows) and the answer is computed on the encoding.
   `expand` says which column an encoding denotes; Proofs/SpansRleProofs.v proves that the functions
   below return what the statement-level models of Model/Spans.v return on the expanded column. *)
From Coq Require Import ZArith List Bool.
From EV Require Import Res Arr Spans SpansSpec.
Import ListNotations.
Open Scope Z_scope.

Section Rle.
Context {A:Type}.

(* the column denoted by an encoding *)
Fixpoint expand (rl:list (A * Z)) : list A :=
  match rl with
  | [] => []
  | (v, n) :: t => repeat v (Z.to_nat n) ++ expand t
  end.
(* its number of rows *)
Fixpoint rle_len (rl:list (A * Z)) : Z :=
  match rl with
  | [] => 0
  | (_, n) :: t => Z.max 0 n + rle_len t
  end.

Variable neqb : A -> A -> bool.
(* interior boundaries: pos = row number of the first row of the head run, prev = value of row pos-1 *)
Fixpoint rle_bounds (prev:option A) (pos:Z) (rl:list (A * Z)) : list Z :=
  match rl with
  | [] => []
  | (v, n) :: t =>
      if n <=? 0 then rle_bounds prev pos t
      else match prev with
           | Some p => if neqb p v then pos :: rle_bounds (Some v) (pos + n) t
                       else rle_bounds (Some v) (pos + n) t
           | None => rle_bounds (Some v) (pos + n) t
           end
  end.
Definition spans_of_rle (rl:list (A * Z)) : list Z :=
  let n := rle_len rl in
  if n =? 0 then [0] else 0 :: rle_bounds None 0 rl ++ [n].
End Rle.

(* Session.get_spans(fields=(c0, c1)) on two run-length encoded columns: the boundary lists of the two
   columns merged by the (statement-level) model of _get_spans_for_2_fields_by_spans *)
Definition spans_of_rle_2 {A B} (neqbA:A -> A -> bool) (neqbB:B -> B -> bool)
  (r0:list (A * Z)) (r1:list (B * Z)) : res (list Z) :=
  get_spans_for_2_fields_by_spans (spans_of_rle neqbA r0) (spans_of_rle neqbB r1).

(* ---- per-span reductions of a run-length encoded column ------------------------------------------- *)
(* The reductions are answered span by span on the encoding of the rows of the span (`rle_slice`), from
   the values of its non-empty runs (`rle_vals`) with the reference functions of Spec/SpansSpec.v:
   no row is ever materialised.  Proofs/SpansRleReduce.v proves the results equal to the reference
   reductions (and, on valid spans, to the statement-level kernels) on the expanded column. *)
Section RleReduce.
Context {A:Type}.

(* the encoding without its first k rows / of its first k rows *)
Fixpoint rle_skip (k:Z) (rl:list (A * Z)) : list (A * Z) :=
  match rl with
  | [] => []
  | (v, n) :: t => if k <=? 0 then rl
                   else if n <=? k then rle_skip (k - Z.max 0 n) t else (v, n - k) :: t
  end.
Fixpoint rle_take (k:Z) (rl:list (A * Z)) : list (A * Z) :=
  match rl with
  | [] => []
  | (v, n) :: t => if k <=? 0 then []
                   else if n <=? k then (v, n) :: rle_take (k - Z.max 0 n) t else [(v, k)]
  end.
(* rows a .. b-1 *)
Definition rle_slice (rl:list (A * Z)) (a b:Z) : list (A * Z) := rle_take (b - a) (rle_skip a rl).
(* the values of the non-empty runs, in order *)
Fixpoint rle_vals (rl:list (A * Z)) : list A :=
  match rl with
  | [] => []
  | (v, n) :: t => if n <=? 0 then rle_vals t else v :: rle_vals t
  end.
(* row number of the first row whose value satisfies p (the row count when none) *)
Fixpoint rle_find (p:A -> bool) (rl:list (A * Z)) : Z :=
  match rl with
  | [] => 0
  | (v, n) :: t => if n <=? 0 then rle_find p t else if p v then 0 else n + rle_find p t
  end.

Variable ltb : A -> A -> bool.
Variable d : A.
Definition rle_reduce {R} (f:Z -> list (A * Z) -> R) (sp:list Z) (rl:list (A * Z)) : list R :=
  map (fun ab => f (fst ab) (rle_slice rl (fst ab) (snd ab))) (span_pairs sp).
Definition rle_first_ref := rle_reduce (fun _ r => nthd d (rle_vals r) 0).
Definition rle_last_ref := rle_reduce (fun _ r => nthd d (rle_vals r) (len (rle_vals r) - 1)).
Definition rle_min_ref := rle_reduce (fun _ r => min_spec ltb d (rle_vals r)).
Definition rle_max_ref := rle_reduce (fun _ r => max_spec ltb d (rle_vals r)).
Definition rle_index_of_min_ref := rle_reduce (fun a r => a + rle_find (is_least ltb (rle_vals r)) r).
Definition rle_index_of_max_ref := rle_reduce (fun a r => a + rle_find (is_greatest ltb (rle_vals r)) r).
End RleReduce.
