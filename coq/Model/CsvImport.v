(* Model/CsvImport.v — importer.import_with_schema (exetera/io/importer.py:66-111): SEVERAL tables in one call,
   per-table include / exclude dictionaries that may name only some of the tables (TC05).
   Executable, proof-free.  Statement by statement:

     any_parts_present                                   -> ValueError when no schema key is a key of `files`
     include_tables / exclude_tables issubset(files)     -> ValueError (-n / -x name a table that is not imported)
     for sk in files.keys():                             (dict order = the order of the list `files`)
         schema_dict = schema[sk]                        -> KeyError
         reserved column names                           -> ValueError
         include_fields = include.get(sk, None) if include is not None else None
         exclude_fields = exclude.get(sk, None) if exclude is not None else None
         parsers.read_csv_with_schema_dict(csv_file, ddf, schema_dict, ts, include_fields, exclude_fields, crs)

   read_csv_with_schema_dict is Csv.read_csv preceded by its two argument checks (parsers.py:106-118: an include /
   exclude name that is not a column of the file -> ValueError), which Csv.read_csv leaves out.
   Dictionaries are association lists in insertion order with distinct keys (byte strings). *)
From Coq Require Import ZArith List Bool.
From EV Require Import Res Arr Csv.
Import ListNotations.
Open Scope Z_scope.

(* dict.get(k, None) *)
Fixpoint dict_get {A} (k:list Z) (d:list (list Z * A)) : option A :=
  match d with
  | [] => None
  | (k', v) :: t => if list_eqb k' k then Some v else dict_get k t
  end.

(* set(a).issubset(set(b)) *)
Definition names_subset (a b:list (list Z)) : bool := forallb (fun k => mem_name k b) a.

Definition seldict : Type := list (list Z * list (list Z)).      (* table name -> field names *)

(* `d.get(sk, None) if d is not None else None` (importer.py:106-107) *)
Definition table_fields (d:option seldict) (sk:list Z) : option (list (list Z)) :=
  match d with
  | Some d => dict_get sk d
  | None => None
  end.

(* parsers.py:106-118 then the rest of read_csv_with_schema_dict *)
Definition read_csv_checked (fuel:nat) (file:list Z) (names:list (list Z)) (sizes:list Z)
           (include exclude:option (list (list Z))) (chunk_row_size:Z) : res dst :=
  if match include with Some l => negb (names_subset l names) | None => false end then Raise E_ValueError else
  if match exclude with Some l => negb (names_subset l names) | None => false end then Raise E_ValueError else
  read_csv fuel file names sizes include exclude chunk_row_size.

Record table : Type := mkTable {
  t_name : list Z;                 (* key of `files` = name of the destination dataframe *)
  t_file : list Z;                 (* bytes of the csv file *)
  t_names : list (list Z);         (* csvf_fieldnames (stripped) *)
  t_sizes : list Z;                (* _field_size per column (10 for a column that is not in the schema) *)
  t_schema : list (list Z) }.      (* keys of schema[sk] *)

Definition J_VALID_FROM : list Z := [106; 95; 118; 97; 108; 105; 100; 95; 102; 114; 111; 109].
Definition J_VALID_TO : list Z := [106; 95; 118; 97; 108; 105; 100; 95; 116; 111].
Definition reserved (k:list Z) : bool := mem_name k [J_VALID_FROM; J_VALID_TO].

(* one iteration of `for sk in files.keys()`; answer = (names of the fields created besides j_valid_*, import) *)
Definition import_table (fuel:nat) (schema_keys:list (list Z)) (include exclude:option seldict) (crs:Z) (t:table)
  : res (list (list Z) * dst) :=
  if negb (mem_name (t_name t) schema_keys) then Raise E_KeyError else
  if existsb reserved (t_schema t) then Raise E_ValueError else
  let include_fields := table_fields include (t_name t) in
  let exclude_fields := table_fields exclude (t_name t) in
  do d <- read_csv_checked fuel (t_file t) (t_names t) (t_sizes t) include_fields exclude_fields crs;
  Ok (fields_to_use (t_names t) include_fields exclude_fields, d).

Definition dict_keys (d:option seldict) : list (list Z) :=
  match d with Some d => map fst d | None => [] end.

Definition import_with_schema (fuel:nat) (schema_keys:list (list Z)) (files:list table)
           (include exclude:option seldict) (crs:Z) : res (list (list (list Z) * dst)) :=
  let input_file_tables := map t_name files in
  if negb (existsb (fun sk => mem_name sk input_file_tables) schema_keys) then Raise E_ValueError else
  if negb (names_subset (dict_keys include) input_file_tables) then Raise E_ValueError else
  if negb (names_subset (dict_keys exclude) input_file_tables) then Raise E_ValueError else
  map_res (import_table fuel schema_keys include exclude crs) files.
