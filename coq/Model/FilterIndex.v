(* Model/FilterIndex.v — C09: filter / re-index / sort of fields and dataframes.

   exetera/core/operations.py   apply_filter_to_index_values, apply_indices_to_index_values
   exetera/core/validation.py   validate_filter, validate_all_field_length_in_df, validate_selected_keys
   exetera/core/fields.py       FieldDataOps.apply_filter_to_indexed_field / apply_index_to_indexed_field /
                                apply_filter_to_field / apply_index_to_field, *_create_like
   exetera/core/dataframe.py    DataFrame.apply_filter / apply_index / sort_values
   exetera/core/session.py      Session.dataset_sort_index / apply_filter / apply_index / sort_on

   Storage: a dataset is a `list Z` (`clear` = [], `write` = append, `ds[:] = x` = replace when the
   lengths agree).  A plain field (numeric, categorical, timestamp, fixed string) has one dataset
   whose elements are encoded as integers by an order-preserving injection chosen by the harness
   (ints as is, bool 0/1, floats that are multiples of 1/2 as 2x, fixed strings as the big-endian
   number of their NUL-padded bytes); an indexed string field has the datasets `index` and
   `values`.  `fmeta` is the opaque description (field class, dtype, strlen, categorical key) that
   `create_like` copies.  Proof-free file. *)
From Coq Require Import ZArith List Bool.
From EV Require Import Res Arr StableSort.
Import ListNotations.
Open Scope Z_scope.

(* ------------------------------------------------------------------ numpy helpers *)
Fixpoint map_res {A B} (f:A -> res B) (l:list A) : res (list B) :=
  match l with
  | [] => Ok (@nil B)
  | x :: t => do y <- f x; do t' <- map_res f t; Ok (y :: t')
  end.

(* a[k] in Python/numpy code and in numba kernels with a signed index: negative k wraps once *)
Definition getw {A} (site:Z) (l:list A) (k:Z) : res A :=
  if k <? 0 then get site l (k + len l) else get site l k.

(* numpy fancy indexing a[idx] (plain Python level): IndexError when out of range *)
Definition np_take1 {A} (l:list A) (k:Z) : res A :=
  match getw 0 l k with Ok v => Ok v | _ => Raise E_IndexError end.
Definition np_take {A} (l:list A) (idx:list Z) : res (list A) := map_res (np_take1 l) idx.

Fixpoint mask {A} (l:list A) (m:list bool) : list A :=
  match l, m with
  | x :: t, b :: mt => if b then x :: mask t mt else mask t mt
  | _, _ => []
  end.

(* numpy boolean-mask indexing a[m]: the lengths must agree *)
Definition np_mask {A} (l:list A) (m:list bool) : res (list A) :=
  if len m =? len l then Ok (mask l m) else Raise E_IndexError.

(* dest[a:a+len s] = s for 0 <= a, a + len s <= len dest *)
Definition write_slice (dest:list Z) (a:Z) (s:list Z) : list Z :=
  firstn (Z.to_nat a) dest ++ s ++ skipn (Z.to_nat (a + len s)) dest.

Definition zeros (n:Z) : list Z := repeat 0 (Z.to_nat n).

(* ------------------------------------------------------------------ validation.py *)
(* dtype classes of a filter array: 0 = bool, 1 = another member of PERMITTED_NUMERIC_TYPES,
   anything else = not permitted (uint64, strings, object) -> `raise Exception(...)` *)
Definition validate_filter (dt:Z) (f:list Z) : res (list bool) :=
  if (dt =? 0) || (dt =? 1) then Ok (map (fun z => negb (z =? 0)) f)   (* bool as is / filter != 0 *)
  else Raise E_Other.

Definition bools_to_Z (m:list bool) : list Z := map (fun b:bool => if b then 1 else 0) m.

(* ------------------------------------------------------------------ operations.py:647-671 *)
(* pass 1 of both kernels, one row: count += 1; total += next_[i] - cur_[i] *)
Definition row_len (wrap:bool) (cur_ next_:list Z) (i:Z) : res Z :=
  do n <- (if wrap then getw 2 next_ i else get 2 next_ i);
  do c <- (if wrap then getw 3 cur_ i else get 3 cur_ i);
  Ok (n - c).

Fixpoint filter_pass1 (flt:list bool) (i:Z) (cur_ next_:list Z) (count total:Z) : res (Z * Z) :=
  match flt with
  | [] => Ok (count, total)
  | b :: t =>
    if b then
      do d <- row_len false cur_ next_ i;
      filter_pass1 t (i + 1) cur_ next_ (count + 1) (total + d)
    else filter_pass1 t (i + 1) cur_ next_ count total
  end.

(* pass 2, one selected row:
     n = next_[i]; c = cur_[i]; delta = n - c
     dest_values[total:total+delta] = values[c:n]; total += delta
     dest_indices[count] = total; count += 1 *)
Definition copy_row (wrap:bool) (cur_ next_ values:list Z) (i:Z) (st:Z * Z * list Z * list Z)
  : res (Z * Z * list Z * list Z) :=
  let '(count, total, di, dv) := st in
  do n <- (if wrap then getw 4 next_ i else get 4 next_ i);
  do c <- (if wrap then getw 5 cur_ i else get 5 cur_ i);
  let delta := n - c in
  let src := slice values c n in
  (* numpy/numba slice assignment: both slices are clamped to their arrays; the sizes must agree *)
  if negb (len src =? delta) || (delta <? 0) || (len dv <? total + delta) then Raise E_ValueError
  else
    let dv' := write_slice dv total src in
    let total' := total + delta in
    do di' <- set 6 di count total';
    Ok (count + 1, total', di', dv').

Fixpoint filter_pass2 (flt:list bool) (i:Z) (cur_ next_ values:list Z) (st:Z * Z * list Z * list Z)
  : res (Z * Z * list Z * list Z) :=
  match flt with
  | [] => Ok st
  | b :: t =>
    if b then
      do st' <- copy_row false cur_ next_ values i st;
      filter_pass2 t (i + 1) cur_ next_ values st'
    else filter_pass2 t (i + 1) cur_ next_ values st
  end.

Definition apply_filter_to_index_values (flt:list bool) (indices values:list Z)
  : res (list Z * list Z) :=
  let cur_ := slice indices 0 (len indices - 1) in     (* indices[:-1] *)
  let next_ := skipn 1 indices in                      (* indices[1:]  *)
  do '(count, total) <- filter_pass1 flt 0 cur_ next_ 0 0;
  if total <? 0 then Raise E_ValueError                 (* np.zeros(negative) *)
  else
    let di := zeros (count + 1) in
    let dv := zeros total in
    do di0 <- set 7 di 0 0;                             (* dest_indices[0] = 0 *)
    do '(_, _, di', dv') <- filter_pass2 flt 0 cur_ next_ values (1, 0, di0, dv);
    Ok (di', dv').

(* ------------------------------------------------------------------ operations.py:674-698 *)
Fixpoint index_pass1 (idx:list Z) (cur_ next_:list Z) (count total:Z) : res (Z * Z) :=
  match idx with
  | [] => Ok (count, total)
  | i :: t =>
    do d <- row_len true cur_ next_ i;
    index_pass1 t cur_ next_ (count + 1) (total + d)
  end.

Fixpoint index_pass2 (idx:list Z) (cur_ next_ values:list Z) (st:Z * Z * list Z * list Z)
  : res (Z * Z * list Z * list Z) :=
  match idx with
  | [] => Ok st
  | i :: t =>
    do st' <- copy_row true cur_ next_ values i st;
    index_pass2 t cur_ next_ values st'
  end.

Definition apply_indices_to_index_values (idx:list Z) (indices values:list Z)
  : res (list Z * list Z) :=
  let cur_ := slice indices 0 (len indices - 1) in
  let next_ := skipn 1 indices in
  do '(count, total) <- index_pass1 idx cur_ next_ 0 0;
  if total <? 0 then Raise E_ValueError
  else
    let di := zeros (count + 1) in
    let dv := zeros total in
    do di0 <- set 7 di 0 0;
    do '(_, _, di', dv') <- index_pass2 idx cur_ next_ values (1, 0, di0, dv);
    Ok (di', dv').

(* ------------------------------------------------------------------ fields *)
Inductive body : Type :=
| BIdx (idx vals:list Z)     (* indexed string: datasets 'index' and 'values' *)
| BDat (dat:list Z).         (* every other field class: dataset 'values' *)

Record field : Type := mkField { fmeta : list Z; fwr : bool; fbody : body }.

(* dataset operations of WriteableFieldArray / MemoryFieldArray *)
Definition ds_clear (d:list Z) : list Z := [].
Definition ds_write (d part:list Z) : list Z := d ++ part.
(* if len(target.X) == len(dest): target.X[:] = dest  else: target.X.clear(); target.X.write(dest) *)
Definition ds_put (d dest:list Z) : list Z :=
  if len d =? len dest then dest else ds_write (ds_clear d) dest.

(* <field>.create_like(): an empty field of the same class / dtype / strlen / key *)
Definition create_like (f:field) : field :=
  mkField (fmeta f) true (match fbody f with BIdx _ _ => BIdx [] [] | BDat _ => BDat [] end).

(* len(field.data): max(len(indices) - 1, 0) for indexed strings *)
Definition field_len (f:field) : Z :=
  match fbody f with
  | BIdx i _ => Z.max (len i - 1) 0
  | BDat d => len d
  end.

(* what the caller gets: the source after the call, the target after the call, the returned field *)
Record fres : Type := mkFres { r_src : field; r_tgt : option field; r_ret : field }.

Definition with_body (f:field) (b:body) : field := mkField (fmeta f) (fwr f) b.

(* common tail of the four FieldDataOps.apply_* functions: `dest` is the computed content *)
Definition deliver (source:field) (dest:body) (target:option field) (in_place:bool) : res fres :=
  if in_place then
    if negb (fwr source) then Raise E_ValueError
    else
      (* source.X.clear(); source.X.write(dest_X) for each dataset *)
      let b := match dest with
               | BIdx di dv => BIdx (ds_write (ds_clear []) di) (ds_write (ds_clear []) dv)
               | BDat dd => BDat (ds_write (ds_clear []) dd)
               end in
      let s' := with_body source b in
      Ok (mkFres s' None s')
  else
    match target with
    | Some t =>
      match dest, fbody t with
      | BIdx di dv, BIdx ti tv =>
        let t' := with_body t (BIdx (ds_put ti di) (ds_put tv dv)) in
        Ok (mkFres source (Some t') t')
      | BDat dd, BDat td =>
        let t' := with_body t (BDat (ds_put td dd)) in
        Ok (mkFres source (Some t') t')
      | _, _ => Raise E_Other       (* a target of the other storage class: AttributeError; never generated *)
      end
    | None =>
      (* IndexedStringMemField(...) / source.create_like(): new memory field, write(dest) *)
      let m := create_like source in
      let m' := with_body m (match dest with
                             | BIdx di dv => BIdx (ds_write [] di) (ds_write [] dv)
                             | BDat dd => BDat (ds_write [] dd)
                             end) in
      Ok (mkFres source None m')
    end.

Definition is_some {A} (o:option A) : bool := match o with Some _ => true | None => false end.

(* fields.py:3684-3722 and 3763-3799 (the field classes dispatch on `indexed`) *)
Definition field_apply_filter (source:field) (dt:Z) (flt:list Z) (target:option field) (in_place:bool)
  : res fres :=
  if in_place && is_some target then Raise E_ValueError
  else
    do m <- validate_filter dt flt;
    match fbody source with
    | BIdx i v =>
      do '(di, dv) <- apply_filter_to_index_values m i v;
      deliver source (BIdx di dv) target in_place
    | BDat d =>
      do dd <- np_mask d m;
      deliver source (BDat dd) target in_place
    end.

(* fields.py:3724-3761 and 3801-3837 *)
Definition field_apply_index (source:field) (idx:list Z) (target:option field) (in_place:bool)
  : res fres :=
  if in_place && is_some target then Raise E_ValueError
  else
    match fbody source with
    | BIdx i v =>
      do '(di, dv) <- apply_indices_to_index_values idx i v;
      deliver source (BIdx di dv) target in_place
    | BDat d =>
      do dd <- np_take d idx;
      deliver source (BDat dd) target in_place
    end.

(* ------------------------------------------------------------------ dataframes *)
(* a dataframe: the ordered dict name -> field (names are integers on the wire) *)
Definition frame : Type := list (Z * field).

Fixpoint has_name (n:Z) (d:frame) : bool :=
  match d with [] => false | (m, _) :: t => (m =? n) || has_name n t end.

Fixpoint lookup (n:Z) (d:frame) : option field :=
  match d with [] => None | (m, f) :: t => if m =? n then Some f else lookup n t end.

(* for name, field in self._columns.items():
       newfld = field.create_like(ddf, name)      -> ValueError when the name exists in ddf
       field.apply_X(arg, target=newfld) *)
Fixpoint cols_to_ddf (op:field -> option field -> bool -> res fres) (cols:frame) (ddf:frame)
  : res (frame * frame) :=
  match cols with
  | [] => Ok ([], ddf)
  | (name, f) :: t =>
    if has_name name ddf then Raise E_ValueError
    else
      let newfld := create_like f in
      do r <- op f (Some newfld) false;
      match r_tgt r with
      | None => Raise E_Other
      | Some nf =>
        do '(t', ddf') <- cols_to_ddf op t (ddf ++ [(name, nf)]);
        Ok ((name, r_src r) :: t', ddf')
      end
  end.

(* for field in self._columns.values(): field.apply_X(arg, in_place=True) *)
Fixpoint cols_in_place (op:field -> option field -> bool -> res fres) (cols:frame) : res frame :=
  match cols with
  | [] => Ok []
  | (name, f) :: t =>
    do r <- op f None true;
    do t' <- cols_in_place op t;
    Ok ((name, r_src r) :: t')
  end.

(* dataframe.py:456-492 *)
Definition df_apply_filter (cols:frame) (dt:Z) (flt:list Z) (ddf:option frame)
  : res (frame * option frame) :=
  do m <- validate_filter dt flt;
  let mz := bools_to_Z m in
  match ddf with
  | Some d =>
    do '(c', d') <- cols_to_ddf (fun f t ip => field_apply_filter f 0 mz t ip) cols d;
    Ok (c', Some d')
  | None =>
    do c' <- cols_in_place (fun f t ip => field_apply_filter f 0 mz t ip) cols;
    Ok (c', None)
  end.

(* validation.py:161-167 *)
Fixpoint all_same_len (cols:frame) (seen:option Z) : bool :=
  match cols with
  | [] => true
  | (_, f) :: t =>
    match seen with
    | None => all_same_len t (Some (field_len f))
    | Some l => (field_len f =? l) && all_same_len t seen
    end
  end.

(* dataframe.py:494-527 *)
Definition df_apply_index (cols:frame) (idx:list Z) (ddf:option frame)
  : res (frame * option frame) :=
  match ddf with
  | Some d =>
    do '(c', d') <- cols_to_ddf (fun f t ip => field_apply_index f idx t ip) cols d;
    Ok (c', Some d')
  | None =>
    if negb (all_same_len cols None) then Raise E_ValueError
    else
      do c' <- cols_in_place (fun f t ip => field_apply_index f idx t ip) cols;
      Ok (c', None)
  end.

(* field.data[:] as sort keys: one cell per row.  Plain fields: the element; indexed strings
   (WriteableIndexedFieldArray.__getitem__(slice)): values[index[i]:index[i+1]] *)
Fixpoint cells_of (idx vals:list Z) : list (list Z) :=
  match idx with
  | c :: ((n :: _) as t) => slice vals c n :: cells_of t vals
  | _ => []
  end.

Definition field_cells (f:field) : list (list Z) :=
  match fbody f with
  | BIdx i v => cells_of i v
  | BDat d => map (fun x => [x]) d
  end.

(* session.py:239-269.  `index` is the explicit start permutation the two call sites pass
   (np.arange(len(readers[0].data))).
       r_readers = reversed(sort_indices)
       acc = index; for r in r_readers: fdata = r.data[:][acc]; acc = acc[argsort(fdata, stable)] *)
Definition sort_pass (raw:list (list Z)) (acc:list Z) : res (list Z) :=
  do fdata <- np_take raw acc;
  let index := argsort cell_le fdata in
  np_take acc index.

Fixpoint sort_passes (r_readers:list (list (list Z))) (acc:list Z) : res (list Z) :=
  match r_readers with
  | [] => Ok acc
  | raw :: t => do acc' <- sort_pass raw acc; sort_passes t acc'
  end.

Definition dataset_sort_index (readers:list (list (list Z))) (index:list Z) : res (list Z) :=
  match rev readers with
  | [] => Raise E_IndexError                       (* readers[0] / r_readers[0] of an empty tuple *)
  | raw :: t =>
    do acc <- sort_pass raw index;                 (* the first key is handled before the loop *)
    sort_passes t acc
  end.

(* validation.py:239-255, `by` given as a list of names *)
Fixpoint all_in (by_:list Z) (cols:frame) : bool :=
  match by_ with [] => true | n :: t => has_name n cols && all_in t cols end.

Definition validate_selected_keys (by_:list Z) (cols:frame) : res (list Z) :=
  match by_ with
  | [] => Raise E_ValueError
  | _ => if all_in by_ cols then Ok by_ else Raise E_ValueError
  end.

Fixpoint readers_of (keys:list Z) (cols:frame) : res (list field) :=
  match keys with
  | [] => Ok []
  | k :: t =>
    match lookup k cols with
    | None => Raise E_ValueError      (* DataFrame.__getitem__: "There is no field named ..." *)
    | Some f => do r <- readers_of t cols; Ok (f :: r)
    end
  end.

Definition sorted_index_of (readers:list field) : res (list Z) :=
  match readers with
  | [] => Raise E_IndexError
  | r0 :: _ =>
    dataset_sort_index (map field_cells readers) (iota 0 (Z.to_nat (field_len r0)))
  end.

(* dataframe.py:530-571 (axis / ascending / kind are left at their only supported values) *)
Definition df_sort_values (cols:frame) (by_:list Z) (ddf:option frame)
  : res (frame * option frame) :=
  do keys <- validate_selected_keys by_ cols;
  do readers <- readers_of keys cols;
  do sorted_index <- sorted_index_of readers;
  df_apply_index cols sorted_index ddf.

(* ------------------------------------------------------------------ session.py *)
(* Session.apply_filter(filter, src, dest) / apply_index with a Field source (271-291, 300-318):
   newfld = src.apply_X(arg_, writer_); returns the arrays of newfld *)
Definition session_apply_filter_field (src:field) (dt:Z) (flt:list Z) (dest:option field) : res fres :=
  field_apply_filter src dt flt dest false.
Definition session_apply_index_field (src:field) (idx:list Z) (dest:option field) : res fres :=
  field_apply_index src idx dest false.

(* ... with an ndarray source: result = reader_[arg]; if writer_: writer_.data.write(result).
   (after fix F-C09a the filter goes through validate_filter like on every other path;
    after fix F-C09c the index is the array extracted from a Field argument) *)
Definition session_apply_filter_array (src:list Z) (dt:Z) (flt:list Z) (dest:option (list Z))
  : res (list Z * option (list Z)) :=
  do m <- validate_filter dt flt;
  do r <- np_mask src m;
  Ok (r, match dest with Some d => Some (ds_write d r) | None => None end).

Definition session_apply_index_array (src:list Z) (idx:list Z) (dest:option (list Z))
  : res (list Z * option (list Z)) :=
  do r <- np_take src idx;
  Ok (r, match dest with Some d => Some (ds_write d r) | None => None end).

(* Session.sort_on(src_group, dest_group, keys), 190-237.
   other = true:  for k in src: w = r.create_like(dest_group, k); self.apply_index(sorted_index, r, w)
   other = false: r = get(src[k]).writeable(); new = r.apply_index(sorted_index);
                  r.indices[:] = i; r.values[:] = v   /   r.data[:] = ...
   (h5py slice assignment needs equal lengths; a fresh indexed string field has an empty index
    dataset while the result index is [0]: h5py leaves the empty dataset alone) *)
Definition h5_assign_all (d x:list Z) : res (list Z) :=
  if len d =? len x then Ok x
  else if len d =? 0 then Ok d
  else Raise E_TypeError.

Fixpoint sort_on_same (cols:frame) (sorted_index:list Z) : res frame :=
  match cols with
  | [] => Ok []
  | (name, f) :: t =>
    do r <- field_apply_index f sorted_index None false;
    do b <- match fbody f, fbody (r_ret r) with
            | BIdx i v, BIdx di dv =>
              do i' <- h5_assign_all i di; do v' <- h5_assign_all v dv; Ok (BIdx i' v')
            | BDat d, BDat dd => do d' <- h5_assign_all d dd; Ok (BDat d')
            | _, _ => Raise E_Other
            end;
    do t' <- sort_on_same t sorted_index;
    Ok ((name, with_body f b) :: t')
  end.

Definition session_sort_on (cols:frame) (keys:list Z) (dest:option frame)
  : res (frame * option frame) :=
  do readers <- readers_of keys cols;
  do sorted_index <- sorted_index_of readers;
  match dest with
  | Some d =>
    do '(c', d') <- cols_to_ddf (fun f t ip => field_apply_index f sorted_index t ip) cols d;
    Ok (c', Some d')
  | None =>
    do c' <- sort_on_same cols sorted_index;
    Ok (c', None)
  end.

(* ------------------------------------------------------------------ histories *)
(* a world of dataframes and a sequence of dataframe-level calls (repeated application) *)
Inductive step : Type :=
| SFilter (src:Z) (dt:Z) (flt:list Z) (dst:option Z)
| SIndex (src:Z) (idx:list Z) (dst:option Z)
| SSort (src:Z) (by_:list Z) (dst:option Z)
| SSortOn (src:Z) (keys:list Z) (dst:option Z).

Definition world : Type := list frame.

Definition wget (w:world) (i:Z) : res frame := get 90 w i.
Definition wset (w:world) (i:Z) (f:frame) : res world := set 91 w i f.

Definition run_step (w:world) (s:step) : res world :=
  let go (src:Z) (dst:option Z) (f:frame -> option frame -> res (frame * option frame)) : res world :=
    do cols <- wget w src;
    match dst with
    | None =>
      do '(c', _) <- f cols None;
      wset w src c'
    | Some j =>
      if j =? src then Raise E_ValueError       (* ddf is self: every name already exists *)
      else
        do d <- wget w j;
        do '(c', d') <- f cols (Some d);
        do w1 <- wset w src c';
        match d' with Some dd => wset w1 j dd | None => Ok w1 end
    end in
  match s with
  | SFilter src dt flt dst => go src dst (fun c d => df_apply_filter c dt flt d)
  | SIndex src idx dst => go src dst (fun c d => df_apply_index c idx d)
  | SSort src by_ dst => go src dst (fun c d => df_sort_values c by_ d)
  | SSortOn src keys dst => go src dst (fun c d => session_sort_on c keys d)
  end.

Fixpoint run_steps (w:world) (ss:list step) : res world :=
  match ss with
  | [] => Ok w
  | s :: t => do w' <- run_step w s; run_steps w' t
  end.
