(* Model/MapCallForms.v — the CALL FORMS of the two streamed mappings (C04): which of the optional
   arguments `invalid`, `chunksize`, `value_factor` the caller passes.

     operations.py:17    DEFAULT_CHUNKSIZE = 1 << 20
     operations.py:435   def ordered_map_valid_stream(data_field, map_field, result_field,
                                                      invalid=-1, chunksize=DEFAULT_CHUNKSIZE)
     operations.py:510   def ordered_map_valid_indexed_stream(data_field, map_field, result_field,
                                                      invalid=-1, chunksize=DEFAULT_CHUNKSIZE, value_factor=8)

   DataFrame.merge (dataframe.py:1711-1731) calls both as f(src, map, dst, invalid); Session._streaming_map_fields
   (session.py:1344) calls f(src, map, dst, invalid=invalid): chunksize and value_factor are ALWAYS the defaults
   on the production paths. An omitted argument is None here; the defaults are constants that do not depend on
   the map, the source or the other arguments.  Executable, proof-free. *)
From Coq Require Import ZArith List Bool.
From EV Require Import Res Arr MapStream MapStreamSpec.
Import ListNotations.
Open Scope Z_scope.

Definition DEFAULT_CHUNKSIZE : Z := 1048576.     (* 1 << 20 *)
Definition DEFAULT_VALUE_FACTOR : Z := 8.
Definition DEFAULT_INVALID : Z := -1.

Definition opt_default (o:option Z) (d:Z) : Z := match o with Some x => x | None => d end.

Definition stream_call {A:Type} (zfill empty:A) (fuel:nat) (ver:version) (data:list A) (mapf:list Z)
           (inv cs:option Z) : res (list A) :=
  ordered_map_valid_stream zfill empty fuel ver data mapf
    (opt_default inv DEFAULT_INVALID) (opt_default cs DEFAULT_CHUNKSIZE).

Definition indexed_stream_call (fuel:nat) (ver:version) (d_idx d_val:list Z) (mapf:list Z)
           (inv cs vf:option Z) : res (list Z * list Z) :=
  ordered_map_valid_indexed_stream fuel ver d_idx d_val mapf
    (opt_default inv DEFAULT_INVALID) (opt_default cs DEFAULT_CHUNKSIZE) (opt_default vf DEFAULT_VALUE_FACTOR).

(* ---- evaluation of a call form through a PROXY size (what the extracted entry runs) -------------
   The working buffers of a call with the default sizes hold 2^20 rows / 2^23 bytes; the model allocates
   them as lists.  In the supported regime the answer does not depend on the sizes
   (Props/C04.v: stream_call_size_independent, indexed_stream_call_size_independent), so the entry may run
   the driver with a small proxy size instead — but only after CHECKING, on the case at hand, that both the
   sizes of the call and the proxy sizes are in that regime; otherwise it runs the call as it is. *)
Definition fitb (d_idx d_val:list Z) (inv:Z) (m:list Z) (bytes:Z) : bool :=
  forallb (fun k => (k =? inv) || (len (entry d_idx d_val k) <=? bytes)) m.

Definition stream_call_eval {A:Type} (zfill empty:A) (fuel:nat) (data:list A) (mapf:list Z)
           (inv cs:option Z) (pcs:Z) : res (list A) :=
  if (1 <=? opt_default cs DEFAULT_CHUNKSIZE) && (1 <=? pcs)
  then ordered_map_valid_stream zfill empty fuel Fixed data mapf (opt_default inv DEFAULT_INVALID) pcs
  else stream_call zfill empty fuel Fixed data mapf inv cs.

Definition indexed_stream_call_eval (fuel:nat) (d_idx d_val:list Z) (mapf:list Z)
           (inv cs vf:option Z) (pcs pvf:Z) : res (list Z * list Z) :=
  let i := opt_default inv DEFAULT_INVALID in
  let c := opt_default cs DEFAULT_CHUNKSIZE in
  let v := opt_default vf DEFAULT_VALUE_FACTOR in
  if (1 <=? c) && (0 <=? v) && (1 <=? pcs) && (0 <=? pvf)
     && fitb d_idx d_val i mapf (c * v) && fitb d_idx d_val i mapf (pcs * pvf)
  then ordered_map_valid_indexed_stream fuel Fixed d_idx d_val mapf i pcs pvf
  else indexed_stream_call fuel Fixed d_idx d_val mapf inv cs vf.
