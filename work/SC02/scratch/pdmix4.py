import numpy as np, pandas as pd, warnings, itertools, random
warnings.filterwarnings('ignore')
random.seed(3)
def harm(l,r):
    if l.dtype!=r.dtype and l.dtype.kind in 'iu' and r.dtype.kind in 'iu':
        ct=np.promote_types(l.dtype,r.dtype)
        if ct.kind in 'iu': return l.astype(ct), r.astype(ct)
    return l,r
def t(L,a,R,b,how,fix):
    la=np.array(L,dtype=a); ra=np.array(R,dtype=b)
    if fix: la,ra=harm(la,ra)
    l=pd.DataFrame({'k':la,'i':np.arange(len(L))}); r=pd.DataFrame({'k2':ra,'j':np.arange(len(R))})
    m=pd.merge(l,r,left_on=('k',),right_on=('k2',),how=how)
    li=m['i'].to_numpy(); ri=m['j'].to_numpy()
    return sorted([(None if np.isnan(x) else int(x), None if np.isnan(y) else int(y)) for x,y in zip(li,ri)],key=repr)
def ref(L,R,how):
    rows=[];mr=set()
    for i,k in enumerate(L):
        hits=[j for j,k2 in enumerate(R) if k2==k]
        for j in hits: mr.add(j); rows.append((i,j))
        if not hits and how in('left','outer'): rows.append((i,None))
    if how in('right','outer'):
        rows+= [(None,j) for j in range(len(R)) if j not in mr]
    if how=='right': rows=[(i,j) for (i,j) in rows if j is not None]
    return sorted(rows,key=repr)
ints=['int8','int16','int32','int64','uint8','uint16','uint32','uint64']
def pool(dt):
    ii=np.iinfo(dt); c=set()
    for b in (0,7,8,15,16,31,32,53,63,64):
        for d in (-2,-1,0,1,2):
            for s in (1,-1):
                v=s*(2**b if b else 0)+d
                if ii.min<=v<=ii.max: c.add(v)
    return sorted(c)
for fix in (0,1):
    bad={}
    for a in ints:
        for b in ints:
            for rep in range(40):
                L=[random.choice(pool(a)) for _ in range(random.randint(0,5))]
                R=[random.choice(pool(b)) for _ in range(random.randint(0,5))]
                if rep%2: L.sort(); R.sort()
                if rep%4==1: L=sorted(set(L))
                if rep%4==3: R=sorted(set(R))
                for how in ('left','right','inner','outer'):
                    try:
                        o=t(L,a,R,b,how,fix)
                    except Exception as e:
                        o='EXC '+repr(e)[:80]
                    if o!=ref(L,R,how): bad.setdefault((a,b),[]).append((how,L,R,o))
    print('fix',fix,{k:len(v) for k,v in bad.items()})
    for k,v in list(bad.items())[:3]: print(k,v[0])
